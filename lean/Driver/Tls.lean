import RodbusModel.Model.Tls
import RodbusModel.Model.TlsClientChain
/-
  `tls` suite: expected outcome of a handshake of the grid (C09).
  tls srv <min> <mode> <authz> <peer versions> <peer cert[+extra cert]|none> [<expected ss cert>]
  tls srvseq <min> <mode> <authz> <peer versions> <peer>,<peer>,… [<expected ss cert>]   (one server, several peers)
  tls cli <min> <mode> <peer versions> <server cert> <server name|-> [<expected ss cert>]
-/
namespace Rodbus.Driver
open Rodbus.Tls

/-- attributes of the certificates of /verif/certs (tools/mint_certs.sh) -/
def certOf (name : String) : Option Cert :=
  let c (auth : Option Nat) (names : List String) (valid : Bool) (roles : List String) (id : Nat) : Option Cert :=
    some ⟨auth, names, valid, roles, id⟩
  if name = "srv_ok" then c (some 1) ["test.com"] true [] 1
  else if name = "srv_wrongname" then c (some 1) ["other.com"] true [] 2
  else if name = "srv_cnonly" then c (some 1) ["test.com"] true [] 3
  else if name = "srv_wrongca" then c (some 2) ["test.com"] true [] 4
  else if name = "srv_expired" then c (some 1) ["test.com"] false [] 5
  else if name = "srv_future" then c (some 1) ["test.com"] false [] 6
  else if name = "srv_ip" then c (some 1) ["test.com", "127.0.0.1"] true [] 13
  else if name = "cli_operator" then c (some 1) ["client"] true ["operator"] 7
  else if name = "cli_viewer" then c (some 1) ["client"] true ["viewer"] 8
  else if name = "cli_norole" then c (some 1) ["client"] true [] 9
  else if name = "cli_wrongca" then c (some 2) ["client"] true ["operator"] 10
  else if name = "cli_expired" then c (some 1) ["client"] false ["operator"] 11
  else if name = "cli_future" then c (some 1) ["client"] false ["operator"] 12
  else if name = "ss_a" then c none ["entity"] true ["operator"] 20
  else if name = "ss_b" then c none ["entity"] true [] 21
  else if name = "ss_impostor" then c none ["entity"] true [] 22
  else if name = "ss_expired" then c none ["entity"] false [] 23
  else if name = "ss_future" then c none ["entity"] false [] 24
  else if name = "ss_norole" then c none ["entity"] true [] 25
  else none

def versOf (tok : String) : List Ver :=
  if tok = "12" then [.v12] else if tok = "13" then [.v13] else [.v12, .v13]

def verStr : Ver → String | .v12 => "1.2" | .v13 => "1.3"

def minOf (tok : String) : Ver := if tok = "13" then .v13 else .v12

def idOf (name : String) : Nat := match certOf name with | some c => c.bytesId | none => 0

def roleTok (r : String) : String := "r" ++ toHex (r.toUTF8.toList.map (·.toNat))

/-- what the harness observes of one server-side admission -/
def srvGroup : Option Admission → String
  | none => "hs=fail ver=- reply=- role=- calls=0"
  | some a =>
    let role := match a.role with | some r => roleTok r | none => "-"
    s!"hs=ok ver={verStr a.version} reply=00070000000501030203d6 role={role} calls=1"

/-- `a+b`: certificate a followed by the extra certificate b in the Certificate message -/
def chainOf (peer : String) : List Cert := (peer.splitOn "+").filterMap certOf

def runTls (tok : List String) : String × String :=
  let out : String :=
    match tok with
    | _ :: "srv" :: mn :: mode :: authz :: vers :: peer :: rest =>
      let m : Mode := if mode = "ca" then .authority 1 else .selfSigned (idOf (rest.headD "ss_b"))
      srvGroup (admitServerChain (minOf mn) m (authz = "1") (versOf vers) (chainOf peer))
    | _ :: "srvseq" :: mn :: mode :: authz :: vers :: peers :: rest =>
      let m : Mode := if mode = "ca" then .authority 1 else .selfSigned (idOf (rest.headD "ss_b"))
      let ps : List Peer := (peers.splitOn ",").map fun p => (versOf vers, chainOf p)
      " ; ".intercalate ((admitServerSeq (minOf mn) m (authz = "1") ps).map srvGroup)
    | _ :: "cli" :: mn :: mode :: vers :: srv :: name :: rest =>
      -- `cad` / `ssd`: the same through the deprecated constructor `TlsClientConfig::new`
      let ca := mode = "ca" ∨ mode = "cad"
      let m : Mode := if ca then .authority 1 else .selfSigned (idOf (rest.headD srv))
      let nm : Option String := if ca ∧ name ≠ "-" then some name else none
      -- `a+b`: the server sends certificate b after its own certificate a
      match admitClientChain (minOf mn) m nm (versOf vers) ((srv.splitOn "+").filterMap certOf) with
      | none => "hs=fail ver=- req=-"
      | some v => s!"hs=ok ver={verStr v} req=timeout"
    | _ => "bad-case"
  (out, out)

/-- `role <r<hex>/r<hex>…|-> <DER>`: role extraction from a certificate whose ModbusRole extensions
    carry the listed values (the DER is built from that list by tools/der.py) -/
def runRole (tok : List String) : String × String :=
  let roles : List String :=
    match tok with
    | _ :: "-" :: _ => []
    | _ :: rs :: _ => (rs.splitOn "/").map fun r =>
        match ofHex (String.ofList r.toList.tail) with
        | some bs => String.fromUTF8! (ByteArray.mk (bs.map (·.toUInt8)).toArray)
        | none => ""
    | _ => []
  let out := match extractRole ⟨none, [], true, roles, 0⟩ with
    | some r => "role=" ++ roleTok r
    | none => "err"
  (out, out)

end Rodbus.Driver
