import RodbusModel.Props.C08
/- axiom audit for C08: every line must report a subset of {propext, Classical.choice, Quot.sound} -/
#print axioms Rodbus.C08.denied_iff
#print axioms Rodbus.C08.deny_no_effect
#print axioms Rodbus.C08.deny_no_handler_call
#print axioms Rodbus.C08.deny_exception_is_01
#print axioms Rodbus.C08.allow_transparent
#print axioms Rodbus.C08.auth_first_and_args
#print axioms Rodbus.C08.auth_question_args
#print axioms Rodbus.C08.model_question_eq_spec
#print axioms Rodbus.C08.no_auth_no_question
#print axioms Rodbus.C08.per_request
#print axioms Rodbus.C08.per_request_session
#print axioms Rodbus.C08.denied_frame_skipped
#print axioms Rodbus.C08.auth_table_correct
#print axioms Rodbus.C08.auth_table_complete
#print axioms Rodbus.C08.read_only_policy
#print axioms Rodbus.C08.default_deny
