import RodbusModel.Props.C10
import RodbusModel.Lemmas.ClientDecode
/-
  C20 (client side)  For identical inputs every decode level — including levels changed at run time
  through a client handle — yields identical bytes on the wire and identical request results.
  Changing the level never interrupts or reorders an outstanding transaction.

  Model: Model/Client.lean.  The state carries the level in the field `decode`; a script step
  `L<dXYZ>` (`Step.setDecode d`) sends `Command::Setting(DecodeLevel(d))` with `try_send` through
  handle 0, the task stores it when it takes the command from the queue.  Everything observable
  (frames written, completions, phase ends, refusals) is in the per-step log groups
  `(run F s steps).2`.

  `eraseDecode s` forgets the `decode` field and nothing else; `erase true s` also forgets the levels
  carried by set-decode commands that are still queued (`erase false = eraseDecode`).
-/
namespace Rodbus.Client

/-- `decode_noninterference_client`.  Same framing, queue capacity, timeout limit, scheduler coins
    and script, two different initial decode levels: the log groups of every step are equal (same
    bytes on the wire, same request results at the same times, same phase ends), and the final
    states are equal except for the `decode` field. -/
theorem decode_noninterference_client {σ : Type} (F : Framing σ) (cap maxTo : Nat)
    (d₁ d₂ : Decode) (coins : List Bool) (steps : List Step) :
    (run F (State.init F cap maxTo d₁ coins) steps).2
        = (run F (State.init F cap maxTo d₂ coins) steps).2
      ∧ (run F (State.init F cap maxTo d₂ coins) steps).1
        = { (run F (State.init F cap maxTo d₁ coins) steps).1 with
            decode := (run F (State.init F cap maxTo d₂ coins) steps).1.decode } := by
  have h := run_congr (z := false) F (State.init F cap maxTo d₁ coins)
    (State.init F cap maxTo d₂ coins) steps steps rfl rfl
  refine ⟨h.1, ?_⟩
  have h2 := h.2
  rw [erase_false, erase_false] at h2
  exact (eraseDecode_eq_iff _ _).mp h2

/-- the same from any two states that differ only in the `decode` field: every transition function
    of the model preserves "equal except for `decode`" (`tick_congr`, `settle_congr`,
    `advance_congr`, `stepState_congr` in Lemmas/ClientDecode.lean are the per-function forms) -/
theorem decode_noninterference_states {σ : Type} (F : Framing σ) (s t : State σ)
    (h : eraseDecode s = eraseDecode t) (steps : List Step) :
    (run F s steps).2 = (run F t steps).2
      ∧ eraseDecode (run F s steps).1 = eraseDecode (run F t steps).1 := by
  have := run_congr (z := false) F s t steps steps (by rw [erase_false, erase_false]; exact h) rfl
  rw [erase_false, erase_false] at this
  exact this

/-- two scripts are equal up to the levels their `L` steps carry -/
def SameUpToLevels (steps steps' : List Step) : Prop :=
  steps.map (eraseStep true) = steps'.map (eraseStep true)

/-- `level_change_content_irrelevant`.  Replace the level carried by any of the `L` steps of a
    script (and the initial level) by other levels: every log group stays the same, and the final
    states agree in everything except the `decode` field and the levels carried by set-decode
    commands that are still waiting in the queue. -/
theorem level_change_content_irrelevant {σ : Type} (F : Framing σ) (cap maxTo : Nat)
    (d₁ d₂ : Decode) (coins : List Bool) (steps steps' : List Step)
    (h : SameUpToLevels steps steps') :
    (run F (State.init F cap maxTo d₁ coins) steps).2
        = (run F (State.init F cap maxTo d₂ coins) steps').2
      ∧ erase true (run F (State.init F cap maxTo d₁ coins) steps).1
        = erase true (run F (State.init F cap maxTo d₂ coins) steps').1 :=
  run_congr (z := true) F _ _ steps steps' rfl h

/-- what `erase true` keeps: every field except `decode`; the queue up to the levels carried -/
theorem erase_keeps {σ : Type} (s t : State σ) (h : erase true s = erase true t) :
    s.log = t.log ∧ s.pos = t.pos ∧ s.sent = t.sent ∧ s.dequeued = t.dequeued
      ∧ s.accepted = t.accepted ∧ s.tx = t.tx ∧ s.nto = t.nto ∧ s.now = t.now
      ∧ s.alive = t.alive ∧ s.enabled = t.enabled ∧ s.handles = t.handles ∧ s.phases = t.phases
      ∧ s.mocks = t.mocks ∧ s.pst = t.pst ∧ s.rb = t.rb ∧ s.coins = t.coins ∧ s.held = t.held
      ∧ s.waited = t.waited ∧ s.cap = t.cap ∧ s.maxTo = t.maxTo
      ∧ s.queue.map (eraseCmd true) = t.queue.map (eraseCmd true) := by
  cases s; cases t
  simp only [erase, State.mk.injEq] at h
  simp_all

/-- `level_change_is_a_queued_command`.  A set-decode command is an ordinary queued command:
    1. the step `L<d>` either appends the command to the queue (one slot) or, if the task is gone
       or the queue is full, logs `cmd.L.err`; it does nothing if handle 0 has been dropped
       (exactly the rule of `E`/`D`, which use the same `try_send`);
    2. while a request is in flight the queue is not touched, so the command is taken only after
       the outstanding transaction has completed, in queue order;
    3. taken inside a session or `fail_requests_for` while the channel is enabled, or inside
       `wait_for_enabled`, it only stores the level: nothing is logged, the phase goes on
       (like `enable` on an enabled channel);
    4. taken inside a session while the channel is disabled it ends the session with `disabled`,
       like any other setting that leaves the channel disabled (`run_cmd`). -/
theorem level_change_is_a_queued_command {σ : Type} (F : Framing σ) (s : State σ) (d : Decode) :
    (applyStep s (.setDecode d) =
        if handleAlive s 0 then
          (if !s.alive || decide (s.queue.length ≥ s.cap) then emit s (.cmdErr .L)
           else enqueue s (.setDecode d))
        else s)
      ∧ (applyStep s (.enable 0) =
        if handleAlive s 0 then
          (if !s.alive || decide (s.queue.length ≥ s.cap) then emit s (.cmdErr .E)
           else enqueue s .enable)
        else s)
      ∧ (∀ t m r tx dl, s.pos = .inflight m r tx dl → tick F s = some t → t.queue = s.queue)
      ∧ (∀ m, s.enabled = true →
          runCmd F s m (.setDecode d) = { s with decode := d }
            ∧ eraseDecode (runCmd F s m (.setDecode d)) = eraseDecode (runCmd F s m .enable))
      ∧ (s.enabled = true → failCmd s (.setDecode d) = { s with decode := d })
      ∧ waitCmd s (.setDecode d) = { s with decode := d }
      ∧ (∀ m, s.enabled = false →
          runCmd F s m (.setDecode d) = endPhase { s with decode := d } .disabled) := by
  refine ⟨rfl, rfl, ?_, ?_, failCmd_setDecode_enabled s d, rfl,
    fun m he => runCmd_setDecode_disabled F s m d he⟩
  · intro t m r tx dl hp ht
    exact inflight_keeps_queue F s t m r tx dl hp ht
  · intro m he
    refine ⟨runCmd_setDecode_enabled F s m d he, ?_⟩
    rw [runCmd_setDecode_enabled F s m d he]
    simp [runCmd, applySetting, eraseDecode, he]

/-- `level_change_transparent_client_partial`.  Insert a step `L<d>` into a script at a position
    where the task is quiescent (`Quiescent`: alive, blocked inside a session with the channel
    enabled and the reader blocked with nothing left to read, or inside `wait_for_enabled` while
    disabled, or inside `fail_requests_for` before its deadline with the channel enabled; nothing
    queued, no completed future still holding a handle clone, handle 0 alive, capacity ≥ 1).
    Then the log groups are those of the original script with one extra empty group at that
    position, and the final states are equal except for the `decode` field.

    Full statement, NOT proved: the same at ANY position, provided the queue never gets full.
    That statement is false for the model (and the code) without further side conditions:
    * the command occupies one queue slot until it is taken, so with a full queue a later
      `try_send` is refused (`level_change_occupies_slot` below) — the stated condition;
    * taken while the channel is disabled inside a session or `fail_requests_for` it ends that
      phase with `disabled` (item 4 of `level_change_is_a_queued_command`);
    * waiting in the queue it makes `recv` ready, which changes how often `tokio::select!` has two
      ready branches and hence which scheduler coin decides later races.
    `Quiescent` excludes all three. -/
theorem level_change_transparent_client_partial {σ : Type} (F : Framing σ) (s0 : State σ)
    (pre post : List Step) (d : Decode) (hq : Quiescent F (run F s0 pre).1) :
    (run F s0 (pre ++ .setDecode d :: post)).2
        = (run F s0 pre).2 ++ [] :: (run F (run F s0 pre).1 post).2
      ∧ (run F s0 (pre ++ post)).2 = (run F s0 pre).2 ++ (run F (run F s0 pre).1 post).2
      ∧ eraseDecode (run F s0 (pre ++ .setDecode d :: post)).1
        = eraseDecode (run F s0 (pre ++ post)).1 := by
  obtain ⟨a1, a2⟩ := run_append F s0 pre (.setDecode d :: post)
  obtain ⟨b1, b2⟩ := run_append F s0 pre post
  have hstep := step_setDecode_quiescent F (run F s0 pre).1 hq d
  have hs : step F (run F s0 pre).1 (.setDecode d)
      = ({ (run F s0 pre).1 with decode := d }, []) := by
    unfold step
    rw [hstep]
    simp [step_log_nil]
  have hc := decode_noninterference_states F { (run F s0 pre).1 with decode := d }
    (run F s0 pre).1 rfl post
  refine ⟨?_, b1, ?_⟩
  · rw [a1]
    simp only [run, hs]
    rw [hc.1]
  · rw [a2, b2]
    simp only [run, hs]
    exact hc.2

/-- with a full queue the `L` step is refused and nothing else changes -/
theorem level_change_refused_when_full {σ : Type} (s : State σ) (d : Decode)
    (hh : handleAlive s 0 = true) (hfull : s.cap ≤ s.queue.length) :
    applyStep s (.setDecode d) = emit s (.cmdErr .L) := by
  rw [applyStep_setDecode]
  have : decide (s.queue.length ≥ s.cap) = true := by simpa using hfull
  simp [hh, this]

/-! ### non-vacuity -/

namespace Example

/-- a run with level changes at run time (one of them while the request is in flight): the log
    groups do not depend on the levels, the last level is the one stored -/
example :
    (run mbap (State.init mbap 16 0 ⟨0, 0, 0⟩ []) [.newSession, .enable 0, .setDecode ⟨3, 2, 2⟩,
      .submit .R 0 (rc "a" .future 10), .setDecode ⟨1, 0, 1⟩, .advance 10]).2
      = [[], [], [], [.tx [0, 0, 0, 0, 0, 6, 1, 1, 0, 0, 0, 8]], [], [.done "a" .future .timeout 10]] := by
  decide

example :
    (run mbap (State.init mbap 16 0 ⟨3, 2, 2⟩ []) [.newSession, .enable 0, .setDecode ⟨0, 0, 0⟩,
      .submit .R 0 (rc "a" .future 10), .setDecode ⟨2, 2, 0⟩, .advance 10]).2
      = [[], [], [], [.tx [0, 0, 0, 0, 0, 6, 1, 1, 0, 0, 0, 8]], [], [.done "a" .future .timeout 10]] := by
  decide

example :
    (runState mbap (State.init mbap 16 0 ⟨0, 0, 0⟩ []) [.newSession, .enable 0, .setDecode ⟨3, 2, 2⟩,
      .submit .R 0 (rc "a" .future 10), .setDecode ⟨1, 0, 1⟩, .advance 10]).decode = ⟨1, 0, 1⟩ := by
  decide

/-- `Quiescent` is satisfiable: an enabled session that has nothing to do -/
example : Quiescent mbap (runState mbap s16 [.newSession, .enable 0]) :=
  ⟨rfl, rfl, by decide, rfl, rfl, Or.inl ⟨0, rfl, rfl, rfl, rfl⟩⟩

/-- `level_change_occupies_slot`: with capacity 1 and no phase running the queued `L` command makes
    a later try-send submission fail with `full` (and its callback complete with `shutdown`);
    without the `L` step the request is queued -/
example :
    (run mbap s1 [.setDecode ⟨1, 1, 1⟩, .submit .T 0 (rc "a" .trySend 10)]).2
      = [[], [.done "a" .trySend .shutdown 0, .sub "a" .full]]
    ∧ (run mbap s1 [.submit .T 0 (rc "a" .trySend 10)]).2 = [[]] := by decide

/-- an `L` step while a request is in flight: the transaction completes as without it, the level is
    stored afterwards -/
example :
    let with_l := run mbap s16 [.newSession, .enable 0, .submit .R 0 (rc "a" .future 10),
      .setDecode ⟨3, 2, 2⟩, .rx (.data [0, 0, 0, 0, 0, 4, 1, 1, 1, 0x55])]
    let without := run mbap s16 [.newSession, .enable 0, .submit .R 0 (rc "a" .future 10),
      .rx (.data [0, 0, 0, 0, 0, 4, 1, 1, 1, 0x55])]
    with_l.2 = [[], [], [.tx [0, 0, 0, 0, 0, 6, 1, 1, 0, 0, 0, 8]], [],
        [.done "a" .future (.ok (.bits [(0, true), (1, false), (2, true), (3, false), (4, true),
          (5, false), (6, true), (7, false)])) 0]]
      ∧ without.2 = [[], [], [.tx [0, 0, 0, 0, 0, 6, 1, 1, 0, 0, 0, 8]],
        [.done "a" .future (.ok (.bits [(0, true), (1, false), (2, true), (3, false), (4, true),
          (5, false), (6, true), (7, false)])) 0]]
      ∧ with_l.1.decode = ⟨3, 2, 2⟩ ∧ with_l.1.queue = [] := by decide

end Example

end Rodbus.Client
