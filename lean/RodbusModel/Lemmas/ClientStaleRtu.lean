import RodbusModel.Lemmas.Rtu
import RodbusModel.Lemmas.ClientStale
/-
  `discard_buffered_frames` on the RTU response parser: from every parser state the parser can be
  in between calls (`Rtu.StOk`) the discard loop runs to a stable `Ok(None)`.
-/
namespace Rodbus.Client
open Rodbus.Rtu

theorem rtu_none_stable (st : PState) (rb : RB) (hst : StOk st) (hl : rb.data.length < need st) :
    Rtu.parse .response st rb = (.none, st, rb) := by
  cases st with
  | start => exact parseStart_short .response rb (by simpa [need] using hl)
  | toOffset dest off => exact parseToOffset_short dest off rb (by simpa [need] using hl)
  | fullBody dest len =>
    exact parseFullBody_short dest len rb (by simp [StOk] at hst; omega) (by simpa [need] using hl)

theorem rtu_discard (fuel : Nat) (st : PState) (rb : RB) (st' : PState) (rb' : RB)
    (hst : StOk st) (hf : rb.data.length < fuel)
    (h : discardBuffered rtu fuel st rb = (none, st', rb')) :
    Rtu.parse .response st' rb' = (.none, st', rb') := by
  induction fuel generalizing st rb with
  | zero => omega
  | succ n ih =>
    unfold discardBuffered at h
    have hsim := parse_sim .response st rb [] hst
    split at h
    · rename_i f st1 rb1 hp
      have hp' : Rtu.parse .response st rb = (.frame f, st1, rb1) := hp
      rw [hp'] at hsim
      obtain ⟨_, hs1, hlen, _⟩ := hsim
      subst hs1
      exact ih .start rb1 trivial (by omega) h
    · rename_i st1 rb1 hp
      have hp' : Rtu.parse .response st rb = (.none, st1, rb1) := hp
      rw [hp'] at hsim
      obtain ⟨_, _, _, hok, hneed⟩ := hsim
      simp at h
      obtain ⟨rfl, rfl⟩ := h
      exact rtu_none_stable _ _ hok hneed
    · simp at h

/-- from a parser state that occurs between calls the RTU discard loop is complete -/
theorem rtu_discardCompleteAt (st : PState) (rb : RB) (hst : StOk st) :
    DiscardCompleteAt rtu st rb := by
  intro st' rb' h
  exact rtu_discard _ st rb st' rb' hst (by simp [discardFuel]) h

/-- the reader keeps the parser in such a state -/
theorem rtu_readerPoll_stok (fuel : Nat) (st : PState) (rb : RB) (rx : List Rx) (hst : StOk st) :
    StOk (readerPoll rtu fuel st rb rx).2.1 := by
  induction fuel generalizing st rb rx with
  | zero => exact hst
  | succ n ih =>
    unfold readerPoll
    have hsim := parse_sim .response st rb [] hst
    split
    · rename_i f st1 rb1 hp
      have hp' : Rtu.parse .response st rb = (.frame f, st1, rb1) := hp
      rw [hp'] at hsim
      exact hsim.2.1 ▸ trivial
    · trivial
    · rename_i st1 rb1 hp
      have hp' : Rtu.parse .response st rb = (.none, st1, rb1) := hp
      rw [hp'] at hsim
      have hok : StOk st1 := hsim.2.2.2.1
      split
      · exact hok
      · exact hok
      · exact hok
      · split
        · exact hok
        · split
          · exact hok
          · exact ih _ _ _ hok

/-- so does the discard loop -/
theorem rtu_discard_stok (fuel : Nat) (st : PState) (rb : RB) (hst : StOk st) :
    StOk (discardBuffered rtu fuel st rb).2.1 := by
  induction fuel generalizing st rb with
  | zero => exact hst
  | succ n ih =>
    unfold discardBuffered
    have hsim := parse_sim .response st rb [] hst
    split
    · rename_i f st1 rb1 hp
      have hp' : Rtu.parse .response st rb = (.frame f, st1, rb1) := hp
      rw [hp'] at hsim
      exact ih _ _ (hsim.2.1 ▸ trivial)
    · rename_i st1 rb1 hp
      have hp' : Rtu.parse .response st rb = (.none, st1, rb1) := hp
      rw [hp'] at hsim
      exact hsim.2.2.2.1
    · trivial

end Rodbus.Client
