import RodbusModel.Lemmas.ClientDrain
/-
  WHY a request completes: a finer analysis of one tick of the client task than `TEff`
  (Lemmas/Client.lean), on the concrete state, and its lifting to whole runs.

  * `InflightOutcome`: what one turn of the response loop (`tickInflight`) does and why — nothing,
    a timeout (deadline reached), the reader delivered a frame with a matching transaction id, or
    the reader reported an error.
  * `TickCause F s e`: the completion `e` is produced by the tick taken in state `s`, with its
    cause (`tick_done_cause`: every completion a tick logs has one).
  * `runTrace F s steps`: the states in which the outer task was polled (a tick was taken) while
    the script `steps` ran from `s`, in order.  It follows the recursion of `settle`, `advance`,
    `stepState`, `runState` literally.
  * `runState_done_cause`: every completion in the log after a script is in the log before it, or
    was produced by a script step itself (`shutdown` / `bad request`), or has a `TickCause` in a
    state of the trace.
  * `runTrace_mem`: every state of the trace is reached from the start by abstract effects and
    the final state is reached from it (so invariants of `Reach` hold there, and histories such
    as `sent` only grow from there to the end).
-/
namespace Rodbus.Client

/-- results that are derived from a reply PDU by `Request::handle_response` and are not a refusal
    of the request: `Ok`, `Exception`, `BadResponse` -/
def Res.isReply : Res → Bool
  | .ok _ | .exc _ | .badResp => true
  | _ => false

/-- a failure reported by the reader is an I/O error or an error of the frame parser -/
def ReaderErr (res : Res) : Prop := (∃ k, res = .io k) ∨ ∃ e, res = frameErrRes e

theorem frameErrRes_not_reply (e : FrameErr) : (frameErrRes e).isReply = false := by
  cases e <;> rfl

theorem readerErr_not_reply {res : Res} (h : ReaderErr res) : res.isReply = false := by
  rcases h with ⟨k, rfl⟩ | ⟨e, rfl⟩
  · rfl
  · exact frameErrRes_not_reply e

theorem dequeueRes_not_reply {res : Res}
    (h : (∃ e, res = .badReq e) ∨ res = .io .pipe ∨ (∃ e, res = frameErrRes e)) :
    res.isReply = false := by
  rcases h with ⟨e, rfl⟩ | rfl | ⟨e, rfl⟩
  · rfl
  · rfl
  · exact frameErrRes_not_reply e

section
variable {σ : Type}

theorem readerPoll_fail_kind (F : Framing σ) (fuel : Nat) (st : σ) (rb : RB) (rx : List Rx)
    (res : Res) (x : σ × RB × List Rx)
    (h : readerPoll F fuel st rb rx = (.fail res, x)) : ReaderErr res := by
  induction fuel generalizing st rb rx with
  | zero => simp [readerPoll] at h
  | succ n ih =>
    unfold readerPoll at h
    split at h
    · simp at h
    · rename_i e _ _ _
      simp at h
      obtain ⟨h1, _⟩ := h
      subst h1
      exact Or.inr ⟨e, rfl⟩
    · split at h
      · simp at h
      · simp at h; obtain ⟨h1, _⟩ := h; subst h1; exact Or.inl ⟨_, rfl⟩
      · simp at h; obtain ⟨h1, _⟩ := h; subst h1; exact Or.inl ⟨_, rfl⟩
      · split at h
        · simp at h; obtain ⟨h1, _⟩ := h; subst h1; exact Or.inl ⟨_, rfl⟩
        · split at h
          · simp at h; obtain ⟨h1, _⟩ := h; subst h1; exact Or.inl ⟨_, rfl⟩
          · exact ih _ _ _ h

theorem pollReader_fail_kind (F : Framing σ) (s s' : State σ) (m : Nat) (res : Res)
    (h : pollReader F s m = (.fail res, s')) : ReaderErr res := by
  unfold pollReader at h
  simp only [] at h
  generalize hr : readerPoll F _ s.pst s.rb _ = rr at h
  obtain ⟨r, st', rb', rx'⟩ := rr
  simp at h
  obtain ⟨h1, _⟩ := h
  subst h1
  exact readerPoll_fail_kind F _ _ _ _ _ _ hr

/-! ### the response loop -/

/-- what one turn of the response loop of `execute_request` does in state `s` (request `q` in
    flight on transport `m` with transaction id `tx` and deadline `dl`), and why -/
inductive InflightOutcome (F : Framing σ) (s : State σ) (m : Nat) (q : Req) (tx dl : Nat)
    (t : State σ) : Prop
  /-- nothing happens to the request: the reader made progress without a complete frame, or
      delivered a frame with another transaction id, which is skipped -/
  | quiet : core t = core s → InflightOutcome F s m q tx dl t
  /-- the deadline has been reached and the timer branch was taken -/
  | timeout (s1 : State σ) : core s1 = core s → dl ≤ s.now → t = finish s1 m q .timeout →
      InflightOutcome F s m q tx dl t
  /-- the reader delivered frame `f`, its transaction id matches, the request completes with the
      result of `handle_response` on its PDU -/
  | frame (f : Frame) (s' s1 : State σ) : pollReader F s m = (.frame f, s') →
      txMatches f tx = true → core s1 = core s → t = finish s1 m q (respResult q.req f.pdu) →
      InflightOutcome F s m q tx dl t
  /-- the reader reported a read or framing error, the request fails with it -/
  | readErr (res : Res) (s' s1 : State σ) : pollReader F s m = (.fail res, s') →
      core s1 = core s → t = finish s1 m q res → InflightOutcome F s m q tx dl t

theorem inflightReader_fine (F : Framing σ) (s s' s1 : State σ) (m : Nat) (q : Req) (tx dl : Nat)
    (r : ReadRes) (hpr : pollReader F s m = (r, s')) (hc : core s1 = core s) :
    InflightOutcome F s m q tx dl (inflightReader s1 m q tx r) := by
  cases r with
  | frame f =>
    simp only [inflightReader]
    split
    · rename_i hm; exact .frame f s' s1 hpr hm hc rfl
    · exact .quiet hc
  | fail res => exact .readErr res s' s1 hpr hc rfl
  | blocked => exact .quiet hc

theorem tickInflight_fine (F : Framing σ) (s t : State σ) (m : Nat) (q : Req) (tx dl : Nat)
    (h : tickInflight F s m q tx dl = some t) : InflightOutcome F s m q tx dl t := by
  unfold tickInflight at h
  simp only [] at h
  generalize hpr : pollReader F s m = pr at h
  obtain ⟨r, s'⟩ := pr
  have hc : core s' = core s := by have := core_pollReader F s m; rw [hpr] at this; exact this
  generalize hf : flip s = fl at h
  obtain ⟨c, s0⟩ := fl
  have hc0 : core s0 = core s := by have := core_flip s; rw [hf] at this; exact this
  simp only [] at h
  split at h
  · split at h
    · rename_i hexp
      cases h
      exact .timeout s' hc (by simpa using hexp) rfl
    · split at h
      · cases h; exact .quiet hc
      · cases h
  · split at h
    · rename_i hexp
      split at h
      · cases h; exact .timeout s0 hc0 (by simpa using hexp) rfl
      · cases h
        exact inflightReader_fine F s s' { s' with coins := s0.coins } m q tx dl r hpr hc
    · cases h
      exact inflightReader_fine F s s' s' m q tx dl r hpr hc

theorem tick_inflight_eq (F : Framing σ) (s : State σ) (m : Nat) (q : Req) (tx dl : Nat)
    (ha : s.alive = true) (hp : s.pos = .inflight m q tx dl) :
    tick F s = tickInflight F s m q tx dl := by
  unfold tick; simp [ha, hp]

/-- a completion in the log after `finish` is the completion of the finished request or older -/
theorem mem_finish_log (s1 : State σ) (m : Nat) (q : Req) (res : Res) (e : LogEntry)
    (he : e.isDone = true) (h : e ∈ (finish s1 m q res).log) :
    e = .done q.rid q.style res s1.now ∨ e ∈ s1.log := by
  have h' : e ∈ (core (finish s1 m q res)).log := h
  rw [core_finish] at h'
  have := mem_afterCore_log _ m res e he h'
  simpa [doneEntry, core] using this

/-! ### the cause of a completion produced by a tick -/

/-- the completion `e` is produced by the tick taken in state `s`, for the reason given by the
    constructor -/
inductive TickCause (F : Framing σ) (s : State σ) : LogEntry → Prop
  /-- `fail_next_request`: the channel is not connected -/
  | noConn (r : Req) (q : List Cmd) : s.alive = true →
      (s.pos = .waitEnabled ∨ ∃ dl b, s.pos = .failFor dl b) → s.queue = .req r :: q →
      TickCause F s (.done r.rid r.style .noConn s.now)
  /-- the request just taken from the queue cannot be encoded or written, or malformed bytes were
      buffered before it -/
  | dequeue (m : Nat) (r : Req) (q : List Cmd) (res : Res) : s.alive = true → s.pos = .idle m →
      s.queue = .req r :: q →
      ((∃ e, res = .badReq e) ∨ res = .io .pipe ∨ (∃ e, res = frameErrRes e)) →
      TickCause F s (.done r.rid r.style res s.now)
  /-- the deadline of the request in flight has been reached -/
  | timeout (m : Nat) (r : Req) (tx dl : Nat) : s.alive = true → s.pos = .inflight m r tx dl →
      dl ≤ s.now → TickCause F s (.done r.rid r.style .timeout s.now)
  /-- the reader delivered frame `f` while `r` was in flight with transaction id `tx`, and the
      transaction id of `f` matches `tx` -/
  | frame (m : Nat) (r : Req) (tx dl : Nat) (f : Frame) (s' : State σ) : s.alive = true →
      s.pos = .inflight m r tx dl → pollReader F s m = (.frame f, s') → txMatches f tx = true →
      TickCause F s (.done r.rid r.style (respResult r.req f.pdu) s.now)
  /-- the reader reported a read or framing error while `r` was in flight -/
  | readErr (m : Nat) (r : Req) (tx dl : Nat) (res : Res) (s' : State σ) : s.alive = true →
      s.pos = .inflight m r tx dl → pollReader F s m = (.fail res, s') →
      TickCause F s (.done r.rid r.style res s.now)

/-- every completion in the log after a tick was there before, or has a cause in that tick -/
theorem tick_done_cause (F : Framing σ) (s t : State σ) (h : tick F s = some t) (e : LogEntry)
    (he : e.isDone = true) (hm : e ∈ t.log) : e ∈ s.log ∨ TickCause F s e := by
  have hm' : e ∈ (core t).log := hm
  rcases teff_new_done (core s) (core t) (tick_eff F s t h) e he hm' with h1 | h1
  · exact Or.inl h1
  · cases h1 with
    | noConn r q ha hp hq => exact Or.inr (.noConn r q ha hp hq)
    | dequeue m r q res ha hp hq hres _ => exact Or.inr (.dequeue m r q res ha hp hq hres)
    | finish m r tx dl res ha hp _ _ _ _ =>
      have ha' : s.alive = true := ha
      have hp' : s.pos = .inflight m r tx dl := hp
      rw [tick_inflight_eq F s m r tx dl ha' hp'] at h
      -- the same entry, now with the cause read off the concrete tick
      have key : ∀ (s1 : State σ) (res' : Res), core s1 = core s → t = finish s1 m r res' →
          TickCause F s (.done r.rid r.style res' s.now) →
          doneEntry (core s) r res ∈ s.log ∨ TickCause F s (doneEntry (core s) r res) := by
        intro s1 res' hc ht hcause
        subst ht
        have hnow : s1.now = s.now := congrArg Core.now hc
        have hlog : s1.log = s.log := congrArg Core.log hc
        rcases mem_finish_log s1 m r res' _ he hm with h2 | h2
        · right
          rw [h2, hnow]; exact hcause
        · left; rw [← hlog]; exact h2
      cases tickInflight_fine F s t m r tx dl h with
      | quiet hc =>
        left
        have hlog : t.log = s.log := congrArg Core.log hc
        rw [← hlog]; exact hm
      | timeout s1 hc hdl ht => exact key s1 _ hc ht (.timeout m r tx dl ha' hp' hdl)
      | frame f s' s1 hpr hmt hc ht => exact key s1 _ hc ht (.frame m r tx dl f s' ha' hp' hpr hmt)
      | readErr res' s' s1 hpr hc ht => exact key s1 _ hc ht (.readErr m r tx dl res' s' ha' hp' hpr)

/-! ### the states in which the task is polled during a run -/

/-- the states in which a tick is taken while `settle F fuel s` runs, in order -/
def settleTrace (F : Framing σ) : Nat → State σ → List (State σ)
  | 0, _ => []
  | fuel + 1, s =>
    match tick F s with
    | none => if s.held = 0 then [] else settleTrace F fuel { s with held := 0 }
    | some s' => s :: settleTrace F fuel s'

/-- the same for `advance F fuel target s` -/
def advanceTrace (F : Framing σ) : Nat → Nat → State σ → List (State σ)
  | 0, _, _ => []
  | fuel + 1, target, s =>
    match nextTimer s with
    | some dl =>
      if dl ≤ target then
        settleTrace F (settleFuel (moveClock s dl)) (moveClock s dl)
          ++ advanceTrace F fuel target (settled F (moveClock s dl))
      else []
    | none => []

/-- the same for one script step -/
def stepTrace (F : Framing σ) (s : State σ) (st : Step) : List (State σ) :=
  match st with
  | .advance ms => advanceTrace F (advanceFuel s) (s.now + ms) s
  | st => settleTrace F (settleFuel (applyStep s st)) (applyStep s st)

/-- the states in which the outer task is polled while the script `steps` runs from `s` -/
def runTrace (F : Framing σ) (s : State σ) : List Step → List (State σ)
  | [] => []
  | st :: rest => stepTrace F s st ++ runTrace F (stepState F s st) rest

/-- a state of the trace of `runState F s steps` belongs to one script step: the step `st` after
    the prefix `pre` -/
theorem mem_runTrace (F : Framing σ) (s s0 : State σ) (steps : List Step)
    (h : s0 ∈ runTrace F s steps) :
    ∃ pre st post, steps = pre ++ st :: post ∧ s0 ∈ stepTrace F (runState F s pre) st := by
  induction steps generalizing s with
  | nil => simp [runTrace] at h
  | cons st rest ih =>
    simp only [runTrace, List.mem_append] at h
    rcases h with h | h
    · exact ⟨[], st, rest, rfl, h⟩
    · obtain ⟨pre, st', post, h1, h2⟩ := ih _ h
      exact ⟨st :: pre, st', post, by rw [h1]; rfl, h2⟩

/-! ### lifting causes through `settle`, `advance`, `stepState`, `runState` -/

theorem settle_done_cause (F : Framing σ) (fuel : Nat) (s : State σ) (e : LogEntry)
    (he : e.isDone = true) (hm : e ∈ (settle F fuel s).log) :
    e ∈ s.log ∨ ∃ s0 ∈ settleTrace F fuel s, TickCause F s0 e := by
  induction fuel generalizing s with
  | zero => exact Or.inl hm
  | succ n ih =>
    cases ht : tick F s with
    | none =>
      rw [settle_succ_none F n s ht] at hm
      simp only [settleTrace, ht]
      split
      · rename_i hh; rw [if_pos hh] at hm; exact Or.inl hm
      · rename_i hh; rw [if_neg hh] at hm
        exact ih _ hm
    | some t =>
      rw [settle_succ_some F n s t ht] at hm
      simp only [settleTrace, ht]
      rcases ih t hm with h1 | ⟨s0, h1, h2⟩
      · rcases tick_done_cause F s t ht e he h1 with h3 | h3
        · exact Or.inl h3
        · exact Or.inr ⟨s, by simp, h3⟩
      · exact Or.inr ⟨s0, by simp [h1], h2⟩

theorem advance_done_cause (F : Framing σ) (fuel target : Nat) (s : State σ) (e : LogEntry)
    (he : e.isDone = true) (hm : e ∈ (advance F fuel target s).log) :
    e ∈ s.log ∨ ∃ s0 ∈ advanceTrace F fuel target s, TickCause F s0 e := by
  induction fuel generalizing s with
  | zero => exact Or.inl hm
  | succ n ih =>
    unfold advance at hm
    unfold advanceTrace
    split at hm
    · rename_i dl hnt
      simp only [hnt]
      split at hm
      · rename_i hle
        rw [if_pos hle]
        rcases ih _ hm with h1 | ⟨s0, h1, h2⟩
        · rcases settle_done_cause F _ (moveClock s dl) e he h1 with h3 | ⟨s0, h3, h4⟩
          · exact Or.inl h3
          · exact Or.inr ⟨s0, List.mem_append_left _ h3, h4⟩
        · exact Or.inr ⟨s0, List.mem_append_right _ h1, h2⟩
      · exact Or.inl hm
    · exact Or.inl hm

/-- what a script step by itself completes: `shutdown` or a refusal of the request -/
def UserDone (e : LogEntry) : Prop :=
  ∃ rid style res time, e = .done rid style res time ∧ (res = .shutdown ∨ ∃ x, res = .badReq x)

theorem applyStep_done_cause (s : State σ) (st : Step) (e : LogEntry) (he : e.isDone = true)
    (hm : e ∈ (applyStep s st).log) : e ∈ s.log ∨ UserDone e := by
  have hm' : e ∈ (core (applyStep s st)).log := hm
  rcases ueff_new_done (core s) _ (applyStep_eff s st) e he hm' with h | ⟨r, res, h1, h2⟩
  · exact Or.inl h
  · exact Or.inr ⟨r.rid, r.style, res, s.now, h1, h2⟩

theorem stepState_done_cause (F : Framing σ) (s : State σ) (st : Step) (e : LogEntry)
    (he : e.isDone = true) (hm : e ∈ (stepState F s st).log) :
    e ∈ s.log ∨ UserDone e ∨ ∃ s0 ∈ stepTrace F s st, TickCause F s0 e := by
  cases st with
  | advance ms =>
    rcases advance_done_cause F _ _ s e he hm with h | h
    · exact Or.inl h
    · exact Or.inr (Or.inr h)
  | _ =>
    all_goals
      rcases settle_done_cause F _ _ e he hm with h | h
      · rcases applyStep_done_cause s _ e he h with h1 | h1
        · exact Or.inl h1
        · exact Or.inr (Or.inl h1)
      · exact Or.inr (Or.inr h)

/-- every completion in the log after a script is in the log before it, or was produced by a
    script step itself, or has a cause in a state in which the task was polled during the run -/
theorem runState_done_cause (F : Framing σ) (s : State σ) (steps : List Step) (e : LogEntry)
    (he : e.isDone = true) (hm : e ∈ (runState F s steps).log) :
    e ∈ s.log ∨ UserDone e ∨ ∃ s0 ∈ runTrace F s steps, TickCause F s0 e := by
  induction steps generalizing s with
  | nil => exact Or.inl hm
  | cons st rest ih =>
    have hm' : e ∈ (runState F (stepState F s st) rest).log := hm
    rcases ih _ hm' with h | h | ⟨s0, h1, h2⟩
    · rcases stepState_done_cause F s st e he h with h3 | h3 | ⟨s0, h3, h4⟩
      · exact Or.inl h3
      · exact Or.inr (Or.inl h3)
      · exact Or.inr (Or.inr ⟨s0, by simp [runTrace, h3], h4⟩)
    · exact Or.inr (Or.inl h)
    · exact Or.inr (Or.inr ⟨s0, by simp [runTrace, h1], h2⟩)

/-! ### the trace states are on the abstract path of the run -/

theorem settleTrace_mem (F : Framing σ) (fuel : Nat) (s s0 : State σ)
    (h : s0 ∈ settleTrace F fuel s) :
    TSteps (core s) (core s0)
      ∧ ∃ t, tick F s0 = some t ∧ TSteps (core t) (core (settle F fuel s)) := by
  induction fuel generalizing s with
  | zero => simp [settleTrace] at h
  | succ n ih =>
    cases ht : tick F s with
    | none =>
      simp only [settleTrace, ht] at h
      rw [settle_succ_none F n s ht]
      split at h
      · simp at h
      · rename_i hh
        rw [if_neg hh]
        exact ih { s with held := 0 } h
    | some t =>
      simp only [settleTrace, ht, List.mem_cons] at h
      rw [settle_succ_some F n s t ht]
      rcases h with rfl | h
      · exact ⟨.refl _, t, ht, settle_steps F n t⟩
      · obtain ⟨h1, h2⟩ := ih t h
        exact ⟨(Star.single (tick_eff F s t ht)).trans h1, h2⟩

theorem advanceTrace_mem (F : Framing σ) (fuel target : Nat) (s s0 : State σ)
    (h : s0 ∈ advanceTrace F fuel target s) :
    TSteps (core s) (core s0)
      ∧ ∃ t, tick F s0 = some t ∧ TSteps (core t) (core (advance F fuel target s)) := by
  induction fuel generalizing s with
  | zero => simp [advanceTrace] at h
  | succ n ih =>
    unfold advanceTrace at h
    unfold advance
    split at h
    · rename_i dl hnt
      simp only [hnt]
      split at h
      · rename_i hle
        rw [if_pos hle]
        rcases List.mem_append.mp h with h | h
        · obtain ⟨h1, t, h2, h3⟩ := settleTrace_mem F _ _ s0 h
          exact ⟨(Star.single (moveClock_eff s dl)).trans h1, t, h2,
            h3.trans (advance_steps F n target _)⟩
        · obtain ⟨h1, h2⟩ := ih _ h
          exact ⟨((Star.single (moveClock_eff s dl)).trans (settled_steps F _)).trans h1, h2⟩
      · simp at h
    · simp at h

theorem stepTrace_mem (F : Framing σ) (s s0 : State σ) (st : Step) (h : s0 ∈ stepTrace F s st) :
    Steps (core s) (core s0)
      ∧ ∃ t, tick F s0 = some t ∧ Steps (core t) (core (stepState F s st)) := by
  cases st with
  | advance ms =>
    obtain ⟨h1, t, h2, h3⟩ := advanceTrace_mem F _ _ s s0 h
    exact ⟨h1.steps, t, h2, h3.steps⟩
  | _ =>
    all_goals
      obtain ⟨h1, t, h2, h3⟩ := settleTrace_mem F _ _ s0 h
      exact ⟨(Star.single (Or.inr (applyStep_eff s _))).trans h1.steps, t, h2, h3.steps⟩

/-- a state of the trace lies on the abstract path of the run: it is reached from the start, a
    tick is taken in it, and the final state is reached from the result of that tick -/
theorem runTrace_mem (F : Framing σ) (s s0 : State σ) (steps : List Step)
    (h : s0 ∈ runTrace F s steps) :
    Steps (core s) (core s0)
      ∧ ∃ t, tick F s0 = some t ∧ Steps (core t) (core (runState F s steps)) := by
  induction steps generalizing s with
  | nil => simp [runTrace] at h
  | cons st rest ih =>
    simp only [runTrace, List.mem_append] at h
    rcases h with h | h
    · obtain ⟨h1, t, h2, h3⟩ := stepTrace_mem F s s0 st h
      exact ⟨h1, t, h2, h3.trans (runState_steps F _ rest)⟩
    · obtain ⟨h1, h2⟩ := ih _ h
      exact ⟨(stepState_steps F s st).trans h1, h2⟩

end

/-! ### histories only grow; the request in flight has been written -/

theorem teff_sent_mono {c c' : Core} (t : TEff c c') : ∀ x ∈ c.sent, x ∈ c'.sent := by
  intro x hx
  cases t with
  | send m r q bytes logged ha hp hq => exact List.mem_cons_of_mem _ hx
  | dequeueFail m r q res ha hp hq hres =>
    rw [(afterCore_parts _ m res).2.2.2.2.2.2.1]; exact hx
  | finish m r tx dl res ha hp ht h3 h4 =>
    rw [(afterCore_parts _ m res).2.2.2.2.2.2.1]; exact hx
  | _ => exact hx

theorem ueff_sent {c c' : Core} (t : UEff c c') : c'.sent = c.sent := by
  cases t <;> rfl

theorem steps_sent_mono {c c' : Core} (h : Steps c c') : ∀ x ∈ c.sent, x ∈ c'.sent := by
  induction h with
  | refl => exact fun _ hx => hx
  | tail _ e ih =>
    intro x hx
    rcases e with e | e
    · exact teff_sent_mono e x (ih x hx)
    · rw [ueff_sent e]; exact ih x hx

/-- the request in flight has been written with the transaction id it is in flight with -/
def InflightSent (c : Core) : Prop :=
  ∀ m r tx dl, c.pos = .inflight m r tx dl → ∃ bytes, (r.rid, tx, bytes) ∈ c.sent

theorem inflightSent_reach (c : Core) (h : Reach c) : InflightSent c := by
  refine Reach.induct (P := InflightSent) ?_ ?_ ?_ c h
  · intro m m' r tx dl hp; simp [Core.init] at hp
  · intro c c' ih t m r tx dl hp
    rcases teff_deadline c c' t m r tx dl hp with h1 | ⟨_, _, _, bytes, h4⟩
    · obtain ⟨bytes, hb⟩ := ih m r tx dl h1
      exact ⟨bytes, teff_sent_mono t _ hb⟩
    · exact ⟨bytes, by rw [h4]; simp⟩
  · intro c c' ih t m r tx dl hp
    rw [ueff_sent t]
    cases t with
    | abort ha => simp at hp
    | _ => exact ih m r tx dl hp

theorem reach_steps {c c' : Core} (h : Reach c) (hs : Steps c c') : Reach c' := by
  obtain ⟨m, h0⟩ := h
  exact ⟨m, h0.trans hs⟩

end Rodbus.Client
