import RodbusModel.Props.C01
import RodbusModel.Props.C01Stream
import RodbusModel.Lemmas.ServerSession
/-
  C01, session clauses that the per-frame theorems of Props/C01.lean leave open:

  (a) EVERY answerable frame is answered (`configured_always_answered`, `reply_iff_answerable`) and
      the replies of a session are exactly one per answerable frame, in order
      (`session_replies_exact`; `C01.session_replies_in_order` only gives a sublist);
  (b) the bytes the SESSION model writes (`frameOut`, Model/Session.lean) are the `frameReply` of
      `C01.reply_framing_tcp/_rtu`, so the echo of transaction id and unit id is a statement about
      `(runSession …).tx` (`session_tx_tcp`, `session_tx_rtu`).

  Quantifiers: every configuration, unit map, frame / frame list / event list / transport script,
  both framings.  No hypothesis on the bytes.
-/
namespace Rodbus.C01
open Rodbus Rodbus.Spec.Server

/-! ## (a) who is answered -/

/-- the frame denotes a request that the authorization handler (if any) denies -/
def denied {σ : Type} (cfg : ServerCfg σ) (f : Frame) : Bool :=
  match requestOf f with
  | some req => !cfg.allows f.dest req
  | none => false

/-- the frame is answerable by a server whose configured unit ids are `units`: its PDU is not
    empty, it is not a broadcast, and its destination is a configured unit — or, with an
    authorization handler, it is a well-formed request that the handler denies (the denial,
    exception 01, is sent before the unit map is consulted) -/
def answerable {σ : Type} (cfg : ServerCfg σ) (units : List Nat) (f : Frame) : Bool :=
  !f.pdu.isEmpty && !isBroadcast cfg f && (units.contains f.dest || denied cfg f)

/-- without an authorization handler nothing is ever denied -/
theorem denied_no_auth {σ : Type} (cfg : ServerCfg σ) (f : Frame) (ha : cfg.auth = none) :
    denied cfg f = false := by
  unfold denied
  cases requestOf f with
  | none => rfl
  | some req => simp [ServerCfg.allows, ha]

/-- **reply_iff_answerable**: a frame is answered iff it is answerable — for every PDU, whatever
    its bytes -/
theorem reply_iff_answerable {σ : Type} (cfg : ServerCfg σ) (hs : List (Nat × σ)) (f : Frame) :
    (handleFrame cfg hs f).reply.isSome = answerable cfg (hs.map Prod.fst) f := by
  unfold answerable denied
  rw [contains_keys_eq]
  cases hreq : requestOf f with
  | none =>
    cases hp : f.pdu with
    | nil => rw [handleFrame_empty cfg hs f hp]; simp [silent]
    | cons b body =>
      cases hfc : Fc.ofByte b with
      | none =>
        rw [handleFrame_unknown cfg hs f hp hfc]
        cases hb : isBroadcast cfg f <;> cases hl : lookupUnit hs f.dest <;> simp [silent]
      | some fc =>
        have hv : validBody fc body = false := by
          cases hv : validBody fc body with
          | false => rfl
          | true => rw [requestOf_of hp hfc hv] at hreq; simp at hreq
        rw [handleFrame_invalid cfg hs f hp hfc hv]
        cases hb : isBroadcast cfg f <;> cases hl : lookupUnit hs f.dest <;> simp [silent]
  | some req =>
    obtain ⟨body, hp⟩ := requestOf_fc hreq
    rw [handleFrame_request cfg hs f hreq, hp]
    cases ha : cfg.allows f.dest req <;> cases hb : isBroadcast cfg f <;>
      cases hl : lookupUnit hs f.dest <;> cases hw : isWrite req <;> simp [ha]

/-- **configured_always_answered**: a non-empty frame that is not a broadcast and is addressed
    to a configured unit is ALWAYS answered (with a response or an exception) -/
theorem configured_always_answered {σ : Type} (cfg : ServerCfg σ) (hs : List (Nat × σ)) (f : Frame)
    (s : σ) (hp : f.pdu ≠ []) (hb : isBroadcast cfg f = false)
    (hl : lookupUnit hs f.dest = some s) : (handleFrame cfg hs f).reply.isSome = true := by
  rw [reply_iff_answerable]
  unfold answerable
  rw [contains_keys_eq, hl, hb]
  cases h : f.pdu with
  | nil => exact absurd h hp
  | cons b body => simp

/-- a denied request is answered (exception 01) even when its unit is not configured -/
theorem denied_always_answered {σ : Type} (cfg : ServerCfg σ) (hs : List (Nat × σ)) (f : Frame)
    (req : Request) (hreq : requestOf f = some req) (hb : isBroadcast cfg f = false)
    (hd : cfg.allows f.dest req = false) :
    (handleFrame cfg hs f).reply = some [req.fc.toByte + 128, 1] := by
  rw [handleFrame_request cfg hs f hreq, orErr_toByte]; simp [hd, hb]

/-- answerability depends on the unit map only through the set of configured unit ids, which a
    session never changes (`C01.session_units_constant`) -/
theorem answerable_keys {σ : Type} (cfg : ServerCfg σ) (hs hs' : List (Nat × σ))
    (h : hs'.map Prod.fst = hs.map Prod.fst) (f : Frame) :
    answerable cfg (hs'.map Prod.fst) f = answerable cfg (hs.map Prod.fst) f := by rw [h]

/-- **session_replies_exact**: the frames a session answers are EXACTLY its answerable frames,
    one reply each, in the order received (strengthens `session_replies_in_order`) -/
theorem session_replies_exact {σ : Type} (cfg : ServerCfg σ) (hs : List (Nat × σ))
    (fs : List Frame) :
    (runFrames cfg hs fs).1.map Prod.fst = fs.filter (answerable cfg (hs.map Prod.fst)) := by
  induction fs generalizing hs with
  | nil => rfl
  | cons f fs ih =>
    have hk := handleFrame_keys cfg hs f
    have hr := reply_iff_answerable cfg hs f
    simp only [runFrames, List.map_append, ih, hk, List.filter_cons]
    cases hrep : (handleFrame cfg hs f).reply with
    | none => rw [hrep] at hr; simp [← hr]
    | some p => rw [hrep] at hr; simp [← hr]

/-- the number of replies is the number of answerable frames -/
theorem session_reply_count {σ : Type} (cfg : ServerCfg σ) (hs : List (Nat × σ))
    (fs : List Frame) :
    (runFrames cfg hs fs).1.length = fs.countP (answerable cfg (hs.map Prod.fst)) := by
  have := congrArg List.length (session_replies_exact cfg hs fs)
  rw [List.length_map] at this
  rw [this, List.countP_eq_length_filter]

/-- each reply of a session is the reply `handleFrame` gives to its frame in the state the
    earlier frames left behind -/
theorem session_reply_is_frame_reply {σ : Type} (cfg : ServerCfg σ) (hs : List (Nat × σ))
    (fs : List Frame) (f : Frame) (p : Bytes) (h : (f, p) ∈ (runFrames cfg hs fs).1) :
    ∃ pre post, fs = pre ++ f :: post
      ∧ (handleFrame cfg (runFrames cfg hs pre).2.2 f).reply = some p := by
  induction fs generalizing hs with
  | nil => simp [runFrames] at h
  | cons g gs ih =>
    simp only [runFrames, List.mem_append] at h
    rcases h with h | h
    · cases hrep : (handleFrame cfg hs g).reply with
      | none => rw [hrep] at h; simp at h
      | some q =>
        rw [hrep] at h
        simp only [List.mem_singleton, Prod.mk.injEq] at h
        obtain ⟨rfl, rfl⟩ := h
        exact ⟨[], gs, rfl, hrep⟩
    · obtain ⟨pre, post, hfs, hp⟩ := ih _ h
      refine ⟨g :: pre, post, by rw [hfs]; rfl, ?_⟩
      simpa [runFrames] using hp

/-! ## (b) what the session writes -/

/-- the framing function of the session model IS `frameReply` -/
theorem frameOut_eq_frameReply (f : Frame) (pdu : Bytes) :
    frameOut .tcp f pdu = frameReply false f pdu ∧ frameOut .rtu f pdu = frameReply true f pdu :=
  ⟨rfl, rfl⟩

/-- one form for both framings -/
theorem frameOut_eq_frameReply' (fr : Framing) (f : Frame) (pdu : Bytes) :
    frameOut fr f pdu = frameReply (decide (fr = .rtu)) f pdu := by cases fr <;> rfl

/-- the session, for EVERY transport script: its events are those of the reader over the data
    delivered before the script's first terminating event -/
theorem runSession_eq {σ : Type} (fr : Framing) (cfg : ServerCfg σ) (l : DecodeLevel)
    (hs : List (Nat × σ)) (script : List SessStep) :
    runSession fr cfg l hs script
      = handleEvents fr cfg (cutScript script).2 hs (readerRun fr (cutScript script).1) := rfl

/-- the frames a session handles: those the reader delivers before its first framing error -/
def sessionFrames (fr : Framing) (script : List SessStep) : List Frame :=
  framesBeforeError (readerRun fr (cutScript script).1)

/-- **session_writes_framed_replies**: every byte a session writes, for every script: the
    `frameReply` of each reply of `runFrames` over the session's frames, concatenated in order -/
theorem session_writes_framed_replies {σ : Type} (fr : Framing) (cfg : ServerCfg σ)
    (l : DecodeLevel) (hs : List (Nat × σ)) (script : List SessStep) :
    (runSession fr cfg l hs script).tx =
      ((runFrames cfg hs (sessionFrames fr script)).1.map
        fun p => frameReply (decide (fr = .rtu)) p.1 p.2).flatten := by
  rw [runSession_eq, handleEvents_eq_runFrames]
  simp only [sessionFrames, frameOut_eq_frameReply']

/-- TCP: each reply is written with the transaction id and the unit id of ITS request, protocol
    id 0 and length = PDU + 1 -/
theorem session_tx_tcp {σ : Type} (cfg : ServerCfg σ) (l : DecodeLevel) (hs : List (Nat × σ))
    (script : List SessStep) :
    (runSession .tcp cfg l hs script).tx =
      ((runFrames cfg hs (sessionFrames .tcp script)).1.map fun p =>
        u16be (p.1.tx.getD 0) ++ [0, 0] ++ u16be (p.2.length + 1) ++ [p.1.dest] ++ p.2).flatten := by
  rw [session_writes_framed_replies]
  simp [frameReply, Mbap.format]

/-- RTU: each reply is written with the address of ITS request and the CRC of address and PDU -/
theorem session_tx_rtu {σ : Type} (cfg : ServerCfg σ) (l : DecodeLevel) (hs : List (Nat × σ))
    (script : List SessStep) :
    (runSession .rtu cfg l hs script).tx =
      ((runFrames cfg hs (sessionFrames .rtu script)).1.map fun p =>
        [p.1.dest] ++ p.2 ++ u16le (Crc.crc ([p.1.dest] ++ p.2))).flatten := by
  rw [session_writes_framed_replies]
  simp [frameReply, Rtu.format]

/-- every frame the MBAP reader delivers carries a transaction id (so `getD 0` above never
    takes its default) -/
theorem tcp_frames_have_tx (chunks : List Bytes) (f : Frame)
    (h : Event.frame f ∈ readerRun .tcp chunks) : ∃ t, f.tx = some t := by
  have key : ∀ (n : Nat) (s : Bytes), s.length ≤ n → Event.frame f ∈ Mbap.specFrames s →
      ∃ t, f.tx = some t := by
    intro n
    induction n with
    | zero =>
      intro s hs hm
      rw [Mbap.specFrames_short s (by omega)] at hm; cases hm
    | succ n ih =>
      intro s hs hm
      by_cases h7 : s.length < 7
      · rw [Mbap.specFrames_short s h7] at hm; cases hm
      · cases hp : Mbap.parseHeader (s.take 7) with
        | error e =>
          rw [Mbap.specFrames_err s (by omega) e hp] at hm
          simp at hm
        | ok r =>
          obtain ⟨hd, adu⟩ := r
          rw [Mbap.specFrames_ok s (by omega) hd adu hp] at hm
          simp only [Mbap.specFrom] at hm
          split at hm
          · cases hm
          · simp only [List.mem_cons, Event.frame.injEq] at hm
            rcases hm with hm | hm
            · exact ⟨hd.tx, by rw [hm]⟩
            · exact ih _ (by simp only [List.length_drop]; omega) hm
  have h' : Event.frame f ∈ Mbap.specFrames chunks.flatten := by
    rw [← Rodbus.chunking_independent]; exact h
  exact key _ _ (Nat.le_refl _) h'

/-- the frames a TCP session handles all carry a transaction id -/
theorem session_frames_have_tx (script : List SessStep) (f : Frame)
    (h : f ∈ sessionFrames .tcp script) : ∃ t, f.tx = some t := by
  obtain ⟨pre, post, hev⟩ := (mem_framesBeforeError_iff _ f).1 h
  exact tcp_frames_have_tx (cutScript script).1 f (by rw [hev]; simp)

/-- the session's calls, final states and end, for every script (companion of
    `session_writes_framed_replies`) -/
theorem session_is_runFrames {σ : Type} (fr : Framing) (cfg : ServerCfg σ) (l : DecodeLevel)
    (hs : List (Nat × σ)) (script : List SessStep) :
    (runSession fr cfg l hs script).calls = (runFrames cfg hs (sessionFrames fr script)).2.1
    ∧ (runSession fr cfg l hs script).states = (runFrames cfg hs (sessionFrames fr script)).2.2
    ∧ (runSession fr cfg l hs script).ended
        = endOf (cutScript script).2 (readerRun fr (cutScript script).1) := by
  rw [runSession_eq, handleEvents_eq_runFrames]; exact ⟨rfl, rfl, rfl⟩

/-! ## Non-vacuity -/

open Demo

/-- three TCP requests in one segment, then the peer closes: unit 1 (configured) is answered
    with its own transaction id 7, unit 9 (not configured) is not, the invalid request for unit 2
    is answered with exception 03 and transaction id 9 -/
example :
    (runSession .tcp tcp {} units
      [.data ([0, 7, 0, 0, 0, 6, 1] ++ readCoils8 ++ [0, 8, 0, 0, 0, 6, 9] ++ readCoils8
              ++ [0, 9, 0, 0, 0, 6, 2] ++ readZero), .eof]).tx
      = [0, 7, 0, 0, 0, 4, 1, 1, 1, 0x4D] ++ [0, 9, 0, 0, 0, 3, 2, 0x81, 3] := by
  decide +kernel

example : answerable tcp (units.map Prod.fst) ⟨some 7, 1, readCoils8⟩ = true
    ∧ answerable tcp (units.map Prod.fst) ⟨some 8, 9, readCoils8⟩ = false
    ∧ answerable tcp (units.map Prod.fst) ⟨some 9, 2, readZero⟩ = true
    ∧ answerable rtu (units.map Prod.fst) ⟨none, 0, writeCoil⟩ = false
    ∧ answerable tlsReadOnly (units.map Prod.fst) ⟨some 1, 9, writeCoil⟩ = true
    ∧ answerable tcp (units.map Prod.fst) ⟨some 1, 1, []⟩ = false := by decide

/-- the hypotheses of `configured_always_answered` are satisfiable, also for a garbage PDU -/
example : (⟨some 7, 1, [0x2B, 14, 1, 0]⟩ : Frame).pdu ≠ []
    ∧ isBroadcast tcp ⟨some 7, 1, [0x2B, 14, 1, 0]⟩ = false ∧ lookupUnit units 1 = some db1 := by
  decide

/-- a denied write to an unconfigured unit is answered with exception 01 -/
example : (handleFrame tlsReadOnly units ⟨some 1, 9, writeCoil⟩).reply = some [0x85, 1] := by
  rw [handleFrame_eq_spec]; decide

end Rodbus.C01
