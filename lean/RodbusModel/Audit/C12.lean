import RodbusModel.Props.C12
/-! axiom audit of every property theorem of Props/C12 -/
#print axioms Rodbus.Client.deadline_is_write_time_plus_timeout
#print axioms Rodbus.Client.clock_stops_at_deadline
#print axioms Rodbus.Client.timeout_only_at_deadline
#print axioms Rodbus.Client.before_deadline
#print axioms Rodbus.Client.reply_completes_at_delivery_time
#print axioms Rodbus.Client.at_deadline_timeout
#print axioms Rodbus.Client.at_deadline_race
#print axioms Rodbus.Client.timeout_iff
#print axioms Rodbus.Client.timeout_keeps_connection
#print axioms Rodbus.Client.timeout_limit_ends_session
#print axioms Rodbus.Client.counter_is_afterCore
#print axioms Rodbus.Client.counter_restarts_per_session
#print axioms Rodbus.Client.counter_exact
#print axioms Rodbus.Client.counter_value
#print axioms Rodbus.Client.counter_no_limit
#print axioms Rodbus.Client.feed_spec
#print axioms Rodbus.Client.teff_new_done
