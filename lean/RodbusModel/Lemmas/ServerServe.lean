import RodbusModel.Lemmas.ServerCases
/-
  What serving a request amounts to (`Spec.Server.serve`, `applyToAll`) in terms of the
  vocabulary of Lemmas/ServerCases.lean; the handler map; sessions (`runFrames`).
-/
namespace Rodbus
open Rodbus.Spec.Server

/-! ## packed reply bytes -/

/-- byte `j` of a bit reply, as the accumulator byte of its (at most) eight in-range values -/
theorem packedByte_eq_packByte (val : Nat → Bool) (qty j : Nat) :
    packedByte val qty j
      = packByte ((List.range 8).map fun k => decide (8 * j + k < qty) && val (8 * j + k)) := by
  rw [packedByte_eq_sumTo, packByte_eq_sumTo _ 8 (by simp)]
  apply sumTo_congr; intro k hk
  simp [List.getD_eq_getElem?_getD, hk]

/-- bit `k` of byte `j` is the value at offset `8j + k` if that is inside the range, else 0 -/
theorem packedByte_bit (val : Nat → Bool) (qty j k : Nat) (hk : k < 8) :
    (packedByte val qty j / 2 ^ k % 2 = 1) ↔ (8 * j + k < qty ∧ val (8 * j + k) = true) := by
  rw [packedByte_eq_packByte, packByte_bit]
  simp [List.getD_eq_getElem?_getD, hk]

theorem packedByte_lt (val : Nat → Bool) (qty j : Nat) : packedByte val qty j < 256 := by
  rw [packedByte_eq_packByte]
  have := packByte_lt ((List.range 8).map fun k => decide (8 * j + k < qty) && val (8 * j + k))
  simpa using this

/-! ## reads -/

theorem errOf_eq_none {α : Type} (x : Except Nat α) : errOf x = none ↔ ∃ v, x = .ok v := by
  cases x <;> simp [errOf]

theorem errOf_eq_some {α : Type} (x : Except Nat α) (e : Nat) : errOf x = some e ↔ x = .error e := by
  cases x <;> simp [errOf]

theorem firstFailure_none_of {α : Type} {get : Nat → Except Nat α} {start n : Nat}
    (h : ∀ i < n, errOf (get (start + i)) = none) : firstFailure get start n = none :=
  (firstFailure_none_iff get start n).2 fun i hi => (errOf_eq_none _).1 (h i hi)

theorem firstFailure_some_of {α : Type} {get : Nat → Except Nat α} {start n k e : Nat}
    (hk : k < n) (he : errOf (get (start + k)) = some e)
    (hb : ∀ i < k, errOf (get (start + i)) = none) : firstFailure get start n = some (k, e) :=
  (firstFailure_some_iff get start n k e).2
    ⟨hk, (errOf_eq_some _ _).1 he, fun i hi => (errOf_eq_none _).1 (hb i hi)⟩

theorem valOr_of_errOf_none {α : Type} (d : α) {x : Except Nat α} (h : errOf x = none) :
    x = .ok (valOr d x) := by
  cases x <;> simp_all [errOf, valOr]

/-- a read whose every address is readable: all addresses of the range are queried, in ascending
    order, and nothing else happens -/
theorem serve_read_ok_calls {σ : Type} (H : Handler σ) (u : Nat) (s : σ) (fc : Fc) (r : Range)
    (hr : fc.isRead = true) (hok : ∀ i < r.count, H.readErr fc s (r.start + i) = none) :
    (serve H u s (mkRead fc r)).2 = ((List.range r.count).map fun i => readCall fc u (r.start + i), s) := by
  cases fc <;> simp [Fc.isRead] at hr <;>
    simp [serve, mkRead, queried, readCall, firstFailure_none_of hok, Function.comp_def]

/-- a read that hits an unreadable address: exception reply for the first such address, the
    addresses up to and including it are queried -/
theorem serve_read_fail {σ : Type} (H : Handler σ) (u : Nat) (s : σ) (fc : Fc) (r : Range)
    (hr : fc.isRead = true) {k e : Nat} (hk : k < r.count)
    (he : H.readErr fc s (r.start + k) = some e)
    (hb : ∀ i < k, H.readErr fc s (r.start + i) = none) :
    serve H u s (mkRead fc r) =
      ([orErr fc.toByte, e], (List.range (k + 1)).map fun i => readCall fc u (r.start + i), s) := by
  cases fc <;> simp [Fc.isRead] at hr <;>
    simp [serve, mkRead, queried, readCall, bitsReply, regsReply, firstFailure_some_of hk he hb,
      Function.comp_def, Fc.toByte]

theorem serve_read_bits_ok {σ : Type} (H : Handler σ) (u : Nat) (s : σ) (fc : Fc) (r : Range)
    (hfc : fc = .readCoils ∨ fc = .readDiscreteInputs)
    (hok : ∀ i < r.count, H.readErr fc s (r.start + i) = none) :
    (serve H u s (mkRead fc r)).1 = fc.toByte :: (r.count + 7) / 8 ::
      (List.range ((r.count + 7) / 8)).map
        (packedByte (fun i => valOr false (H.readBit fc s (r.start + i))) r.count) := by
  rcases hfc with rfl | rfl <;>
    simp [serve, mkRead, bitsReply, firstFailure_none_of hok, Fc.toByte, Handler.readBit]

theorem serve_read_regs_ok {σ : Type} (H : Handler σ) (u : Nat) (s : σ) (fc : Fc) (r : Range)
    (hfc : fc = .readHoldingRegisters ∨ fc = .readInputRegisters)
    (hok : ∀ i < r.count, H.readErr fc s (r.start + i) = none) :
    (serve H u s (mkRead fc r)).1 = fc.toByte :: 2 * r.count ::
      packRegs ((List.range r.count).map fun i => valOr 0 (H.readReg fc s (r.start + i))) := by
  rw [packRegs_map_range]
  rcases hfc with rfl | rfl <;>
    simp [serve, mkRead, regsReply, firstFailure_none_of hok, Fc.toByte, Handler.readReg]

theorem serve_read_state {σ : Type} (H : Handler σ) (u : Nat) (s : σ) (req : Request)
    (hr : isWrite req = false) : (serve H u s req).2.2 = s := by
  cases req <;> first | rfl | simp [isWrite] at hr

/-- every call of a served read is a read call for an address of the requested range -/
theorem serve_read_calls_mem {σ : Type} (H : Handler σ) (u : Nat) (s : σ) (fc : Fc) (r : Range)
    (hr : fc.isRead = true) (c : Call) (hc : c ∈ (serve H u s (mkRead fc r)).2.1) :
    ∃ a, c = readCall fc u a ∧ r.start ≤ a ∧ a < r.start + r.count := by
  have key : ∀ {α : Type} (get : Nat → Except Nat α) (a : Nat),
      a ∈ queried get r.start r.count → r.start ≤ a ∧ a < r.start + r.count := by
    intro α get a ha
    unfold queried at ha
    split at ha
    · simp only [List.mem_map, List.mem_range] at ha
      obtain ⟨i, hi, rfl⟩ := ha; omega
    · rename_i k e hf
      have := ((firstFailure_some_iff get r.start r.count k e).1 hf).1
      simp only [List.mem_map, List.mem_range] at ha
      obtain ⟨i, hi, rfl⟩ := ha; omega
  cases fc <;> simp [Fc.isRead] at hr <;>
    (simp only [serve, mkRead, List.mem_map] at hc
     obtain ⟨a, ha, rfl⟩ := hc
     exact ⟨a, rfl, key _ a ha⟩)

/-! ## writes -/

/-- a served write: exactly one handler call; the reply echoes the request, or carries the
    handler's exception -/
theorem serve_write {σ : Type} (H : Handler σ) (u : Nat) (s : σ) (req : Request)
    (hw : isWrite req = true) :
    serve H u s req =
      (match (H.applyWrite s req).1 with
        | .ok () => req.fc.toByte :: writeEcho req
        | .error e => [orErr req.fc.toByte, e],
       writeCalls req u, (H.applyWrite s req).2) := by
  cases req with
  | writeSingleCoil i v =>
    rcases hp : H.writeSingleCoil s i v with ⟨res, s'⟩
    simp only [serve, Handler.applyWrite, writeCalls, writeEcho, hp, Request.fc, Fc.toByte]
    cases res with
    | error e => simp [writeReply]
    | ok x => cases v <;> simp [writeReply, be, u16be, coilToU16, COIL_ON, COIL_OFF]
  | writeSingleRegister i v =>
    rcases hp : H.writeSingleRegister s i v with ⟨res, s'⟩
    simp only [serve, Handler.applyWrite, writeCalls, writeEcho, hp, Request.fc, Fc.toByte]
    cases res with
    | error e => simp [writeReply]
    | ok x => simp [writeReply, be, u16be]
  | writeMultipleCoils r vals =>
    rcases hp : H.writeMultipleCoils s r (indexed r.start vals) with ⟨res, s'⟩
    simp only [serve, Handler.applyWrite, writeCalls, writeEcho, ← indexed_eq, hp, Request.fc,
      Fc.toByte]
    cases res with
    | error e => simp [writeReply]
    | ok x => simp [writeReply, be, u16be]
  | writeMultipleRegisters r vals =>
    rcases hp : H.writeMultipleRegisters s r (indexed r.start vals) with ⟨res, s'⟩
    simp only [serve, Handler.applyWrite, writeCalls, writeEcho, ← indexed_eq, hp, Request.fc,
      Fc.toByte]
    cases res with
    | error e => simp [writeReply]
    | ok x => simp [writeReply, be, u16be]
  | _ => simp [isWrite] at hw

/-- a broadcast write: one write call per configured unit, in map order; every unit's state is
    the one its handler returns, whatever the result -/
theorem applyToAll_write {σ : Type} (H : Handler σ) (req : Request) (hw : isWrite req = true)
    (hs : List (Nat × σ)) :
    applyToAll H req hs =
      (hs.flatMap (fun p => writeCalls req p.1),
       hs.map (fun p => (p.1, (H.applyWrite p.2 req).2))) := by
  induction hs with
  | nil => rfl
  | cons p rest ih =>
    obtain ⟨u, s⟩ := p
    simp only [applyToAll, ih, serve_write H u s req hw, List.flatMap_cons, List.map_cons]

theorem writeCalls_read (req : Request) (u : Nat) (h : isWrite req = false) : writeCalls req u = [] := by
  cases req <;> first | rfl | simp [isWrite] at h

theorem writeCalls_not_auth (req : Request) (u : Nat) : ∀ c ∈ writeCalls req u, c.isAuth = false := by
  cases req <;> simp [writeCalls, Call.isAuth]

theorem readCall_not_auth (fc : Fc) (u a : Nat) : (readCall fc u a).isAuth = false := by
  cases fc <;> rfl

theorem authQuestion_isAuth (req : Request) (u : Nat) (role : String) :
    (authQuestion req u role).isAuth = true := by
  cases req <;> rfl

theorem serve_calls_not_auth {σ : Type} (H : Handler σ) (u : Nat) (s : σ) (req : Request) :
    ∀ c ∈ (serve H u s req).2.1, c.isAuth = false := by
  cases req <;> simp [serve, Call.isAuth]

theorem question_isAuth {σ : Type} (cfg : ServerCfg σ) (dest : Nat) (req : Request) :
    ∀ c ∈ cfg.question dest req, c.isAuth = true := by
  unfold ServerCfg.question
  cases cfg.auth with
  | none => simp
  | some p => simp [authQuestion_isAuth]

theorem readErr_bit {σ : Type} (H : Handler σ) (fc : Fc)
    (hfc : fc = .readCoils ∨ fc = .readDiscreteInputs) (s : σ) (a : Nat) :
    H.readErr fc s a = errOf (H.readBit fc s a) := by
  rcases hfc with rfl | rfl <;> rfl

theorem readErr_reg {σ : Type} (H : Handler σ) (fc : Fc)
    (hfc : fc = .readHoldingRegisters ∨ fc = .readInputRegisters) (s : σ) (a : Nat) :
    H.readErr fc s a = errOf (H.readReg fc s a) := by
  rcases hfc with rfl | rfl <;> rfl

/-- a successful write answers with the first five bytes of the request PDU: function code,
    address and value, or function code, start and quantity -/
theorem writeEcho_decode {b : Nat} {fc : Fc} {body : Bytes} (hfc : Fc.ofByte b = some fc)
    (hw : Bytes.WF body) (hv : validBody fc body = true) (hwr : isWrite (decode fc body) = true) :
    fc.toByte :: writeEcho (decode fc body) = (b :: body).take 5 := by
  rw [Fc.toByte_of_ofByte hfc]
  cases fc with
  | writeSingleCoil =>
    simp only [validBody, Bool.and_eq_true, beq_iff_eq, Bool.or_eq_true] at hv
    obtain ⟨a0, a1, c, d, rfl⟩ := length_eq_four hv.1
    have h0 := hw a0 (by simp); have h1 := hw a1 (by simp)
    have h2 := hw c (by simp); have h3 := hw d (by simp)
    have hq := hv.2
    simp only [u16At_two] at hq
    simp only [decode, writeEcho, u16At_zero, u16At_two, u16be_be16 h0 h1]
    rcases hq with hq | hq
    · simp only [hq, coilToU16, COIL_ON, beq_self_eq_true, if_true]
      rw [← hq, u16be_be16 h2 h3]; rfl
    · simp only [hq, coilToU16, COIL_OFF]
      rw [show ((0 : Nat) == 65280) = false from rfl]
      simp only [Bool.false_eq_true, if_false]
      rw [← hq, u16be_be16 h2 h3]; rfl
  | writeSingleRegister =>
    simp only [validBody, beq_iff_eq] at hv
    obtain ⟨a0, a1, c, d, rfl⟩ := length_eq_four hv
    have h0 := hw a0 (by simp); have h1 := hw a1 (by simp)
    have h2 := hw c (by simp); have h3 := hw d (by simp)
    simp only [decode, writeEcho, u16At_zero, u16At_two, u16be_be16 h0 h1, u16be_be16 h2 h3]
    rfl
  | writeMultipleCoils =>
    simp only [validBody, Bool.and_eq_true, beq_iff_eq] at hv
    obtain ⟨a0, a1, c, d, bc, payload, rfl⟩ := length_ge_five (body := body) (by omega)
    have h0 := hw a0 (by simp); have h1 := hw a1 (by simp)
    have h2 := hw c (by simp); have h3 := hw d (by simp)
    simp only [decode, writeEcho, u16At_zero, u16At_two, u16be_be16 h0 h1, u16be_be16 h2 h3]
    rfl
  | writeMultipleRegisters =>
    simp only [validBody, Bool.and_eq_true, beq_iff_eq] at hv
    obtain ⟨a0, a1, c, d, bc, payload, rfl⟩ := length_ge_five (body := body) (by omega)
    have h0 := hw a0 (by simp); have h1 := hw a1 (by simp)
    have h2 := hw c (by simp); have h3 := hw d (by simp)
    simp only [decode, writeEcho, u16At_zero, u16At_two, u16be_be16 h0 h1, u16be_be16 h2 h3]
    rfl
  | _ => simp [decode, isWrite] at hwr

/-! ## what a decoded request looks like -/

/-- quantity limits of the protocol, no address overflow, as many values as the quantity says -/
def Request.InLimits : Request → Prop
  | .readCoils r | .readDiscreteInputs r =>
    1 ≤ r.count ∧ r.count ≤ 2000 ∧ r.start + r.count ≤ 65536
  | .readHoldingRegisters r | .readInputRegisters r =>
    1 ≤ r.count ∧ r.count ≤ 125 ∧ r.start + r.count ≤ 65536
  | .writeSingleCoil _ _ | .writeSingleRegister _ _ => True
  | .writeMultipleCoils r vals =>
    1 ≤ r.count ∧ r.count ≤ 1968 ∧ r.start + r.count ≤ 65536 ∧ vals.length = r.count
  | .writeMultipleRegisters r vals =>
    1 ≤ r.count ∧ r.count ≤ 123 ∧ r.start + r.count ≤ 65536 ∧ vals.length = r.count

/-- single-write addresses and all register values are u16 values -/
def Request.FitsU16 : Request → Prop
  | .writeSingleCoil i _ => i < 65536
  | .writeSingleRegister i v => i < 65536 ∧ v < 65536
  | .writeMultipleRegisters _ vals => ∀ v ∈ vals, v < 65536
  | _ => True

theorem getD_lt_of_wf {bs : Bytes} (h : Bytes.WF bs) (i : Nat) : bs.getD i 0 < 256 := by
  rw [List.getD_eq_getElem?_getD]
  cases hi : bs[i]? with
  | none => simp
  | some v => exact h v (List.mem_of_getElem? hi)

theorem u16At_lt {bs : Bytes} (h : Bytes.WF bs) (i : Nat) : u16At bs i < 65536 := by
  have h1 := getD_lt_of_wf h i
  have h2 := getD_lt_of_wf h (i + 1)
  unfold u16At; omega

theorem decode_inLimits {fc : Fc} {body : Bytes} (hv : validBody fc body = true) :
    (decode fc body).InLimits := by
  cases fc <;>
    simp only [validBody, Bool.and_eq_true, decide_eq_true_eq, beq_iff_eq] at hv <;>
    simp [decode, Request.InLimits] <;> omega

theorem decode_fitsU16 {fc : Fc} {body : Bytes} (hw : Bytes.WF body) : (decode fc body).FitsU16 := by
  cases fc with
  | writeSingleCoil => exact u16At_lt hw _
  | writeSingleRegister => exact ⟨u16At_lt hw _, u16At_lt hw _⟩
  | writeMultipleRegisters =>
    simp only [decode, Request.FitsU16, List.mem_map]
    rintro v ⟨i, _, rfl⟩; exact u16At_lt hw _
  | _ => trivial

theorem requestOf_inLimits {f : Frame} {req : Request} (h : requestOf f = some req) :
    req.InLimits := by
  obtain ⟨b, body, fc, _, _, hv, rfl⟩ := (requestOf_some_iff f req).1 h
  exact decode_inLimits hv

theorem requestOf_fitsU16 {f : Frame} {req : Request} (h : requestOf f = some req)
    (hw : Bytes.WF f.pdu) : req.FitsU16 := by
  obtain ⟨b, body, fc, hp, _, hv, rfl⟩ := (requestOf_some_iff f req).1 h
  rw [hp] at hw
  exact decode_fitsU16 (Bytes.WF_cons.1 hw).2

/-! ## reply sizes -/

theorem bitsReply_length (fcb : Nat) (get : Nat → Except Nat Bool) (start qty : Nat) :
    (bitsReply fcb get start qty).length ≤ 2 + (qty + 7) / 8 := by
  unfold bitsReply; split <;> simp <;> omega

theorem regsReply_length (fcb : Nat) (get : Nat → Except Nat Nat) (start qty : Nat) :
    (regsReply fcb get start qty).length ≤ 2 + 2 * qty := by
  unfold regsReply; split
  · simp
  · have := packRegs_map_range (fun i => valOr 0 (get (start + i))) qty
    simp only [] at this ⊢
    rw [List.length_cons, List.length_cons, ← this, packRegs_length]; simp; omega

theorem writeReply_length (fcb : Nat) (res : Except Nat Unit) (echo : Bytes) :
    (writeReply fcb res echo).length ≤ 2 + echo.length := by
  unfold writeReply; split <;> simp <;> omega

/-- every reply to a request within the protocol limits fits the 253-byte PDU -/
theorem serve_reply_len {σ : Type} (H : Handler σ) (u : Nat) (s : σ) (req : Request)
    (h : req.InLimits) : (serve H u s req).1.length ≤ 253 := by
  cases req with
  | readCoils r =>
    have := bitsReply_length 1 (H.readCoil s) r.start r.count
    simp only [Request.InLimits] at h; simp only [serve]; omega
  | readDiscreteInputs r =>
    have := bitsReply_length 2 (H.readDiscreteInput s) r.start r.count
    simp only [Request.InLimits] at h; simp only [serve]; omega
  | readHoldingRegisters r =>
    have := regsReply_length 3 (H.readHoldingRegister s) r.start r.count
    simp only [Request.InLimits] at h; simp only [serve]; omega
  | readInputRegisters r =>
    have := regsReply_length 4 (H.readInputRegister s) r.start r.count
    simp only [Request.InLimits] at h; simp only [serve]; omega
  | writeSingleCoil i v =>
    rw [serve_write _ _ _ _ rfl]; simp only []; split <;> simp [writeEcho, u16be]
  | writeSingleRegister i v =>
    rw [serve_write _ _ _ _ rfl]; simp only []; split <;> simp [writeEcho, u16be]
  | writeMultipleCoils r vals =>
    rw [serve_write _ _ _ _ rfl]; simp only []; split <;> simp [writeEcho, u16be]
  | writeMultipleRegisters r vals =>
    rw [serve_write _ _ _ _ rfl]; simp only []; split <;> simp [writeEcho, u16be]

theorem handleFrame_reply_len {σ : Type} (cfg : ServerCfg σ) (hs : List (Nat × σ)) (f : Frame)
    (pdu : Bytes) (h : (handleFrame cfg hs f).reply = some pdu) : pdu.length ≤ 253 := by
  cases hreq : requestOf f with
  | none =>
    cases hp : f.pdu with
    | nil => rw [handleFrame_empty cfg hs f hp] at h; simp [silent] at h
    | cons b body =>
      cases hfc : Fc.ofByte b with
      | none =>
        rw [handleFrame_unknown cfg hs f hp hfc] at h
        split at h
        · simp only [Option.some.injEq] at h; subst h; simp
        · simp [silent] at h
      | some fc =>
        have hv : validBody fc body = false := by
          cases hv : validBody fc body with
          | false => rfl
          | true => rw [requestOf_of hp hfc hv] at hreq; simp at hreq
        rw [handleFrame_invalid cfg hs f hp hfc hv] at h
        split at h
        · simp only [Option.some.injEq] at h; subst h; simp
        · simp [silent] at h
  | some req =>
    rw [handleFrame_request cfg hs f hreq] at h
    split at h
    · split at h
      · simp at h
      · simp only [Option.some.injEq] at h; subst h; simp
    · split at h
      · split at h <;> simp at h
      · split at h
        · simp at h
        · simp only [Option.some.injEq] at h; subst h
          exact serve_reply_len _ _ _ _ (requestOf_inLimits hreq)

/-! ## small facts used by Props/C02 -/


theorem read_eq_mkRead (req : Request) (h : isWrite req = false) :
    ∃ r, req = mkRead req.fc r ∧ req.fc.isRead = true := by
  cases req <;> first | exact ⟨_, rfl, rfl⟩ | simp [isWrite] at h

theorem first_err_cases (p : Nat → Option Nat) (n : Nat) :
    (∀ i < n, p i = none) ∨ ∃ k e, k < n ∧ p k = some e ∧ ∀ i < k, p i = none := by
  induction n with
  | zero => left; intro i hi; omega
  | succ n ih =>
    rcases ih with h | ⟨k, e, hk, he, hb⟩
    · cases hp : p n with
      | none =>
        left; intro i hi
        by_cases hin : i = n
        · subst hin; exact hp
        · exact h i (by omega)
      | some e => right; exact ⟨n, e, by omega, hp, h⟩
    · right; exact ⟨k, e, by omega, he, hb⟩

theorem indexed_length {α : Type} (start : Nat) (vs : List α) : (indexed start vs).length = vs.length := by
  simp [indexed]

theorem indexed_getElem {α : Type} (start : Nat) (vs : List α) (i : Nat) (h : i < vs.length) :
    (indexed start vs)[i]'(by rw [indexed_length]; exact h) = (start + i, vs[i]) := by
  simp [indexed]

theorem range_map_add_nodup (start m : Nat) : ((List.range m).map (start + ·)).Nodup := by
  unfold List.Nodup
  rw [List.pairwise_map]
  exact (List.pairwise_lt_range).imp (by intro a b h; omega)

/-- a frame is not a request iff it is empty, has an unknown function code, or an invalid body -/
theorem requestOf_none_iff (f : Frame) :
    requestOf f = none ↔
      f.pdu = [] ∨ ∃ b body, f.pdu = b :: body ∧
        (Fc.ofByte b = none ∨ ∃ fc, Fc.ofByte b = some fc ∧ validBody fc body = false) := by
  constructor
  · intro h
    cases hp : f.pdu with
    | nil => exact Or.inl rfl
    | cons b body =>
      refine Or.inr ⟨b, body, rfl, ?_⟩
      cases hfc : Fc.ofByte b with
      | none => exact Or.inl rfl
      | some fc =>
        refine Or.inr ⟨fc, rfl, ?_⟩
        cases hv : validBody fc body with
        | false => rfl
        | true => rw [requestOf_of hp hfc hv] at h; simp at h
  · intro h
    cases hr : requestOf f with
    | none => rfl
    | some req =>
      obtain ⟨b', body', fc', hp', hfc', hv', _⟩ := (requestOf_some_iff f req).1 hr
      rcases h with hp | ⟨b, body, hp, hfc | ⟨fc, hfc, hv⟩⟩
      · rw [hp] at hp'; simp at hp'
      · rw [hp] at hp'; injection hp' with h1 h2; subst h1 h2; rw [hfc] at hfc'; simp at hfc'
      · rw [hp] at hp'; injection hp' with h1 h2; subst h1 h2
        rw [hfc] at hfc'; injection hfc' with h3; subst h3; rw [hv] at hv'; simp at hv'

/-! ## the handler map -/

theorem setUnit_keys {σ : Type} (hs : List (Nat × σ)) (u : Nat) (s : σ) :
    (setUnit hs u s).map Prod.fst = hs.map Prod.fst := by
  unfold setUnit
  rw [List.map_map]
  apply List.map_congr_left
  intro p _; obtain ⟨k, t⟩ := p
  simp only [Function.comp]; split <;> rfl

theorem setUnit_of_not_mem {σ : Type} (hs : List (Nat × σ)) (u : Nat) (s : σ)
    (h : u ∉ hs.map Prod.fst) : setUnit hs u s = hs := by
  induction hs with
  | nil => rfl
  | cons p rest ih =>
    obtain ⟨k, t⟩ := p
    simp only [List.map_cons, List.mem_cons, not_or] at h
    have hk : ¬ k = u := fun e => h.1 e.symm
    have := ih h.2
    unfold setUnit at this ⊢
    simp [hk, this]

/-- storing back the state that was looked up changes nothing (unit ids are unique in a
    `BTreeMap`) -/
theorem setUnit_lookup {σ : Type} (hs : List (Nat × σ)) (u : Nat) (s : σ)
    (hnd : (hs.map Prod.fst).Nodup) (h : lookupUnit hs u = some s) : setUnit hs u s = hs := by
  induction hs with
  | nil => rfl
  | cons p rest ih =>
    obtain ⟨k, t⟩ := p
    simp only [List.map_cons, List.nodup_cons] at hnd
    by_cases hk : k = u
    · subst hk
      simp only [lookupUnit, if_true, Option.some.injEq] at h
      subst h
      have := setUnit_of_not_mem rest k t hnd.1
      unfold setUnit at this ⊢
      simp [this]
    · simp only [lookupUnit, hk, if_false] at h
      have := ih hnd.2 h
      unfold setUnit at this ⊢
      simp [hk, this]

theorem lookupUnit_isSome_iff {σ : Type} (hs : List (Nat × σ)) (u : Nat) :
    (lookupUnit hs u).isSome = true ↔ u ∈ hs.map Prod.fst := by
  induction hs with
  | nil => simp [lookupUnit]
  | cons p rest ih =>
    obtain ⟨k, t⟩ := p
    by_cases hk : k = u
    · simp [lookupUnit, hk]
    · have : ¬ u = k := fun e => hk e.symm
      simp [lookupUnit, hk, this, ih]

theorem lookupUnit_setUnit {σ : Type} (hs : List (Nat × σ)) (u u' : Nat) (s : σ) :
    lookupUnit (setUnit hs u s) u' =
      if u' = u then (lookupUnit hs u).map (fun _ => s) else lookupUnit hs u' := by
  induction hs with
  | nil => simp [setUnit, lookupUnit]
  | cons p rest ih =>
    obtain ⟨k, t⟩ := p
    unfold setUnit at ih ⊢
    by_cases hk : k = u
    · subst hk
      by_cases hu : u' = k
      · subst hu; simp [lookupUnit]
      · have : ¬ k = u' := fun e => hu e.symm
        simp only [List.map_cons, if_true, lookupUnit, this, if_false, hu] at ih ⊢
        exact ih
    · by_cases hu : u' = u
      · subst hu
        simp only [List.map_cons, hk, if_false, lookupUnit, if_true] at ih ⊢
        exact ih
      · simp only [List.map_cons, hk, if_false, lookupUnit, hu] at ih ⊢
        split <;> simp_all

/-- the set of configured unit ids (and their order) never changes -/
theorem handleFrame_keys {σ : Type} (cfg : ServerCfg σ) (hs : List (Nat × σ)) (f : Frame) :
    (handleFrame cfg hs f).states.map Prod.fst = hs.map Prod.fst := by
  cases hreq : requestOf f with
  | none => rw [(handleFrame_no_request cfg hs f hreq).2.1]
  | some req =>
    rw [handleFrame_request cfg hs f hreq]
    split
    · rfl
    · split
      · split
        · rename_i hw
          simp only [applyToAll_write cfg.H req hw, List.map_map]
          apply List.map_congr_left; intro p _; rfl
        · rfl
      · split
        · rfl
        · simp only [setUnit_keys]

/-! ## authorization -/

/-- a frame that is not a request is handled without looking at the authorization handler -/
theorem handleFrame_no_request_auth {σ : Type} (cfg : ServerCfg σ) (a : Option (AuthFn × String))
    (hs : List (Nat × σ)) (f : Frame) (h : requestOf f = none) :
    handleFrame cfg hs f = handleFrame { cfg with auth := a } hs f := by
  cases hp : f.pdu with
  | nil => rw [handleFrame_empty _ hs f hp, handleFrame_empty _ hs f hp]
  | cons b body =>
    cases hfc : Fc.ofByte b with
    | none => rw [handleFrame_unknown _ hs f hp hfc, handleFrame_unknown _ hs f hp hfc]; rfl
    | some fc =>
      have hv : validBody fc body = false := by
        cases hv : validBody fc body with
        | false => rfl
        | true => rw [requestOf_of hp hfc hv] at h; simp at h
      rw [handleFrame_invalid _ hs f hp hfc hv, handleFrame_invalid _ hs f hp hfc hv]; rfl

theorem allows_false_iff {σ : Type} (cfg : ServerCfg σ) (dest : Nat) (req : Request) :
    cfg.allows dest req = false ↔
      ∃ P role, cfg.auth = some (P, role) ∧ P req.fc dest req.authArg role = false := by
  unfold ServerCfg.allows
  cases cfg.auth with
  | none => simp
  | some p =>
    obtain ⟨P, role⟩ := p
    simp only [Option.some.injEq, Prod.mk.injEq]
    constructor
    · intro h; exact ⟨P, role, ⟨rfl, rfl⟩, h⟩
    · rintro ⟨P', role', ⟨rfl, rfl⟩, h⟩; exact h

/-- the authorization questions asked while handling a frame depend on the configuration and the
    frame only: one for a valid request (if a handler is configured), none otherwise -/
theorem handleFrame_auth_calls {σ : Type} (cfg : ServerCfg σ) (hs : List (Nat × σ)) (f : Frame) :
    (handleFrame cfg hs f).calls.filter Call.isAuth =
      match requestOf f with
      | some req => cfg.question f.dest req
      | none => [] := by
  have hq : ∀ req, (cfg.question f.dest req).filter Call.isAuth = cfg.question f.dest req :=
    fun req => List.filter_eq_self.2 (question_isAuth cfg f.dest req)
  have hn : ∀ l : List Call, (∀ c ∈ l, c.isAuth = false) → l.filter Call.isAuth = [] :=
    fun l h => List.filter_eq_nil_iff.2 (fun c hc => by simp [h c hc])
  cases hreq : requestOf f with
  | none => rw [(handleFrame_no_request cfg hs f hreq).1]; rfl
  | some req =>
    rw [handleFrame_request cfg hs f hreq]
    split
    · exact hq req
    · split
      · split
        · rename_i hw
          simp only [List.filter_append, hq, applyToAll_write cfg.H req hw]
          rw [hn]; · simp
          intro c hc
          simp only [List.mem_flatMap] at hc
          obtain ⟨p, _, hc⟩ := hc
          exact writeCalls_not_auth req p.1 c hc
        · exact hq req
      · split
        · exact hq req
        · simp only [List.filter_append, hq]
          rw [hn _ (serve_calls_not_auth _ _ _ _)]; simp

/-! ## sessions -/

theorem runFrames_append {σ : Type} (cfg : ServerCfg σ) (hs : List (Nat × σ)) (fs gs : List Frame) :
    runFrames cfg hs (fs ++ gs) =
      ((runFrames cfg hs fs).1 ++ (runFrames cfg (runFrames cfg hs fs).2.2 gs).1,
       (runFrames cfg hs fs).2.1 ++ (runFrames cfg (runFrames cfg hs fs).2.2 gs).2.1,
       (runFrames cfg (runFrames cfg hs fs).2.2 gs).2.2) := by
  induction fs generalizing hs with
  | nil => simp [runFrames]
  | cons f fs ih => simp [runFrames, ih, List.append_assoc]

/-- frames answered, in order, form a subsequence of the frames received: replies are never
    reordered, duplicated or invented -/
theorem runFrames_replies_sublist {σ : Type} (cfg : ServerCfg σ) (hs : List (Nat × σ))
    (fs : List Frame) : ((runFrames cfg hs fs).1.map Prod.fst).Sublist fs := by
  induction fs generalizing hs with
  | nil => simp [runFrames]
  | cons f fs ih =>
    simp only [runFrames]
    cases (handleFrame cfg hs f).reply with
    | none => simpa using (ih _).cons f
    | some p => simpa using (ih _).cons_cons f

/-- a session of the reference server: `respond` folded over the frames (mirror of `runFrames`) -/
def specRun {σ : Type} (cfg : ServerCfg σ) :
    List (Nat × σ) → List Frame → List (Frame × Bytes) × List Call × List (Nat × σ)
  | hs, [] => ([], [], hs)
  | hs, f :: fs =>
    let o := respond cfg hs f
    let (rs, cs, hs') := specRun cfg o.states fs
    ((match o.reply with | some p => [(f, p)] | none => []) ++ rs, o.calls ++ cs, hs')

theorem runFrames_eq_specRun {σ : Type} (cfg : ServerCfg σ) (hs : List (Nat × σ))
    (fs : List Frame) : runFrames cfg hs fs = specRun cfg hs fs := by
  induction fs generalizing hs with
  | nil => rfl
  | cons f fs ih => simp only [runFrames, specRun, handleFrame_eq_respond, ih]; rfl

theorem runFrames_keys {σ : Type} (cfg : ServerCfg σ) (hs : List (Nat × σ)) (fs : List Frame) :
    (runFrames cfg hs fs).2.2.map Prod.fst = hs.map Prod.fst := by
  induction fs generalizing hs with
  | nil => rfl
  | cons f fs ih => simp only [runFrames]; rw [ih, handleFrame_keys]

end Rodbus
