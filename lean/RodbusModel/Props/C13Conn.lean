import RodbusModel.Props.C13
import RodbusModel.Lemmas.LifecycleConn
/-
  C13, the clause "Disabled after a disable, WHICH ALSO CLOSES AN OPEN CONNECTION" — and the same
  for shutdown, for dropping every handle and for a lost connection — as statements about the
  connection object of the model (`S.conn`: the task holds a `PhysLayer`; `Ev.closed`: the peer
  of the connection announced last has seen the client close it; the `life` harness logs `closed`
  when its scripted peer reads EOF / a reset, in front of the state announced next).

  * `connection_open_iff`: in every run the connection exists exactly while the task is blocked
    at the `Connected` callback or idle in a session;
  * `next_state_announced_closed`: whenever any other state is announced the connection is gone;
  * `closed_before_next_state`: the log of every run satisfies `Spec.LifeObs.connOk` — every
    announced `Connected` is followed by exactly one `closed`, directly in front of the next
    announced state (or by nothing yet), and `closed` is logged nowhere else;
  * `disable_closes_connection'`, `shutdown_closes_connection'`, `drop_closes_connection'`: the
    three user actions that end a session, at the level of stops.
-/
namespace Rodbus.C13
open Rodbus.Life Rodbus.Spec.Life Rodbus.Spec.LifeObs

/-- **connection_open_iff**: at every position of every run (every script, every peer, every
    resolution of the `select!` races) the connection object exists iff the task is blocked in
    the `Connected` callback or is idle inside a session. -/
theorem connection_open_iff (s : S) (pos : Pos) (hr : Reachable s pos) :
    s.conn = true ↔
      ((∃ next, pos = .gate .connected next) ∨ (∃ ph, pos = .idle ph ∧ isSession ph = true)) := by
  have h := hr.runConn.1
  cases pos with
  | done => simp [ConnPos] at h; simp [h.1]
  | idle ph => simp [ConnPos] at h; simp [h.2]
  | gate st next =>
    by_cases hst : st = .connected
    · subst hst; simp [ConnPos] at h; simp [h.1]
    · simp [ConnPos, hst] at h; simp [h.1, hst]

/-- **next_state_announced_closed**: whenever the task announces a state other than `Connected`
    (it is blocked in that callback), it holds no connection: whatever ended the session — a
    disable, a shutdown, the loss of every handle, the peer's EOF or garbage, the timeout limit —
    the connection was dropped BEFORE the announcement. -/
theorem next_state_announced_closed (s : S) (st : St) (next : Phase)
    (hr : Reachable s (.gate st next)) (hst : st ≠ .connected) : s.conn = false := by
  have h := hr.runConn.1
  simp [ConnPos, hst] at h
  exact h.1

/-- … and at `Connected` it does hold one, which the peer has not seen closed -/
theorem connected_announced_open (s : S) (next : Phase) (hr : Reachable s (.gate .connected next)) :
    s.conn = true ∧ s.unreported = false := by
  have h := hr.runConn.1
  simp [ConnPos] at h
  exact ⟨h.1, h.2.1⟩

/-- **closed_before_next_state**: the log of every run satisfies the connection automaton of the
    specification: after `g:Connected` nothing is announced until `closed` has been logged, `closed`
    is directly followed by the next announcement, and `closed` occurs nowhere else. -/
theorem closed_before_next_state (s0 : S) (h0 : Initial s0) (script : List (List Action)) :
    connOk (run s0 script).1.log = true := by
  have h := (Reachable.runConn (s := (run s0 script).1) (pos := (run s0 script).2)
    ⟨s0, script, h0, rfl⟩).2
  unfold connOk
  rw [h]
  cases connFlag (run s0 script).1 (run s0 script).2 <;> rfl

/-- at a callback the peer's observation is read off first: `closed`, then the state -/
theorem report_gate_log (s1 : S) (hu : s1.unreported = true) (st : St) :
    (s1.report.emit (.gate st)).log = s1.log ++ [.closed, .gate st] := by
  simp [S.report, hu, S.emit]

/-- the three user actions that end a session -/
def endsSession : Action → Bool
  | .disable | .shutdown | .dropAll => true
  | _ => false

/-- where the task blocks after the action -/
def gateAfter : Action → Pos
  | .disable => .gate .disabled .waitEnabled
  | _ => .gate .shutdown .finished

/-- the task idles in a session (the peer serves, is silent, … — anything but a peer that is
    already gone), holding the connection; the user performs `a` ∈ {disable, shutdown, drop every
    handle}.  Then the task leaves the session: the connection object is gone (`conn = false`),
    the peer has seen the close (`unreported`), the task blocks at the callback for `Disabled`
    resp. `Shutdown` — and nothing but the action was logged.  At that callback (the next stop,
    whatever the user does there) the environment reads the peer's observation off: the log
    continues with `closed`, then the state, and then only events that concern neither the
    connection nor the state path.  (`_hc` describes the situation — by
    `idle_session_reachable_facts` it holds at every such position of a run —; the task drops
    whatever it holds.) -/
theorem session_end_closes_connection (a : Action) (ha : endsSession a = true) (b : Behaviour)
    (hb : b.fails = false) (s : S) (hg : b.gone s.served = false) (hq : s.queue = [])
    (hh : s.handles = true) (_hc : s.conn = true) (acts : List Action) :
    (stop s (.idle (.session b)) [a]).2 = gateAfter a ∧
    (stop s (.idle (.session b)) [a]).1.conn = false ∧
    (stop s (.idle (.session b)) [a]).1.unreported = true ∧
    (stop s (.idle (.session b)) [a]).1.log = s.log ++ [.idle, .act a] ∧
    (a = .disable → (stop s (.idle (.session b)) [a]).1.enabled = false) ∧
    ∃ evs, (stop (stop s (.idle (.session b)) [a]).1 (gateAfter a) acts).1.log =
        s.log ++ [.idle, .act a, .closed,
          .gate (if a = .disable then .disabled else .shutdown)] ++ evs ∧
      ∀ e ∈ evs, neutral e = true := by
  have hstop : stop s (.idle (.session b)) [a] =
      ({ s with log := s.log ++ [.idle, .act a], conn := false, unreported := true,
                enabled := if a = .disable then false else s.enabled,
                handles := if a = .dropAll then false else true },
        gateAfter a) := by
    cases a <;> simp [endsSession] at ha <;>
      simp [stop, applyAction, hh, hq, fuelFor, advance_succ, step, Res.fin, S.emit, S.closeConn,
        hb, hg, gateAfter]
  rw [hstop]
  refine ⟨rfl, rfl, rfl, rfl, fun h => by simp [h], ?_⟩
  have hpos : gateAfter a =
      .gate (if a = .disable then .disabled else .shutdown)
        (if a = .disable then .waitEnabled else .finished) := by
    cases a <;> simp [endsSession] at ha <;> simp [gateAfter]
  rw [hpos]
  simp only [stop]
  obtain ⟨evs, hl, hne⟩ := (foldl_applyAction_neutral acts _).trans (advance_neutral _ _ _)
  refine ⟨evs, ?_, hne⟩
  rw [hl, report_gate_log _ rfl]
  simp

/-- **Disabled after a disable, which also closes an open connection** — the statement about the
    connection: the task idles in a session with a serving peer, holding the connection; the user
    disables the channel.  The connection object is dropped, its peer sees the close, the enabled
    flag is cleared and the task blocks at the `Disabled` callback; there the log continues
    `closed, g:Disabled`: the close is observed BEFORE `Disabled` is announced. -/
theorem disable_closes_connection' (s : S) (hq : s.queue = []) (hh : s.handles = true)
    (hc : s.conn = true) (acts : List Action) :
    (stop s (.idle (.session .serve)) [.disable]).2 = .gate .disabled .waitEnabled ∧
    (stop s (.idle (.session .serve)) [.disable]).1.conn = false ∧
    (stop s (.idle (.session .serve)) [.disable]).1.enabled = false ∧
    (stop s (.idle (.session .serve)) [.disable]).1.log = s.log ++ [.idle, .act .disable] ∧
    ∃ evs, (stop (stop s (.idle (.session .serve)) [.disable]).1 (.gate .disabled .waitEnabled)
        acts).1.log = s.log ++ [.idle, .act .disable, .closed, .gate .disabled] ++ evs ∧
      ∀ e ∈ evs, neutral e = true := by
  have h := session_end_closes_connection .disable rfl .serve rfl s rfl hq hh hc acts
  exact ⟨h.1, h.2.1, h.2.2.2.2.1 rfl, h.2.2.2.1, h.2.2.2.2.2⟩

/-- **shutdown closes an open connection**: the same for `Channel::shutdown` — the close is
    observed before `Shutdown` is announced -/
theorem shutdown_closes_connection' (s : S) (hq : s.queue = []) (hh : s.handles = true)
    (hc : s.conn = true) (acts : List Action) :
    (stop s (.idle (.session .serve)) [.shutdown]).2 = .gate .shutdown .finished ∧
    (stop s (.idle (.session .serve)) [.shutdown]).1.conn = false ∧
    (stop s (.idle (.session .serve)) [.shutdown]).1.log = s.log ++ [.idle, .act .shutdown] ∧
    ∃ evs, (stop (stop s (.idle (.session .serve)) [.shutdown]).1 (.gate .shutdown .finished)
        acts).1.log = s.log ++ [.idle, .act .shutdown, .closed, .gate .shutdown] ++ evs ∧
      ∀ e ∈ evs, neutral e = true := by
  have h := session_end_closes_connection .shutdown rfl .serve rfl s rfl hq hh hc acts
  exact ⟨h.1, h.2.1, h.2.2.2.1, h.2.2.2.2.2⟩

/-- **dropping every handle closes an open connection**: the same when the last `Channel` is
    dropped -/
theorem drop_closes_connection' (s : S) (hq : s.queue = []) (hh : s.handles = true)
    (hc : s.conn = true) (acts : List Action) :
    (stop s (.idle (.session .serve)) [.dropAll]).2 = .gate .shutdown .finished ∧
    (stop s (.idle (.session .serve)) [.dropAll]).1.conn = false ∧
    (stop s (.idle (.session .serve)) [.dropAll]).1.log = s.log ++ [.idle, .act .dropAll] ∧
    ∃ evs, (stop (stop s (.idle (.session .serve)) [.dropAll]).1 (.gate .shutdown .finished)
        acts).1.log = s.log ++ [.idle, .act .dropAll, .closed, .gate .shutdown] ++ evs ∧
      ∀ e ∈ evs, neutral e = true := by
  have h := session_end_closes_connection .dropAll rfl .serve rfl s rfl hq hh hc acts
  exact ⟨h.1, h.2.1, h.2.2.2.1, h.2.2.2.2.2⟩

/-- the hypotheses of the three theorems describe reachable positions: idle in a session of a
    run ⇒ the connection is held, unreported, the queue is empty -/
theorem idle_session_reachable_facts (s : S) (b : Behaviour) (hr : Reachable s (.idle (.session b))) :
    s.conn = true ∧ s.unreported = false ∧ s.queue = [] := by
  have h := hr.runConn.1
  simp [ConnPos, isSession] at h
  exact ⟨h.2, h.1, hr.idle_empty⟩

/-! ## nothing but `shutdown` after `Shutdown` (log-level form of "afterwards every handle reports
shutdown", for every run) -/

theorem afterShutdownOk_of_not_mem (l : List Ev) (h : St.shutdown ∉ states l) :
    afterShutdownOk l = true := by
  induction l with
  | nil => rfl
  | cons e l ih =>
    cases e
    case gate st =>
      have h1 : st ≠ .shutdown := fun hs => h (by subst hs; simp [states])
      have h2 : St.shutdown ∉ states l := fun hm => h (by simp [states] at hm ⊢; exact Or.inr hm)
      cases st <;> simp_all [afterShutdownOk]
    all_goals
      have h2 : St.shutdown ∉ states l := fun hm => h (by simpa [states] using hm)
      simpa [afterShutdownOk] using ih h2

theorem afterShutdownOk_append_quiet (a b : List Ev) (ha : afterShutdownOk a = true)
    (hb : ∀ e ∈ b, quiet e = true) : afterShutdownOk (a ++ b) = true := by
  induction a with
  | nil =>
    apply afterShutdownOk_of_not_mem
    intro hm
    simp only [List.nil_append, states, List.mem_filterMap] at hm
    obtain ⟨e, he, hst⟩ := hm
    have := hb e he
    cases e <;> simp_all [quiet]
  | cons e a ih =>
    cases e
    case gate st =>
      cases st
      case shutdown =>
        simp only [List.cons_append, afterShutdownOk, List.all_append, Bool.and_eq_true] at ha ⊢
        exact ⟨ha, List.all_eq_true.2 hb⟩
      all_goals simpa [afterShutdownOk] using ih (by simpa [afterShutdownOk] using ha)
    all_goals simpa [afterShutdownOk] using ih (by simpa [afterShutdownOk] using ha)

theorem afterShutdownOk_shutdown_gate (pre rest : List Ev) (hr : ∀ e ∈ rest, quiet e = true)
    (hpre : St.shutdown ∉ states pre) :
    afterShutdownOk (pre ++ .gate .shutdown :: rest) = true := by
  induction pre with
  | nil => simpa [afterShutdownOk] using List.all_eq_true.2 hr
  | cons e pre ih =>
    cases e
    case gate st =>
      have h1 : st ≠ .shutdown := fun hs => hpre (by subst hs; simp [states])
      have h2 : St.shutdown ∉ states pre := fun hm => hpre (by simp [states] at hm ⊢; exact Or.inr hm)
      cases st <;> simp_all [afterShutdownOk]
    all_goals
      have h2 : St.shutdown ∉ states pre := fun hm => hpre (by simpa [states] using hm)
      simpa [afterShutdownOk] using ih h2

/-- user actions while the task lives log `act` events only -/
theorem foldl_applyAction_log (acts : List Action) (s : S) :
    ∃ evs, (acts.foldl applyAction s).log = s.log ++ evs ∧ ∀ e ∈ evs, quiet e = true := by
  induction acts generalizing s with
  | nil => exact ⟨[], by simp, by simp⟩
  | cons a acts ih =>
    obtain ⟨evs, h1, h2⟩ := ih (applyAction s a)
    have ha : ∃ e1, (applyAction s a).log = s.log ++ e1 ∧ ∀ e ∈ e1, quiet e = true := by
      unfold applyAction
      split
      · exact ⟨[], by simp, by simp⟩
      · cases a <;> exact ⟨[_], rfl, by simp [quiet]⟩
    obtain ⟨e1, h3, h4⟩ := ha
    refine ⟨e1 ++ evs, by simp only [List.foldl_cons]; rw [h1, h3, List.append_assoc], ?_⟩
    intro e he
    rcases List.mem_append.1 he with h | h
    · exact h4 e h
    · exact h2 e h

/-- invariant: once `Shutdown` has been logged the task has ended, and the log passes the check -/
def ShutRun (s : S) (pos : Pos) : Prop :=
  (St.shutdown ∈ states s.log → pos = .done) ∧ afterShutdownOk s.log = true

theorem stop_shutRun (s : S) (pos : Pos) (acts : List Action) (hinv : RunInv s pos)
    (h : ShutRun s pos) : ShutRun (stop s pos acts).1 (stop s pos acts).2 := by
  obtain ⟨hd, hok⟩ := h
  cases pos with
  | done =>
    simp only [stop, foldl_applyDone_eq]
    exact ⟨fun _ => rfl, afterShutdownOk_append_quiet _ _ hok (afterEvents_quiet _ _)⟩
  | idle ph =>
    have hno : St.shutdown ∉ states s.log := fun hm => by simpa using hd hm
    simp only [stop]
    have hf := foldl_applyAction_frame acts (s.emit .idle)
    generalize acts.foldl applyAction (s.emit .idle) = s2 at hf
    have hst : states (advance (fuelFor s2) ph s2).1.log = states s.log := by
      rw [advance_states, hf.1]; simp
    have hno' : St.shutdown ∉ states (advance (fuelFor s2) ph s2).1.log := by rw [hst]; exact hno
    exact ⟨fun hm => absurd hm hno', afterShutdownOk_of_not_mem _ hno'⟩
  | gate st next =>
    have hno : St.shutdown ∉ states s.log := fun hm => by simpa using hd hm
    by_cases hst : st = .shutdown
    · subst hst
      have hnext : next = .finished := by
        have := hinv.2.2.2.1.1
        cases next <;> simp_all [phaseOk]
      subst hnext
      simp only [stop, fuelFor_succ, advance_succ, step, Res.fin]
      obtain ⟨evs, hl, hq⟩ := foldl_applyAction_log acts (s.report.emit (.gate .shutdown))
      refine ⟨fun _ => rfl, ?_⟩
      simp only [flush_log, hl, emit_log, List.append_assoc, List.singleton_append]
      apply afterShutdownOk_shutdown_gate
      · intro e he
        rcases List.mem_append.1 he with h | h
        · exact hq e h
        · simp only [shutdownEvents, List.mem_filterMap] at h
          obtain ⟨c, _, hc⟩ := h
          cases c <;> simp at hc
          subst hc; rfl
      · simpa using hno
    · simp only [stop]
      have hf := foldl_applyAction_frame acts (s.report.emit (.gate st))
      generalize acts.foldl applyAction (s.report.emit (.gate st)) = s2 at hf
      have hst' : states (advance (fuelFor s2) next s2).1.log = states s.log ++ [st] := by
        rw [advance_states, hf.1]; simp
      have hno' : St.shutdown ∉ states (advance (fuelFor s2) next s2).1.log := by
        rw [hst']
        simp only [List.mem_append, List.mem_singleton, not_or]
        exact ⟨hno, fun h => hst h.symm⟩
      exact ⟨fun hm => absurd hm hno', afterShutdownOk_of_not_mem _ hno'⟩

theorem runStops_shutRun (script : List (List Action)) (s : S) (pos : Pos) (hinv : RunInv s pos)
    (h : ShutRun s pos) : ShutRun (runStops s pos script).1 (runStops s pos script).2 := by
  induction script generalizing s pos with
  | nil => simpa [runStops] using h
  | cons acts rest ih =>
    rw [runStops_cons]
    exact ih _ _ (stop_runInv s pos acts hinv) (stop_shutRun s pos acts hinv h)

/-- **nothing_after_shutdown**: in the log of every run (every script — stops after the end of
    the task included —, every peer, every resolution of the races), once `Shutdown` has been
    announced no state is announced any more, no idle period and no connection event is observed,
    and every completion is `shutdown` (`Spec.LifeObs.afterShutdownOk`); and the task has ended
    (`Pos.done`) as soon as the callback announcing `Shutdown` has returned. -/
theorem nothing_after_shutdown (s0 : S) (h0 : Initial s0) (script : List (List Action)) :
    afterShutdownOk (run s0 script).1.log = true ∧
    (St.shutdown ∈ states (run s0 script).1.log → (run s0 script).2 = .done) := by
  have hstart : ShutRun (start s0).1 (start s0).2 := by
    obtain ⟨_, _, _, h4, _⟩ := h0
    simp [ShutRun, start, h4, states, afterShutdownOk]
  have := runStops_shutRun script _ _ (runInv_start s0 h0) hstart
  exact ⟨this.2, this.1⟩

/-- the log of every run passes all four checks of the specification side of the driver
    (`lifeVerdict`): legal state path, connections closed in time, delays conform, nothing but
    `shutdown` after `Shutdown` — the last three are `closed_before_next_state`,
    `C14Life.logged_delays_conform` and this section -/
example : afterShutdownOk [.gate .disabled, .gate .shutdown, .act (.request 1),
    .done 1 "shutdown", .refused .enable, .act .dropAll] = true := by decide
example : afterShutdownOk [.gate .disabled, .gate .shutdown, .act (.request 1),
    .done 1 "noconn"] = false := by decide
example : afterShutdownOk [.gate .disabled, .gate .shutdown, .idle] = false := by decide

/-- non-vacuity: enable, connect, idle, disable — the harness log
    `g:Disabled;a:E;g:Connecting;g:Connected;idle;a:D;closed;g:Disabled;idle` -/
example :
    (run { retry := Retry.create 30 120, behaviours := [.serve] }
      [[.enable], [], [], [.disable], [], []]).1.log =
    [.gate .disabled, .act .enable, .gate .connecting, .gate .connected, .idle, .act .disable,
     .closed, .gate .disabled, .idle] := by decide

/-- the automaton rejects a state announced with the connection still open, a missing and a
    stray `closed` -/
example : connOk [.gate .disabled, .gate .connecting, .gate .connected, .idle, .act .disable,
    .gate .disabled] = false := by decide
example : connOk [.gate .disabled, .gate .connecting, .gate .connected, .closed, .idle,
    .gate .disabled] = false := by decide
example : connOk [.gate .disabled, .closed, .gate .connecting] = false := by decide
example : connOk [.gate .disabled, .gate .connecting, .gate .connected, .idle, .act .disable,
    .closed, .gate .disabled] = true := by decide

end Rodbus.C13
