#!/usr/bin/env python3
"""Translator: finite tables and constants of the Rust sources -> lean/RodbusModel/Gen/Tables.lean.

Deliberately limited to constants and `match` tables (no control flow).  The generated file is
compared, by `decide` theorems in Props/*, with the hand-written model, so a changed arm or
constant breaks a proof obligation.  If a source no longer has the shape expected here the
translator raises TranslateError, which check.py reports as a broken tie.
"""
import os
import re
import sys

REPO = os.environ.get("VERIF_REPO", "/repo")
OUT = os.path.join(os.path.dirname(os.path.abspath(__file__)), "..", "lean", "RodbusModel", "Gen", "Tables.lean")
if not os.path.isdir(os.path.join(os.path.dirname(os.path.abspath(__file__)), "..", "lean")):
    OUT = os.path.join(os.path.dirname(os.path.abspath(__file__)), "lean", "RodbusModel", "Gen", "Tables.lean")


class TranslateError(Exception):
    pass


def read(rel):
    p = os.path.join(REPO, rel)
    try:
        return open(p).read()
    except OSError as e:
        raise TranslateError(f"cannot read {rel}: {e}")


def strip_comments(s):
    s = re.sub(r"/\*.*?\*/", "", s, flags=re.S)
    return re.sub(r"//[^\n]*", "", s)


def block_after(src, header_re, what):
    """text inside the braces that follow the first match of header_re"""
    m = re.search(header_re, src, flags=re.S)
    if not m:
        raise TranslateError(f"shape changed: cannot find {what}")
    i = src.index("{", m.end() - 1) if src[m.end() - 1] != "{" else m.end() - 1
    depth = 0
    for j in range(i, len(src)):
        if src[j] == "{":
            depth += 1
        elif src[j] == "}":
            depth -= 1
            if depth == 0:
                return src[i + 1:j]
    raise TranslateError(f"unbalanced braces in {what}")


def match_arms(block):
    """split the body of a `match` into (pattern, expression) pairs at top level"""
    arms = []
    depth = 0
    cur = ""
    i = 0
    parts = []
    while i < len(block):
        c = block[i]
        if c in "({[":
            depth += 1
        elif c in ")}]":
            depth -= 1
        if c == "," and depth == 0:
            parts.append(cur)
            cur = ""
        else:
            cur += c
            # an arm whose body is a block `{ ... }` ends without a comma
            if c == "}" and depth == 0 and "=>" in cur:
                parts.append(cur)
                cur = ""
        i += 1
    if cur.strip():
        parts.append(cur)
    for p in parts:
        if "=>" not in p:
            continue
        pat, expr = p.split("=>", 1)
        expr = expr.strip()
        if expr.startswith("{") and expr.endswith("}"):
            expr = expr[1:-1].strip()
        arms.append((" ".join(pat.split()), " ".join(expr.split())))
    return arms


def inner_match(block, what):
    m = re.search(r"match\s+[^{]+\{", block)
    if not m:
        raise TranslateError(f"shape changed: no match in {what}")
    return block_after(block[m.start():], r"match\s+[^{]+\{", what)


def const_values(src, names_re=r"[A-Z_0-9]+"):
    out = {}
    for m in re.finditer(r"const\s+(" + names_re + r")\s*:\s*(u8|u16|usize)\s*=\s*([^;]+);", src):
        out[m.group(1)] = m.group(3).strip()
    return out


def num(s, env=None):
    s = s.strip()
    try:
        return int(s.replace("_", ""), 0)
    except ValueError:
        pass
    env = env or {}
    expr = s
    for k in sorted(env, key=len, reverse=True):
        expr = re.sub(r"(?:[A-Za-z_:]*::)?\b" + k + r"\b", str(env[k]), expr)
    if re.fullmatch(r"[0-9xXa-fA-F+\-*<>|& ()]+", expr):
        return int(eval(expr))
    raise TranslateError(f"cannot evaluate constant expression: {s}")


CAMEL = {
    "ReadCoils": "readCoils", "ReadDiscreteInputs": "readDiscreteInputs",
    "ReadHoldingRegisters": "readHoldingRegisters", "ReadInputRegisters": "readInputRegisters",
    "WriteSingleCoil": "writeSingleCoil", "WriteSingleRegister": "writeSingleRegister",
    "WriteMultipleCoils": "writeMultipleCoils", "WriteMultipleRegisters": "writeMultipleRegisters",
}
SNAKE = {
    "read_coils": "readCoils", "read_discrete_inputs": "readDiscreteInputs",
    "read_holding_registers": "readHoldingRegisters", "read_input_registers": "readInputRegisters",
    "write_single_coil": "writeSingleCoil", "write_single_register": "writeSingleRegister",
    "write_multiple_coils": "writeMultipleCoils", "write_multiple_registers": "writeMultipleRegisters",
}


def fc_of(pattern):
    m = re.search(r"(?:FunctionCode|Request|RequestDetails|BroadcastRequest)::(\w+)", pattern)
    if not m or m.group(1) not in CAMEL:
        raise TranslateError(f"unknown function-code pattern: {pattern}")
    return CAMEL[m.group(1)]


STATUS = {"failed": {}, "defs": {}}   # filled by translate() / main(): which sections could not be regenerated
# committed copies of the generated files for the unchanged tree: the text a section falls back to
GOOD = os.path.join(os.path.dirname(os.path.abspath(__file__)), "gen_good")
# sections whose regenerated text contradicted the model in a table theorem (set by check.py for a
# second pass): they fall back to the committed text and are decided by behaviour, like sections
# that cannot be regenerated at all
DISPUTED = {x for x in os.environ.get("VERIF_DISPUTED", "").split(",") if x}


def old_sections(path):
    """section name -> lines of the previously generated file (used when a section cannot be regenerated)"""
    secs, cur = {}, None
    if os.path.exists(path):
        for line in open(path).read().split("\n"):
            m = re.match(r"-- §(\w+)$", line)
            if m:
                cur = m.group(1)
                secs[cur] = []
            elif cur is not None and not line.startswith("end Rodbus.Gen"):
                secs[cur].append(line)
    return secs


def translate():
    """The generated file is cut into sections (one per Rust source construct).  A section whose
    source no longer has the expected shape keeps its previous text, and is recorded in STATUS:
    check.py then reports a broken tie for exactly the properties whose theorems mention one of the
    definitions of that section, instead of for every property."""
    L = []
    emit = L.append
    emit("/-  GENERATED by tools/translate.py from the Rust sources of /repo on every run. DO NOT EDIT. -/")
    emit("import RodbusModel.Model.Codec")
    emit("namespace Rodbus.Gen")
    emit("")
    old = old_sections(os.path.join(GOOD, "Tables.lean"))
    X = {}   # values shared between sections

    def section(name, fn):
        buf = []
        try:
            if name in DISPUTED:
                raise TranslateError("disputed: the regenerated table contradicts the model in a table theorem")
            fn(buf.append)
        except Exception as e:   # shape changed (TranslateError) or anything derived from it
            STATUS["failed"][name] = f"{type(e).__name__}: {e}"
            buf = list(old.get(name, []))
            while buf and buf[-1] == "":
                buf.pop()
        emit(f"-- §{name}")
        for line in buf:
            emit(line)
            m = re.match(r"def (\w+)", line)
            if m:
                STATUS["defs"][m.group(1)] = name

    ENAMES = {
        "IllegalFunction": "illegalFunction", "IllegalDataAddress": "illegalDataAddress",
        "IllegalDataValue": "illegalDataValue", "ServerDeviceFailure": "serverDeviceFailure",
        "Acknowledge": "acknowledge", "ServerDeviceBusy": "serverDeviceBusy",
        "MemoryParityError": "memoryParityError", "GatewayPathUnavailable": "gatewayPathUnavailable",
        "GatewayTargetDeviceFailedToRespond": "gatewayTargetDeviceFailedToRespond",
    }

    def load_consts():
        if "consts" not in X:
            c = strip_comments(read("rodbus/src/constants.rs"))
            X["consts"] = const_values(c)
        return X["consts"]

    def exc_consts():
        return {k: num(v) for k, v in load_consts().items() if k not in ("ON", "OFF") and not k.startswith("MAX_")}

    # ---- constants.rs
    def sec_limits(emit):
        consts = load_consts()
        for k in ("MAX_READ_COILS_COUNT", "MAX_READ_REGISTERS_COUNT", "MAX_WRITE_COILS_COUNT",
                  "MAX_WRITE_REGISTERS_COUNT", "ON", "OFF"):
            if k not in consts:
                raise TranslateError(f"constants.rs: {k} not found")
        emit(f"def maxReadCoils : Nat := {num(consts['MAX_READ_COILS_COUNT'])}")
        emit(f"def maxReadRegisters : Nat := {num(consts['MAX_READ_REGISTERS_COUNT'])}")
        emit(f"def maxWriteCoils : Nat := {num(consts['MAX_WRITE_COILS_COUNT'])}")
        emit(f"def maxWriteRegisters : Nat := {num(consts['MAX_WRITE_REGISTERS_COUNT'])}")
        emit(f"def coilOn : Nat := {num(consts['ON'])}")
        emit(f"def coilOff : Nat := {num(consts['OFF'])}")
    section("limits", sec_limits)

    # ---- function codes
    def sec_function_codes(emit):
        f = strip_comments(read("rodbus/src/common/function.rs"))
        fconsts = {k: num(v) for k, v in const_values(f).items()}
        enum_block = block_after(f, r"enum\s+FunctionCode\s*\{", "enum FunctionCode")
        rows = []
        for m in re.finditer(r"(\w+)\s*=\s*constants::(\w+)", enum_block):
            rows.append((CAMEL[m.group(1)], fconsts[m.group(2)]))
        if len(rows) != 8:
            raise TranslateError("enum FunctionCode: expected 8 variants")
        emit("/-- `FunctionCode` discriminants (`get_value`) -/")
        emit("def fcValue : List (Fc × Nat) := [" + ", ".join(f"(.{n}, {v})" for n, v in rows) + "]")
        get_block = inner_match(block_after(f, r"fn\s+get\s*\(value:\s*u8\)[^{]*\{", "FunctionCode::get"), "FunctionCode::get")
        rows = []
        wildcard_none = False
        for pat, expr in match_arms(get_block):
            if pat.strip() == "_":
                wildcard_none = expr.strip() == "None"
                continue
            mm = re.search(r"constants::(\w+)", pat)
            me = re.search(r"Some\(FunctionCode::(\w+)\)", expr)
            if not mm or not me:
                raise TranslateError(f"FunctionCode::get arm not understood: {pat} => {expr}")
            rows.append((fconsts[mm.group(1)], CAMEL[me.group(1)]))
        if not wildcard_none:
            raise TranslateError("FunctionCode::get: wildcard arm is not `_ => None`")
        emit("/-- `FunctionCode::get`: the listed bytes map to `Some`, every other byte to `None` -/")
        emit("def fcGet : List (Nat × Fc) := [" + ", ".join(f"({v}, .{n})" for v, n in rows) + "]")
        as_err = re.search(r"fn\s+as_error\(self\)\s*->\s*u8\s*\{\s*self\.get_value\(\)\s*\|\s*(0x[0-9a-fA-F]+|\d+)\s*\}", f)
        if not as_err:
            raise TranslateError("FunctionCode::as_error shape changed")
        emit(f"def errorMask : Nat := {num(as_err.group(1))}")
    section("function_codes", sec_function_codes)

    # ---- exception codes
    def sec_exception_codes(emit):
        e = strip_comments(read("rodbus/src/exception.rs"))
        ec = exc_consts()
        fb = inner_match(block_after(e, r"impl\s+From<u8>\s+for\s+ExceptionCode\s*\{", "From<u8> for ExceptionCode"), "From<u8>")
        rows = []
        for pat, expr in match_arms(fb):
            if pat.strip() == "_":
                if expr.replace(" ", "") != "ExceptionCode::Unknown(value)":
                    raise TranslateError("From<u8> for ExceptionCode: wildcard arm changed")
                continue
            mm = re.search(r"exceptions::(\w+)", pat)
            me = re.search(r"ExceptionCode::(\w+)", expr)
            rows.append((ec[mm.group(1)], ENAMES[me.group(1)]))
        emit("/-- `From<u8> for ExceptionCode`: listed bytes, every other byte `b` maps to `Unknown(b)` -/")
        emit("def exOfByte : List (Nat × ExCode) := [" + ", ".join(f"({v}, .{n})" for v, n in rows) + "]")
        tb = inner_match(block_after(e, r"impl\s+From<ExceptionCode>\s+for\s+u8\s*\{", "From<ExceptionCode> for u8"), "From<ExceptionCode>")
        rows = []
        for pat, expr in match_arms(tb):
            me = re.search(r"ExceptionCode::(\w+)", pat)
            if me.group(1) == "Unknown":
                if expr.strip() != "value":
                    raise TranslateError("From<ExceptionCode> for u8: Unknown arm changed")
                continue
            mm = re.search(r"exceptions::(\w+)", expr)
            rows.append((ENAMES[me.group(1)], ec[mm.group(1)]))
        emit("/-- `From<ExceptionCode> for u8`: named variants; `Unknown(b)` maps to `b` -/")
        emit("def exToByte : List (ExCode × Nat) := [" + ", ".join(f"(.{n}, {v})" for n, v in rows) + "]")
    section("exception_codes", sec_exception_codes)

    # ---- frame constants.  (How the header fields are *checked* is not translated: the byte-level
    # behaviour of the parsers is tied by the differential reader suites, which a rewrite that keeps
    # the behaviour leaves intact.)
    def sec_frame_constants(emit):
        cf = strip_comments(read("rodbus/src/common/frame.rs"))
        adu = num(const_values(cf)["MAX_ADU_LENGTH"])
        tf = strip_comments(read("rodbus/src/tcp/frame.rs"))
        tconst = const_values(tf)
        env = {"MAX_ADU_LENGTH": adu}
        hdr = num(tconst["HEADER_LENGTH"], env)
        env["HEADER_LENGTH"] = hdr
        tcp_max = num(tconst["MAX_FRAME_LENGTH"], env)
        max_len_field = num(tconst["MAX_LENGTH_FIELD"], env)
        sf = strip_comments(read("rodbus/src/serial/frame.rs"))
        sconst = const_values(sf)
        senv = {"MAX_ADU_LENGTH": adu}
        for k in ("HEADER_LENGTH", "FUNCTION_CODE_LENGTH", "CRC_LENGTH"):
            senv[k] = num(sconst[k], senv)
        rtu_max = num(sconst["MAX_FRAME_LENGTH"], senv)
        emit(f"def maxAduLength : Nat := {adu}")
        emit(f"def mbapHeaderLength : Nat := {hdr}")
        emit(f"def mbapMaxFrameLength : Nat := {tcp_max}")
        emit(f"def mbapMaxLengthField : Nat := {max_len_field}")
        emit(f"def rtuHeaderLength : Nat := {senv['HEADER_LENGTH']}")
        emit(f"def rtuFunctionCodeLength : Nat := {senv['FUNCTION_CODE_LENGTH']}")
        emit(f"def rtuCrcLength : Nat := {senv['CRC_LENGTH']}")
        emit(f"def rtuMaxFrameLength : Nat := {rtu_max}")
        emit(f"def readBufferCapacity : Nat := {max(tcp_max, rtu_max)}")
    section("frame_constants", sec_frame_constants)

    # ---- RTU length_mode
    def sec_length_mode(emit):
        sf = strip_comments(read("rodbus/src/serial/frame.rs"))
        lm = block_after(sf, r"fn\s+length_mode\(&self,\s*function_code:\s*u8\)\s*->\s*LengthMode\s*\{", "length_mode")
        outer = block_after(lm, r"match\s+self\.parser_type\s*\{", "length_mode match")
        rows = []
        for direction in ("Request", "Response"):
            blk = block_after(outer, r"ParserType::" + direction + r"\s*=>\s*match\s+function_code\s*\{", f"length_mode {direction}")
            for pat, expr in match_arms(blk):
                mode = re.fullmatch(r"LengthMode::(Fixed|Offset)\((\d+)\)", expr.strip())
                if not mode:
                    raise TranslateError(f"length_mode arm not understood: {expr}")
                rows.append((direction == "Response", fc_of(pat), mode.group(1) == "Offset", int(mode.group(2))))
        emit("/-- `RtuParser::length_mode`: (response?, function, offset-mode?, n) -/")
        emit("def lengthMode : List (Bool × Fc × Bool × Nat) := [" +
             ", ".join(f"({str(a).lower()}, .{b}, {str(c).lower()}, {d})" for a, b, c, d in rows) + "]")
    section("length_mode", sec_length_mode)

    # ---- check_authorization
    def sec_auth_table(emit):
        st = strip_comments(read("rodbus/src/server/task.rs"))
        ca = inner_match(block_after(st, r"fn\s+check_authorization\s*\(", "check_authorization"), "check_authorization")
        rows = []
        for pat, expr in match_arms(ca):
            m = re.fullmatch(r"handler\.(\w+)\(unit_id,\s*x\.(inner|range|index),\s*role\)", expr.strip())
            if not m:
                raise TranslateError(f"check_authorization arm not understood: {expr}")
            rows.append((fc_of(pat), SNAKE[m.group(1)], m.group(2) == "index"))
        emit("/-- `check_authorization`: request kind ↦ (callback, argument is the index?) -/")
        emit("def authTable : List (Fc × Fc × Bool) := [" +
             ", ".join(f"(.{a}, .{b}, {str(c).lower()})" for a, b, c in rows) + "]")
    section("auth_table", sec_auth_table)

    def sec_deny(emit):
        st = strip_comments(read("rodbus/src/server/task.rs"))
        # the deny branch: the exception code it replies with
        deny = block_after(st, r"Authorization::Deny\s*=", "deny branch")
        m = re.search(r"ExceptionCode::(\w+)", deny)
        if not m:
            raise TranslateError("deny branch: no exception code")
        emit(f"def denyException : ExCode := .{ENAMES[m.group(1)]}")
    section("deny", sec_deny)

    # ---- handler.rs: default policy and read-only policy
    def sec_policies(emit):
        sh = strip_comments(read("rodbus/src/server/handler.rs"))
        trait_block = block_after(sh, r"pub\s+trait\s+AuthorizationHandler[^{]*\{", "trait AuthorizationHandler")
        ro_block = block_after(sh, r"impl\s+AuthorizationHandler\s+for\s+ReadOnlyAuthorizationHandler\s*\{", "ReadOnlyAuthorizationHandler")

        def policy(block, what):
            rows = []
            for m in re.finditer(r"fn\s+(\w+)\s*\([^)]*\)\s*->\s*Authorization\s*\{\s*Authorization::(Allow|Deny)\s*\}", block, flags=re.S):
                if m.group(1) in SNAKE:
                    rows.append((SNAKE[m.group(1)], m.group(2) == "Allow"))
            if len(rows) != 8:
                raise TranslateError(f"{what}: expected 8 methods with a constant decision, found {len(rows)}")
            return rows
        a = policy(trait_block, "AuthorizationHandler defaults")
        b = policy(ro_block, "ReadOnlyAuthorizationHandler")
        emit("def defaultPolicy : List (Fc × Bool) := [" + ", ".join(f"(.{x}, {str(y).lower()})" for x, y in a) + "]")
        emit("def readOnlyPolicy : List (Fc × Bool) := [" + ", ".join(f"(.{x}, {str(y).lower()})" for x, y in b) + "]")
    section("policies", sec_policies)

    # ---- request.rs: broadcastable kinds, get_function
    def sec_broadcast(emit):
        rq = strip_comments(read("rodbus/src/server/request.rs"))
        ib = inner_match(block_after(rq, r"fn\s+into_broadcast_request\(self\)[^{]*\{", "into_broadcast_request"), "into_broadcast_request")
        rows = []
        for pat, expr in match_arms(ib):
            k = fc_of(pat)
            if expr.strip() == "None":
                rows.append((k, None))
            else:
                m = re.fullmatch(r"Some\(BroadcastRequest::(\w+)\(x\)\)", expr.strip())
                if not m:
                    raise TranslateError(f"into_broadcast_request arm not understood: {expr}")
                rows.append((k, CAMEL[m.group(1)]))
        emit("def broadcastTable : List (Fc × Option Fc) := [" +
             ", ".join(f"(.{a}, {'none' if b is None else 'some .' + b})" for a, b in rows) + "]")
    section("broadcast", sec_broadcast)

    def sec_request_function(emit):
        rq = strip_comments(read("rodbus/src/server/request.rs"))
        gf = inner_match(block_after(rq, r"fn\s+get_function\(&self\)\s*->\s*FunctionCode\s*\{", "get_function"), "get_function")
        rows = [(fc_of(p), CAMEL[re.search(r"FunctionCode::(\w+)", x).group(1)]) for p, x in match_arms(gf)]
        emit("def requestFunction : List (Fc × Fc) := [" + ", ".join(f"(.{a}, .{b})" for a, b in rows) + "]")
    section("request_function", sec_request_function)

    # limits applied by the server parser
    def sec_server_limits(emit):
        consts = load_consts()
        rq = strip_comments(read("rodbus/src/server/request.rs"))
        rp = block_after(rq, r"pub\(crate\)\s+fn\s+parse\s*\(", "Request::parse")
        lim_rows = []
        for pat, expr in match_arms(inner_match(rp, "Request::parse")):
            k = fc_of(pat)
            lim = re.search(r"\.(of_read_bits|of_read_registers|of_write_coils|of_write_registers)\(\)", expr)
            lim_rows.append((k, lim.group(1) if lim else None))
        ty = strip_comments(read("rodbus/src/types.rs"))
        limit_of = {}
        for fn in ("of_read_bits", "of_read_registers", "of_write_coils", "of_write_registers"):
            m = re.search(r"fn\s+" + fn + r"\(self\)[^{]*\{[^}]*limited_count\(\s*(?:crate::)?constants::limits::(\w+)\s*\)", ty, flags=re.S)
            if m:
                limit_of[fn] = num(consts[m.group(1)])
        emit("/-- quantity limit that `Request::parse` applies per function (`none` = no limit applied) -/")
        emit("def serverLimit : List (Fc × Option Nat) := [" +
             ", ".join(f"(.{k}, {'none' if v is None or v not in limit_of else 'some ' + str(limit_of[v])})" for k, v in lim_rows) + "]")
    section("server_limits", sec_server_limits)

    # ---- client/task.rs: which request errors end the session
    def sec_session_ending(emit):
        ct = strip_comments(read("rodbus/src/client/task.rs"))
        fre = inner_match(block_after(ct, r"fn\s+from_request_err\(err:\s*RequestError\)\s*->\s*Option<Self>\s*\{", "from_request_err"), "from_request_err")
        rows = []
        for pat, expr in match_arms(fre):
            if pat.strip() == "_":
                if expr.strip() != "None":
                    raise TranslateError("from_request_err: wildcard arm changed")
                continue
            m = re.search(r"RequestError::(\w+)", pat)
            me = re.search(r"SessionError::(\w+)", expr)
            rows.append((m.group(1), me.group(1)))
        emit("/-- `SessionError::from_request_err`: request errors that end the session -/")
        emit("def sessionEnding : List (String × String) := [" +
             ", ".join(f'("{a}", "{b}")' for a, b in rows) + "]")
    section("session_ending", sec_session_ending)

    # ---- TLS minimum version
    def sec_tls_versions(emit):
        tc = strip_comments(read("rodbus/src/tcp/tls/client.rs"))
        tv = inner_match(block_after(tc, r"impl\s+From<MinTlsVersion>\s+for\s+ProtocolVersions\s*\{", "From<MinTlsVersion>"), "From<MinTlsVersion>")
        rows = []
        for pat, expr in match_arms(tv):
            m = re.search(r"MinTlsVersion::(V1_2|V1_3)", pat)
            x = expr.replace(" ", "")
            v12 = "v12_only()" in x or "enable_v12()" in x
            v13 = "v13_only()" in x or "enable_v13()" in x
            if not (v12 or v13):
                raise TranslateError(f"From<MinTlsVersion>: arm not understood: {expr}")
            rows.append((m.group(1) == "V1_3", v12, v13))
        emit("/-- `From<MinTlsVersion> for ProtocolVersions`: (min is 1.3?, enables 1.2?, enables 1.3?) -/")
        emit("def tlsVersions : List (Bool × Bool × Bool) := [" +
             ", ".join(f"({str(a).lower()}, {str(b).lower()}, {str(c).lower()})" for a, b, c in rows) + "]")
    section("tls_versions", sec_tls_versions)

    emit("")
    emit("end Rodbus.Gen")
    return "\n".join(L) + "\n"


# ====================================================================== C ABI (rodbus-ffi)

FFI_SRC_OVERRIDE = os.environ.get("VERIF_FFI_SRC")  # directory with patched copies (development only)
FFI_OUT = os.path.join(os.path.dirname(os.path.abspath(__file__)), "..", "lean", "RodbusModel", "Gen", "FfiTables.lean")
if not os.path.isdir(os.path.dirname(os.path.dirname(os.path.normpath(FFI_OUT)))):
    # running from the work directory: translate.py sits next to lean/
    FFI_OUT = os.path.join(os.path.dirname(os.path.abspath(__file__)), "lean", "RodbusModel", "Gen", "FfiTables.lean")


def read_ffi(rel):
    """an FFI source file; VERIF_FFI_SRC/<basename or rel> overrides /repo/<rel>"""
    if FFI_SRC_OVERRIDE:
        for cand in (os.path.join(FFI_SRC_OVERRIDE, rel), os.path.join(FFI_SRC_OVERRIDE, os.path.basename(rel))):
            if os.path.exists(cand):
                return open(cand).read()
    return read(rel)


def lstr(s):
    return '"' + s.replace("\\", "\\\\").replace('"', '\\"') + '"'


def lpairs(rows):
    return "[" + ", ".join("(" + ", ".join(lstr(x) for x in r) + ")" for r in rows) + "]"


def last_seg(path):
    """`ffi::RequestError::InternalError` -> InternalError; `Foo::Bar(_)` -> Bar"""
    path = path.strip()
    path = re.sub(r"\(.*\)$", "", path, flags=re.S).strip()
    return path.split("::")[-1].strip()


def squash(s):
    return re.sub(r"\s+", "", s)


def all_blocks(src, header_re, what, minimum=1):
    """[(match object, body)] for every occurrence of header_re followed by a brace block"""
    out = []
    for m in re.finditer(header_re, src, flags=re.S):
        i = src.index("{", m.end() - 1) if src[m.end() - 1] != "{" else m.end() - 1
        depth = 0
        for j in range(i, len(src)):
            if src[j] == "{":
                depth += 1
            elif src[j] == "}":
                depth -= 1
                if depth == 0:
                    out.append((m, src[i + 1:j]))
                    break
    if len(out) < minimum:
        raise TranslateError(f"shape changed: cannot find {what}")
    return out


def matches_in(block, what):
    """{matched expression (whitespace removed): [(pattern, expr)]} for every `match` in block"""
    out = {}
    for m, body in all_blocks(block, r"match\s+([^{;]+?)\s*\{", what, minimum=0):
        out[squash(m.group(1))] = match_arms(body)
    return out


def simple_enum_arms(arms, what):
    rows = []
    for pat, expr in arms:
        if "::" not in pat or "::" not in expr:
            raise TranslateError(f"{what}: arm not understood: {pat} => {expr}")
        rows.append((last_seg(pat), last_seg(expr)))
    return rows


def call_args(src, fn_re, what):
    """argument texts of the first call matching fn_re (top-level comma split)"""
    m = re.search(fn_re + r"\s*\(", src)
    if not m:
        raise TranslateError(f"shape changed: no call of {what}")
    i = m.end()
    depth = 1
    args, cur = [], ""
    while i < len(src):
        c = src[i]
        if c in "([{":
            depth += 1
        elif c in ")]}":
            depth -= 1
            if depth == 0:
                break
        if c == "," and depth == 1:
            args.append(cur)
            cur = ""
        else:
            cur += c
        i += 1
    if cur.strip():
        args.append(cur)
    return [" ".join(a.split()) for a in args]


def fn_params(src, fn_name, what):
    m = re.search(r"fn\s+" + fn_name + r"\s*(?:<[^>]*>)?\s*\(", src)
    if not m:
        raise TranslateError(f"shape changed: no fn {what}")
    args = call_args(src[m.start():], r"fn\s+" + fn_name + r"\s*(?:<[^>]*>)?", what)
    return [a.split(":")[0].strip().lstrip("_") for a in args]


def translate_ffi():
    L = []
    emit = L.append
    emit("/-  GENERATED by translate.py from the sources of /repo/ffi/rodbus-ffi on every run. DO NOT EDIT.")
    emit("    Every row is text taken from a `match` arm / expression of the Rust source. -/")
    emit("namespace Rodbus.Gen.Ffi")
    emit("")
    conv = strip_comments(read_ffi("ffi/rodbus-ffi/src/helpers/conversions.rs"))
    ext = strip_comments(read_ffi("ffi/rodbus-ffi/src/helpers/ext.rs"))
    client = strip_comments(read_ffi("ffi/rodbus-ffi/src/client.rs"))
    server = strip_comments(read_ffi("ffi/rodbus-ffi/src/server.rs"))
    errs = strip_comments(read_ffi("ffi/rodbus-ffi/src/error.rs"))
    lib = strip_comments(read_ffi("ffi/rodbus-ffi/src/lib.rs"))
    database = strip_comments(read_ffi("ffi/rodbus-ffi/src/database.rs"))

    def impl_block(src, header, what):
        return all_blocks(src, header, what)[0][1]

    # ---- From<rodbus::RequestError> for ffi::RequestError
    blk = impl_block(conv, r"impl\s+From<rodbus::RequestError>\s+for\s+ffi::RequestError\s*\{", "From<RequestError>")
    rows = []
    for pat, expr in match_arms(inner_match(blk, "From<RequestError>")):
        v = last_seg(pat)
        e = squash(expr)
        if re.fullmatch(r"ffi::RequestError::\w+", e):
            rows.append((v, last_seg(e)))
        elif v == "Exception" and re.fullmatch(r"rodbus::RequestError::Exception\((\w+)\)", squash(pat)) and \
                e == re.fullmatch(r"rodbus::RequestError::Exception\((\w+)\)", squash(pat)).group(1) + ".into()":
            rows.append((v, "@exception.into()"))
        else:
            rows.append((v, "?" + e))
    emit("/-- `impl From<rodbus::RequestError> for ffi::RequestError`: (Rust variant, C-ABI variant) -/")
    emit("def requestErrorArms : List (String × String) := " + lpairs(rows))

    # ---- From<rodbus::ExceptionCode> for ffi::RequestError
    blk = impl_block(conv, r"impl\s+From<rodbus::ExceptionCode>\s+for\s+ffi::RequestError\s*\{", "From<ExceptionCode>")
    rows = simple_enum_arms(match_arms(inner_match(blk, "From<ExceptionCode>")), "From<ExceptionCode>")
    emit("/-- `impl From<rodbus::ExceptionCode> for ffi::RequestError` -/")
    emit("def exceptionArms : List (String × String) := " + lpairs(rows))

    # ---- decode levels
    blk = impl_block(conv, r"impl\s+From<ffi::DecodeLevel>\s+for\s+rodbus::DecodeLevel\s*\{", "From<DecodeLevel>")
    ms = matches_in(blk, "From<DecodeLevel>")
    for key, name in (("level.app()", "appDecodeArms"), ("level.frame()", "frameDecodeArms"), ("level.physical()", "physDecodeArms")):
        if key not in ms:
            raise TranslateError(f"From<DecodeLevel>: no match on {key}")
        emit(f"def {name} : List (String × String) := " + lpairs(simple_enum_arms(ms[key], name)))
    fields = re.findall(r"(\w+)\s*:\s*match\s+level\.(\w+)\(\)", blk)
    emit("/-- which accessor feeds which field of `rodbus::DecodeLevel` -/")
    emit("def decodeLevelFields : List (String × String) := " + lpairs(fields))

    # ---- serial settings
    blk = impl_block(conv, r"impl\s+From<ffi::SerialPortSettings>\s+for\s+rodbus::SerialSettings\s*\{", "From<SerialPortSettings>")
    ms = matches_in(blk, "From<SerialPortSettings>")
    for key, name in (("from.data_bits()", "dataBitsArms"), ("from.flow_control()", "flowControlArms"),
                      ("from.parity()", "parityArms"), ("from.stop_bits()", "stopBitsArms")):
        if key not in ms:
            raise TranslateError(f"From<SerialPortSettings>: no match on {key}")
        emit(f"def {name} : List (String × String) := " + lpairs(simple_enum_arms(ms[key], name)))
    fields = re.findall(r"(\w+)\s*:\s*(?:match\s+)?from\.(\w+)\(\)", blk)
    emit("def serialSettingsFields : List (String × String) := " + lpairs(fields))

    # ---- Authorization, TLS enums, TLS errors
    blk = impl_block(conv, r"impl\s+From<ffi::Authorization>\s+for\s+Authorization\s*\{", "From<Authorization>")
    emit("def authorizationArms : List (String × String) := " + lpairs(simple_enum_arms(match_arms(inner_match(blk, "Authorization")), "Authorization")))
    blk = impl_block(conv, r"impl\s+From<ffi::MinTlsVersion>\s+for\s+rodbus::client::MinTlsVersion\s*\{", "From<MinTlsVersion>")
    emit("def minTlsVersionArms : List (String × String) := " + lpairs(simple_enum_arms(match_arms(inner_match(blk, "MinTlsVersion")), "MinTlsVersion")))
    blk = impl_block(conv, r"impl\s+From<ffi::CertificateMode>\s+for\s+rodbus::client::CertificateMode\s*\{", "From<CertificateMode>")
    emit("def certificateModeArms : List (String × String) := " + lpairs(simple_enum_arms(match_arms(inner_match(blk, "CertificateMode")), "CertificateMode")))
    blk = impl_block(conv, r"impl\s+From<rodbus::client::TlsError>\s+for\s+ffi::ParamError\s*\{", "From<TlsError>")
    tls_rows = simple_enum_arms(match_arms(inner_match(blk, "TlsError")), "TlsError")

    # ---- pass-through structs
    def body_expr(src, header, what):
        blk = impl_block(src, header, what)
        fn = all_blocks(blk, r"fn\s+from\s*\([^)]*\)\s*->\s*Self\s*\{", what)[0][1]
        return " ".join(fn.split())
    emit("/-- bodies of the field-by-field conversions (whitespace normalised) -/")
    emit("def passThrough : List (String × String) := " + lpairs([
        ("BitValue", body_expr(conv, r"impl\s+std::convert::From<ffi::BitValue>\s+for\s+rodbus::Indexed<bool>\s*\{", "From<BitValue>")),
        ("RegisterValue", body_expr(conv, r"impl\s+std::convert::From<ffi::RegisterValue>\s+for\s+rodbus::Indexed<u16>\s*\{", "From<RegisterValue>")),
        ("AddressRange", body_expr(conv, r"impl\s+From<AddressRange>\s+for\s+ffi::AddressRange\s*\{", "From<AddressRange>")),
        ("RetryStrategy", body_expr(conv, r"impl\s+From<ffi::RetryStrategy>\s+for\s+Box<dyn RetryStrategy>\s*\{", "From<RetryStrategy>")),
        ("RequestParam", body_expr(client, r"impl\s+From<ffi::RequestParam>\s+for\s+RequestParam\s*\{", "From<RequestParam>")),
    ]))

    # ---- conversions into ParamError: (source type, source variant or _, ParamError variant)
    prows = []

    def const_param(src, header, ty, what):
        blk = impl_block(src, header, what)
        m = re.search(r"->\s*Self\s*\{\s*(?:ffi::ParamError|Self|crate::ffi::ParamError)::(\w+)\s*\}", blk)
        if not m:
            raise TranslateError(f"{what}: body is not a constant ParamError")
        prows.append((ty, "_", m.group(1)))
    const_param(errs, r"impl\s+From<InvalidRange>\s+for\s+ffi::ParamError\s*\{", "InvalidRange", "From<InvalidRange>")
    const_param(errs, r"impl\s+From<InvalidRequest>\s+for\s+ffi::ParamError\s*\{", "InvalidRequest", "From<InvalidRequest>")
    const_param(errs, r"impl\s+From<AddrParseError>\s+for\s+ffi::ParamError\s*\{", "AddrParseError", "From<AddrParseError>")
    const_param(server, r"impl\s+From<BadIpv4Wildcard>\s+for\s+ffi::ParamError\s*\{", "BadIpv4Wildcard", "From<BadIpv4Wildcard>")
    const_param(lib, r"impl\s+From<Utf8Error>\s+for\s+crate::ffi::ParamError\s*\{", "Utf8Error", "From<Utf8Error>")
    const_param(conv, r"impl\s+From<rodbus::Shutdown>\s+for\s+ffi::ParamError\s*\{", "Shutdown", "From<Shutdown>")
    prows += [("TlsError", a, b) for a, b in tls_rows]
    blk = impl_block(client, r"impl\s+From<FfiChannelError>\s+for\s+ParamError\s*\{", "From<FfiChannelError>")
    for pat, expr in match_arms(inner_match(blk, "FfiChannelError")):
        e = squash(expr)
        if re.fullmatch(r"ParamError::\w+", e):
            prows.append(("FfiChannelError", last_seg(pat), last_seg(e)))
        elif e == "err.into()" and last_seg(pat) == "BadRange":
            # InvalidRange -> ParamError: the constant found above
            prows.append(("FfiChannelError", "BadRange", [r for r in prows if r[0] == "InvalidRange"][0][2]))
        else:
            prows.append(("FfiChannelError", last_seg(pat), "?" + e))
    blk = impl_block(lib, r"impl\s+From<crate::runtime::RuntimeError>\s+for\s+crate::ffi::ParamError\s*\{", "From<RuntimeError>")
    prows += [("RuntimeError", a, b) for a, b in simple_enum_arms(match_arms(inner_match(blk, "RuntimeError")), "RuntimeError")]
    emit("/-- every conversion into `ffi::ParamError` -/")
    emit("def paramErrorArms : List (String × String × String) := " + lpairs(prows))

    # ---- states
    blk = impl_block(client, r"impl\s+From<ClientState>\s+for\s+ffi::ClientState\s*\{", "From<ClientState>")
    emit("def clientStateArms : List (String × String) := " + lpairs(simple_enum_arms(match_arms(inner_match(blk, "ClientState")), "ClientState")))
    blk = impl_block(client, r"impl\s+From<rodbus::client::PortState>\s+for\s+ffi::PortState\s*\{", "From<PortState>")
    emit("def portStateArms : List (String × String) := " + lpairs(simple_enum_arms(match_arms(inner_match(blk, "PortState")), "PortState")))
    lrows = []
    for ty in ("ClientStateListener", "PortStateListener"):
        m = all_blocks(client, r"impl\s+Listener<[^>]+>\s+for\s+" + ty + r"\s*\{", ty)[0][1]
        lrows.append((ty, " ".join(re.search(r"\{\s*(self\.inner\.on_change\([^;]*\));", m).group(1).split())
                      if re.search(r"\{\s*(self\.inner\.on_change\([^;]*\));", m) else "?"))
    emit("/-- what the listener wrappers hand to the C callback -/")
    emit("def listenerForward : List (String × String) := " + lpairs(lrows))

    # ---- ext.rs: convert_to_result and the promise types
    blk = all_blocks(ext, r"fn\s+convert_to_result\s*\(self\)\s*->\s*Result<\(\),\s*rodbus::ExceptionCode>\s*\{", "convert_to_result")[0][1]
    success_first = bool(re.match(r"\s*if\s+self\.success\(\)\s*\{\s*return\s+Ok\(\(\)\);\s*\}", blk))
    ends_err = bool(re.search(r"Err\(ex\)\s*$", blk.strip()))
    ms = matches_in(blk, "convert_to_result")
    if "self.exception()" not in ms:
        raise TranslateError("convert_to_result: no match on self.exception()")
    rows = []
    for pat, expr in ms["self.exception()"]:
        e = squash(expr)
        if re.fullmatch(r"rodbus::ExceptionCode::\w+", e):
            rows.append((last_seg(pat), last_seg(e)))
        elif e == "rodbus::ExceptionCode::Unknown(self.raw_exception())":
            rows.append((last_seg(pat), "Unknown(raw)"))
        else:
            rows.append((last_seg(pat), "?" + e))
    emit("/-- `WriteResult::convert_to_result`: `ffi::ModbusException` variant ↦ `ExceptionCode` -/")
    emit("def convertToResultArms : List (String × String) := " + lpairs(rows))
    emit(f"/-- `if self.success() {{ return Ok(()); }}` comes first, and the function ends with `Err(ex)` -/")
    emit(f"def convertToResultSuccessFirst : Bool := {str(success_first and ends_err).lower()}")
    prom = []
    for m, body in all_blocks(ext, r"impl<[^>]*>\s*sfio_promise::FutureType<[^{]*?>\s*for\s+ffi::(\w+)\s*\{", "FutureType impls"):
        drop = all_blocks(body, r"fn\s+on_drop\s*\(\)\s*->[^{]*\{", "on_drop")[0][1]
        comp = all_blocks(body, r"fn\s+complete\s*\([^)]*\)\s*\{", "complete")[0][1]
        arms = match_arms(inner_match(comp, "complete"))
        err_arm = [squash(x) for p, x in arms if p.startswith("Err")]
        prom.append((m.group(1), squash(drop), err_arm[0] if err_arm else "?"))
    emit("/-- promise types: (callback struct, value used when dropped un-completed, failure arm) -/")
    emit("def promiseArms : List (String × String × String) := " + lpairs(prom))

    # ---- server.rs: RequestHandlerWrapper
    hw = impl_block(server, r"impl\s+RequestHandler\s+for\s+RequestHandlerWrapper\s*\{", "RequestHandlerWrapper")
    wrows, rrows = [], []
    for m, body in all_blocks(hw, r"fn\s+(\w+)\s*\(\s*&(?:mut\s+)?self[^)]*\)\s*->\s*Result<[^{]*\{", "handler methods"):
        name = m.group(1)
        arms = match_arms(inner_match(body, name))
        some = [squash(x) for p, x in arms if p.startswith("Some")]
        none = [squash(x) for p, x in arms if p.strip() == "None"]
        if len(some) != 1 or len(none) != 1:
            raise TranslateError(f"RequestHandlerWrapper::{name}: arms not understood")
        if name.startswith("write_"):
            cb = re.search(r"\.write_handler\s*\.(\w+)\s*\(", body)
            wrows.append((name, cb.group(1) if cb else "?", some[0], none[0]))
        else:
            fld = re.search(r"self\.database\.(\w+)\.get\(&address\)", body)
            rrows.append((name, fld.group(1) if fld else "?", some[0], none[0]))
    emit("/-- write callbacks: (method, C callback invoked, `Some(x)` arm, `None` arm) -/")
    emit("def writeCallbackArms : List (String × String × String × String) := " + lpairs(wrows))
    emit("/-- read callbacks: (method, database map, `Some(x)` arm, `None` arm) -/")
    emit("def readCallbackArms : List (String × String × String × String) := " + lpairs(rrows))

    # ---- server.rs: which filter expression reaches the library
    rs = strip_comments(read("rodbus/src/server/mod.rs"))
    frows = []
    for spawn in ("spawn_tcp_server_task", "spawn_tls_server_task", "spawn_tls_server_task_with_authz"):
        params = fn_params(rs, spawn, spawn)
        if "filter" not in params:
            raise TranslateError(f"{spawn}: no parameter named filter")
        args = call_args(server, r"rodbus::server::" + spawn, spawn)
        if len(args) != len(params):
            raise TranslateError(f"{spawn}: argument count changed")
        frows.append((spawn, squash(args[params.index("filter")])))
    emit("/-- the expression passed as `filter` to each library constructor -/")
    emit("def spawnFilterArg : List (String × String) := " + lpairs(frows))
    # which library constructor each C-ABI constructor ends in
    crow = []
    tcp = all_blocks(server, r"unsafe\s+fn\s+server_create_tcp\s*\([^)]*\)[^{]*\{", "server_create_tcp")[0][1]
    m = re.search(r"rodbus::server::(spawn_\w+)\s*\(", tcp)
    crow.append(("server_create_tcp", m.group(1) if m else "?"))
    impl = [b for mm, b in all_blocks(server, r"unsafe\s+fn\s+server_create_tls_impl\s*\([^)]*\)[^{]*\{", "server_create_tls_impl") if "spawn_" in b]
    if not impl:
        raise TranslateError("server_create_tls_impl: no spawning variant found")
    ms = matches_in(impl[0], "server_create_tls_impl")
    if "auth_handler" not in ms:
        raise TranslateError("server_create_tls_impl: no match on auth_handler")
    by_arm = {}
    for pat, expr in ms["auth_handler"]:
        m = re.search(r"rodbus::server::(spawn_\w+)\s*\(", expr)
        by_arm["Some" if pat.startswith("Some") else "None"] = m.group(1) if m else "?"
    for ctor in ("server_create_tls", "server_create_tls_with_authz"):
        body = all_blocks(server, r"unsafe\s+fn\s+" + ctor + r"\s*\([^)]*\)[^{]*\{", ctor)[0][1]
        args = call_args(body, r"server_create_tls_impl", ctor)
        pimpl = fn_params(server, "server_create_tls_impl", "server_create_tls_impl")
        a = squash(args[pimpl.index("auth_handler")])
        f = squash(args[pimpl.index("filter")])
        if f != "filter":
            crow.append((ctor, "?filter=" + f))
        else:
            crow.append((ctor, by_arm.get("None" if a == "None" else "Some", "?")))
    emit("/-- the library constructor each C-ABI constructor ends in -/")
    emit("def ctorSpawn : List (String × String) := " + lpairs(crow))
    # `let filter = filter.as_ref()...` in both bodies: `filter` is the caller's object
    deref = all(re.search(r"let\s+filter\s*=\s*filter\.as_ref\(\)\.ok_or\(ffi::ParamError::NullParameter\)\?;", b) for b in (tcp, impl[0]))
    emit(f"def filterIsCallersObject : Bool := {str(deref).lower()}")
    blk = impl_block(server, r"impl\s+From<&AddressFilter>\s+for\s+rodbus::server::AddressFilter\s*\{", "From<&AddressFilter>")
    rows = [(last_seg(p), squash(x).replace("rodbus::server::AddressFilter::", "")) for p, x in match_arms(inner_match(blk, "From<&AddressFilter>"))]
    emit("def filterConversionArms : List (String × String) := " + lpairs(rows))

    # ---- client.rs: the eight operations
    orows, wrap_rows = [], []
    for m, body in all_blocks(client, r"unsafe\s+fn\s+client_channel_((?:read|write)_\w+)\s*\([^)]*\)[^{]*\{", "client operations", minimum=8):
        op = m.group(1)
        fwd = re.search(r"channel\s*\.inner\s*\.(\w+)\s*\(", body)
        orows.append((op, fwd.group(1) if fwd else "?"))
        # no way out of the function before the callback is inside the drop-safe promise, except
        # an explicit `return` right after the callback has been failed by hand
        w = body.find("sfio_promise::wrap(callback)")
        pre = body[:w] if w >= 0 else body
        ok = w >= 0 and "?" not in pre and pre.count("return") <= pre.count("callback.on_failure(")
        wrap_rows.append((op, "true" if ok else "false"))
    emit("/-- which `FfiChannel` method each `client_channel_<op>` forwards to -/")
    emit("def clientForward : List (String × String) := " + lpairs(orows))
    emit("/-- is the callback wrapped into a drop-safe promise before the first `?` of the function -/")
    emit("def wrappedBeforeFallible : List (String × String) := " + lpairs(wrap_rows))

    # ---- database.rs: which helper and which map each function uses
    drows = []
    for m, body in all_blocks(database, r"pub\s+unsafe\s+fn\s+database_(\w+)\s*\([^)]*\)[^{]*\{", "database functions", minimum=16):
        b = squash(body)
        mm = re.search(r"Some\(database\)=>(\w+)\(&mutdatabase\.(\w+),", b) or \
            re.search(r"Some\(database\)=>database\.(\w+)\.(remove)\(&index\)\.is_some\(\)", b)
        if not mm:
            drows.append((m.group(1), "?", "?"))
        elif mm.group(2) == "remove":
            drows.append((m.group(1), "remove", mm.group(1)))
        else:
            drows.append((m.group(1), mm.group(1), mm.group(2)))
    emit("/-- `database_<fn>`: (function, helper, map) -/")
    emit("def databaseFns : List (String × String × String) := " + lpairs(drows))
    # server_update_database: the transaction runs between lock() and the end of the block
    upd = all_blocks(server, r"unsafe\s+fn\s+server_update_database\s*\([^)]*\)[^{]*\{", "server_update_database")[0][1]
    locked = bool(re.search(r"\{\s*let\s+mut\s+lock\s*=\s*handler\.lock\(\)\.unwrap\(\);\s*transaction\.callback\(&mut\s+lock\.database\);\s*\}", upd))
    emit(f"def transactionUnderLock : Bool := {str(locked).lower()}")

    emit("")
    emit("end Rodbus.Gen.Ffi")
    return "\n".join(L) + "\n"


def write_if_changed(path, text):
    out = os.path.normpath(path)
    os.makedirs(os.path.dirname(out), exist_ok=True)
    old = open(out).read() if os.path.exists(out) else None
    if old != text:
        open(out, "w").write(text)
        print(f"translate: wrote {out}")
    else:
        print(f"translate: unchanged {os.path.basename(out)}")


def main():
    import json
    try:
        text = translate()
    except Exception as e:  # the section machinery itself failed: every table is suspect
        print(f"TRANSLATE-ERROR: unexpected {type(e).__name__}: {e}")
        STATUS["failed"]["*"] = f"{type(e).__name__}: {e}"
        text = None
    out = os.path.normpath(OUT)
    os.makedirs(os.path.dirname(out), exist_ok=True)
    if text is not None:
        old = open(out).read() if os.path.exists(out) else None
        if old != text:
            open(out, "w").write(text)
            print(f"translate: wrote {out}")
        else:
            print("translate: unchanged")
    try:
        if "ffi" in DISPUTED:
            raise TranslateError("disputed: a regenerated C-ABI table contradicts the model in a table theorem")
        write_if_changed(FFI_OUT, translate_ffi())
    except Exception as e:
        STATUS["failed"]["ffi"] = f"{type(e).__name__}: {e}"
        good = os.path.join(GOOD, "FfiTables.lean")
        if os.path.exists(good):
            write_if_changed(FFI_OUT, open(good).read())
    ffi_out = os.path.normpath(FFI_OUT)
    if os.path.exists(ffi_out):
        for m in re.finditer(r"^def (\w+)", open(ffi_out).read(), flags=re.M):
            STATUS["defs"]["Ffi." + m.group(1)] = "ffi"
    for name, msg in sorted(STATUS["failed"].items()):
        print(f"TRANSLATE-ERROR: section {name}: {msg}")
    cache = os.path.join(os.path.dirname(os.path.abspath(__file__)), "..", ".cache")
    os.makedirs(cache, exist_ok=True)
    json.dump(STATUS, open(os.path.join(cache, "translate_status.json"), "w"), indent=1, sort_keys=True)
    return 2 if STATUS["failed"] else 0


if __name__ == "__main__":
    sys.exit(main())
