import RodbusModel.Props.C17Write
import RodbusModel.Props.C17
/- axiom audit for C17: every line must report a subset of {propext, Classical.choice, Quot.sound} -/
#print axioms Rodbus.C17.broadcast_iff
#print axioms Rodbus.C17.silent_unless_addressed
#print axioms Rodbus.C17.silent_unless_addressed_rtu
#print axioms Rodbus.C17.silent_session
#print axioms Rodbus.C17.broadcast_never_answered
#print axioms Rodbus.C17.broadcast_write
#print axioms Rodbus.C17.broadcast_malformed_ignored
#print axioms Rodbus.C17.broadcast_read_ignored
#print axioms Rodbus.C17.unit0_ordinary_on_tcp
#print axioms Rodbus.C17.unit0_served_on_tcp
#print axioms Rodbus.C17.unit0_unconfigured_on_tcp
#print axioms Rodbus.C17.silent_unless_addressed_or_denied
#print axioms Rodbus.C17.denied_answered_even_if_unconfigured
#print axioms Rodbus.C01W.unanswered_keeps_budget
#print axioms Rodbus.C01W.broadcast_survives_write_fault
#print axioms Rodbus.C01W.foreign_frames_invisible_to_fault
