import RodbusModel.Model.Ffi
import RodbusModel.Spec.Ffi
import RodbusModel.Model.Retry
import Driver.Misc
import Driver.Points
/-
  `ffi …` suites of the line protocol (see PROTOCOL.md (section "ffi")): the model's and the specification's
  answer for a case line.  `runFfi tok = (model output, spec output)`.
-/
namespace Rodbus.Driver
open Rodbus.Ffi

def ffiNatOf (s : String) : Nat := s.toNat?.getD 0

def splitDot (s : String) : List String := s.splitOn "."

/-! ### the world of the harness: unit 1 and 2 hold 4 × 100 points, units 3 and 4 are empty -/

def ffiBit (table a : Nat) : Nat := if (7 * a + 13 * table + a / 8) % 3 = 0 then 1 else 0
def ffiReg (table a : Nat) : Nat := (31 * a + 977 * table + 5) % 65536

def mainDb : Db :=
  { coils := (List.range 100).map fun a => (a, ffiBit 0 a)
    discrete := (List.range 100).map fun a => (a, ffiBit 1 a)
    holding := (List.range 100).map fun a => (a, ffiReg 2 a)
    input := (List.range 100).map fun a => (a, ffiReg 3 a) }

def unitDb (u : Nat) : Option Db :=
  if u = 1 ∨ u = 2 then some mainDb else if u = 3 ∨ u = 4 then some {} else none

/-- the harness's write handler in `Apply` mode: update the points, success iff all exist -/
def applyAll (db : Db) (t : Table) : List (Nat × Nat) → Bool × Db
  | [] => (true, db)
  | (i, v) :: rest =>
    match db.step (.update t i v) with
    | (db', .flag true) => applyAll db' t rest
    | _ => (false, db)

def applyResult (ok : Bool) : WriteResult :=
  if ok then .successInit else .exceptionInit .illegalDataAddress

def applyApp : WriteApp where
  single_coil := some fun db i v => let (ok, db') := applyAll db .coils [(i, b2n v)]; (applyResult ok, db')
  single_register := some fun db i v => let (ok, db') := applyAll db .holding [(i, v)]; (applyResult ok, db')
  multiple_coils := some fun db _ items =>
    let (ok, db') := applyAll db .coils (items.map fun (i, v) => (i, b2n v)); (applyResult ok, db')
  multiple_registers := some fun db _ items => let (ok, db') := applyAll db .holding items; (applyResult ok, db')

/-- the harness's write handler in `Fixed` mode -/
def fixedApp (w : WriteResult) : WriteApp where
  single_coil := some fun db _ _ => (w, db)
  single_register := some fun db _ _ => (w, db)
  multiple_coils := some fun db _ _ => (w, db)
  multiple_registers := some fun db _ _ => (w, db)

/-! ### operations and their arguments -/

inductive FOp | rc | rd | rh | ri | wc | wr | wC | wR
deriving DecidableEq, Repr

def FOp.parse : String → Option FOp
  | "rc" => some .rc | "rd" => some .rd | "rh" => some .rh | "ri" => some .ri
  | "wc" => some .wc | "wr" => some .wr | "wC" => some .wC | "wR" => some .wR
  | _ => none

def FOp.isRead : FOp → Bool
  | .rc | .rd | .rh | .ri => true
  | _ => false

inductive FArgs
  | range (s c : Nat) | bit (i : Nat) (v : Bool) | reg (i v : Nat)
  | bits (s : Nat) (vs : List Bool) | regs (s : Nat) (vs : List Nat)
deriving Repr

def defaultArgs : FOp → FArgs
  | .rc | .rd => .range 0 8
  | .rh | .ri => .range 0 4
  | .wc => .bit 3 true
  | .wr => .reg 3 777
  | .wC => .bits 2 [true, false, true, true]
  | .wR => .regs 2 [7, 8, 9]

def parseBitsTok (s : String) : List Bool :=
  if s = "-" then []
  else if s.startsWith "n" then (List.range (ffiNatOf (String.ofList s.toList.tail))).map fun i => (7 * i) % 3 = 0
  else s.toList.map (· = '1')

def parseRegsTok (s : String) : List Nat :=
  if s = "-" then []
  else if s.startsWith "n" then (List.range (ffiNatOf (String.ofList s.toList.tail))).map fun i => (31 * i + 5) % 65536
  else (s.splitOn "/").map ffiNatOf

def parseArgs (op : FOp) (a : List String) : Option FArgs :=
  match op, a with
  | .rc, [s, c] | .rd, [s, c] | .rh, [s, c] | .ri, [s, c] => some (.range (ffiNatOf s) (ffiNatOf c))
  | .wc, [i, v] => some (.bit (ffiNatOf i) (v ≠ "0"))
  | .wr, [i, v] => some (.reg (ffiNatOf i) (ffiNatOf v))
  | .wC, [s, b] => some (.bits (ffiNatOf s) (parseBitsTok b))
  | .wR, [s, r] => some (.regs (ffiNatOf s) (parseRegsTok r))
  | _, _ => none

def toClientReq (op : FOp) (a : FArgs) : Option ClientReq :=
  match op, a with
  | .rc, .range s c => some (.readCoils s c)
  | .rd, .range s c => some (.readDiscreteInputs s c)
  | .rh, .range s c => some (.readHoldingRegisters s c)
  | .ri, .range s c => some (.readInputRegisters s c)
  | .wc, .bit i v => some (.writeSingleCoil i v)
  | .wr, .reg i v => some (.writeSingleRegister i v)
  | .wC, .bits s vs => some (.writeMultipleCoils s vs)
  | .wR, .regs s vs => some (.writeMultipleRegisters s vs)
  | _, _ => none

/-! ### canonical texts -/

def bitsText (items : List (Nat × Bool)) : String :=
  match items with
  | [] => "b-"
  | (i, _) :: _ => s!"b{i}:" ++ String.ofList (items.map fun (_, v) => if v then '1' else '0')

def regsText (items : List (Nat × Nat)) : String :=
  match items with
  | [] => "g-"
  | (i, _) :: _ => s!"g{i}:" ++ "/".intercalate (items.map fun (_, v) => toString v)

def respText : RespVal → String
  | .bits items => bitsText items
  | .regs items => regsText items
  | .coil _ _ | .reg _ _ | .range _ => "complete"

/-- what the application's C callback is handed, as the harness logs it -/
def appLogOf : Call → Option String
  | .writeSingleCoil _ i v => some s!"wc.{i}.{b2n v}"
  | .writeSingleRegister _ i v => some s!"wr.{i}.{v}"
  | .writeMultipleCoils _ r items => some s!"wC.{r.start}.{bitsText items}"
  | .writeMultipleRegisters _ r items => some s!"wR.{r.start}.{regsText items}"
  | _ => none

/-! ### one operation, end to end: C-ABI submission, client task, server, and back -/

structure OpOut where
  submit : Submit
  task : TaskEnd
  rust : String            -- what the Rust API reports for the same call
  app : List String := []  -- calls seen by the application's write callbacks
  db : Db                  -- database afterwards

/-- the answer of whatever listens at the other end of the connection -/
inductive Remote
  | server (app : WriteApp) (nullHandlerUnits : List Nat)
  | peerException (b : Nat)
  | peerBadResponse
  | fixed (e : RustErr)      -- outcomes decided by the runtime (timeout, no connection, …)

def rangeErrText : RangeErr → String
  | .countOfZero => "badrange.zero" | .addressOverflow => "badrange.overflow"
  | .countTooLargeForType => "badrange.toolarge"

def readLimit : FOp → Nat
  | .rc | .rd => MAX_READ_COILS_COUNT
  | _ => MAX_READ_REGISTERS_COUNT

def runOp (remote : Remote) (unit : Nat) (db0 : Db) (op : FOp) (args : FArgs) : OpOut :=
  let refused (s : Submit) (rust : String) : OpOut := ⟨s, .dropped, rust, [], db0⟩
  -- 1. validation inside `client_channel_<op>` / `FfiChannel` (and the Rust API's counterpart)
  let pre : Option OpOut :=
    match args with
    | .range s c =>
      match Range.tryFrom s c with
      | .error e => some (refused .invalidRange (rangeErrText e))
      | .ok r => match r.limitedCount (readLimit op) with
        | .error _ => some (refused .invalidRange "badreq")
        | .ok _ => none
    | .bits s vs => match Range.tryFrom s vs.length with
      | .error _ => some (refused .invalidRequest "badreq.ctor")
      | .ok _ => none
    | .regs s vs => match Range.tryFrom s vs.length with
      | .error _ => some (refused .invalidRequest "badreq.ctor")
      | .ok _ => none
    | _ => none
  match pre with
  | some o => o
  | none =>
    match toClientReq op args with
    | none => refused .accepted "bad-case"
    | some creq =>
      let done (t : TaskEnd) (app : List String) (db : Db) : OpOut :=
        let rust := match t with
          | .success v => v | .error e => e.text | .dropped => "shutdown"
        ⟨.accepted, t, rust, app, db⟩
      -- 2. the client task serialises the request
      match encodeRequest creq with
      | .error _ => done (.error .badRequest) [] db0
      | .ok pdu =>
        let fromReply (reply : Bytes) (app : List String) (db : Db) : OpOut :=
          match handleResponse creq reply with
          | .ok v => done (.success (respText v)) app db
          | .error (.exception code) => done (.error (.exception (ExCode.ofByte code))) app db
          | .error .badResponse => done (.error .badResponse) app db
          | .error .badRequest => done (.error .badRequest) app db
        match remote with
        | .fixed e => done (.error e) [] db0
        | .peerException b => fromReply [orErr creq.fc.toByte, b] [] db0
        | .peerBadResponse => fromReply [0x2b, 0] [] db0
        | .server app nullUnits =>
          -- 3. the server: unit lookup, request parsing, the handler built from the database
          match unitDb unit with
          | none => done (.error .responseTimeout) [] db0     -- unknown unit: no answer
          | some _ =>
            match pdu with
            | [] => done (.error .internal) [] db0
            | fcb :: body =>
              match (Fc.ofByte fcb).bind (parseRequest · body) with
              | none => fromReply (exceptionPdu fcb 3) [] db0
              | some req =>
                let app' := if nullUnits.contains unit then noWrites else app
                let (reply, calls, db') := getReply (dbHandler app') unit db0 req
                let log := if nullUnits.contains unit then [] else calls.filterMap appLogOf
                fromReply reply log db'

def OpOut.fired (o : OpOut) : Fired := fire o.submit o.task

def OpOut.line (o : OpOut) : String :=
  s!"rc={o.submit.returnCode} ffi={o.fired.text} rust={o.rust}"

def logText (l : List String) : String := if l.isEmpty then "-" else ";".intercalate l

/-- values now stored at the addresses a write touched -/
def readback (db : Db) (args : FArgs) : String :=
  let show_ (t : Table) (idxs : List Nat) : String :=
    if idxs.isEmpty then "-"
    else "/".intercalate (idxs.map fun i => match db.find t (i % 65536) with
      | some v => toString v | none => "err")
  match args with
  | .bit i _ => show_ .coils [i]
  | .reg i _ => show_ .holding [i]
  | .bits s vs => show_ .coils ((List.range vs.length).map (s + ·))
  | .regs s vs => show_ .holding ((List.range vs.length).map (s + ·))
  | .range _ _ => "-"

/-! ### specification of reads and writes against the world's unit 1 (no PDUs, no database
    object: straight from the point formulas) -/

def specTable : FOp → Nat
  | .rc | .wc | .wC => 0 | .rd => 1 | .rh | .wr | .wR => 2 | .ri => 3

def specFfiName (b : Nat) : String := Spec.exceptionErrorName b

def specRead (op : FOp) (s c : Nat) : String :=
  if c = 0 then "rc=InvalidRange ffi=BadRequest c0 f1 d1 rust=badrange.zero"
  else if s + c > 65536 then "rc=InvalidRange ffi=BadRequest c0 f1 d1 rust=badrange.overflow"
  else if c > (if op = .rc ∨ op = .rd then 2000 else 125) then
    "rc=InvalidRange ffi=BadRequest c0 f1 d1 rust=badreq"
  else if s + c > 100 then s!"rc=Ok ffi={specFfiName 2} c0 f1 d1 rust=exc.2"
  else
    let t := specTable op
    let v := if op = .rc ∨ op = .rd then
        s!"b{s}:" ++ String.ofList ((List.range c).map fun k => if ffiBit t (s + k) = 1 then '1' else '0')
      else s!"g{s}:" ++ "/".intercalate ((List.range c).map fun k => toString (ffiReg t (s + k)))
    s!"rc=Ok ffi={v} c1 f0 d1 rust={v}"

/-- a write of values `vs` (already as numbers) to consecutive addresses from `s` -/
def specWrite (op : FOp) (s : Nat) (vs : List Nat) (appText : String) (multi : Bool) : String :=
  let t := specTable op
  let n := vs.length
  if multi ∧ (n = 0 ∨ s + n > 65536) then
    "rc=InvalidRequest ffi=BadRequest c0 f1 d1 rust=badreq.ctor app=- db=" ++
      (if n = 0 then "-" else "/".intercalate ((List.range n).map fun k =>
        if (s + k) % 65536 < 100 then toString (if t = 0 then ffiBit t ((s + k) % 65536) else ffiReg t ((s + k) % 65536)) else "err"))
      ++ " rapp=- rdb=" ++
      (if n = 0 then "-" else "/".intercalate ((List.range n).map fun k =>
        if (s + k) % 65536 < 100 then toString (if t = 0 then ffiBit t ((s + k) % 65536) else ffiReg t ((s + k) % 65536)) else "err"))
  else
    let okAll := s + n ≤ 100
    -- the handler applies the points in order and stops at the first absent one
    let db := "/".intercalate ((List.range n).map fun k =>
      if s + k < 100 then toString (vs.getD k 0) else "err")
    let res := if okAll then "rc=Ok ffi=complete c1 f0 d1 rust=complete"
      else s!"rc=Ok ffi={specFfiName 2} c0 f1 d1 rust=exc.2"
    s!"{res} app={appText} db={db} rapp={appText} rdb={db}"

/-! ### `ffi tab` -/

def rustErrOfTok (tok : String) : Option (RustErr × String) :=
  match splitDot tok with
  | "io" :: _ => some (.io, "Io")
  | ["exc", b] => some (.exception (ExCode.ofByte (ffiNatOf b)), "Exception")
  | "badreq" :: _ => some (.badRequest, "BadRequest")
  | "badframe" :: _ => some (.badFrame, "BadFrame")
  | "badresp" :: _ => some (.badResponse, "BadResponse")
  | "internal" :: _ => some (.internal, "Internal")
  | ["timeout"] => some (.responseTimeout, "ResponseTimeout")
  | ["noconn"] => some (.noConnection, "NoConnection")
  | ["shutdown"] => some (.shutdown, "Shutdown")
  | _ => none

def paramSource (tok : String) : Option (String × String) :=
  match splitDot tok with
  | "range" :: _ => some ("InvalidRange", "_")
  | "req" :: _ => some ("InvalidRequest", "_")
  | ["addr"] => some ("AddrParseError", "_")
  | ["wild"] => some ("BadIpv4Wildcard", "_")
  | ["utf8"] => some ("Utf8Error", "_")
  | ["shutdown"] => some ("Shutdown", "_")
  | ["tls", n] => (["InvalidDnsName", "InvalidPeerCertificate", "InvalidLocalCertificate",
      "InvalidPrivateKey", "BadConfig"][ffiNatOf n]?).map (("TlsError", ·))
  | ["chan", "full"] => some ("FfiChannelError", "ChannelFull")
  | ["chan", "closed"] => some ("FfiChannelError", "ChannelClosed")
  | "chan" :: "range" :: _ => some ("FfiChannelError", "BadRange")
  | ["rt", n] => (["RuntimeDestroyed", "CannotBlockWithinAsync", "FailedToCreateRuntime"][ffiNatOf n]?).map
      (("RuntimeError", ·))
  | _ => none

def bad : String × String := ("bad-case", "bad-case")

def both (s : String) : String × String := (s, s)

def optBoth (o : Option String) : String × String := both (o.getD "bad-case")

def runTab (tok : List String) : String × String :=
  match tok with
  | ["reqerr", k] =>
    match rustErrOfTok k with
    | some (e, variant) =>
      ((reqErrOf e).name,
       match e with
       | .exception x => Spec.exceptionErrorName x.toByte
       | _ => Spec.requestErrorName variant)
    | none => bad
  | ["exc", b] => ((excErrOf (ExCode.ofByte (ffiNatOf b))).name, Spec.exceptionErrorName (ffiNatOf b))
  | ["param", k] =>
    match paramSource k with
    | some (ty, v) => optBoth ((expectedParamErrors.find? fun r => r.1 = ty ∧ r.2.1 = v).map (·.2.2))
    | none => bad
  | ["decode", a, f, p] =>
    let m := do
      let x ← appDecodeLevels.rustOfInt (ffiNatOf a)
      let y ← frameDecodeLevels.rustOfInt (ffiNatOf f)
      let z ← physDecodeLevels.rustOfInt (ffiNatOf p)
      pure s!"{x}.{y}.{z}"
    let s := do
      let x ← ["Nothing", "FunctionCode", "DataHeaders", "DataValues"][ffiNatOf a]?
      let y ← ["Nothing", "Header", "Payload"][ffiNatOf f]?
      let z ← ["Nothing", "Length", "Data"][ffiNatOf p]?
      pure s!"{x}.{y}.{z}"
    (m.getD "bad-case", s.getD "bad-case")
  | ["cstate", n] => optBoth ((clientState.ffiOfInt (ffiNatOf n)).map fun x => s!"{x}/{x}")
  | ["pstate", n] => optBoth ((portState.ffiOfInt (ffiNatOf n)).map fun x => s!"{x}/{x}")
  | ["serial", d, f, p, s, baud] => optBoth do
      let d ← dataBits.rustOfInt (ffiNatOf d)
      let f ← flowControl.rustOfInt (ffiNatOf f)
      let p ← parity.rustOfInt (ffiNatOf p)
      let s ← stopBits.rustOfInt (ffiNatOf s)
      pure s!"{ffiNatOf baud}.{d}.{f}.{p}.{s}"
  | ["tlsver", n] => optBoth (minTlsVersion.rustOfInt (ffiNatOf n))
  | ["certmode", n] => optBoth (certificateMode.rustOfInt (ffiNatOf n))
  | ["authz", n] => optBoth (authorization.rustOfInt (ffiNatOf n))
  | ["retry", mn, mx, ops] =>
    let mn := ffiNatOf mn * 1000000
    let mx := ffiNatOf mx * 1000000
    let mops := ops.toList.filterMap fun c =>
      if c = 'f' then some Retry.Op.failed else if c = 'd' then some .disconnect
      else if c = 'r' then some .reset else none
    let show_ (l : List Nat) := if l.isEmpty then "-" else ",".intercalate (l.map toString)
    (show_ (Retry.run (Retry.create mn mx) mops), show_ (specRetry mn mx ops.toList))
  | ["range", s, c] => both s!"{ffiNatOf s}+{ffiNatOf c}"
  | ["bit", i, v] => both s!"{ffiNatOf i}:{if ffiNatOf v = 0 then 0 else 1}"
  | ["reg", i, v] => both s!"{ffiNatOf i}:{ffiNatOf v}"
  | ["rparam", u, ms] => both s!"{ffiNatOf u}.{ffiNatOf ms * 1000000}"
  | ["cint", "reqerr", n] =>
    optBoth ((FfiRequestError.ofInt (ffiNatOf n)).map fun e => s!"{e.name}.{e.toInt}")
  | ["cint", "param", n] => optBoth ((paramErrorNames[ffiNatOf n]?).map fun e => s!"{e}.{ffiNatOf n}")
  | ["cint", "mexc", n] => optBoth ((MxCode.ofInt (ffiNatOf n)).map fun e => s!"{e.name}.{e.toInt}")
  | ["cint", "cstate", n] => optBoth ((clientState.ffiOfInt (ffiNatOf n)).map fun e => s!"{e}.{ffiNatOf n}")
  | ["cint", "pstate", n] => optBoth ((portState.ffiOfInt (ffiNatOf n)).map fun e => s!"{e}.{ffiNatOf n}")
  | _ => bad

/-! ### `ffi wres` -/

def writeResultOfTok (tok : String) : Option WriteResult :=
  if tok = "ok" then some .successInit
  else if tok.startsWith "raw" then some (.rawExceptionInit (ffiNatOf (String.ofList (tok.toList.drop 3))))
  else if tok.startsWith "e" then (MxCode.ofInt (ffiNatOf (String.ofList (tok.toList.drop 1)))).map .exceptionInit
  else none

/-- specification: the result returned by the application is what the client receives -/
def specWres (what : String) : Option (String × String) :=
  if what = "ok" then some ("complete c1 f0 d1", "complete")
  else if what = "null" then some (s!"{Spec.exceptionErrorName 1} c0 f1 d1", "exc.1")
  else if what.startsWith "raw" then
    let b := ffiNatOf (String.ofList (what.toList.drop 3))
    some (s!"{Spec.exceptionErrorName b} c0 f1 d1", s!"exc.{b}")
  else if what.startsWith "e" then
    let n := ffiNatOf (String.ofList (what.toList.drop 1))
    -- `exception_init(Unknown)` leaves the raw byte 0
    let b := if n = 255 then 0 else n
    some (s!"{Spec.exceptionErrorName b} c0 f1 d1", s!"exc.{b}")
  else none

def runWres (tok : List String) : String × String :=
  match tok with
  | [opTok, what] =>
    match FOp.parse opTok with
    | some op =>
      if op.isRead then bad else
      let args := defaultArgs op
      let appLog := match (toClientReq op args).bind fun c => (encodeRequest c).toOption with
        | some (fcb :: body) =>
          match (Fc.ofByte fcb).bind (parseRequest · body) with
          | some req => ((getReply (dbHandler applyApp) 1 mainDb req).2.1.filterMap appLogOf)
          | none => []
        | _ => []
      let (app, unit) : Option WriteApp × Nat :=
        if what = "null" then (some noWrites, 2) else ((writeResultOfTok what).map fixedApp, 1)
      match app with
      | none => bad
      | some app =>
        let o := runOp (.server app [2]) unit mainDb op args
        let m := s!"rc={o.submit.returnCode} ffi={o.fired.text} app={logText o.app} rust={o.rust} rapp={logText o.app}"
        let s := match specWres what with
          | some (f, r) =>
            let log := if what = "null" then "-" else logText appLog
            s!"rc=Ok ffi={f} app={log} rust={r} rapp={log}"
          | none => "bad-case"
        (m, s)
    | none => bad
  | _ => bad

/-! ### `ffi op` -/

def opArgsForScenario (scen : String) (op : FOp) : Option FArgs :=
  match scen, op with
  | "zero", .rc | "zero", .rd | "zero", .rh | "zero", .ri => some (.range 5 0)
  | "overflow", .rc | "overflow", .rd | "overflow", .rh | "overflow", .ri => some (.range 65535 2)
  | "toolarge", .rc | "toolarge", .rd => some (.range 0 2001)
  | "toolarge", .rh | "toolarge", .ri => some (.range 0 126)
  | "toolarge", .wC => some (.bits 0 (List.replicate 1969 true))
  | "toolarge", .wR => some (.regs 0 (List.replicate 124 1))
  | "overflow", .wC => some (.bits 65535 [true, false])
  | "overflow", .wR => some (.regs 65535 [1, 2])
  | "emptylist", .wC => some (.bits 3 [])
  | "emptylist", .wR => some (.regs 3 [])
  | _, _ => none

def qfullLine (third : String) : String :=
  s!"r1:Ok,ResponseTimeout c0 f1 d1;r2:Ok,ResponseTimeout c0 f1 d1;r3:TooManyRequests,{third} c0 f1 d1;alive=1"

def runOpCase (tok : List String) : String × String :=
  match tok with
  | opTok :: scen :: rest =>
    match FOp.parse opTok with
    | none => bad
    | some op =>
      let world : Remote := .server applyApp [2]
      let fixedLine (e : RustErr) (rust : Bool) (extra : String := "") : String × String :=
        let o := runOp (.fixed e) 7 {} op (defaultArgs op)
        both (s!"rc={o.submit.returnCode} ffi={o.fired.text} rust={if rust then o.rust else "-"}" ++ extra)
      match scen with
      | "read" | "write" =>
        if (scen = "read") ≠ op.isRead then bad else
        match parseArgs op rest with
        | none => bad
        | some args =>
          let o := runOp world 1 mainDb op args
          if op.isRead then
            (o.line, match args with | .range s c => specRead op s c | _ => "bad-case")
          else
            let m := s!"{o.line} app={logText o.app} db={readback o.db args} rapp={logText o.app} rdb={readback o.db args}"
            let s := match args with
              | .bit i v => specWrite op i [b2n v] s!"wc.{i}.{b2n v}" false
              | .reg i v => specWrite op i [v] s!"wr.{i}.{v}" false
              | .bits s vs =>
                specWrite op s (vs.map b2n)
                  ("wC." ++ toString s ++ "." ++ bitsText ((List.range vs.length).zip vs |>.map fun (k, v) => (s + k, v))) true
              | .regs s vs =>
                specWrite op s vs
                  ("wR." ++ toString s ++ "." ++ regsText ((List.range vs.length).zip vs |>.map fun (k, v) => (s + k, v))) true
              | _ => "bad-case"
            (m, s)
      | "unit" =>
        match rest with
        | [u] =>
          let u := ffiNatOf u
          let o := runOp world u ((unitDb u).getD {}) op (defaultArgs op)
          let s := if ¬ op.isRead then o.line
            else if u = 1 ∨ u = 2 then (match defaultArgs op with | .range s c => specRead op s c | _ => "")
            else if u = 3 ∨ u = 4 then s!"rc=Ok ffi={specFfiName 2} c0 f1 d1 rust=exc.2"
            else "rc=Ok ffi=ResponseTimeout c0 f1 d1 rust=timeout"
          (o.line, s)
        | _ => bad
      | "zero" | "overflow" | "toolarge" | "emptylist" =>
        match opArgsForScenario scen op with
        | none => both "n/a"
        | some args =>
          let o := runOp world 1 mainDb op args
          let s := match scen, op.isRead with
            | "zero", _ => "rc=InvalidRange ffi=BadRequest c0 f1 d1 rust=badrange.zero"
            | "overflow", true => "rc=InvalidRange ffi=BadRequest c0 f1 d1 rust=badrange.overflow"
            | "overflow", false => "rc=InvalidRequest ffi=BadRequest c0 f1 d1 rust=badreq.ctor"
            | "emptylist", _ => "rc=InvalidRequest ffi=BadRequest c0 f1 d1 rust=badreq.ctor"
            | "toolarge", true => "rc=InvalidRange ffi=BadRequest c0 f1 d1 rust=badreq"
            | _, _ => "rc=Ok ffi=BadRequest c0 f1 d1 rust=badreq"
          (o.line, s)
      | "nulllist" =>
        if op = .wC ∨ op = .wR then
          both s!"rc={Submit.nullArgument.returnCode} ffi={(fire .nullArgument .dropped).text} rust=-"
        else both "n/a"
      | "nullchan" => both s!"rc={Submit.nullArgument.returnCode} ffi={(fire .nullArgument .dropped).text} rust=-"
      | "peerexc" =>
        match rest with
        | [b] =>
          let o := runOp (.peerException (ffiNatOf b)) 7 {} op (defaultArgs op)
          (o.line, s!"rc=Ok ffi={Spec.exceptionErrorName (ffiNatOf b)} c0 f1 d1 rust=exc.{ffiNatOf b}")
        | _ => bad
      | "badresp" =>
        let o := runOp .peerBadResponse 7 {} op (defaultArgs op)
        (o.line, "rc=Ok ffi=BadResponse c0 f1 d1 rust=badresp")
      | "timeout" => fixedLine .responseTimeout true " t=ok"
      | "badframe" => fixedLine .badFrame true
      | "ioerr" => fixedLine .io true
      | "disabled" | "refused" => fixedLine .noConnection true
      | "destroy" => fixedLine .responseTimeout false
      | "rtdrop" =>
        both s!"rc=Ok ffi={(fire .accepted .dropped).text} rust=-"
      | "qfull" =>
        both (qfullLine ((Submit.queueFull.callbackError).getD "?"))
      | _ => bad
  | _ => bad

/-! ### `ffi db`, `ffi atomic` -/

inductive DbTok
  | op (o : DbOp)
  | read (t : Table) (s c : Nat)

def normVal (t : Table) (v : Nat) : Nat := if t.isBit then (if v = 0 then 0 else 1) else v

def parseDbTok (s : String) : Option DbTok :=
  match s.toList with
  | [] => none
  | k :: restChars =>
    let parts := (splitDot (String.ofList restChars)).map ffiNatOf
    match k, parts with
    | 'a', [t, i, v] => if t ≤ 3 then some (.op (.add (.ofIdx t) i (normVal (.ofIdx t) v))) else none
    | 'u', [t, i, v] => if t ≤ 3 then some (.op (.update (.ofIdx t) i (normVal (.ofIdx t) v))) else none
    | 'd', [t, i] => if t ≤ 3 then some (.op (.delete (.ofIdx t) i)) else none
    | 'g', [t, i] => if t ≤ 3 then some (.op (.get (.ofIdx t) i)) else none
    | 'r', [t, s, c] => if t ≤ 3 then some (.read (.ofIdx t) s c) else none
    | _, _ => none

def dbResText : DbRes → String
  | .flag b => if b then "1" else "0"
  | .val v => toString v
  | .err => "err"

def readOpOf : Table → FOp
  | .coils => .rc | .discrete => .rd | .holding => .rh | .input => .ri

def rdOutText (t : Table) (start : Nat) : RdOut → String
  | .error 2 => "exc.2"
  | .error e => Spec.exceptionErrorName e
  | .ok vs =>
    if t.isBit then bitsText ((List.range vs.length).zip vs |>.map fun (k, v) => (start + k, v ≠ 0))
    else regsText ((List.range vs.length).zip vs |>.map fun (k, v) => (start + k, v))

/-- a client read through the C ABI as the `db` suite prints it -/
def dbClientRead (db : Db) (t : Table) (s c : Nat) : String :=
  let o := runOp (.server applyApp []) 3 db (readOpOf t) (.range s c)
  match o.submit with
  | .accepted =>
    match o.fired.result with
    | [one] => if one = FfiRequestError.mxIllegalDataAddress.name then "exc.2" else one
    | [] => "none"
    | many => "+".intercalate many
  | s => s!"rc.{s.returnCode}"

def specClientRead (m : Spec.AMap) (t : Table) (s c : Nat) : String :=
  if c = 0 ∨ s + c > 65536 ∨ c > (if t.isBit then 2000 else 125) then "rc.InvalidRange"
  else rdOutText t s (m.read t s c)

def runDb (tok : List String) : String × String :=
  match tok with
  | [opsTok] =>
    if opsTok = "-" then both "-" else
    match (opsTok.splitOn ",").mapM parseDbTok with
    | none => bad
    | some toks =>
      let (_, outM) := toks.foldl (fun (acc : Db × List String) t =>
        match t with
        | .op o => let (db', r) := acc.1.step o; (db', acc.2 ++ [dbResText r])
        | .read tb s c => (acc.1, acc.2 ++ [dbClientRead acc.1 tb s c])) (({} : Db), [])
      let (_, outS) := toks.foldl (fun (acc : Spec.AMap × List String) t =>
        match t with
        | .op o => let r := acc.1.step o; (r.1, acc.2 ++ [dbResText r.2])
        | .read tb s c => (acc.1, acc.2 ++ [specClientRead acc.1 tb s c])) (Spec.AMap.empty, [])
      (";".intercalate outM, ";".intercalate outS)
  | _ => bad

/-! ### `ffi flt`, `ffi fltadd`, `ffi fnet` -/

open Rodbus.Filter in
def addrText : Addr → String
  | .v4 a b c d => s!"{a}.{b}.{c}.{d}"
  | .v6 _ => "v6"

/-- insertion sort of strings (the harness sorts the textual addresses of a set) -/
def insertStr (x : String) : List String → List String
  | [] => [x]
  | y :: ys => if x ≤ y then x :: y :: ys else y :: insertStr x ys

def sortStrs (l : List String) : List String := l.foldl (fun acc x => insertStr x acc) []

open Rodbus.Filter in
def filterText : AddressFilter → String
  | .any => "any"
  | .exact a => s!"exact[{addrText a}]"
  | .anyOf set => "set[" ++ ",".intercalate (sortStrs (set.map addrText)) ++ "]"
  | .wildcard w => "wild{b3:" ++ fieldStr w.b3 ++ ",b2:" ++ fieldStr w.b2 ++ ",b1:" ++ fieldStr w.b1 ++ ",b0:" ++ fieldStr w.b0 ++ "}"

/-- bytes of a case token; `none` = contains a NUL (cannot be a C string) -/
def cStringChars (h : String) : Option (List Char) :=
  match ofHex h with
  | some bs => if bs.contains 0 then none else some (utf8Chars h)
  | none => some []

open Rodbus.Filter in
def makeFilter (tok : String) : Except String AddressFilter :=
  if tok = "any" then .ok .any
  else match cStringChars tok with
    | none => .error "nul"
    | some cs => match parseAddressFilter cs with
      | some f => .ok f
      | none => .error "err"

def runFfiFlt (tok : List String) : String × String :=
  match tok with
  | [h] => both (match makeFilter h with
    | .ok f => s!"ok {filterText f}"
    | .error e => e)
  | _ => bad

def runFltAdd (tok : List String) : String × String :=
  match tok with
  | [h, a] => both (match makeFilter h with
    | .error e => e
    | .ok f =>
      match cStringChars a with
      | none => "nul"
      | some cs =>
        let (ok, f') := addressFilterAdd f cs
        s!"ok {if ok then "ok" else "err"} {filterText f'}")
  | _ => bad

open Rodbus.Filter in
def runFnet (tok : List String) : String × String :=
  match tok with
  | [variant, ftok, peer] =>
    let ctor : Option ServerCtor := match variant with
      | "tcp" => some .tcp | "tls" => some .tls | "tlsauth" => some .tlsWithAuthz | _ => none
    match ctor, makeFilter ftok, parseIp peer.toList with
    | some c, .ok f, some p =>
      -- specification: a peer is served iff the caller's filter admits its address
      (if served c f p then "served" else "closed", if f.matches p then "served" else "closed")
    | some _, .error "err", _ => both "badfilter"
    | some _, .error e, _ => both e
    | _, _, _ => bad
  | _ => bad

/-! ### dispatcher -/

def runFfi (tok : List String) : String × String :=
  match tok with
  | _ :: "tab" :: rest => runTab rest
  | _ :: "wres" :: rest => runWres rest
  | _ :: "op" :: rest => runOpCase rest
  | _ :: "db" :: rest => runDb rest
  | _ :: "atomic" :: _ => both "uniform"
  | _ :: "flt" :: rest => runFfiFlt rest
  | _ :: "fltadd" :: rest => runFltAdd rest
  | _ :: "fnet" :: rest => runFnet rest
  | _ => ("unknown-suite ffi", "unknown-suite ffi")

end Rodbus.Driver
