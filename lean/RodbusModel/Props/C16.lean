import RodbusModel.Model.Filter
/-
  C16 — Only peers matching the address filter are served: the pure part (matching and the
  wildcard parser).  The accept path (`filter.matches(addr.ip())` guards every session / TLS
  handshake, in every server variant and through the C ABI) is in the generated
  forwarded-filter table (`Props/C16Tables`) and in the loopback runs.
-/
namespace Rodbus.C16
open Rodbus.Filter

/-- declarative meaning of a field -/
def Field.Accepts (f : Field) (b : Nat) : Prop :=
  match f with
  | .any => True
  | .lit x => b = x

/-- declarative meaning of a filter -/
def Meaning : AddressFilter → Addr → Prop
  | .any, _ => True
  | .exact x, a => x = a
  | .anyOf set, a => a ∈ set
  | .wildcard w, .v4 a b c d =>
    Field.Accepts w.b3 a ∧ Field.Accepts w.b2 b ∧ Field.Accepts w.b1 c ∧ Field.Accepts w.b0 d
  | .wildcard _, .v6 _ => False

theorem fieldMatches_iff (b : Nat) (f : Field) : fieldMatches b f = true ↔ Field.Accepts f b := by
  cases f <;> simp [fieldMatches, Field.Accepts]

/-- **matches_spec**: `AddressFilter::matches` decides exactly the declarative meaning, for every
    filter and every peer address (IPv6 never matches a wildcard) -/
theorem matches_spec (f : AddressFilter) (a : Addr) : f.matches a = true ↔ Meaning f a := by
  cases f with
  | any => simp [AddressFilter.matches, Meaning]
  | exact x => simp [AddressFilter.matches, Meaning]
  | anyOf set => simp [AddressFilter.matches, Meaning]
  | wildcard w =>
    cases a with
    | v4 a b c d =>
      simp only [AddressFilter.matches, Wildcard.matches, Meaning, Bool.and_eq_true, fieldMatches_iff]
      constructor
      · rintro ⟨⟨⟨h1, h2⟩, h3⟩, h4⟩; exact ⟨h1, h2, h3, h4⟩
      · rintro ⟨h1, h2, h3, h4⟩; exact ⟨⟨⟨h1, h2⟩, h3⟩, h4⟩
    | v6 w6 => simp [AddressFilter.matches, Wildcard.matches, Meaning]

/-- the all-wildcard pattern matches every IPv4 address and no IPv6 address -/
theorem star_matches_all_v4 (a b c d : Nat) :
    (AddressFilter.wildcard ⟨.any, .any, .any, .any⟩).matches (.v4 a b c d) = true := rfl
theorem wildcard_never_v6 (w : Wildcard) (x : List Nat) :
    (AddressFilter.wildcard w).matches (.v6 x) = false := rfl

/-! ### the wildcard parser -/

/-- a well-formed field: `*`, or what `u8::from_str` accepts -/
def FieldOk (s : List Char) (f : Field) : Prop :=
  (s = ['*'] ∧ f = .any) ∨ (s ≠ ['*'] ∧ ∃ n, parseU8 s = some n ∧ f = .lit n)

theorem getByte_iff (s : List Char) (f : Field) : getByte s = some f ↔ FieldOk s f := by
  unfold getByte FieldOk
  by_cases h : s = ['*']
  · simp [h]; exact eq_comm
  · simp [h]
    constructor
    · rintro ⟨n, hn, rfl⟩; exact ⟨n, hn, rfl⟩
    · rintro ⟨n, hn, rfl⟩; exact ⟨n, hn, rfl⟩

theorem parseDigits_le (ds : List Char) (n : Nat) (h : parseDigits ds = some n) : n ≤ 255 := by
  unfold parseDigits at h
  split at h
  · split at h
    · simp at h; omega
    · simp at h
  · simp at h

/-- every accepted numeric field denotes a value 0..255 -/
theorem parseU8_le (s : List Char) (n : Nat) (h : parseU8 s = some n) : n ≤ 255 := by
  unfold parseU8 at h
  split at h
  · simp at h
  · exact parseDigits_le _ _ h

theorem parseU8_nonempty (s : List Char) (n : Nat) (h : parseU8 s = some n) : s ≠ [] := by
  intro e; subst e; simp [parseU8] at h

/-- **wildcard_parse_iff**: a string parses iff it splits on `.` into exactly four fields each
    of which is `*` or a numeral accepted by `u8::from_str`; the result is their meaning -/
theorem wildcard_parse_iff (s : List Char) (w : Wildcard) :
    parseWildcard s = some w ↔
      ∃ f3 f2 f1 f0, splitDots s = [f3, f2, f1, f0] ∧
        FieldOk f3 w.b3 ∧ FieldOk f2 w.b2 ∧ FieldOk f1 w.b1 ∧ FieldOk f0 w.b0 := by
  unfold parseWildcard
  constructor
  · intro h
    split at h
    · rename_i f3 f2 f1 f0 heq
      split at h
      · rename_i a b c d ha hb hc hd
        simp at h; subst h
        exact ⟨f3, f2, f1, f0, heq, (getByte_iff _ _).1 ha, (getByte_iff _ _).1 hb,
          (getByte_iff _ _).1 hc, (getByte_iff _ _).1 hd⟩
      · simp at h
    · simp at h
  · rintro ⟨f3, f2, f1, f0, heq, h3, h2, h1, h0⟩
    rw [heq]
    simp only
    rw [(getByte_iff _ _).2 h3, (getByte_iff _ _).2 h2, (getByte_iff _ _).2 h1, (getByte_iff _ _).2 h0]

/-- a string with other than four fields is rejected -/
theorem wrong_field_count_rejected (s : List Char) (h : (splitDots s).length ≠ 4) :
    parseWildcard s = none := by
  unfold parseWildcard
  split
  · rename_i heq; rw [heq] at h; simp at h
  · rfl

/-- numeric fields of a parsed wildcard are octets -/
theorem parsed_fields_are_octets (s : List Char) (w : Wildcard) (h : parseWildcard s = some w) :
    ∀ f ∈ [w.b3, w.b2, w.b1, w.b0], ∀ n, f = .lit n → n ≤ 255 := by
  obtain ⟨f3, f2, f1, f0, _, h3, h2, h1, h0⟩ := (wildcard_parse_iff s w).1 h
  intro f hf n hn
  have aux : ∀ (fs : List Char) (fld : Field), FieldOk fs fld → fld = .lit n → n ≤ 255 := by
    intro fs fld hok he
    rcases hok with ⟨_, e⟩ | ⟨_, m, hm, e⟩
    · rw [e] at he; cases he
    · rw [e] at he; cases he; exact parseU8_le _ _ hm
  simp at hf
  rcases hf with rfl | rfl | rfl | rfl
  · exact aux _ _ h3 hn
  · exact aux _ _ h2 hn
  · exact aux _ _ h1 hn
  · exact aux _ _ h0 hn

theorem splitDots_ne_nil (s : List Char) : splitDots s ≠ [] := by
  cases s with
  | nil => simp [splitDots]
  | cons c cs =>
    simp only [splitDots]
    split
    · simp
    · split <;> simp

/-- joining fields with `.` -/
def joinDots : List (List Char) → List Char
  | [] => []
  | [f] => f
  | f :: g :: rest => f ++ '.' :: joinDots (g :: rest)

/-- `splitDots` loses nothing: joining the fields with `.` gives the string back, and no field
    contains a `.` -/
theorem splitDots_join (s : List Char) : joinDots (splitDots s) = s := by
  induction s with
  | nil => rfl
  | cons c cs ih =>
    simp only [splitDots]
    split
    · rename_i hc
      subst hc
      cases hsp : splitDots cs with
      | nil => exact absurd hsp (splitDots_ne_nil cs)
      | cons f fs => rw [hsp] at ih; simp [joinDots, ih]
    · cases hsp : splitDots cs with
      | nil => exact absurd hsp (splitDots_ne_nil cs)
      | cons f fs =>
        rw [hsp] at ih
        cases fs with
        | nil => simp only [joinDots] at ih ⊢; rw [ih]
        | cons g gs => simp only [joinDots, List.cons_append] at ih ⊢; rw [ih]

theorem splitDots_no_dot (s : List Char) : ∀ f ∈ splitDots s, '.' ∉ f := by
  induction s with
  | nil => simp [splitDots]
  | cons c cs ih =>
    simp only [splitDots]
    split
    · intro f hf
      simp at hf
      rcases hf with rfl | hf
      · simp
      · exact ih f hf
    · rename_i hc
      cases hsp : splitDots cs with
      | nil => exact absurd hsp (splitDots_ne_nil cs)
      | cons f fs =>
        rw [hsp] at ih
        intro x hx
        simp at hx
        rcases hx with rfl | hx
        · intro hm
          simp at hm
          rcases hm with e | hm
          · exact hc e.symm
          · exact ih f (by simp) hm
        · exact ih x (by simp [hx])

/-- non-vacuity: the repository's own examples and the lenient numerals -/
example : parseWildcard "172.17.20.*".toList = some ⟨.lit 172, .lit 17, .lit 20, .any⟩ := by decide
example : parseWildcard "*.*.*.*".toList = some ⟨.any, .any, .any, .any⟩ := by decide
example : parseWildcard "+1.02.3.4".toList = some ⟨.lit 1, .lit 2, .lit 3, .lit 4⟩ := by decide
example : parseWildcard "1.2.3".toList = none := by decide
example : parseWildcard "1.2.3.4.5".toList = none := by decide
example : parseWildcard "1.2.3.256".toList = none := by decide
example : parseWildcard "1.2.3.".toList = none := by decide
example : parseWildcard "1.2.3.-4".toList = none := by decide
example : parseWildcard "1.2.3.**".toList = none := by decide
example : parseWildcard "".toList = none := by decide
example : (AddressFilter.wildcard ⟨.lit 172, .lit 17, .lit 20, .any⟩).matches (.v4 172 17 20 99) = true := by decide
example : (AddressFilter.wildcard ⟨.lit 172, .lit 17, .lit 20, .any⟩).matches (.v4 172 17 21 99) = false := by decide

end Rodbus.C16
