//! Suite `ffi tab`: every conversion of rodbus-ffi that can be called from outside the crate.
use crate::env::hrt;
use rodbus_ffi::ffi;
use std::io::ErrorKind;
use std::os::raw::{c_int, c_void};
use std::time::Duration;

const IO_KINDS: [ErrorKind; 20] = [
    ErrorKind::NotFound,
    ErrorKind::PermissionDenied,
    ErrorKind::ConnectionRefused,
    ErrorKind::ConnectionReset,
    ErrorKind::ConnectionAborted,
    ErrorKind::NotConnected,
    ErrorKind::AddrInUse,
    ErrorKind::AddrNotAvailable,
    ErrorKind::BrokenPipe,
    ErrorKind::AlreadyExists,
    ErrorKind::WouldBlock,
    ErrorKind::InvalidInput,
    ErrorKind::InvalidData,
    ErrorKind::TimedOut,
    ErrorKind::WriteZero,
    ErrorKind::Interrupted,
    ErrorKind::Unsupported,
    ErrorKind::UnexpectedEof,
    ErrorKind::OutOfMemory,
    ErrorKind::Other,
];

fn invalid_range(n: usize) -> Option<rodbus::InvalidRange> {
    Some(match n {
        0 => rodbus::InvalidRange::CountOfZero,
        1 => rodbus::InvalidRange::AddressOverflow(65535, 2),
        2 => rodbus::InvalidRange::CountTooLargeForType(2001, 2000),
        _ => return None,
    })
}

fn invalid_request(n: usize) -> Option<rodbus::InvalidRequest> {
    Some(match n {
        0 => rodbus::InvalidRequest::BadRange(rodbus::InvalidRange::CountOfZero),
        1 => rodbus::InvalidRequest::CountTooBigForU16(70000),
        2 => rodbus::InvalidRequest::CountTooBigForType(1969, 1968),
        3 => rodbus::InvalidRequest::BadRange(rodbus::InvalidRange::AddressOverflow(65535, 2)),
        4 => rodbus::InvalidRequest::BadRange(rodbus::InvalidRange::CountTooLargeForType(126, 125)),
        _ => return None,
    })
}

fn request_error(tok: &str) -> Option<rodbus::RequestError> {
    use rodbus::*;
    let (kind, arg) = match tok.split_once('.') {
        Some((k, a)) => (k, a.parse::<usize>().ok()?),
        None => (tok, 0),
    };
    Some(match kind {
        "io" => RequestError::Io(*IO_KINDS.get(arg)?),
        "exc" => RequestError::Exception(ExceptionCode::from(u8::try_from(arg).ok()?)),
        "badreq" => RequestError::BadRequest(invalid_request(arg)?),
        "badframe" => RequestError::BadFrame(match arg {
            0 => FrameParseError::MbapLengthZero,
            1 => FrameParseError::FrameLengthTooBig(300, 253),
            2 => FrameParseError::UnknownProtocolId(1),
            3 => FrameParseError::UnknownFunctionCode(0x2b),
            4 => FrameParseError::CrcValidationFailure(1, 2),
            _ => return None,
        }),
        "badresp" => RequestError::BadResponse(match arg {
            0 => AduParseError::InsufficientBytes,
            1 => AduParseError::InsufficientBytesForByteCount(4, 2),
            2 => AduParseError::TrailingBytes(1),
            3 => AduParseError::ReplyEchoMismatch,
            4 => AduParseError::UnknownResponseFunction(0x2b, 1, 0x81),
            5 => AduParseError::UnknownCoilState(1),
            _ => return None,
        }),
        "internal" => RequestError::Internal(match arg {
            0 => InternalError::InsufficientWriteSpace(1, 0),
            1 => InternalError::FrameTooBig(300, 253),
            2 => InternalError::InsufficientBytesForRead(2, 1),
            3 => InternalError::BadSeekOperation,
            4 => InternalError::BadByteCount(300),
            _ => return None,
        }),
        "timeout" => RequestError::ResponseTimeout,
        "noconn" => RequestError::NoConnection,
        "shutdown" => RequestError::Shutdown,
        _ => return None,
    })
}

fn param_error(tok: &str) -> Option<ffi::ParamError> {
    let parts: Vec<&str> = tok.split('.').collect();
    let arg = |i: usize| parts.get(i).and_then(|x| x.parse::<usize>().ok());
    Some(match parts[0] {
        "range" => invalid_range(arg(1)?)?.into(),
        "req" => invalid_request(arg(1)?)?.into(),
        "addr" => "not an ip".parse::<std::net::IpAddr>().err()?.into(),
        "wild" => "1.2.3".parse::<rodbus::server::WildcardIPv4>().err()?.into(),
        "utf8" => {
            let bad = [0xffu8, 0xfe];
            std::str::from_utf8(&bad).err()?.into()
        }
        "shutdown" => rodbus::Shutdown.into(),
        "tls" => {
            let io = || std::io::Error::from(ErrorKind::NotFound);
            let e = match arg(1)? {
                0 => rodbus::client::TlsError::InvalidDnsName,
                1 => rodbus::client::TlsError::InvalidPeerCertificate(io()),
                2 => rodbus::client::TlsError::InvalidLocalCertificate(io()),
                3 => rodbus::client::TlsError::InvalidPrivateKey(io()),
                4 => rodbus::client::TlsError::BadConfig("x".into()),
                _ => return None,
            };
            e.into()
        }
        "chan" => {
            let e = match parts.get(1).copied()? {
                "full" => rodbus::client::FfiChannelError::ChannelFull,
                "closed" => rodbus::client::FfiChannelError::ChannelClosed,
                "range" => rodbus::client::FfiChannelError::BadRange(invalid_range(arg(2)?)?),
                _ => return None,
            };
            e.into()
        }
        "rt" => {
            let e = match arg(1)? {
                0 => rodbus_ffi::RuntimeError::RuntimeDestroyed,
                1 => rodbus_ffi::RuntimeError::CannotBlockWithinAsync,
                2 => rodbus_ffi::RuntimeError::FailedToCreateRuntime,
                _ => return None,
            };
            e.into()
        }
        _ => return None,
    })
}

// a listener context that records the integer handed to the C callback
extern "C" fn rec_state(state: c_int, ctx: *mut c_void) {
    unsafe { (*(ctx as *mut Vec<c_int>)).push(state) };
}
extern "C" fn rec_destroy(_ctx: *mut c_void) {}

fn client_state(n: usize) -> Option<rodbus::client::ClientState> {
    use rodbus::client::ClientState::*;
    Some(match n {
        0 => Disabled,
        1 => Connecting,
        2 => Connected,
        3 => WaitAfterFailedConnect(Duration::from_millis(1500)),
        4 => WaitAfterDisconnect(Duration::from_millis(2500)),
        5 => Shutdown,
        _ => return None,
    })
}

fn port_state(n: usize) -> Option<rodbus::client::PortState> {
    use rodbus::client::PortState::*;
    Some(match n {
        0 => Disabled,
        1 => Wait(Duration::from_millis(1500)),
        2 => Open,
        3 => Shutdown,
        _ => return None,
    })
}

fn dur_ns(tok: &str) -> Option<Duration> {
    Some(Duration::from_millis(tok.parse().ok()?))
}

pub fn run_tab(tok: &[&str]) -> String {
    run(tok).unwrap_or_else(|| "bad-case".into())
}

fn run(tok: &[&str]) -> Option<String> {
    // tok[0] = "ffi", tok[1] = "tab"
    let kind = *tok.get(2)?;
    let a = |i: usize| tok.get(i).copied();
    let n = |i: usize| tok.get(i).and_then(|x| x.parse::<i64>().ok());
    Some(match kind {
        "reqerr" => format!("{:?}", ffi::RequestError::from(request_error(a(3)?)?)),
        "exc" => {
            let b = u8::try_from(n(3)?).ok()?;
            format!("{:?}", ffi::RequestError::from(rodbus::ExceptionCode::from(b)))
        }
        "param" => format!("{:?}", param_error(a(3)?)?),
        "decode" => {
            let lvl = ffi::DecodeLevel {
                app: n(3)? as c_int,
                frame: n(4)? as c_int,
                physical: n(5)? as c_int,
            };
            let r = rodbus::DecodeLevel::from(lvl);
            format!("{:?}.{:?}.{:?}", r.app, r.frame, r.physical)
        }
        "cstate" => {
            let st = client_state(n(3)? as usize)?;
            let direct = ffi::ClientState::from(st);
            // the path taken at run time: the boxed listener built from the C callback struct
            let mut seen: Vec<c_int> = Vec::new();
            let l = ffi::ClientStateListener {
                on_change: Some(rec_state),
                on_destroy: Some(rec_destroy),
                ctx: &mut seen as *mut Vec<c_int> as *mut c_void,
            };
            let mut boxed: Box<dyn rodbus::client::Listener<rodbus::client::ClientState>> = l.into();
            hrt().block_on(boxed.update(st).get());
            drop(boxed);
            let via = seen.first().map(|x| format!("{:?}", ffi::ClientState::from(*x))).unwrap_or("none".into());
            format!("{:?}/{}", direct, via)
        }
        "pstate" => {
            let st = port_state(n(3)? as usize)?;
            let direct = ffi::PortState::from(st);
            let mut seen: Vec<c_int> = Vec::new();
            let l = ffi::PortStateListener {
                on_change: Some(rec_state),
                on_destroy: Some(rec_destroy),
                ctx: &mut seen as *mut Vec<c_int> as *mut c_void,
            };
            let mut boxed: Box<dyn rodbus::client::Listener<rodbus::client::PortState>> = l.into();
            hrt().block_on(boxed.update(st).get());
            drop(boxed);
            let via = seen.first().map(|x| format!("{:?}", ffi::PortState::from(*x))).unwrap_or("none".into());
            format!("{:?}/{}", direct, via)
        }
        "serial" => {
            let s = ffi::SerialPortSettings {
                data_bits: n(3)? as c_int,
                flow_control: n(4)? as c_int,
                parity: n(5)? as c_int,
                stop_bits: n(6)? as c_int,
                baud_rate: n(7)? as u32,
            };
            let r = rodbus::SerialSettings::from(s);
            format!("{}.{:?}.{:?}.{:?}.{:?}", r.baud_rate, r.data_bits, r.flow_control, r.parity, r.stop_bits)
        }
        "tlsver" => format!("{:?}", rodbus::client::MinTlsVersion::from(ffi::MinTlsVersion::from(n(3)? as c_int))),
        "certmode" => format!("{:?}", rodbus::client::CertificateMode::from(ffi::CertificateMode::from(n(3)? as c_int))),
        "authz" => format!("{:?}", rodbus::server::Authorization::from(ffi::Authorization::from(n(3)? as c_int))),
        "retry" => {
            let cfg = ffi::RetryStrategy {
                min_delay: dur_ns(a(3)?)?.as_millis() as u64,
                max_delay: dur_ns(a(4)?)?.as_millis() as u64,
            };
            let mut s: Box<dyn rodbus::RetryStrategy> = cfg.into();
            let mut out = Vec::new();
            for op in a(5)?.chars() {
                match op {
                    'f' => out.push(s.after_failed_connect().as_nanos().to_string()),
                    'd' => out.push(s.after_disconnect().as_nanos().to_string()),
                    'r' => s.reset(),
                    _ => {}
                }
            }
            if out.is_empty() {
                "-".into()
            } else {
                out.join(",")
            }
        }
        "range" => {
            let r = rodbus::AddressRange::try_from(n(3)? as u16, n(4)? as u16).ok()?;
            let f = ffi::AddressRange::from(r);
            format!("{}+{}", f.start, f.count)
        }
        "bit" => {
            let i = rodbus::Indexed::<bool>::from(ffi::BitValue {
                index: n(3)? as u16,
                value: n(4)? != 0,
            });
            format!("{}:{}", i.index, i.value as u8)
        }
        "reg" => {
            let i = rodbus::Indexed::<u16>::from(ffi::RegisterValue {
                index: n(3)? as u16,
                value: n(4)? as u16,
            });
            format!("{}:{}", i.index, i.value)
        }
        "rparam" => {
            let p = rodbus::client::RequestParam::from(ffi::RequestParam {
                unit_id: n(3)? as u8,
                timeout: n(4)? as u64,
            });
            format!("{}.{}", p.id.value, p.response_timeout.as_nanos())
        }
        // integer <-> enum at the boundary: name of the variant and the integer it maps back to
        "cint" => {
            let v = n(4)? as c_int;
            match a(3)? {
                "reqerr" => {
                    let e = ffi::RequestError::from(v);
                    format!("{:?}.{}", e, c_int::from(e))
                }
                "param" => {
                    let e = ffi::ParamError::from(v);
                    format!("{:?}.{}", e, c_int::from(e))
                }
                "mexc" => {
                    let e = ffi::ModbusException::from(v);
                    format!("{:?}.{}", e, c_int::from(e))
                }
                "cstate" => {
                    let e = ffi::ClientState::from(v);
                    format!("{:?}.{}", e, c_int::from(e))
                }
                "pstate" => {
                    let e = ffi::PortState::from(v);
                    format!("{:?}.{}", e, c_int::from(e))
                }
                _ => return None,
            }
        }
        _ => return None,
    })
}
