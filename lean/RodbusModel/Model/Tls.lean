import RodbusModel.Model.Basic
/-
  M-TLS: the part of the TLS admission decision that is rodbus's own logic
  (tcp/tls/client.rs, tcp/tls/server.rs): which protocol versions a `MinTlsVersion` enables,
  which verifier a `CertificateMode` selects, role extraction for authorization mode, and the
  order of these steps.  Chain validation, signature checks, name matching and version
  negotiation are performed by rustls / webpki / sfio-rustls-config; they appear here as the
  *attributes* of the presented certificate (does it chain to the configured authority, is it
  within its validity period, which names does it carry, is it byte-identical to the configured
  certificate) and as the rule "the highest version offered by both sides is negotiated".
-/
namespace Rodbus.Tls

inductive Ver | v12 | v13
deriving DecidableEq, Repr

def Ver.rank : Ver → Nat | .v12 => 2 | .v13 => 3

/-- `impl From<MinTlsVersion> for ProtocolVersions` -/
def enabled : Ver → List Ver
  | .v12 => [.v12, .v13]
  | .v13 => [.v13]

/-- attributes of a presented certificate, as established by the TLS library -/
structure Cert where
  /-- identifier of the authority the chain leads to (self-signed certificates: `none`) -/
  authority : Option Nat
  /-- subject alternative names, or the common name when there is no SAN -/
  names : List String
  /-- the current time is within `notBefore ..= notAfter` -/
  validNow : Bool
  /-- values of the ModbusRole extensions (OID 1.3.6.1.4.1.50316.802.1) -/
  roles : List String
  /-- identity of the DER byte string -/
  bytesId : Nat
deriving DecidableEq, Repr

/-- `CertificateMode` together with the configured trust material -/
inductive Mode
  /-- chain to the configured authority -/
  | authority (trusted : Nat)
  /-- byte-for-byte equal to the configured peer certificate -/
  | selfSigned (expected : Nat)
deriving DecidableEq, Repr

/-- the verifier selected by the mode; `name` is the server name the client insists on
    (`None` on the server side and for `full_pki(None, ..)`) -/
def certAccepted (mode : Mode) (name : Option String) : Option Cert → Bool
  | none => false                                   -- a certificate is always required
  | some c =>
    match mode with
    | .authority t =>
      c.authority == some t && c.validNow &&
        (match name with | none => true | some n => c.names.contains n)
    | .selfSigned e => c.bytesId == e && c.validNow

/-- `extract_modbus_role`: exactly one ModbusRole extension -/
def extractRole (c : Cert) : Option String :=
  match c.roles with
  | [r] => some r
  | _ => none

/-- version negotiation: the highest version both sides enable -/
def negotiate (mine offered : List Ver) : Option Ver :=
  if mine.contains .v13 && offered.contains .v13 then some .v13
  else if mine.contains .v12 && offered.contains .v12 then some .v12
  else none

structure Admission where
  version : Ver
  /-- `AuthorizationType::Handler(_, role)`; `none` = `AuthorizationType::None` -/
  role : Option String
deriving DecidableEq, Repr

/-- `TlsServerConfig::handle_connection`: handshake (version + client certificate), then — only
    in authorization mode — role extraction; a session exists only if all of it succeeded -/
def admitServer (min : Ver) (mode : Mode) (authz : Bool) (offered : List Ver)
    (peer : Option Cert) : Option Admission :=
  match negotiate (enabled min) offered with
  | none => none
  | some v =>
    if !certAccepted mode none peer then none
    else if authz then
      match peer.bind extractRole with
      | none => none
      | some r => some ⟨v, some r⟩
    else some ⟨v, none⟩

/-- What the server sees of a client's Certificate message: the presented list, end entity first
    (RFC 8446 §4.4.2 / RFC 5246 §7.4.2).  The verifier validates the first certificate — further
    ones are only candidate intermediates, and the self-signed verifier of sfio-rustls-config
    insists that there are none — and `handle_connection` reads the role from
    `peer_certificates().first()`, never from a later entry. -/
def admitServerChain (min : Ver) (mode : Mode) (authz : Bool) (offered : List Ver)
    (chain : List Cert) : Option Admission :=
  match mode, chain with
  | .selfSigned _, _ :: _ :: _ => none
  | _, _ => admitServer min mode authz offered chain.head?

/-- a peer as the server sees it: the versions it offers and its Certificate message -/
abbrev Peer := List Ver × List Cert

/-- Several peers, one after the other (or at the same time), on one server instance:
    `handle_connection` is a function of the immutable configuration and of the connection at
    hand — nothing about an earlier peer (its certificate, its role, whether it was admitted) is
    kept.  One outcome per peer, in order. -/
def admitServerSeq (min : Ver) (mode : Mode) (authz : Bool) (peers : List Peer) :
    List (Option Admission) :=
  peers.map fun p => admitServerChain min mode authz p.1 p.2

/-- `TlsClientConfig::handle_connection` -/
def admitClient (min : Ver) (mode : Mode) (name : Option String) (offered : List Ver)
    (server : Option Cert) : Option Ver :=
  match negotiate (enabled min) offered with
  | none => none
  | some v => if certAccepted mode name server then some v else none

end Rodbus.Tls
