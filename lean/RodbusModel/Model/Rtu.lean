import RodbusModel.Model.Buffer
import RodbusModel.Model.Crc
/-
  M4b: RTU framing (`serial/frame.rs`): `RtuParser::length_mode`, the three-state
  `RtuParser::parse` and `format_rtu_pdu`.

  The accessors of `ReadBuffer` used by the parser (`read_u8`, `peek_at`, `read`, `read_u16_le`,
  common/buffer.rs) are modelled with their guards: `none` stands for
  `Err(InternalError::InsufficientBytesForRead)`, which the parser propagates with `?`
  (event `FrameErr.internalShortRead`).  Props/C06 proves that this never happens.
-/
namespace Rodbus.Rtu
open Rodbus.Crc

/-- `ParserType` -/
inductive Dir
  | request
  | response
deriving DecidableEq, Repr

/-- `LengthMode` -/
inductive LengthMode
  /-- the body (without function code) has a fixed length -/
  | fixed (n : Nat)
  /-- read `n` more bytes; the last of them is the number of bytes that follow -/
  | offset (n : Nat)
  /-- unknown function code -/
  | unknown
deriving DecidableEq, Repr

/-- `RtuParser::length_mode` (with `FunctionCode::get` inlined, common/function.rs) -/
def lengthMode (d : Dir) (fc : Nat) : LengthMode :=
  if d = .response ∧ fc &&& 0x80 ≠ 0 then .fixed 1
  else match d with
    | .request =>
      if fc = 1 ∨ fc = 2 ∨ fc = 3 ∨ fc = 4 ∨ fc = 5 ∨ fc = 6 then .fixed 4
      else if fc = 15 ∨ fc = 16 then .offset 5
      else .unknown
    | .response =>
      if fc = 1 ∨ fc = 2 ∨ fc = 3 ∨ fc = 4 then .offset 1
      else if fc = 5 ∨ fc = 6 ∨ fc = 15 ∨ fc = 16 then .fixed 4
      else .unknown

/-- `ParseState`; `dest` is the value of the consumed unit-id byte (`FrameDestination::value`) -/
inductive PState
  | start
  | toOffset (dest off : Nat)
  | fullBody (dest len : Nat)
deriving DecidableEq, Repr

/-- `ReadBuffer::read_u8` -/
def readU8 (rb : RB) : Option (Nat × RB) :=
  match rb.data with
  | [] => none
  | b :: _ => some (b, rb.consume 1)

/-- `ReadBuffer::peek_at`.  The Rust guard is `len < idx` (not `len <= idx`): for `idx = len` the
    Rust function returns a stale byte of the backing array (or an error when
    `begin + idx = 260`).  The model reports `none` in that case too; `peek_in_bounds`
    (Props/C06) shows that the parser only peeks at `idx < len`, where both agree. -/
def peekAt (rb : RB) (idx : Nat) : Option Nat :=
  if rb.len < idx then none else rb.data[idx]?

/-- `ReadBuffer::read(count)` -/
def readN (rb : RB) (n : Nat) : Option (Bytes × RB) :=
  if rb.len < n then none else some (rb.data.take n, rb.consume n)

/-- `ReadBuffer::read_u16_le` -/
def readU16le (rb : RB) : Option (Nat × RB) :=
  match readU8 rb with
  | none => none
  | some (b1, rb1) =>
    match readU8 rb1 with
    | none => none
    | some (b2, rb2) => some (be16 b2 b1, rb2)

/-- `MAX_ADU_LENGTH` -/
def MAX_ADU : Nat := 253

/-- the `ParseState::ReadFullBody(dest, len)` arm -/
def parseFullBody (dest len : Nat) (rb : RB) : PResult × PState × RB :=
  if 1 + len > MAX_ADU then
    (.err (.frameLengthTooBig (1 + len) MAX_ADU), .fullBody dest len, rb)
  else if rb.len < 1 + len + 2 then (.none, .fullBody dest len, rb)
  else
    match readN rb (1 + len) with
    | none => (.err .internalShortRead, .fullBody dest len, rb)
    | some (pdu, rb1) =>
      match readU16le rb1 with
      | none => (.err .internalShortRead, .fullBody dest len, rb1)
      | some (received, rb2) =>
        let expected := crc (dest :: pdu)
        if received ≠ expected then
          (.err (.crcValidationFailure received expected), .fullBody dest len, rb2)
        else (.frame ⟨none, dest, pdu⟩, .start, rb2)

/-- the `ParseState::ReadToOffsetForLength(dest, off)` arm -/
def parseToOffset (dest off : Nat) (rb : RB) : PResult × PState × RB :=
  if rb.len < 1 + off then (.none, .toOffset dest off, rb)
  else
    match peekAt rb (1 + off - 1) with
    | none => (.err .internalShortRead, .toOffset dest off, rb)
    | some extra => parseFullBody dest (off + extra) rb

/-- the `ParseState::Start` arm: the unit id is consumed, the function code only peeked -/
def parseStart (d : Dir) (rb : RB) : PResult × PState × RB :=
  if rb.len < 2 then (.none, .start, rb)
  else
    match readU8 rb with
    | none => (.err .internalShortRead, .start, rb)
    | some (dest, rb1) =>
      match peekAt rb1 0 with
      | none => (.err .internalShortRead, .start, rb1)
      | some fc =>
        match lengthMode d fc with
        | .fixed n => parseFullBody dest n rb1
        | .offset k => parseToOffset dest k rb1
        | .unknown => (.err (.unknownFunctionCode fc), .start, rb1)

/-- `RtuParser::parse` (the tail calls `self.parse(cursor, …)` are the calls of the next arm) -/
def parse (d : Dir) : ParseFn PState
  | .start, rb => parseStart d rb
  | .toOffset dest off, rb => parseToOffset dest off rb
  | .fullBody dest len, rb => parseFullBody dest len rb

/-- `format_rtu_pdu`: `pdu` = function byte followed by the serialized body -/
def format (dest : Nat) (pdu : Bytes) : Bytes :=
  (dest :: pdu) ++ u16le (crc (dest :: pdu))

/-- the framed reader of a serial session over a list of deliveries -/
def run (d : Dir) (chunks : List Bytes) : List Event :=
  runChunks (parse d) .start RB.empty chunks

end Rodbus.Rtu
