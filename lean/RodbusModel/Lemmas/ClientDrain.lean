import RodbusModel.Lemmas.ClientMeaning
/-
  Draining the queue without the cooperation of the peer or the user (C10 `drain_completes`):
  a `fail_requests_for` phase followed by the passing of its delay takes at least one command from
  a non-empty queue; an expired deadline completes the request in flight.
-/
namespace Rodbus.Client

section
variable {σ : Type}

/-- the outer task exists and is between phases with no phase scheduled -/
def Idle (s : State σ) : Prop := s.alive = true ∧ s.pos = .noPhase ∧ s.phases = []

theorem tick_idle (F : Framing σ) (v : State σ) (h : Idle v) : tick F v = none := by
  obtain ⟨ha, hp, hph⟩ := h
  unfold tick
  simp [ha, hp, startPhase, hph]

theorem settle_idle (F : Framing σ) (fuel : Nat) (v : State σ) (h : Idle v) :
    Idle (settle F fuel v) ∧ (settle F fuel v).queue = v.queue
      ∧ (settle F fuel v).now = v.now := by
  induction fuel generalizing v with
  | zero => exact ⟨h, rfl, rfl⟩
  | succ n ih =>
    unfold settle
    rw [tick_idle F v h]
    simp only []
    split
    · exact ⟨h, rfl, rfl⟩
    · exact ih { v with held := 0 } h

/-- a phase that has just ended by `endPhase` leaves the task idle if nothing else is scheduled -/
theorem idle_endPhase (s : State σ) (k : EndKind) (ha : s.alive = true) (hph : s.phases = []) :
    Idle (endPhase s k) := ⟨ha, rfl, hph⟩

/-- the result of running the tasks inside `fail_requests_for` before its deadline -/
def FailPost (u r : State σ) (dl : Nat) : Prop :=
  r.alive = true ∧ r.phases = [] ∧ r.now = u.now
    ∧ ((r.pos = .failFor dl false ∧ r.queue = [])
        ∨ (r.pos = .noPhase ∧ (r.queue = [] ∨ r.queue.length < u.queue.length)))

theorem tick_fail (F : Framing σ) (u : State σ) (dl : Nat) (b : Bool) (ha : u.alive = true)
    (hp : u.pos = .failFor dl b) : tick F u = tickFail u dl b := by
  unfold tick; simp [ha, hp]

theorem tickFail_early_nil (u : State σ) (dl : Nat) (hnow : u.now < dl) (hq : u.queue = []) :
    tickFail u dl false = if closed u then some (endPhase u .shutdown) else none := by
  have hexp : decide (u.now ≥ dl) = false := by simp; omega
  unfold tickFail
  simp only [hexp, Bool.false_and, Bool.false_eq_true, if_false, hq]

theorem tickFail_early_cons (u : State σ) (dl : Nat) (c : Cmd) (q : List Cmd) (hnow : u.now < dl)
    (hq : u.queue = c :: q) : tickFail u dl false = some (failCmd { u with queue := q } c) := by
  have hexp : decide (u.now ≥ dl) = false := by simp; omega
  unfold tickFail
  simp only [hexp, Bool.false_and, Bool.false_eq_true, if_false, hq]

theorem settle_succ_none (F : Framing σ) (n : Nat) (s : State σ) (h : tick F s = none) :
    settle F (n + 1) s = if s.held = 0 then s else settle F n { s with held := 0 } := by
  rw [settle, h]

theorem settle_succ_some (F : Framing σ) (n : Nat) (s t : State σ) (h : tick F s = some t) :
    settle F (n + 1) s = settle F n t := by
  rw [settle, h]

theorem tick_fail_nil (F : Framing σ) (u : State σ) (dl : Nat) (ha : u.alive = true)
    (hp : u.pos = .failFor dl false) (hnow : u.now < dl) (hq : u.queue = []) :
    tick F u = if closed u then some (endPhase u .shutdown) else none := by
  rw [tick_fail F u dl false ha hp, tickFail_early_nil u dl hnow hq]

theorem settle_fail (F : Framing σ) (fuel : Nat) (u : State σ) (dl : Nat) (ha : u.alive = true)
    (hph : u.phases = []) (hp : u.pos = .failFor dl false) (hnow : u.now < dl)
    (hf : u.queue.length + 3 ≤ fuel) : FailPost u (settle F fuel u) dl := by
  induction fuel generalizing u with
  | zero => omega
  | succ n ih =>
    cases hq : u.queue with
    | nil =>
      have ht := tick_fail_nil F u dl ha hp hnow hq
      by_cases hc : closed u = true
      · rw [hc, if_pos rfl] at ht
        rw [settle_succ_some F n u _ ht]
        have hi := idle_endPhase u .shutdown ha hph
        obtain ⟨⟨a1, a2, a3⟩, a4, a5⟩ := settle_idle F n _ hi
        refine ⟨a1, a3, by rw [a5]; rfl, Or.inr ⟨a2, Or.inl ?_⟩⟩
        rw [a4]; exact hq
      · have hc0 : closed u = false := by simpa using hc
        rw [hc0] at ht
        simp only [Bool.false_eq_true, if_false] at ht
        rw [settle_succ_none F n u ht]
        by_cases hh : u.held = 0
        · rw [if_pos hh]
          exact ⟨ha, hph, rfl, Or.inl ⟨hp, hq⟩⟩
        · rw [if_neg hh]
          -- the tasks awaiting futures release their clones; the channel may now be closed
          cases n with
          | zero => exact ⟨ha, hph, rfl, Or.inl ⟨hp, hq⟩⟩
          | succ n' =>
            have ht' := tick_fail_nil F { u with held := 0 } dl ha hp hnow hq
            by_cases hc' : closed ({ u with held := 0 } : State σ) = true
            · rw [hc', if_pos rfl] at ht'
              rw [settle_succ_some F n' _ _ ht']
              have hi := idle_endPhase ({ u with held := 0 } : State σ) .shutdown ha hph
              obtain ⟨⟨a1, a2, a3⟩, a4, a5⟩ := settle_idle F n' _ hi
              refine ⟨a1, a3, by rw [a5]; rfl, Or.inr ⟨a2, Or.inl ?_⟩⟩
              rw [a4]; exact hq
            · have hc0' : closed ({ u with held := 0 } : State σ) = false := by simpa using hc'
              rw [hc0'] at ht'
              simp only [Bool.false_eq_true, if_false] at ht'
              rw [settle_succ_none F n' _ ht', if_pos rfl]
              exact ⟨ha, hph, rfl, Or.inl ⟨hp, hq⟩⟩
    | cons c q =>
      have ht : tick F u = some (failCmd { u with queue := q } c) := by
        rw [tick_fail F u dl false ha hp, tickFail_early_cons u dl c q hnow hq]
      rw [settle_succ_some F n u _ ht]
      have hlen : q.length + 3 ≤ n := by rw [hq] at hf; simp at hf; omega
      -- the phase goes on with the shorter queue
      have cont : ∀ v : State σ, v.alive = true → v.phases = [] → v.pos = .failFor dl false →
          v.now = u.now → v.queue = q → FailPost u (settle F n v) dl := by
        intro v va vph vp vnow vq
        obtain ⟨b1, b2, b3, b4⟩ := ih v va vph vp (by omega) (by rw [vq]; exact hlen)
        refine ⟨b1, b2, by rw [b3, vnow], ?_⟩
        rcases b4 with b4 | ⟨b4, b5⟩
        · exact Or.inl b4
        · refine Or.inr ⟨b4, ?_⟩
          rcases b5 with b5 | b5
          · exact Or.inl b5
          · right; rw [vq] at b5; rw [hq]; simp; omega
      -- the phase ends on this command
      have stop : ∀ (w : State σ) (k : EndKind), w.alive = true → w.phases = [] → w.now = u.now →
          w.queue = q → FailPost u (settle F n (endPhase w k)) dl := by
        intro w k wa wph wnow wq
        have hi := idle_endPhase w k wa wph
        obtain ⟨⟨a1, a2, a3⟩, a4, a5⟩ := settle_idle F n _ hi
        refine ⟨a1, a3, by rw [a5]; exact wnow, Or.inr ⟨a2, Or.inr ?_⟩⟩
        rw [a4, hq]
        show w.queue.length < (c :: q).length
        rw [wq]; simp
      cases c with
      | req r => exact cont _ ha hph hp rfl rfl
      | shutdown => exact stop { u with queue := q } .shutdown ha hph rfl rfl
      | enable => exact cont _ ha hph hp rfl rfl
      | disable => exact stop _ .disabled ha hph rfl rfl
      | setDecode d =>
        by_cases he : u.enabled = true
        · have : failCmd { u with queue := q } (.setDecode d)
              = { u with queue := q, decode := d } := by simp [failCmd, applySetting, he]
          rw [this]; exact cont _ ha hph hp rfl rfl
        · have : failCmd { u with queue := q } (.setDecode d)
              = endPhase { u with queue := q, decode := d } .disabled := by
            simp [failCmd, applySetting, he]
          rw [this]; exact stop _ .disabled ha hph rfl rfl

/-- the step `F<ms>` from an idle task -/
theorem step_failFor (F : Framing σ) (s : State σ) (h : Idle s) (ms : Nat) (hms : 0 < ms) :
    FailPost s (stepState F s (.failFor ms)) (s.now + ms) := by
  obtain ⟨ha, hp, hph⟩ := h
  have h1 : applyStep s (.failFor ms) = { s with phases := [.failFor ms] } := by
    simp [applyStep, addPhase, ha, hph]
  show FailPost s (settled F (applyStep s (.failFor ms))) (s.now + ms)
  rw [h1]
  unfold settled
  generalize hfu : settleFuel ({ s with phases := [.failFor ms] } : State σ) = fuel
  have hfuel : s.queue.length + 4 ≤ fuel := by
    rw [← hfu]; simp [settleFuel]; omega
  cases fuel with
  | zero => omega
  | succ n =>
    have ht : tick F ({ s with phases := [.failFor ms] } : State σ)
        = some { s with phases := [], pos := .failFor (s.now + ms) false } := by
      unfold tick; simp [ha, hp, startPhase]
    rw [settle_succ_some F n _ _ ht]
    exact settle_fail F n { s with phases := [], pos := .failFor (s.now + ms) false } (s.now + ms)
      ha rfl rfl (by show s.now < s.now + ms; omega) (by show s.queue.length + 3 ≤ n; omega)

theorem nextTimer_idle (s : State σ) (h : Idle s) : nextTimer s = none := by
  obtain ⟨ha, hp, _⟩ := h
  simp [nextTimer, ha, hp]

theorem advance_no_timer (F : Framing σ) (fuel target : Nat) (s : State σ)
    (h : nextTimer s = none) : advance F fuel target s = moveClock s target := by
  cases fuel with
  | zero => rfl
  | succ n => unfold advance; rw [h]

theorem idle_moveClock (s : State σ) (t : Nat) (h : Idle s) :
    Idle (moveClock s t) ∧ (moveClock s t).queue = s.queue := ⟨h, rfl⟩

/-- `fail_requests_for` with an empty queue once its deadline has been reached: the phase ends -/
theorem settle_fail_expired (F : Framing σ) (fuel : Nat) (w : State σ) (dl : Nat) (b : Bool)
    (ha : w.alive = true) (hph : w.phases = []) (hp : w.pos = .failFor dl b) (hnow : dl ≤ w.now)
    (hq : w.queue = []) (hf : 3 ≤ fuel) :
    Idle (settle F fuel w) ∧ (settle F fuel w).queue = [] := by
  have hexp : decide (w.now ≥ dl) = true := by simp; omega
  have fin : ∀ (n : Nat) (v : State σ) (k : EndKind), v.alive = true → v.phases = [] → v.queue = [] →
      Idle (settle F n (endPhase v k)) ∧ (settle F n (endPhase v k)).queue = [] := by
    intro n v k va vph vq
    obtain ⟨a1, a4, _⟩ := settle_idle F n _ (idle_endPhase v k va vph)
    exact ⟨a1, by rw [a4]; exact vq⟩
  -- the committed state: the queue is empty, so the phase ends now
  have committed : ∀ (n : Nat) (v : State σ), v.alive = true → v.phases = [] →
      v.pos = .failFor dl true → dl ≤ v.now → v.queue = [] → 1 ≤ n →
      Idle (settle F n v) ∧ (settle F n v).queue = [] := by
    intro n v va vph vp vnow vq hn
    have vexp : decide (v.now ≥ dl) = true := by simp; omega
    cases n with
    | zero => omega
    | succ n' =>
      have ht : tick F v = some (endPhase v (if closed v then .shutdown else .elapsed)) := by
        rw [tick_fail F v dl true va vp]
        unfold tickFail
        simp only [vexp, vq]
        cases closed v <;> simp
      rw [settle_succ_some F n' v _ ht]
      exact fin n' v _ va vph vq
  cases fuel with
  | zero => omega
  | succ n =>
    cases b with
    | true => exact committed (n + 1) w ha hph hp hnow hq (by omega)
    | false =>
      by_cases hc : closed w = true
      · -- both branches of the `select!` are ready
        have hrr : recvReady w = true := by simp [recvReady, hc]
        cases hfl : (flip w).1 with
        | true =>
          have ht : tick F w = some (endPhase (flip w).2 .elapsed) := by
            rw [tick_fail F w dl false ha hp]
            unfold tickFail
            simp [hexp, hrr, hfl]
          rw [settle_succ_some F n w _ ht]
          have fa : (flip w).2.alive = true := by
            have := congrArg Core.alive (core_flip w); simpa [core, ha] using this
          have fq : (flip w).2.queue = [] := by
            have := congrArg Core.queue (core_flip w); simpa [core, hq] using this
          have fph : (flip w).2.phases = [] := by
            unfold flip; cases w.coins <;> simp [hph]
          exact fin n _ _ fa fph fq
        | false =>
          have ht : tick F w = some { (flip w).2 with pos := .failFor dl true } := by
            rw [tick_fail F w dl false ha hp]
            unfold tickFail
            simp [hexp, hrr, hfl]
          rw [settle_succ_some F n w _ ht]
          have fa : (flip w).2.alive = true := by
            have := congrArg Core.alive (core_flip w); simpa [core, ha] using this
          have fq : (flip w).2.queue = [] := by
            have := congrArg Core.queue (core_flip w); simpa [core, hq] using this
          have fnow : (flip w).2.now = w.now := congrArg Core.now (core_flip w)
          have fph : (flip w).2.phases = [] := by
            unfold flip; cases w.coins <;> simp [hph]
          exact committed n _ fa fph rfl (by show dl ≤ (flip w).2.now; omega) fq (by omega)
      · have hc0 : closed w = false := by simpa using hc
        have hrr : recvReady w = false := by simp [recvReady, hc0, hq]
        have ht : tick F w = some (endPhase w .elapsed) := by
          rw [tick_fail F w dl false ha hp]
          unfold tickFail
          simp [hexp, hrr]
        rw [settle_succ_some F n w _ ht]
        exact fin n w _ ha hph hq

/-- the step `A<ms>` after the step `F<ms>`: the phase, if it is still running, elapses -/
theorem step_advance_after (F : Framing σ) (u r : State σ) (ms : Nat)
    (h : FailPost u r (u.now + ms)) :
    Idle (stepState F r (.advance ms))
      ∧ ((stepState F r (.advance ms)).queue = []
          ∨ (stepState F r (.advance ms)).queue.length < u.queue.length) := by
  obtain ⟨ha, hph, hnow, hcase⟩ := h
  show Idle (advance F (advanceFuel r) (r.now + ms) r) ∧ _
  rcases hcase with ⟨hp, hq⟩ | ⟨hp, hq⟩
  · -- still in the phase with an empty queue
    have hfu : advanceFuel r = 2 := by simp [advanceFuel, hq, hph]
    have hnt : nextTimer r = some (u.now + ms) := by simp [nextTimer, ha, hp]
    show Idle (advance F (advanceFuel r) (r.now + ms) r)
      ∧ ((advance F (advanceFuel r) (r.now + ms) r).queue = []
          ∨ (advance F (advanceFuel r) (r.now + ms) r).queue.length < u.queue.length)
    rw [hfu]
    unfold advance
    rw [hnt]
    simp only [hnow, Nat.le_refl, if_true]
    have hw : Idle (settled F (moveClock r (u.now + ms)))
        ∧ (settled F (moveClock r (u.now + ms))).queue = [] := by
      unfold settled
      refine settle_fail_expired F _ (moveClock r (u.now + ms)) (u.now + ms) false ha hph hp ?_ hq
        (by simp [settleFuel])
      show u.now + ms ≤ (moveClock r (u.now + ms)).now
      simp [moveClock, hnt, hnow]
    obtain ⟨hi, hq'⟩ := hw
    rw [advance_no_timer F 1 _ _ (nextTimer_idle _ hi)]
    exact ⟨(idle_moveClock _ _ hi).1, Or.inl (by rw [(idle_moveClock _ _ hi).2]; exact hq')⟩
  · have hi : Idle r := ⟨ha, hp, hph⟩
    show Idle (advance F (advanceFuel r) (r.now + ms) r)
      ∧ ((advance F (advanceFuel r) (r.now + ms) r).queue = []
          ∨ (advance F (advanceFuel r) (r.now + ms) r).queue.length < u.queue.length)
    rw [advance_no_timer F _ _ _ (nextTimer_idle _ hi)]
    exact ⟨(idle_moveClock _ _ hi).1, by rw [(idle_moveClock _ _ hi).2]; exact hq⟩

/-- `n` rounds of: fail requests for 1 ms, let 1 ms pass -/
def drainSteps : Nat → List Step
  | 0 => []
  | n + 1 => .failFor 1 :: .advance 1 :: drainSteps n

/-- from an idle task, as many rounds as there are queued commands empty the queue -/
theorem drain_idle (F : Framing σ) (n : Nat) (s : State σ) (h : Idle s) (hn : s.queue.length ≤ n) :
    Idle (runState F s (drainSteps n)) ∧ (runState F s (drainSteps n)).queue = [] := by
  induction n generalizing s with
  | zero =>
    refine ⟨h, ?_⟩
    have : s.queue.length = 0 := by omega
    exact List.eq_nil_of_length_eq_zero this
  | succ n ih =>
    have h1 := step_failFor F s h 1 (by omega)
    obtain ⟨hi, hq⟩ := step_advance_after F s _ 1 h1
    simp only [drainSteps, runState, List.foldl_cons]
    apply ih _ hi
    rcases hq with hq | hq
    · rw [hq]; simp
    · omega

theorem drainSteps_kind (n : Nat) : ∀ st ∈ drainSteps n, st = .failFor 1 ∨ st = .advance 1 := by
  induction n with
  | zero => intro st h; cases h
  | succ n ih =>
    intro st h
    simp only [drainSteps, List.mem_cons] at h
    rcases h with h | h | h
    · exact Or.inl h
    · exact Or.inr h
    · exact ih st h

theorem stepState_failFor_accepted (F : Framing σ) (s : State σ) (ms : Nat) :
    (stepState F s (.failFor ms)).accepted = s.accepted := by
  have h := tsteps_accepted (settled_steps F (applyStep s (.failFor ms)))
  have h2 : core (applyStep s (.failFor ms)) = core s := by
    simp only [applyStep]; exact core_addPhase s _
  rw [h2] at h
  exact h

theorem stepState_advance_accepted (F : Framing σ) (s : State σ) (ms : Nat) :
    (stepState F s (.advance ms)).accepted = s.accepted :=
  tsteps_accepted (advance_steps F _ _ s)

theorem drain_accepted (F : Framing σ) (n : Nat) (s : State σ) :
    (runState F s (drainSteps n)).accepted = s.accepted := by
  induction n generalizing s with
  | zero => rfl
  | succ n ih =>
    simp only [drainSteps, runState, List.foldl_cons]
    have := ih (stepState F (stepState F s (.failFor 1)) (.advance 1))
    simp only [runState] at this
    rw [this, stepState_advance_accepted, stepState_failFor_accepted]

theorem runState_append (F : Framing σ) (s : State σ) (a b : List Step) :
    runState F s (a ++ b) = runState F (runState F s a) b := by
  simp [runState, List.foldl_append]

end

end Rodbus.Client
