import RodbusModel.Lemmas.ServerCases
import RodbusModel.Gen.Tables
/-
  The hand-written model against the tables generated from the Rust source (Gen/Tables.lean is
  rewritten by tools/translate.py on every run): function codes, exception codes, limits,
  broadcast support.  All by evaluation over finite domains.  (The authorization tables are in
  Props/C08.lean.)
-/
namespace Rodbus.Tables
open Rodbus Rodbus.Spec.Server

/-- `FunctionCode::get` / `get_value`: for every byte the model's `Fc.ofByte` is the lookup in the
    generated table, and `Fc.toByte` is the generated discriminant -/
theorem fc_table_correct :
    (∀ b < 256, Fc.ofByte b = Gen.fcGet.lookup b) ∧ (∀ fc, Gen.fcValue.lookup fc = some fc.toByte) := by
  refine ⟨by decide +kernel, fun fc => by cases fc <;> rfl⟩

/-- outside the byte range nothing is a function code either -/
theorem fc_ofByte_large (b : Nat) (h : 256 ≤ b) : Fc.ofByte b = none := by
  unfold Fc.ofByte
  repeat' split
  all_goals first | omega | rfl

/-- `FunctionCode::as_error` on the generated constants: `value | ERROR_MASK` -/
theorem error_mask_correct : Gen.errorMask = 0x80 ∧ ∀ fc : Fc, orErr fc.toByte = fc.toByte ||| Gen.errorMask := by
  refine ⟨rfl, fun fc => by cases fc <;> decide⟩

/-- `ExceptionCode` ↔ u8: the conversion round-trips on every byte, and agrees with the generated
    tables (listed bytes ↦ named variants, everything else ↦ `Unknown(b)`) -/
theorem exception_roundtrip :
    (∀ b < 256, (ExCode.ofByte b).toByte = b)
    ∧ (∀ b < 256, ExCode.ofByte b = (Gen.exOfByte.lookup b).getD (.unknown b))
    ∧ (∀ p ∈ Gen.exToByte, p.1.toByte = p.2)
    ∧ (∀ b, (ExCode.unknown b).toByte = b) := by
  refine ⟨by decide +kernel, by decide +kernel, by decide, fun _ => rfl⟩

/-- the limits of constants.rs are the ones the model uses -/
theorem limits_correct :
    Gen.maxReadCoils = MAX_READ_COILS_COUNT ∧ Gen.maxReadRegisters = MAX_READ_REGISTERS_COUNT
    ∧ Gen.maxWriteCoils = MAX_WRITE_COILS_COUNT ∧ Gen.maxWriteRegisters = MAX_WRITE_REGISTERS_COUNT
    ∧ Gen.coilOn = COIL_ON ∧ Gen.coilOff = COIL_OFF ∧ Gen.maxAduLength = 253 := by decide

/-- the quantity limit `Request::parse` applies per function (generated from request.rs /
    types.rs) is the one `parseRequest` — equivalently `validBody` — applies: 2000, 2000, 125, 125,
    none for the single writes, 1968, 123 -/
theorem server_limits_correct :
    Gen.serverLimit =
      [(.readCoils, some MAX_READ_COILS_COUNT), (.readDiscreteInputs, some MAX_READ_COILS_COUNT),
       (.readHoldingRegisters, some MAX_READ_REGISTERS_COUNT),
       (.readInputRegisters, some MAX_READ_REGISTERS_COUNT),
       (.writeSingleCoil, none), (.writeSingleRegister, none),
       (.writeMultipleCoils, some MAX_WRITE_COILS_COUNT),
       (.writeMultipleRegisters, some MAX_WRITE_REGISTERS_COUNT)] := by decide

/-- …and the limit is sharp in the model: for every function with a limit `L`, quantity `L` at
    address 0 is accepted and `L + 1` rejected -/
theorem server_limits_sharp :
    ∀ p ∈ Gen.serverLimit, ∀ L, p.2 = some L →
      (∃ body, validBody p.1 body = true ∧ u16At body 2 = L)
      ∧ (∀ body, u16At body 2 = L + 1 → validBody p.1 body = false) := by
  intro p hp L hL
  simp only [Gen.serverLimit, List.mem_cons, List.not_mem_nil, or_false] at hp
  rcases hp with rfl | rfl | rfl | rfl | rfl | rfl | rfl | rfl <;>
    simp only [Option.some.injEq, reduceCtorEq] at hL <;> subst hL
  · exact ⟨⟨[0, 0, 7, 208], by decide, by decide⟩, fun body h => by simp [validBody, h]⟩
  · exact ⟨⟨[0, 0, 7, 208], by decide, by decide⟩, fun body h => by simp [validBody, h]⟩
  · exact ⟨⟨[0, 0, 0, 125], by decide, by decide⟩, fun body h => by simp [validBody, h]⟩
  · exact ⟨⟨[0, 0, 0, 125], by decide, by decide⟩, fun body h => by simp [validBody, h]⟩
  · refine ⟨⟨0 :: 0 :: 7 :: 176 :: 246 :: List.replicate 246 0, ?_, rfl⟩,
      fun body h => by simp [validBody, h]⟩
    simp only [validBody, u16At_zero, u16At_two, be16, List.length_cons, List.length_replicate]
    decide
  · refine ⟨⟨0 :: 0 :: 0 :: 123 :: 246 :: List.replicate 246 0, ?_, rfl⟩,
      fun body h => by simp [validBody, h]⟩
    simp only [validBody, u16At_zero, u16At_two, be16, List.length_cons, List.length_replicate]
    decide

/-- `Request::get_function` (generated): identity on kinds, as `Request.fc` of a decoded request -/
theorem request_function_correct :
    (∀ p ∈ Gen.requestFunction, p.1 = p.2) ∧ ∀ fc body, (decode fc body).fc = fc :=
  ⟨by decide, decode_fc⟩

/-- `into_broadcast_request` (generated): `Some` exactly for the four writes (mapped to the
    broadcast request of the same kind) — exactly the requests `executeBroadcast` executes, and
    exactly `isWrite` of the reference server -/
theorem broadcast_table_correct {σ : Type} (H : Handler σ) (u : Nat) (s : σ) (req : Request) :
    ∃ e, Gen.broadcastTable.lookup req.fc = some e
      ∧ e.isSome = (executeBroadcast H u s req).isSome
      ∧ (∀ fc', e = some fc' → fc' = req.fc)
      ∧ (executeBroadcast H u s req).isSome = isWrite req := by
  cases req <;> exact ⟨_, rfl, rfl, by simp [Request.fc], rfl⟩

end Rodbus.Tables
