import RodbusModel.Props.C14
#print axioms Rodbus.C14.create_inv
#print axioms Rodbus.C14.reset_inv
#print axioms Rodbus.C14.failed_inv
#print axioms Rodbus.C14.step_arith
#print axioms Rodbus.C14.current_after
#print axioms Rodbus.C14.kth_delay
#print axioms Rodbus.C14.kth_delay_created
#print axioms Rodbus.C14.kth_delay_after_reset
#print axioms Rodbus.C14.kth_delay_get
#print axioms Rodbus.C14.delay_saturates
#print axioms Rodbus.C14.disconnect_is_min
#print axioms Rodbus.C14.disconnect_after_failures
#print axioms Rodbus.C14.delay_le_max
#print axioms Rodbus.C14.no_overflow
