import RodbusModel.Props.C15Net
/-
  C09 / C15, connection level: **no service before admission**.

  In the accept-loop model (`ServerNet`, Model/ServerNet.lean) a connection accepted by a TLS
  server is a *pending handshake*: the peers of the `net` suite never complete one (they write
  Modbus bytes into the raw socket).  The clause of C09 "until all of this [handshake, certificate
  validation, role extraction] has succeeded no Modbus byte from that peer is processed" is, in
  this model: a `request` / `pipeline` step on a TLS server is never answered `ok` and never
  counts a request as served (hence never a handler call: the driver counts
  `served × calls-per-request`), in every state reachable from `init … tls := true` by any steps.
-/
namespace Rodbus.C15Net
open Rodbus.ServerNet Rodbus.Filter

/-- the observation says that a request was answered -/
def obsOk : Obs → Bool
  | .req _ r => r == "ok.982"
  | .pipe _ r _ => r == "ok"
  | _ => false

/-- number of requests the observation reports as served (each served request is one pass
    through `handle_frame`, the only place where handler calls are made; the driver of the `net`
    suite prints `calls = Σ served × calls-per-request`) -/
def obsServed : Obs → Nat
  | .req _ r => if r = "ok.982" then 1 else 0
  | .pipe _ _ cnt => cnt
  | _ => 0

/-- total number of served requests of a trace -/
def servedTotal (obs : List Obs) : Nat := (obs.map obsServed).foldl (· + ·) 0

theorem endSession_tls (n : Net) (k : Nat) : (endSession n k).tls = n.tls := by
  unfold endSession; split <;> rfl

/-- whether a server is a TLS server never changes -/
theorem tls_constant_step (n : Net) (s : Step) : (ServerNet.step n s).1.tls = n.tls := by
  cases s with
  | connect k src =>
    simp only [ServerNet.step]
    split
    · rfl
    · split
      · rfl
      · rfl
  | request k => simp only [ServerNet.step]; split <;> rfl
  | pipeline k cnt => simp only [ServerNet.step]; split <;> rfl
  | garbage k => simp only [ServerNet.step]; split <;> simp [endSession_tls]
  | close k => simp only [ServerNet.step]; exact endSession_tls n k
  | probe k => simp only [ServerNet.step]; split <;> rfl
  | setDecode => simp only [ServerNet.step]; split <;> rfl
  | shutdown => simp only [ServerNet.step]; split <;> rfl
  | dropHandle => rfl

theorem tls_constant_run (steps : List Step) (n : Net) : (ServerNet.run n steps).1.tls = n.tls := by
  induction steps generalizing n with
  | nil => rfl
  | cons s rest ih => rw [run_cons, ih, tls_constant_step]

/-- **no_service_before_admission** (one step): on a TLS server a request is answered `closed`
    (or `noconn` for an unknown label), a pipelined step has 0 answered requests; the state does
    not change -/
theorem no_service_before_admission (n : Net) (h : n.tls = true) (k cnt : Nat) :
    ((ServerNet.step n (.request k)).2 = [.req k "closed"]
        ∨ (ServerNet.step n (.request k)).2 = [.req k "noconn"])
    ∧ ((ServerNet.step n (.pipeline k cnt)).2 = [.pipe k "closed" 0]
        ∨ (ServerNet.step n (.pipeline k cnt)).2 = [.pipe k "noconn" 0])
    ∧ (ServerNet.step n (.request k)).1 = n ∧ (ServerNet.step n (.pipeline k cnt)).1 = n := by
  simp only [ServerNet.step]
  cases lookup n k with
  | none => simp
  | some v => simp [h]

/-- every observation of every step on a TLS server: not `ok`, nothing served -/
theorem tls_step_not_served (n : Net) (h : n.tls = true) (s : Step) :
    ∀ o ∈ (ServerNet.step n s).2, obsOk o = false ∧ obsServed o = 0 := by
  cases s with
  | connect k src =>
    simp only [ServerNet.step]
    split
    · simp [obsOk, obsServed]
    · split <;> simp [obsOk, obsServed]
  | request k =>
    simp only [ServerNet.step]
    cases lookup n k with
    | none => simp [obsOk, obsServed]
    | some v => simp [h, obsOk, obsServed]
  | pipeline k cnt =>
    simp only [ServerNet.step]
    cases lookup n k with
    | none => simp [obsOk, obsServed]
    | some v => simp [h, obsOk, obsServed]
  | garbage k => simp only [ServerNet.step]; split <;> simp [obsOk, obsServed]
  | close k => simp [ServerNet.step]
  | probe k => simp only [ServerNet.step]; split <;> simp [obsOk, obsServed]
  | setDecode => simp only [ServerNet.step]; split <;> simp [obsOk, obsServed]
  | shutdown => simp only [ServerNet.step]; split <;> simp [obsOk, obsServed]
  | dropHandle => simp [ServerNet.step]

/-- … of every run from a TLS state -/
theorem run_cons_obs (n : Net) (s : Step) (rest : List Step) :
    (ServerNet.run n (s :: rest)).2
      = (ServerNet.step n s).2 ++ (ServerNet.run (ServerNet.step n s).1 rest).2 := rfl

theorem tls_run_not_served (steps : List Step) (n : Net) (h : n.tls = true) :
    ∀ o ∈ (ServerNet.run n steps).2, obsOk o = false ∧ obsServed o = 0 := by
  induction steps generalizing n with
  | nil => intro o ho; simp [ServerNet.run] at ho
  | cons s rest ih =>
    intro o ho
    rw [run_cons_obs] at ho
    simp only [List.mem_append] at ho
    rcases ho with ho | ho
    · exact tls_step_not_served n h s o ho
    · exact ih _ (by rw [tls_constant_step]; exact h) o ho

theorem foldl_add_zero (l : List Nat) (h : ∀ x ∈ l, x = 0) : l.foldl (· + ·) 0 = 0 := by
  induction l with
  | nil => rfl
  | cons a as ih =>
    have ha : a = 0 := h a (by simp)
    subst ha
    simpa using ih (fun x hx => h x (by simp [hx]))

/-- **no_service_before_admission** (reachable states): whatever happened before on a TLS server
    — any `max_sessions`, any filter, any script `steps` — a request or a pipelined burst on ANY
    connection label is not answered `ok` and serves nothing -/
theorem no_service_before_admission_reachable (m : Nat) (f : AddressFilter) (steps : List Step)
    (k cnt : Nat) :
    let n := (ServerNet.run (init m f true) steps).1
    (∀ o ∈ (ServerNet.step n (.request k)).2, obsOk o = false ∧ obsServed o = 0)
    ∧ (∀ o ∈ (ServerNet.step n (.pipeline k cnt)).2, obsOk o = false ∧ obsServed o = 0)
    ∧ (ServerNet.step n (.request k)).2 ≠ [.req k "ok.982"]
    ∧ (ServerNet.step n (.pipeline k cnt)).2 ≠ [.pipe k "ok" cnt] := by
  intro n
  have hn : n.tls = true := by
    show (ServerNet.run (init m f true) steps).1.tls = true
    rw [tls_constant_run]; rfl
  refine ⟨tls_step_not_served n hn _, tls_step_not_served n hn _, ?_, ?_⟩
  · intro he
    have := (tls_step_not_served n hn (.request k) (.req k "ok.982") (by rw [he]; simp)).1
    simp [obsOk] at this
  · intro he
    have := (tls_step_not_served n hn (.pipeline k cnt) (.pipe k "ok" cnt) (by rw [he]; simp)).1
    simp [obsOk] at this

/-- **tls_trace_serves_nothing**: the whole trace of a TLS server, for every script: no `ok`
    answer anywhere and the number of served requests (hence of handler calls) is 0 -/
theorem tls_trace_serves_nothing (m : Nat) (f : AddressFilter) (steps : List Step) :
    (∀ o ∈ (ServerNet.run (init m f true) steps).2, obsOk o = false)
    ∧ servedTotal (ServerNet.run (init m f true) steps).2 = 0 := by
  have h := tls_run_not_served steps (init m f true) rfl
  refine ⟨fun o ho => (h o ho).1, ?_⟩
  apply foldl_add_zero
  intro x hx
  obtain ⟨o, ho, rfl⟩ := List.mem_map.1 hx
  exact (h o ho).2

/-- contrast (the clause is about TLS, not about the model being unable to serve): on a plain
    TCP server an open connection IS served — `request_answer`, `pipeline_answer` -/
theorem plain_tcp_is_served (n : Net) (k cnt : Nat) (h : isOpen n k = true) (ht : n.tls = false) :
    (∀ o ∈ (ServerNet.step n (.request k)).2, obsOk o = true ∧ obsServed o = 1)
    ∧ (∀ o ∈ (ServerNet.step n (.pipeline k cnt)).2, obsOk o = true ∧ obsServed o = cnt) := by
  rw [request_answer n k h ht, pipeline_answer n k cnt h ht]
  simp [obsOk, obsServed]

/-! ### non-vacuity -/

/-- a TLS server: the peer is accepted (pending handshake, it occupies a session slot: `probe`
    says open), its requests are not served; the same script on plain TCP is served -/
example :
    (ServerNet.run (init 2 .any true)
      [.connect 1 (.v4 127 0 0 1), .probe 1, .request 1, .pipeline 1 5, .request 7]).2
      = [.conn 1 "open", .prob 1 "open", .req 1 "closed", .pipe 1 "closed" 0, .req 7 "noconn"]
    ∧ (ServerNet.run (init 2 .any false)
      [.connect 1 (.v4 127 0 0 1), .probe 1, .request 1, .pipeline 1 5, .request 7]).2
      = [.conn 1 "open", .prob 1 "open", .req 1 "ok.982", .pipe 1 "ok" 5, .req 7 "noconn"] := by
  decide

example : servedTotal [.conn 1 "open", .req 1 "ok.982", .pipe 1 "ok" 5, .req 7 "noconn"] = 6 := by
  decide

end Rodbus.C15Net
