import RodbusModel.Model.Pdu
import RodbusModel.Model.Mbap
import RodbusModel.Model.Rtu
/-
  M8: the client task (`client/task.rs` `ClientLoop`, `client/channel.rs`, `client/ffi_channel.rs`,
  `client/message.rs`) together with the lock-step environment of the `cl` correspondence suite
  (`harness/src/client.rs`): a bounded command queue, handles, an outer task that executes phases
  (`ClientLoop::run` over a fresh transport, `wait_for_enabled`, `fail_requests_for`), scripted
  transports and a virtual clock.

  The machine is deterministic except for `tokio::select!`, which polls its branches in a random
  order: when both branches of a `select!` are ready at the same instant the outcome depends on
  that order.  The state carries the list `coins` of these scheduler decisions
  (`true` = the branch written first in the source is polled first; the default once the list is
  exhausted); every theorem quantifies over all coin lists.

  Framing is a parameter (`Framing σ`), instantiated for MBAP and for RTU (response parser).

  History variables (`log`, `accepted`, `dequeued`, `sent`) are never read by the machine; the
  newest entry is at the head.
-/
namespace Rodbus.Client

/-! ## vocabulary -/

abbrev Rid := String

inductive IoKind | eof | reset | pipe
deriving DecidableEq, Repr

inductive BfKind | proto | toobig | lenzero | unkfc | crc
deriving DecidableEq, Repr

/-- how a request completes: `Ok(value)` or the canonical kinds of `RequestError` -/
inductive Res
  | ok (v : RespVal)
  | exc (code : Nat)
  | badResp
  | badReq (e : ReqErr)
  | bf (k : BfKind)
  | io (k : IoKind)
  | internal
  | timeout
  | noConn
  | shutdown
deriving DecidableEq, Repr

/-- how the request was submitted: `Channel` (future + oneshot), `CallbackSession`
    (`send().await` + boxed callback), `FfiChannel` (`try_send` + boxed callback) -/
inductive Style | future | callback | trySend
deriving DecidableEq, Repr

/-- `DecodeLevel` as three small numbers; carried, never consulted -/
structure Decode where
  app : Nat
  frame : Nat
  phys : Nat
deriving DecidableEq, Repr

/-- `client::message::Request` (+ the identity and style of its promise) -/
structure Req where
  rid : Rid
  style : Style
  unit : Nat
  timeout : Nat
  req : ClientReq
deriving DecidableEq, Repr

/-- `client::message::Command` -/
inductive Cmd
  | req (r : Req)
  | enable
  | disable
  | setDecode (d : Decode)
  | shutdown
deriving DecidableEq, Repr

/-- how a phase of the outer task ends: `SessionError` / `Result<(), Shutdown>` / `WaitEnd` -/
inductive EndKind
  | io (k : IoKind)
  | badFrame
  | disabled
  | maxTo (n : Nat)
  | shutdown
  | enabled
  | elapsed
deriving DecidableEq, Repr

inductive SubErr
  | noHandle
  | badReq (e : ReqErr)
  | full
  | closed
deriving DecidableEq, Repr

inductive CmdOp | E | D | S | L
deriving DecidableEq, Repr

/-- one observable event of the `cl` suite -/
inductive LogEntry
  | sub (rid : Rid) (e : SubErr)
  | cmdErr (op : CmdOp)
  | done (rid : Rid) (style : Style) (res : Res) (time : Nat)
  | tx (bytes : Bytes)
  | fin (k : EndKind) (time : Nat)
deriving DecidableEq, Repr

/-- what the scripted transport hands to one `read` -/
inductive Rx
  | data (bs : Bytes)
  | err
  | eof
deriving DecidableEq, Repr

/-- the scripted transport (`harness/src/mockio.rs`) -/
structure Mock where
  rx : List Rx := []
  wErr : Bool := false
deriving DecidableEq, Repr

/-- a queued phase of the outer task -/
inductive Phase
  | session (mock : Nat)
  | waitEnabled
  | failFor (ms : Nat)
deriving DecidableEq, Repr

/-- where the outer task is -/
inductive Pos
  /-- between phases -/
  | noPhase
  /-- in `ClientLoop::poll` (the `select!` over reader and queue) of a session on transport `mock` -/
  | idle (mock : Nat)
  /-- in the response loop of `execute_request` -/
  | inflight (mock : Nat) (r : Req) (tx : Nat) (deadline : Nat)
  /-- in `wait_for_enabled` -/
  | waitEnabled
  /-- in `fail_requests_for`; `committed`: the `select!` polled `fail_requests` first although the
      timer had expired, so the queue is drained before the timer is looked at again -/
  | failFor (deadline : Nat) (committed : Bool)
deriving DecidableEq, Repr

/-- frame format and parser of a transport flavour -/
structure Framing (σ : Type) where
  /-- `FrameWriter::format_request`: tx id, unit id, PDU -/
  format : Nat → Nat → Bytes → Bytes
  /-- `FrameParser::parse` -/
  parse : ParseFn σ
  /-- parser state of a new `FramedReader` and after `FrameParser::reset` -/
  init : σ

/-- MBAP (TCP / TLS) -/
def mbap : Framing Mbap.PState := ⟨Mbap.format, Mbap.parse, .begin⟩

/-- RTU (serial), client role: the tx id is drawn but not transmitted; received frames carry
    `tx = none`, which `txMatches` accepts for every outstanding request -/
def rtu : Framing Rtu.PState := ⟨fun _ u pdu => Rtu.format u pdu, Rtu.parse .response, .start⟩

structure State (σ : Type) where
  /-- capacity of the mpsc (`max_queued_requests`) -/
  cap : Nat
  /-- `max_timeouts`, 0 = no limit -/
  maxTo : Nat
  /-- the mpsc, oldest first; entries beyond `cap` are senders waiting in `send().await` -/
  queue : List Cmd := []
  /-- the `Channel` handles of the script, by index; `false` = dropped -/
  handles : List Bool := [true]
  enabled : Bool := false
  decode : Decode := ⟨0, 0, 0⟩
  /-- `ClientLoop::tx_id` -/
  tx : Nat := 0
  /-- `TimeoutCounter::current` -/
  nto : Nat := 0
  /-- `FramedReader`: parser state and `ReadBuffer` -/
  pst : σ
  rb : RB := RB.empty
  pos : Pos := .noPhase
  phases : List Phase := []
  mocks : List Mock := []
  now : Nat := 0
  /-- the outer task exists (not aborted) -/
  alive : Bool := true
  /-- `Channel` clones still held by the tasks of future-style requests that were completed since
      the outer task last blocked: such a task owns a clone of the handle until it has observed
      the result, which it can only do once the outer task yields -/
  held : Nat := 0
  coins : List Bool := []
  -- history
  log : List LogEntry := []
  /-- requests for which a completion is owed -/
  accepted : List Rid := []
  /-- requests taken from the queue inside a session, with the tx id drawn for them -/
  dequeued : List (Rid × Nat) := []
  /-- requests written to a transport, with tx id and frame -/
  sent : List (Rid × Nat × Bytes) := []
  /-- how many `send().await` had to wait for capacity -/
  waited : Nat := 0

def State.init {σ : Type} (F : Framing σ) (cap maxTo : Nat) (d : Decode) (coins : List Bool) :
    State σ :=
  { cap := cap, maxTo := maxTo, decode := d, pst := F.init, coins := coins }

/-! ## small updaters -/

section
variable {σ : Type}

def emit (s : State σ) (e : LogEntry) : State σ := { s with log := e :: s.log }

/-- the promise of `r` is completed with `res` now -/
def complete (s : State σ) (r : Req) (res : Res) : State σ :=
  { emit s (.done r.rid r.style res s.now) with
    held := if r.style = .future then s.held + 1 else s.held }

/-- the running phase returns -/
def endPhase (s : State σ) (k : EndKind) : State σ :=
  { emit s (.fin k s.now) with pos := .noPhase }

def accept (s : State σ) (rid : Rid) : State σ := { s with accepted := rid :: s.accepted }

def enqueue (s : State σ) (c : Cmd) : State σ :=
  { s with queue := s.queue ++ [c], waited := if s.queue.length < s.cap then s.waited else s.waited + 1 }

/-- `ClientLoop::change_setting` -/
def applySetting (s : State σ) : Cmd → State σ
  | .enable => { s with enabled := true }
  | .disable => { s with enabled := false }
  | .setDecode d => { s with decode := d }
  | _ => s

/-- `TxId::next`: the value handed out is the current one; the counter wraps after 65535 -/
def nextTx (t : Nat) : Nat := if t = 65535 then 0 else t + 1

/-- every sender is gone: no handle of the script is left and no completed future-style request
    still holds its clone.  (Clones held by requests that are still queued or in flight need no
    accounting: the queue is only observed empty after they have completed.) -/
def closed (s : State σ) : Bool := !s.handles.any id && s.held == 0

/-- `rx.recv()` would return at once -/
def recvReady (s : State σ) : Bool := !s.queue.isEmpty || closed s

/-- one coin of the scheduler -/
def flip (s : State σ) : Bool × State σ :=
  match s.coins with
  | [] => (true, s)
  | c :: cs => (c, { s with coins := cs })

def getMock (s : State σ) (m : Nat) : Mock := s.mocks.getD m {}

def setMock (s : State σ) (m : Nat) (k : Mock) : State σ := { s with mocks := s.mocks.set m k }

/-- the transport whose writes the script can see (`io` of the harness: the newest one) -/
def isLatest (s : State σ) (m : Nat) : Bool := m + 1 == s.mocks.length

/-! ## results -/

def frameErrRes : FrameErr → Res
  | .unknownProtocolId _ => .bf .proto
  | .frameLengthTooBig _ _ => .bf .toobig
  | .mbapLengthZero => .bf .lenzero
  | .unknownFunctionCode _ => .bf .unkfc
  | .crcValidationFailure _ _ => .bf .crc
  | .internalShortRead => .internal
  | .spuriousEof => .io .eof

/-- `SessionError::from_request_err` -/
def Res.sessionEnd : Res → Option EndKind
  | .io k => some (.io k)
  | .bf _ => some .badFrame
  | _ => none

/-- `Request::handle_response` as a completion -/
def respResult (req : ClientReq) (pdu : Bytes) : Res :=
  match handleResponse req pdu with
  | .ok v => .ok v
  | .error (.exception c) => .exc c
  | .error .badResponse => .badResp
  | .error .badRequest =>
    -- `AddressRange::parse` of the echoed range failed: which `InvalidRange` it was
    match pdu with
    | _ :: a :: b :: c :: d :: _ =>
      match Range.tryFrom (be16 a b) (be16 c d) with
      | .error e => .badReq (.badRange e)
      | .ok _ => .badResp
    | _ => .badResp

/-- the tx id check of `execute_request` (RTU frames carry none) -/
def txMatches (f : Frame) (tx : Nat) : Bool :=
  match f.tx with
  | some t => t == tx
  | none => true

/-! ## the reader -/

inductive ReadRes
  | frame (f : Frame)
  | fail (r : Res)
  | blocked
deriving DecidableEq, Repr

/-- one call of `FramedReader::next_frame` against the scripted transport: parse; on `Ok(None)`
    perform one `read` and parse again; a parser error resets the parser -/
def readerPoll (F : Framing σ) : Nat → σ → RB → List Rx → ReadRes × σ × RB × List Rx
  | 0, st, rb, rx => (.blocked, st, rb, rx)
  | fuel + 1, st, rb, rx =>
    match F.parse st rb with
    | (.frame f, st', rb') => (.frame f, st', rb', rx)
    | (.err e, _, rb') => (.fail (frameErrRes e), F.init, rb', rx)
    | (.none, st', rb') =>
      match rx with
      | [] => (.blocked, st', rb', [])
      | .err :: rest => (.fail (.io .reset), st', rb', rest)
      | .eof :: rest => (.fail (.io .eof), st', rb', .eof :: rest)
      | .data bs :: rest =>
        if bs = [] then (.fail (.io .eof), st', rb', rest)
        else match readSome rb' bs with
          | none => (.fail (.io .eof), st', rb', .data bs :: rest)
          | some (rb'', rem) =>
            readerPoll F fuel st' rb'' (if rem = [] then rest else .data rem :: rest)

def rxSize : List Rx → Nat
  | [] => 0
  | .data bs :: rest => bs.length + 1 + rxSize rest
  | _ :: rest => 1 + rxSize rest

def readerFuel (rx : List Rx) : Nat := rxSize rx + 2

/-- the reader of the task polled on transport `m` -/
def pollReader (F : Framing σ) (s : State σ) (m : Nat) : ReadRes × State σ :=
  let k := getMock s m
  let (r, st', rb', rx') := readerPoll F (readerFuel k.rx) s.pst s.rb k.rx
  (r, setMock { s with pst := st', rb := rb' } m { k with rx := rx' })

/-- `FramedReader::discard_buffered_frames`: parse and drop every complete frame that is already
    in the read buffer, without reading from the transport; `Ok(None)` ends the loop, a parser
    error resets the parser and is returned -/
def discardBuffered (F : Framing σ) : Nat → σ → RB → Option Res × σ × RB
  | 0, st, rb => (none, st, rb)
  | fuel + 1, st, rb =>
    match F.parse st rb with
    | (.frame _, st', rb') => discardBuffered F fuel st' rb'
    | (.none, st', rb') => (none, st', rb')
    | (.err e, _, rb') => (some (frameErrRes e), F.init, rb')

/-- more than the number of frames the buffer can hold -/
def discardFuel (rb : RB) : Nat := rb.data.length + 2

/-! ## the task -/

/-- bookkeeping of `run_one_request` once the request has finished with `res` -/
def afterRequest (s : State σ) (m : Nat) (res : Res) : State σ :=
  match res.sessionEnd with
  | some k => endPhase s k
  | none =>
    if res = .timeout then
      if s.maxTo = 0 then { s with pos := .idle m }
      else if s.nto + 1 ≥ s.maxTo then endPhase { s with nto := s.nto + 1 } (.maxTo s.maxTo)
      else { s with nto := s.nto + 1, pos := .idle m }
    else { s with nto := 0, pos := .idle m }

/-- the request in flight finishes -/
def finish (s : State σ) (m : Nat) (r : Req) (res : Res) : State σ :=
  afterRequest (complete s r res) m res

/-- `run_one_request` up to the point where it waits for the reply: draw a tx id, format, drop what
    is already buffered, write -/
def startRequest (F : Framing σ) (s : State σ) (m : Nat) (r : Req) : State σ :=
  let tx := s.tx
  let s := { s with tx := nextTx s.tx, dequeued := (r.rid, tx) :: s.dequeued }
  match encodeRequest r.req with
  | .error e => finish s m r (.badReq e)
  | .ok pdu =>
    match discardBuffered F (discardFuel s.rb) s.pst s.rb with
    | (some res, st', rb') => finish { s with pst := st', rb := rb' } m r res
    | (none, st', rb') =>
      let s := { s with pst := st', rb := rb' }
      let k := getMock s m
      if k.wErr then finish (setMock s m { k with wErr := false }) m r (.io .pipe)
      else
        let bytes := F.format tx r.unit pdu
        let s := { s with sent := (r.rid, tx, bytes) :: s.sent }
        let s := if isLatest s m then emit s (.tx bytes) else s
        { s with pos := .inflight m r tx (s.now + r.timeout) }

/-- `run_cmd` -/
def runCmd (F : Framing σ) (s : State σ) (m : Nat) : Cmd → State σ
  | .req r => startRequest F s m r
  | .shutdown => endPhase s .shutdown
  | c =>
    let s := applySetting s c
    if s.enabled then s else endPhase s .disabled

/-- `rx.recv()` in a session -/
def sessionRecv (F : Framing σ) (s : State σ) (m : Nat) : Option (State σ) :=
  match s.queue with
  | c :: q => some (runCmd F { s with queue := q } m c)
  | [] => if closed s then some (endPhase s .shutdown) else none

/-- the reader branch of `poll` produced `r` -/
def idleReader (s : State σ) (r : ReadRes) : State σ :=
  match r with
  | .fail res =>
    match res.sessionEnd with
    | some k => endPhase s k
    | none => s
  | _ => s   -- a frame while idle is dropped

/-- `ClientLoop::poll` -/
def tickIdle (F : Framing σ) (s : State σ) (m : Nat) : Option (State σ) :=
  let hadRx := !(getMock s m).rx.isEmpty
  let (r, s') := pollReader F s m
  match r with
  | .blocked =>
    match sessionRecv F s' m with
    | some t => some t
    | none => if hadRx then some s' else none
  | r =>
    if recvReady s then
      let (c, s0) := flip s
      if c then some (idleReader { s' with coins := s0.coins } r)
      else sessionRecv F s0 m
    else some (idleReader s' r)

/-- the reader branch of the response loop produced `r` -/
def inflightReader (s : State σ) (m : Nat) (q : Req) (tx : Nat) (r : ReadRes) : State σ :=
  match r with
  | .frame f => if txMatches f tx then finish s m q (respResult q.req f.pdu) else s
  | .fail res => finish s m q res
  | .blocked => s

/-- the response loop of `execute_request` -/
def tickInflight (F : Framing σ) (s : State σ) (m : Nat) (q : Req) (tx dl : Nat) :
    Option (State σ) :=
  let hadRx := !(getMock s m).rx.isEmpty
  let (r, s') := pollReader F s m
  let expired := decide (s.now ≥ dl)
  match r with
  | .blocked =>
    if expired then some (finish s' m q .timeout)
    else if hadRx then some s' else none
  | r =>
    if expired then
      let (c, s0) := flip s
      if c then some (finish s0 m q .timeout)
      else some (inflightReader { s' with coins := s0.coins } m q tx r)
    else some (inflightReader s' m q tx r)

/-- `fail_next_request` on command `c` inside `wait_for_enabled` -/
def waitCmd (s : State σ) : Cmd → State σ
  | .req r => complete s r .noConn
  | .shutdown => endPhase s .shutdown
  | c => applySetting s c

/-- `wait_for_enabled` -/
def tickWait (s : State σ) : Option (State σ) :=
  if s.enabled then some (endPhase s .enabled)
  else match s.queue with
    | c :: q => some (waitCmd { s with queue := q } c)
    | [] => if closed s then some (endPhase s .shutdown) else none

/-- `fail_next_request` on command `c` inside `fail_requests` -/
def failCmd (s : State σ) : Cmd → State σ
  | .req r => complete s r .noConn
  | .shutdown => endPhase s .shutdown
  | c =>
    let s := applySetting s c
    if s.enabled then s else endPhase s .disabled

/-- `fail_requests_for` -/
def tickFail (s : State σ) (dl : Nat) (committed : Bool) : Option (State σ) :=
  let expired := decide (s.now ≥ dl)
  if expired && !committed then
    if recvReady s then
      let (c, s0) := flip s
      if c then some (endPhase s0 .elapsed) else some { s0 with pos := .failFor dl true }
    else some (endPhase s .elapsed)
  else match s.queue with
    | c :: q => some (failCmd { s with queue := q } c)
    | [] =>
      if closed s then some (endPhase s .shutdown)
      else if expired then some (endPhase s .elapsed) else none

/-- the outer task takes its next phase -/
def startPhase (F : Framing σ) (s : State σ) : Option (State σ) :=
  match s.phases with
  | [] => none
  | .session m :: ps =>
    -- `ClientLoop::run`: `timeout_counter.reset()`, `reader.reset()`
    some { s with phases := ps, pos := .idle m, nto := 0, pst := F.init, rb := RB.empty }
  | .waitEnabled :: ps => some { s with phases := ps, pos := .waitEnabled }
  | .failFor ms :: ps => some { s with phases := ps, pos := .failFor (s.now + ms) false }

/-- one thing the outer task can do without time passing; `none`: it is blocked -/
def tick (F : Framing σ) (s : State σ) : Option (State σ) :=
  if !s.alive then none
  else match s.pos with
    | .noPhase => startPhase F s
    | .idle m => tickIdle F s m
    | .inflight m q tx dl => tickInflight F s m q tx dl
    | .waitEnabled => tickWait s
    | .failFor dl c => tickFail s dl c

/-- every task runs until it blocks -/
def settle (F : Framing σ) : Nat → State σ → State σ
  | 0, s => s
  | fuel + 1, s =>
    match tick F s with
    | none =>
      -- the outer task is blocked: the tasks awaiting completed futures run and release their
      -- clones, which may close the channel and wake the outer task again
      if s.held = 0 then s else settle F fuel { s with held := 0 }
    | some s' => settle F fuel s'

def mocksSize : List Mock → Nat
  | [] => 0
  | k :: ks => rxSize k.rx + mocksSize ks

/-- more than the number of ticks possible without new input -/
def settleFuel (s : State σ) : Nat :=
  4 * (s.queue.length + s.phases.length + mocksSize s.mocks + s.rb.data.length) + 16

def settled (F : Framing σ) (s : State σ) : State σ := settle F (settleFuel s) s

/-! ## script steps -/

/-- the deadline of the timer the task is sleeping on -/
def nextTimer (s : State σ) : Option Nat :=
  if !s.alive then none
  else match s.pos with
    | .inflight _ _ _ dl => some dl
    | .failFor dl _ => some dl
    | _ => none

/-- the clock moves to `target`, but never past a timer the task is sleeping on -/
def moveClock (s : State σ) (target : Nat) : State σ :=
  let t := match nextTimer s with
    | some dl => min dl target
    | none => target
  { s with now := max s.now t }

/-- virtual time runs up to `target`; timers fire at their exact deadline -/
def advance (F : Framing σ) : Nat → Nat → State σ → State σ
  | 0, target, s => moveClock s target
  | fuel + 1, target, s =>
    match nextTimer s with
    | some dl =>
      if dl ≤ target then advance F fuel target (settled F (moveClock s dl))
      else moveClock s target
    | none => moveClock s target

def advanceFuel (s : State σ) : Nat := s.queue.length + s.phases.length + 2

/-- the requests of a list of commands -/
def reqsOf : List Cmd → List Req
  | [] => []
  | .req r :: cs => r :: reqsOf cs
  | _ :: cs => reqsOf cs

def completeAll (s : State σ) (res : Res) : List Req → State σ
  | [] => s
  | r :: rs => completeAll (complete s r res) res rs

def inflightReqs (s : State σ) : List Req :=
  match s.pos with
  | .inflight _ r _ _ => [r]
  | _ => []

/-- the outer task is cancelled: its future is dropped (the request in flight first), then the
    `ClientLoop` with the receiver and everything queued; every promise completes with Shutdown -/
def abort (s : State σ) : State σ :=
  if !s.alive then s
  else
    let s1 := completeAll s .shutdown (inflightReqs s ++ reqsOf s.queue)
    { s1 with alive := false, queue := [], pos := .noPhase, phases := [] }

inductive SubmitOp | R | C | T | Q
deriving DecidableEq, Repr

/-- what the public API does before a request can be queued
    (`AddressRange::try_from`, `WriteMultiple::from`, `of_read_bits` / `of_read_registers`) -/
inductive Precheck
  /-- refused, nothing is owed (`sub.<rid>.err.…`) -/
  | refuse (e : ReqErr)
  /-- `of_read_bits` / `of_read_registers` (the range is validated again, then the count limit
      of the request type) failed inside the API call -/
  | invalid (e : RangeErr) (bits : Bool)
  | pass

def precheck (literal : Bool) (req : ClientReq) : Precheck :=
  let read (bits : Bool) (limit s c : Nat) : Precheck :=
    match (if literal then .ok ⟨s, c⟩ else Range.tryFrom s c) with
    | .error e => .refuse (.badRange e)
    | .ok r =>
      match Range.tryFrom r.start r.count with
      | .error e => .invalid e bits
      | .ok r =>
        match r.limitedCount limit with
        | .error e => .invalid e bits
        | .ok _ => .pass
  let multi (s n : Nat) : Precheck :=
    if n > 65535 then .refuse .countTooBigForU16
    else match Range.tryFrom s n with
      | .error e => .refuse (.badRange e)
      | .ok _ => .pass
  match req with
  | .readCoils s c | .readDiscreteInputs s c => read true MAX_READ_COILS_COUNT s c
  | .readHoldingRegisters s c | .readInputRegisters s c => read false MAX_READ_REGISTERS_COUNT s c
  | .writeSingleCoil _ _ | .writeSingleRegister _ _ => .pass
  | .writeMultipleCoils s vs => multi s vs.length
  | .writeMultipleRegisters s vs => multi s vs.length

def styleOf : SubmitOp → Style
  | .R | .Q => .future
  | .C => .callback
  | .T => .trySend

/-- a request is submitted through a live handle -/
def submit (s : State σ) (op : SubmitOp) (r : Req) : State σ :=
  match precheck (op = .Q) r.req with
  | .refuse e => emit s (.sub r.rid (.badReq e))
  | .invalid e bits =>
    match op with
    | .T =>
      -- `FfiChannel::read_bits` / `read_registers` create the promise first and fail it with the
      -- range error they return
      emit (complete (accept s r.rid) r (.badReq (.badRange e))) (.sub r.rid (.badReq (.badRange e)))
    | _ => complete (accept s r.rid) r (.badReq (.badRange e))
  | .pass =>
    let s := accept s r.rid
    match op with
    | .T =>
      if !s.alive then emit (complete s r .shutdown) (.sub r.rid .closed)
      else if s.queue.length ≥ s.cap then emit (complete s r .shutdown) (.sub r.rid .full)
      else enqueue s (.req r)
    | _ =>
      if !s.alive then complete s r .shutdown
      else enqueue s (.req r)

/-- a setting sent with `try_send` (`FfiChannel::enable` …) -/
def trySetting (s : State σ) (op : CmdOp) (c : Cmd) : State σ :=
  if !s.alive || decide (s.queue.length ≥ s.cap) then emit s (.cmdErr op) else enqueue s c

def handleAlive (s : State σ) (h : Nat) : Bool := s.handles.getD h false

def pushRx (s : State σ) (x : Rx) : State σ :=
  match s.mocks.length with
  | 0 => s
  | n + 1 => let k := getMock s n; setMock s n { k with rx := k.rx ++ [x] }

/-- a step of the script -/
inductive Step
  | newSession                         -- N
  | waitEnabled                        -- V
  | failFor (ms : Nat)                 -- F<ms>
  | enable (h : Nat)                   -- E<h>
  | disable (h : Nat)                  -- D<h>
  | shutdown (h : Nat)                 -- S<h>
  | setDecode (d : Decode)             -- L<dXYZ>
  | cloneHandle                        -- H+
  | dropHandle (i : Nat)               -- H-<i>
  | submit (op : SubmitOp) (h : Nat) (r : Req)
  | rx (x : Rx)                        -- X<hex>, Xe, Xf
  | failWrite                          -- W
  | advance (ms : Nat)                 -- A<ms>
  | abort                              -- K
deriving DecidableEq, Repr

def addPhase (s : State σ) (p : Phase) : State σ :=
  if s.alive then { s with phases := s.phases ++ [p] } else s

/-- the direct effect of a script step (before the tasks run) -/
def applyStep (s : State σ) : Step → State σ
  | .newSession =>
    let m := s.mocks.length
    addPhase { s with mocks := s.mocks ++ [{}] } (.session m)
  | .waitEnabled => addPhase s .waitEnabled
  | .failFor ms => addPhase s (.failFor ms)
  | .enable h => if handleAlive s h then trySetting s .E .enable else s
  | .disable h => if handleAlive s h then trySetting s .D .disable else s
  | .setDecode d => if handleAlive s 0 then trySetting s .L (.setDecode d) else s
  | .shutdown h =>
    -- `Channel::shutdown` is `send().await` in a spawned task
    if handleAlive s h && s.alive then enqueue s .shutdown else s
  | .cloneHandle => { s with handles := s.handles ++ [s.handles.any id] }
  | .dropHandle i => { s with handles := s.handles.set i false }
  | .submit op h r =>
    if handleAlive s h then submit s op r else emit s (.sub r.rid .noHandle)
  | .rx x => pushRx s x
  | .failWrite =>
    match s.mocks.length with
    | 0 => s
    | n + 1 => setMock s n { getMock s n with wErr := true }
  | .advance _ => s
  | .abort => abort s

/-- a script step followed by the tasks running until they block -/
def stepState (F : Framing σ) (s : State σ) (st : Step) : State σ :=
  match st with
  | .advance ms => advance F (advanceFuel s) (s.now + ms) s
  | st => settled F (applyStep s st)

/-- the entries logged since `old` -/
def newEntries (old new : List LogEntry) : List LogEntry :=
  (new.take (new.length - old.length)).reverse

def step (F : Framing σ) (s : State σ) (st : Step) : State σ × List LogEntry :=
  let s' := stepState F s st
  (s', newEntries s.log s'.log)

/-- a whole script: the final state and the log group of each step -/
def run (F : Framing σ) (s : State σ) : List Step → State σ × List (List LogEntry)
  | [] => (s, [])
  | st :: rest =>
    let (s1, g) := step F s st
    let (s2, gs) := run F s1 rest
    (s2, g :: gs)

def runState (F : Framing σ) (s : State σ) (steps : List Step) : State σ :=
  steps.foldl (stepState F) s

end

end Rodbus.Client
