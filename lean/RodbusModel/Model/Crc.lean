import RodbusModel.Model.Basic
/-
  M4a: CRC-16/MODBUS as used by `serial/frame.rs` (`crc::CRC_16_MODBUS`: width 16, reflected
  polynomial 0xA001, init 0xFFFF, refin/refout, no final xor).

  The register is a `Nat`; one bit-step `g` shifts right and xors the reflected polynomial when the
  bit shifted out is 1.  A byte is xored into the low 8 bits and followed by 8 bit-steps
  (equivalent to the table-driven update of the `crc` crate; compared against the crate on the
  repository's vectors and random strings by the correspondence harness).
-/
namespace Rodbus.Crc

/-- reflected generator polynomial of CRC-16/MODBUS -/
def P : Nat := 0xA001

/-- one bit-step of the reflected CRC-16/MODBUS register -/
def g (s : Nat) : Nat := if s % 2 = 1 then (s / 2) ^^^ P else s / 2

/-- `iter f n` = `f` applied `n` times -/
def iter (f : Nat → Nat) : Nat → Nat → Nat
  | 0, s => s
  | n+1, s => iter f n (f s)

/-- update of the register with one byte (`Digest::update` on a one-byte slice) -/
def byteStep (s b : Nat) : Nat := iter g 8 (s ^^^ b)

/-- running CRC from register value `s` (`Digest::update`) -/
def crcFrom (s : Nat) (bs : Bytes) : Nat := bs.foldl byteStep s

/-- `CRC.checksum(bytes)` = `digest(); update(bytes); finalize()` -/
def crc (bs : Bytes) : Nat := crcFrom 0xFFFF bs

end Rodbus.Crc
