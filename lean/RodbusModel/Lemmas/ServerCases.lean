import RodbusModel.Lemmas.Server
import RodbusModel.Model.Mbap
import RodbusModel.Model.Rtu
/-
  Vocabulary and case lemmas for stating C01 / C02 / C08 / C17: what `handleFrame` does in each
  of the situations the reference server distinguishes.  All of it is derived from
  `handleFrame_eq_respond` by unfolding `Spec.Server.respond`.

  The definitions below are *additive* (nothing in Model/ or Spec/ depends on them); they only give
  names to things the property statements talk about.
-/
namespace Rodbus
open Rodbus.Spec.Server

/-! ## vocabulary -/

/-- the call is a question to the authorization handler (as opposed to a `RequestHandler` call) -/
def Call.isAuth : Call → Bool
  | .authRange .. | .authIndex .. => true
  | _ => false

/-- the request a frame denotes: its PDU is a known function code followed by a valid body -/
def requestOf (f : Frame) : Option Request :=
  match f.pdu with
  | [] => none
  | b :: body =>
    match Fc.ofByte b with
    | none => none
    | some fc => if validBody fc body then some (decode fc body) else none

/-- `FrameDestination::Broadcast`: only the RTU parser produces it, for destination byte 0 -/
def isBroadcast {σ : Type} (cfg : ServerCfg σ) (f : Frame) : Bool := cfg.rtu && f.dest == 0

/-- `AuthorizationType::is_authorized` = `Allow` -/
def ServerCfg.allows {σ : Type} (cfg : ServerCfg σ) (dest : Nat) (req : Request) : Bool :=
  match cfg.auth with
  | none => true
  | some (P, role) => P req.fc dest req.authArg role

/-- the authorization question asked for `req` (none when no handler is configured) -/
def ServerCfg.question {σ : Type} (cfg : ServerCfg σ) (dest : Nat) (req : Request) : List Call :=
  match cfg.auth with
  | none => []
  | some (_, role) => [authQuestion req dest role]

/-- the read request of function `fc` (meaningful for the four read functions) -/
def mkRead (fc : Fc) (r : Range) : Request :=
  match fc with
  | .readCoils => .readCoils r
  | .readDiscreteInputs => .readDiscreteInputs r
  | .readHoldingRegisters => .readHoldingRegisters r
  | _ => .readInputRegisters r

/-- the handler call that reads address `a` of unit `u` for function `fc`
    (meaningful for the four read functions) -/
def readCall (fc : Fc) (u a : Nat) : Call :=
  match fc with
  | .readCoils => .readCoil u a
  | .readDiscreteInputs => .readDiscreteInput u a
  | .readHoldingRegisters => .readHoldingRegister u a
  | _ => .readInputRegister u a

/-- the bit getter of function `fc` (coils / discrete inputs) -/
def Handler.readBit {σ : Type} (H : Handler σ) (fc : Fc) (s : σ) (a : Nat) : Except Nat Bool :=
  match fc with
  | .readCoils => H.readCoil s a
  | _ => H.readDiscreteInput s a

/-- the register getter of function `fc` (holding / input registers) -/
def Handler.readReg {σ : Type} (H : Handler σ) (fc : Fc) (s : σ) (a : Nat) : Except Nat Nat :=
  match fc with
  | .readHoldingRegisters => H.readHoldingRegister s a
  | _ => H.readInputRegister s a

def errOf {α : Type} : Except Nat α → Option Nat
  | .error e => some e
  | .ok _ => none

/-- the exception raised by reading address `a` with function `fc`, if any -/
def Handler.readErr {σ : Type} (H : Handler σ) (fc : Fc) (s : σ) (a : Nat) : Option Nat :=
  match fc with
  | .readCoils => errOf (H.readCoil s a)
  | .readDiscreteInputs => errOf (H.readDiscreteInput s a)
  | .readHoldingRegisters => errOf (H.readHoldingRegister s a)
  | .readInputRegisters => errOf (H.readInputRegister s a)
  | _ => none

/-- the one handler call a write request amounts to on unit `u` (`[]` for reads) -/
def writeCalls (req : Request) (u : Nat) : List Call :=
  match req with
  | .writeSingleCoil i v => [.writeSingleCoil u i v]
  | .writeSingleRegister i v => [.writeSingleRegister u i v]
  | .writeMultipleCoils r vals => [.writeMultipleCoils u r (indexed r.start vals)]
  | .writeMultipleRegisters r vals => [.writeMultipleRegisters u r (indexed r.start vals)]
  | _ => []

/-- result and new state of handing a write request to the handler (identity for reads) -/
def Handler.applyWrite {σ : Type} (H : Handler σ) (s : σ) (req : Request) : Except Nat Unit × σ :=
  match req with
  | .writeSingleCoil i v => H.writeSingleCoil s i v
  | .writeSingleRegister i v => H.writeSingleRegister s i v
  | .writeMultipleCoils r vals => H.writeMultipleCoils s r (indexed r.start vals)
  | .writeMultipleRegisters r vals => H.writeMultipleRegisters s r (indexed r.start vals)
  | _ => (.ok (), s)

/-- the request echoed by a successful write: address + value / start + quantity -/
def writeEcho (req : Request) : Bytes :=
  match req with
  | .writeSingleCoil i v => u16be i ++ u16be (coilToU16 v)
  | .writeSingleRegister i v => u16be i ++ u16be v
  | .writeMultipleCoils r _ | .writeMultipleRegisters r _ => u16be r.start ++ u16be r.count
  | _ => []

/-- `FrameWriter::format_*` with the header of the request frame -/
def frameReply (rtu : Bool) (f : Frame) (pdu : Bytes) : Bytes :=
  if rtu then Rtu.format f.dest pdu else Mbap.format (f.tx.getD 0) f.dest pdu

/-- the frame is answered with nothing, nothing is asked of the application, nothing changes -/
def silent {σ : Type} (hs : List (Nat × σ)) : FrameOut σ := ⟨none, [], hs⟩

/-! ## function code bytes -/

theorem Fc.ofByte_toByte (fc : Fc) : Fc.ofByte fc.toByte = some fc := by cases fc <;> rfl

theorem Fc.toByte_of_ofByte {b : Nat} {fc : Fc} (h : Fc.ofByte b = some fc) : fc.toByte = b := by
  unfold Fc.ofByte at h
  repeat' split at h
  all_goals first | (injection h with h; subst h; simp [Fc.toByte, *]) | simp at h

theorem Fc.toByte_lt (fc : Fc) : fc.toByte < 128 := by cases fc <;> decide

theorem orErr_toByte (fc : Fc) : orErr fc.toByte = fc.toByte + 128 := by cases fc <;> rfl

/-- on bytes `orErr` is `| 0x80` -/
theorem orErr_eq_lor : ∀ b < 256, orErr b = b ||| 0x80 := by decide +kernel

/-! ## `requestOf` -/

theorem requestOf_some_iff (f : Frame) (req : Request) :
    requestOf f = some req ↔
      ∃ b body fc, f.pdu = b :: body ∧ Fc.ofByte b = some fc ∧ validBody fc body = true
        ∧ req = decode fc body := by
  unfold requestOf
  constructor
  · intro h
    split at h
    · simp at h
    · rename_i b body hp
      split at h
      · simp at h
      · rename_i fc hfc
        split at h
        · rename_i hv
          injection h with h; exact ⟨b, body, fc, hp, hfc, hv, h.symm⟩
        · simp at h
  · rintro ⟨b, body, fc, hp, hfc, hv, rfl⟩
    simp [hp, hfc, hv]

theorem requestOf_of {f : Frame} {b : Nat} {body : Bytes} {fc : Fc} (hp : f.pdu = b :: body)
    (hfc : Fc.ofByte b = some fc) (hv : validBody fc body = true) :
    requestOf f = some (decode fc body) :=
  (requestOf_some_iff f _).2 ⟨b, body, fc, hp, hfc, hv, rfl⟩

theorem requestOf_fc {f : Frame} {req : Request} (h : requestOf f = some req) :
    ∃ body, f.pdu = req.fc.toByte :: body := by
  obtain ⟨b, body, fc, hp, hfc, _, rfl⟩ := (requestOf_some_iff f req).1 h
  exact ⟨body, by rw [decode_fc, Fc.toByte_of_ofByte hfc]; exact hp⟩

/-- a frame denotes a request iff the cursor-style parser of the implementation accepts it -/
theorem requestOf_eq_parse (f : Frame) :
    requestOf f = match f.pdu with
      | [] => none
      | b :: body => (Fc.ofByte b).bind fun fc => parseRequest fc body := by
  unfold requestOf
  cases hp : f.pdu with
  | nil => rfl
  | cons b body =>
    simp only []
    cases hfc : Fc.ofByte b with
    | none => rfl
    | some fc => simp [parseRequest_eq]

theorem decode_read (fc : Fc) (h : fc.isRead = true) (body : Bytes) :
    decode fc body = mkRead fc ⟨u16At body 0, u16At body 2⟩ := by
  cases fc <;> first | rfl | simp [Fc.isRead] at h

theorem mkRead_fc (fc : Fc) (h : fc.isRead = true) (r : Range) : (mkRead fc r).fc = fc := by
  cases fc <;> first | rfl | simp [Fc.isRead] at h

theorem isWrite_iff_not_isRead (req : Request) : isWrite req = !req.fc.isRead := by
  cases req <;> rfl

theorem isWrite_mkRead (fc : Fc) (r : Range) : isWrite (mkRead fc r) = false := by
  cases fc <;> rfl

/-! ## the four situations of `handle_frame` -/

theorem handleFrame_empty {σ : Type} (cfg : ServerCfg σ) (hs : List (Nat × σ)) (f : Frame)
    (hp : f.pdu = []) : handleFrame cfg hs f = silent hs := by
  rw [handleFrame_eq_respond]; simp [respond, hp, silent]

theorem handleFrame_unknown {σ : Type} (cfg : ServerCfg σ) (hs : List (Nat × σ)) (f : Frame)
    {b : Nat} {body : Bytes} (hp : f.pdu = b :: body) (hfc : Fc.ofByte b = none) :
    handleFrame cfg hs f =
      if isBroadcast cfg f = false ∧ (lookupUnit hs f.dest).isSome then
        ⟨some [orErr b, 1], [], hs⟩
      else silent hs := by
  rw [handleFrame_eq_respond]
  simp only [respond, hp, hfc, isBroadcast, silent, List.isEmpty_cons, List.headD_cons]
  rcases Bool.eq_false_or_eq_true (cfg.rtu && f.dest == 0) with hb | hb <;>
    cases hl : lookupUnit hs f.dest <;> simp [hb]

theorem handleFrame_invalid {σ : Type} (cfg : ServerCfg σ) (hs : List (Nat × σ)) (f : Frame)
    {b : Nat} {body : Bytes} {fc : Fc} (hp : f.pdu = b :: body) (hfc : Fc.ofByte b = some fc)
    (hv : validBody fc body = false) :
    handleFrame cfg hs f =
      if isBroadcast cfg f = false ∧ (lookupUnit hs f.dest).isSome then
        ⟨some [orErr b, 3], [], hs⟩
      else silent hs := by
  rw [handleFrame_eq_respond]
  simp only [respond, hp, hfc, hv, isBroadcast, silent, List.isEmpty_cons, List.headD_cons,
    List.drop_succ_cons, List.drop_zero, Fc.toByte_of_ofByte hfc]
  rcases Bool.eq_false_or_eq_true (cfg.rtu && f.dest == 0) with hb | hb <;>
    cases hl : lookupUnit hs f.dest <;> simp [hb]

/-- a frame that does not denote a request: silence, or exception 01 / 03 from a configured,
    individually addressed unit.  No calls, no state change. -/
theorem handleFrame_no_request {σ : Type} (cfg : ServerCfg σ) (hs : List (Nat × σ)) (f : Frame)
    (h : requestOf f = none) :
    (handleFrame cfg hs f).calls = [] ∧ (handleFrame cfg hs f).states = hs ∧
      ((isBroadcast cfg f = true ∨ lookupUnit hs f.dest = none) →
        (handleFrame cfg hs f).reply = none) := by
  cases hp : f.pdu with
  | nil => rw [handleFrame_empty cfg hs f hp]; simp [silent]
  | cons b body =>
    cases hfc : Fc.ofByte b with
    | none =>
      rw [handleFrame_unknown cfg hs f hp hfc]
      split
      · rename_i hc; refine ⟨rfl, rfl, ?_⟩; rintro (h1 | h1) <;> simp [h1] at hc
      · simp [silent]
    | some fc =>
      have hv : validBody fc body = false := by
        cases hv : validBody fc body with
        | false => rfl
        | true => rw [requestOf_of hp hfc hv] at h; simp at h
      rw [handleFrame_invalid cfg hs f hp hfc hv]
      split
      · rename_i hc; refine ⟨rfl, rfl, ?_⟩; rintro (h1 | h1) <;> simp [h1] at hc
      · simp [silent]

/-- a frame that denotes a request -/
theorem handleFrame_request {σ : Type} (cfg : ServerCfg σ) (hs : List (Nat × σ)) (f : Frame)
    {req : Request} (h : requestOf f = some req) :
    handleFrame cfg hs f =
      if cfg.allows f.dest req = false then
        ⟨if isBroadcast cfg f then none else some [orErr req.fc.toByte, 1],
          cfg.question f.dest req, hs⟩
      else if isBroadcast cfg f then
        if isWrite req then
          ⟨none, cfg.question f.dest req ++ (applyToAll cfg.H req hs).1, (applyToAll cfg.H req hs).2⟩
        else ⟨none, cfg.question f.dest req, hs⟩
      else
        match lookupUnit hs f.dest with
        | none => ⟨none, cfg.question f.dest req, hs⟩
        | some s =>
          ⟨some (serve cfg.H f.dest s req).1, cfg.question f.dest req ++ (serve cfg.H f.dest s req).2.1,
            setUnit hs f.dest (serve cfg.H f.dest s req).2.2⟩ := by
  obtain ⟨b, body, fc, hp, hfc, hv, rfl⟩ := (requestOf_some_iff f req).1 h
  rw [handleFrame_eq_respond]
  simp only [respond, hp, hfc, hv, isBroadcast, ServerCfg.allows, ServerCfg.question, decode_fc,
    List.isEmpty_cons, List.headD_cons, List.drop_succ_cons, List.drop_zero]
  rcases Bool.eq_false_or_eq_true (cfg.rtu && f.dest == 0) with hb | hb <;>
  rcases Bool.eq_false_or_eq_true (isWrite (decode fc body)) with hw | hw <;>
    cases hl : lookupUnit hs f.dest <;> cases ha : cfg.auth with
  | none => simp [hb, hw]
  | some pr =>
    obtain ⟨P, role⟩ := pr
    rcases Bool.eq_false_or_eq_true (P fc f.dest (decode fc body).authArg role) with hP | hP <;>
      simp [hb, hw, hP]

end Rodbus
