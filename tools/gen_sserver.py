#!/usr/bin/env python3
"""Case generator of the `sserver` suite (harness: `pty rsrv`, Lean driver: `sserver`): the open /
retry life cycle of the RTU server task (`RtuServerTask::run`, serial/server.rs) on a device path
that the harness makes appear and disappear.  Line format (PROTOCOL.md, section "pty rsrv"):

    pty rsrv r<min ms>.<max ms> <units> <script>     script = `-` or steps joined by `,`
      f  the device path is absent from now on; the pending wait elapses / the first attempt is
         made (-> failed open, `Fail(d)`)
      o  the device path is present from now on; likewise (-> successful open, `Open`)
      x  the device disappears: path removed, an open port fails (-> `Wait(min)`)
      q<hex>  a request frame, served by the open session (-> `tx:<reply>`)
      b<hex>  a frame that ends the open session: bad CRC (-> `Wait(min)`)
      S / X   ServerHandle::shutdown() / every handle dropped (-> `End`)
      ~<ms>   pause

The task has no listener, so it cannot be held: between an announcement that carries a delay and
the step that decides the next attempt (`f` / `o`) or ends the task (`S` / `X`) the harness must not
yield.  Hence `q`, `b` and `~` are generated only while the port is open (`~` also after the end);
`x` is instantaneous and may come anywhere.  Every case costs real time (the announced delays are
really slept, every `q` waits for the wire to be quiet), so delays are small and the cost of a
script is bounded (`budget`).  Delays of 0 ms are never generated.

Conventions as in tools/gen.py: `r` is a `gen.Rng`, the generator yields case lines; the fixed
exhaustive part comes first, then `n` random scripts.
"""
import itertools
import gen

UNITS = "1:s0.0.100.3,s1.0.100.4,s2.0.100.5,s3.0.100.6"
# cap reached at once and not a power-of-two multiple of min; cap never reached
PAIRS = [(20, 50), (15, 1000)]
# letters of the exhaustive part (`q` / `b` stand for a request / a bad frame, filled in below)
LETTERS = ["f", "o", "x", "q", "b", "S", "X"]
# what one `q` step costs (write + until quiet), roughly
Q_COST_MS = 110


def walk(mn, mx, steps, limit_ms=1300):
    """follows the task's phases over a script: returns (prefix that is realizable and within the
    time limit, its cost).  Only realizability and cost are computed here; expected values come
    from the Lean model alone."""
    out, total = [], 0
    phase, present, k, pending = "starting", False, 0, 0

    def attempt():
        nonlocal phase, k, pending
        if present:
            phase, k = "open", 0
        else:
            phase, pending, k = "wait", min(mn * 2 ** k, mx), k + 1
    for s in steps:
        kind = s[0]
        if kind in "qb" and phase != "open":
            break
        if kind == "~" and phase not in ("open", "done"):
            break
        cost = (pending if (kind in "fo" and phase == "wait") else
                int(s[1:]) if kind == "~" else Q_COST_MS if kind == "q" else 0)
        if total + cost > limit_ms:
            break
        total += cost
        out.append(s)
        if kind in "fo":
            present = kind == "o"
            if phase in ("starting", "wait"):
                attempt()
        elif kind == "x":
            present = False
            if phase == "open":
                phase, pending = "wait", mn
        elif kind == "b":
            phase, pending = "wait", mn
        elif kind in "SX":
            phase = "done"
    return out, total


def read_holding(start, count):
    return gen.rtu(1, bytes([3]) + gen.be16(start) + gen.be16(count))


def write_register(addr, value):
    return gen.rtu(1, bytes([6]) + gen.be16(addr) + gen.be16(value))


def fixed_frames(letters):
    """the i-th `q` of a script alternates write / read-back of the same register (the handlers
    live on across re-opens), `b` is a good read with a bad CRC"""
    out, i = [], 0
    for s in letters:
        if s == "q":
            f = write_register(7, 0x1100 + i) if i % 2 == 0 else read_holding(6, 3)
            out.append("q" + f.hex())
            i += 1
        elif s == "b":
            out.append("b" + gen.rtu(1, bytes([3, 0, 0, 0, 1]), bad_crc=True).hex())
        else:
            out.append(s)
    return out


def exhaustive(max_len):
    for mn, mx in PAIRS:
        for ln in range(0, max_len + 1):
            for combo in itertools.product(LETTERS, repeat=ln):
                steps = fixed_frames(combo)
                ok, _ = walk(mn, mx, steps, limit_ms=10 ** 9)
                if len(ok) != len(steps):
                    continue            # not realizable (q / b while the port is not open)
                yield f"pty rsrv r{mn}.{mx} {UNITS} {','.join(steps) if steps else '-'}"


def random_request(r):
    k = r.below(100)
    if k < 40:
        return read_holding(r.rng(0, 90), r.rng(1, 8))
    if k < 70:
        return write_register(r.rng(0, 99), r.below(65536))
    if k < 80:
        return gen.rtu(1, bytes([1]) + gen.be16(r.rng(0, 80)) + gen.be16(r.rng(1, 19)))     # read coils
    if k < 88:
        return read_holding(r.rng(95, 200), r.rng(6, 9))                                  # exception 02
    if k < 94:
        return gen.rtu(r.pick([2, 9, 200]), bytes([3, 0, 1, 0, 1]))                       # nobody answers
    return gen.rtu(0, bytes([6]) + gen.be16(r.rng(0, 99)) + gen.be16(r.below(65536)))       # broadcast write


def random_bad(r):
    f = bytearray(random_request(r))
    if r.chance(1, 2):
        f[-1] ^= 1 << r.below(8)
    else:
        f[-2] ^= 1 << r.below(8)
    return bytes(f)


def random_script(r):
    """state-aware: `q` / `b` / `~` only while the port is open"""
    ln = r.rng(5, 16)
    steps, phase = [], "starting"
    while len(steps) < ln:
        k = r.below(100)
        if phase == "open":
            if k < 25:
                steps.append("q" + random_request(r).hex())
            elif k < 50:
                steps.append("b" + random_bad(r).hex())
                phase = "wait"
            elif k < 72:
                steps.append("x")
                phase = "wait"
            elif k < 82:
                steps.append(r.pick(["f", "o"]))       # the path alone: nothing happens
            elif k < 90:
                steps.append(f"~{r.rng(3, 25)}")
            elif k < 95:
                steps.append("S")
                phase = "done"
            else:
                steps.append("X")
                phase = "done"
        elif phase == "done":
            steps.append(r.pick(["f", "o", "x", "S", "X", "~5"]))
        else:
            if k < 50:
                steps.append("f")
                phase = "wait"
            elif k < 86:
                steps.append("o")
                phase = "open"
            elif k < 93:
                steps.append("x")
            elif k < 97:
                steps.append("S")
                phase = "done"
            else:
                steps.append("X")
                phase = "done"
    return steps


def gen_sserver(r, n, tier):
    """RTU server task open / retry life cycle: announced delays, opens, session ends, replies, end
    of the task for scripts of path / wire / user events; exhaustive short scripts for two
    (min, max) pairs, then random longer ones"""
    for line in exhaustive(5 if tier == "thorough" else 4):
        yield line
    for _ in range(n):
        mn = r.pick([10, 12, 20, 30, 45, 60, r.rng(10, 60)])
        mx = r.pick([mn, 2 * mn, 3 * mn + 7, 8 * mn, 1000, max(5, mn // 2), 5, r.rng(5, 400)])
        steps, _ = walk(mn, mx, random_script(r))
        yield f"pty rsrv r{mn}.{mx} {UNITS} {','.join(steps) if steps else '-'}"


if __name__ == "__main__":
    import sys
    seed, n = int(sys.argv[1]), int(sys.argv[2])
    tier = sys.argv[3] if len(sys.argv) > 3 else "quick"
    for line in gen_sserver(gen.Rng(seed, "sserver"), n, tier):
        print(line)
