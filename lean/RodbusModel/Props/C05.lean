import RodbusModel.Lemmas.Mbap
/-
  C05  MBAP framing is segmentation-independent and rejects malformed headers.

  Model: `Mbap.run chunks` = `FramedReader::tcp()` (`MbapParser` + `ReadBuffer`, the same reader in
  the client and in the server role) fed the network reads `chunks`.
  Specification: `Mbap.specFrames stream` (Spec/Mbap.lean), defined on the whole stream.
  Only property theorems and non-vacuity examples here; proofs are in Lemmas/Mbap.lean.
-/
namespace Rodbus
open Mbap (Msg Reach)

/-! ### segmentation independence -/

/-- For every byte stream and every way of splitting it into network reads (1-byte reads, reads
    larger than the free space of the 260-byte buffer, empty reads = no-op), the buffered reader
    processes exactly the events of the whole stream: same frames, same results, same order. -/
theorem chunking_independent (chunks : List Bytes) :
    Mbap.run chunks = Mbap.specFrames chunks.flatten := by
  have := Mbap.run_spec chunks .begin RB.empty (by simp [Mbap.Inv, RB.empty, CAP]) trivial
    (by simp [Mbap.parse, RB.empty])
  simpa [Mbap.run, Mbap.specFrom, RB.empty] using this

/-- Two ways of splitting the same stream are indistinguishable. -/
theorem chunking_irrelevant (c1 c2 : List Bytes) (h : c1.flatten = c2.flatten) :
    Mbap.run c1 = Mbap.run c2 := by
  rw [chunking_independent, chunking_independent, h]

/-! ### the reader never reads into a full buffer -/

/-- In every reachable reader state the indices stay inside the 260-byte array
    (`end = begin + len ≤ capacity`) and a pending ADU length is at most 253. -/
theorem reader_invariant {st : Mbap.PState} {rb : RB} (h : Reach st rb) :
    rb.begin + rb.data.length ≤ CAP ∧ ∀ hd adu, st = .header hd adu → adu ≤ 253 := by
  obtain ⟨h1, h2⟩ := Mbap.reach_inv h
  refine ⟨h1, ?_⟩
  intro hd adu he; subst he; exact h2

/-- `Reach` covers the reader loop: from a reachable state, `pump` (any fuel, any delivery) blocks
    in a reachable state. -/
theorem pump_reachable {fuel : Nat} {st st' : Mbap.PState} {rb rb' : RB} {pend : Bytes}
    {es : List Event} (h : Reach st rb)
    (hp : pump Mbap.parse fuel st rb pend = (es, some (st', rb'))) : Reach st' rb' :=
  Mbap.pump_reach fuel st rb pend es st' rb' h hp

/-- Whenever the reader loop, in any reachable state, gets `Ok(None)` from the parser and calls
    `read_some`, there is free space after the reset/compaction: the zero-length read that
    `read_some` would report as `UnexpectedEof` cannot happen. -/
theorem read_has_space {st st' : Mbap.PState} {rb rb' : RB} (h : Reach st rb)
    (hp : Mbap.parse st rb = (.none, st', rb')) (pend : Bytes) :
    readSome rb' pend ≠ none ∧ rb'.data.length < 253 := by
  obtain ⟨hi, hs⟩ := Mbap.reach_inv h
  obtain ⟨_, hs', hne⟩ := Mbap.readSome_after_none st rb st' rb' pend hi hs hp
  have h3 := (Mbap.parse_none st rb st' rb' [] hp).2.2.1
  have := Mbap.need_le st' hs'
  exact ⟨hne, by omega⟩

/-- The same at the level of the loop itself: from a reachable state, for any fuel and any
    delivery, `pump` never emits the spurious EOF. -/
theorem pump_read_has_space {st : Mbap.PState} {rb : RB} (h : Reach st rb) (fuel : Nat)
    (pend : Bytes) : Event.err .spuriousEof ∉ (pump Mbap.parse fuel st rb pend).1 :=
  Mbap.pump_no_spurious fuel st rb pend h

/-- Every error a run reports is one of the three header rejections. -/
theorem run_errors (chunks : List Bytes) (e : FrameErr) (h : Event.err e ∈ Mbap.run chunks) :
    (∃ p, p ≠ 0 ∧ e = .unknownProtocolId p) ∨ (∃ n, 254 < n ∧ e = .frameLengthTooBig n 254)
      ∨ e = .mbapLengthZero := by
  rw [chunking_independent] at h
  exact Mbap.specFrames_err_kind _ _ (Nat.le_refl _) e h

/-- No run, for any stream and any chunking, contains the spurious EOF. -/
theorem no_spurious_eof (chunks : List Bytes) : Event.err .spuriousEof ∉ Mbap.run chunks :=
  fun h => Mbap.HeaderErr.ne_spurious (run_errors chunks _ h) rfl

/-- No run reaches the `InsufficientBytesForRead` internal error of the cursor. -/
theorem no_internal_error (chunks : List Bytes) :
    Event.err .internalShortRead ∉ Mbap.run chunks :=
  fun h => Mbap.HeaderErr.ne_internal (run_errors chunks _ h) rfl

/-! ### malformed headers end the session -/

/-- A header (the 7 bytes at a frame boundary) with a non-zero protocol id, a zero length or a
    length above 254 yields exactly the corresponding error; nothing after it is interpreted,
    whatever follows. -/
theorem bad_header_ends_session (t1 t0 p1 p0 l1 l0 u : Nat) (rest : Bytes)
    (hbad : be16 p1 p0 ≠ 0 ∨ be16 l1 l0 = 0 ∨ 254 < be16 l1 l0) :
    Mbap.specFrames ([t1, t0, p1, p0, l1, l0, u] ++ rest)
      = [.err (Mbap.badHeaderErr (be16 p1 p0) (be16 l1 l0))] :=
  Mbap.specFrames_bad_header t1 t0 p1 p0 l1 l0 u rest hbad

/-- non-zero protocol id (checked first) -/
theorem bad_protocol_id (t1 t0 p1 p0 l1 l0 u : Nat) (rest : Bytes) (h : be16 p1 p0 ≠ 0) :
    Mbap.specFrames ([t1, t0, p1, p0, l1, l0, u] ++ rest)
      = [.err (.unknownProtocolId (be16 p1 p0))] := by
  rw [bad_header_ends_session _ _ _ _ _ _ _ _ (.inl h)]; simp [Mbap.badHeaderErr, h]

/-- length field above `MAX_LENGTH_FIELD` = 254 -/
theorem bad_length_too_big (t1 t0 p1 p0 l1 l0 u : Nat) (rest : Bytes) (hp : be16 p1 p0 = 0)
    (h : 254 < be16 l1 l0) :
    Mbap.specFrames ([t1, t0, p1, p0, l1, l0, u] ++ rest)
      = [.err (.frameLengthTooBig (be16 l1 l0) 254)] := by
  rw [bad_header_ends_session _ _ _ _ _ _ _ _ (.inr (.inr h))]; simp [Mbap.badHeaderErr, hp, h]

/-- length field zero -/
theorem bad_length_zero (t1 t0 p1 p0 l1 l0 u : Nat) (rest : Bytes) (hp : be16 p1 p0 = 0)
    (h : be16 l1 l0 = 0) :
    Mbap.specFrames ([t1, t0, p1, p0, l1, l0, u] ++ rest) = [.err .mbapLengthZero] := by
  rw [bad_header_ends_session _ _ _ _ _ _ _ _ (.inr (.inl h))]; simp [Mbap.badHeaderErr, hp, h]

/-- The same after any number of valid frames: the frames are delivered, then the error, then
    nothing. -/
theorem bad_header_after_frames (ms : List Msg) (hv : ∀ m ∈ ms, m.Valid)
    (t1 t0 p1 p0 l1 l0 u : Nat) (rest : Bytes)
    (hbad : be16 p1 p0 ≠ 0 ∨ be16 l1 l0 = 0 ∨ 254 < be16 l1 l0) :
    Mbap.specFrames ((ms.map Msg.bytes).flatten ++ ([t1, t0, p1, p0, l1, l0, u] ++ rest))
      = ms.map Msg.event ++ [.err (Mbap.badHeaderErr (be16 p1 p0) (be16 l1 l0))] := by
  rw [Mbap.specFrames_msgs_append ms hv, bad_header_ends_session _ _ _ _ _ _ _ _ hbad]

/-- … and for the buffered reader under every chunking of such a stream. -/
theorem bad_header_ends_session_chunked (chunks : List Bytes) (ms : List Msg)
    (hv : ∀ m ∈ ms, m.Valid) (t1 t0 p1 p0 l1 l0 u : Nat) (rest : Bytes)
    (hbad : be16 p1 p0 ≠ 0 ∨ be16 l1 l0 = 0 ∨ 254 < be16 l1 l0)
    (hc : chunks.flatten = (ms.map Msg.bytes).flatten ++ ([t1, t0, p1, p0, l1, l0, u] ++ rest)) :
    Mbap.run chunks
      = ms.map Msg.event ++ [.err (Mbap.badHeaderErr (be16 p1 p0) (be16 l1 l0))] := by
  rw [chunking_independent, hc, bad_header_after_frames ms hv _ _ _ _ _ _ _ _ hbad]

/-! ### boundaries depend only on the length field: nothing lost, nothing re-read -/

/-- `format_mbap` emits 7 header bytes plus the PDU. -/
theorem format_length (tx unit : Nat) (pdu : Bytes) :
    (Mbap.format tx unit pdu).length = 7 + pdu.length :=
  Mbap.format_length tx unit pdu

/-- … hence at most `MAX_FRAME_LENGTH` = 260 = the buffer capacity for a PDU of at most 253. -/
theorem format_length_le (tx unit : Nat) (pdu : Bytes) (h : pdu.length ≤ 253) :
    (Mbap.format tx unit pdu).length ≤ CAP := by
  rw [format_length]; simp [CAP]; omega

/-- `format_mbap` emits bytes. -/
theorem format_wf (m : Msg) (h : m.Valid) : Bytes.WF m.bytes :=
  Mbap.format_wf m.tx m.unit m.pdu h.2.1 h.2.2.2

/-- One formatted frame followed by anything: exactly that frame is delivered and the
    interpretation continues at the first byte after it. (The unit id and the PDU bytes are not
    constrained: they are copied, not interpreted.) -/
theorem specFrames_append_frame (tx unit : Nat) (pdu rest : Bytes) (htx : tx < 65536)
    (hp : pdu.length ≤ 253) :
    Mbap.specFrames (Mbap.format tx unit pdu ++ rest)
      = .frame ⟨some tx, unit, pdu⟩ :: Mbap.specFrames rest :=
  Mbap.specFrames_format_append tx unit pdu rest htx hp

/-- Any sequence of valid messages followed by anything. -/
theorem specFrames_append_frames (ms : List Msg) (hv : ∀ m ∈ ms, m.Valid) (rest : Bytes) :
    Mbap.specFrames ((ms.map Msg.bytes).flatten ++ rest)
      = ms.map Msg.event ++ Mbap.specFrames rest :=
  Mbap.specFrames_msgs_append ms hv rest

/-- Round trip: the concatenation of any sequence of formatted valid messages is cut back into
    exactly those messages, in order, none lost, none duplicated. -/
theorem frames_roundtrip (ms : List Msg) (hv : ∀ m ∈ ms, m.Valid) :
    Mbap.specFrames (ms.map Msg.bytes).flatten = ms.map Msg.event := by
  have := Mbap.specFrames_msgs_append ms hv []
  simpa [Mbap.specFrames_nil] using this

/-- … by the buffered reader under every chunking, and an incomplete next frame is kept, not
    reported. -/
theorem frames_roundtrip_chunked (chunks : List Bytes) (ms : List Msg) (hv : ∀ m ∈ ms, m.Valid)
    (hc : chunks.flatten = (ms.map Msg.bytes).flatten) :
    Mbap.run chunks = ms.map Msg.event := by
  rw [chunking_independent, hc, frames_roundtrip ms hv]

/-- Converse (decode, then re-encode): for every byte stream, the frames delivered account for a
    prefix of the stream byte for byte — consecutive, disjoint, in order; the remainder `tail` is
    either an incomplete frame (nothing delivered from it) or begins with the rejected header
    whose error is the last event. -/
theorem no_loss_no_reread (s : Bytes) (hwf : Bytes.WF s) :
    ∃ tail, s = ((Mbap.specFrames s).map Mbap.eventBytes).flatten ++ tail
      ∧ (Mbap.specFrames tail = []
          ∨ ∃ e, Mbap.specFrames tail = [.err e]
              ∧ (Mbap.specFrames s).getLast? = some (.err e)) := by
  obtain ⟨tail, h1, h2⟩ := Mbap.specFrames_reencode s.length s (Nat.le_refl _) hwf
  refine ⟨tail, h1, ?_⟩
  rcases h2 with h | ⟨e, a, _, c⟩
  · exact .inl h
  · exact .inr ⟨e, a, c⟩

/-! ### non-vacuity: concrete instances (kernel evaluation of the model) -/

section Examples
set_option maxRecDepth 100000

/-- `SIMPLE_FRAME` of the unit tests in tcp/frame.rs -/
private def simpleFrame : Bytes := [0x00, 0x07, 0x00, 0x00, 0x00, 0x04, 0x2A, 0x01, 0xCA, 0xFE]
private def simpleEvent : Event := .frame ⟨some 7, 0x2A, [0x01, 0xCA, 0xFE]⟩

/-- `correctly_formats_frame` -/
example : Mbap.format 7 42 [0x01, 0xCA, 0xFE] = simpleFrame := by decide

/-- `can_parse_frame_from_stream` -/
example : Mbap.run [simpleFrame] = [simpleEvent] := by decide

/-- `can_parse_frame_if_segmented_in_header` (split at 4) -/
example : Mbap.run [simpleFrame.take 4, simpleFrame.drop 4] = [simpleEvent] := by decide

/-- `can_parse_frame_if_segmented_in_payload` (split at 8) -/
example : Mbap.run [simpleFrame.take 8, simpleFrame.drop 8] = [simpleEvent] := by decide

/-- 1-byte reads, with an empty read in between, two frames -/
example : Mbap.run ((simpleFrame ++ simpleFrame).map fun b => [b]) = [simpleEvent, simpleEvent] := by
  decide

example : Mbap.run [simpleFrame.take 3, [], simpleFrame.drop 3 ++ simpleFrame.take 9] = [simpleEvent] := by
  decide

/-- `errors_on_bad_protocol_id`, after one good frame and with trailing bytes -/
example : Mbap.run [simpleFrame ++ [0x00, 0x07, 0xCA, 0xFE], [0x00, 0x01, 0x2A] ++ simpleFrame]
    = [simpleEvent, .err (.unknownProtocolId 0xCAFE)] := by decide

/-- `errors_on_length_of_zero` -/
example : Mbap.run [[0x00, 0x07, 0x00, 0x00, 0x00, 0x00, 0x2A]] = [.err .mbapLengthZero] := by decide

/-- `errors_when_mbap_length_too_big` -/
example : Mbap.run [[0x00, 0x07, 0x00, 0x00, 0x00, 0xFF, 0x2A]]
    = [.err (.frameLengthTooBig 255 254)] := by decide

/-- the protocol id is checked before the length -/
example : Mbap.run [[0x00, 0x07, 0x00, 0x01, 0xFF, 0xFF, 0x2A]] = [.err (.unknownProtocolId 1)] := by
  decide

/-- `can_parse_maximum_size_frame`: length field 254, header and 253-byte payload in two reads;
    the frame fills the 260-byte buffer exactly -/
example : Mbap.run [[0x00, 0x07, 0x00, 0x00, 0x00, 0xFE, 0x2A], List.replicate 253 0xCC]
    = [.frame ⟨some 7, 0x2A, List.replicate 253 0xCC⟩] := by decide

/-- an 8-byte frame followed by 26 `SIMPLE_FRAME`s = 268 bytes -/
private def shortFrame : Bytes := [0x00, 0x09, 0x00, 0x00, 0x00, 0x02, 0x01, 0x11]
private def longStream : Bytes := shortFrame ++ (List.replicate 26 simpleFrame).flatten
private def longEvents : List Event := .frame ⟨some 9, 1, [0x11]⟩ :: List.replicate 26 simpleEvent

/-- one delivery larger than the buffer: `read_some` takes 260 bytes, the 27th frame straddles the
    end of the buffer (2 bytes at offset 258), the buffer is compacted and the rest is read -/
example : Mbap.run [longStream] = longEvents := by decide

/-- the compaction step of that run in isolation -/
example : readSome ⟨258, [0x00, 0x07]⟩ [0, 0, 0, 4, 0x2A, 1, 0xCA, 0xFE]
    = some (⟨0, [0x00, 0x07, 0, 0, 0, 4, 0x2A, 1, 0xCA, 0xFE]⟩, []) := by decide

/-- a 300-byte delivery into the empty buffer is cut at the capacity -/
example : readSome RB.empty (List.replicate 300 0)
    = some (⟨0, List.replicate 260 0⟩, List.replicate 40 0) := by decide

/-- the same stream split at 256: the second read has 12 bytes for 4 bytes of free space -/
example : Mbap.run [longStream.take 256, longStream.drop 256] = longEvents := by decide

/-- the same stream in 1-byte reads -/
example : Mbap.run (longStream.map fun b => [b]) = longEvents := by decide

/-- Scope of `Mbap.run`: one reader instance from its initial state.  A reader that is *not*
    re-created for a new connection continues from its blocked state (`Mbap.run_spec`): here the
    state left by a reply truncated one byte before its end, `00 01 00 00 00 05 01 03 02 BE`,
    followed by the complete reply `… 12 34` of the next connection.  (This is what the TCP client
    does, tcp/client.rs:103 — executed: the request returns 0xBE00, then `FrameLengthTooBig(1281)`.) -/
example : runChunks Mbap.parse (.header ⟨1, 5, 1⟩ 4) ⟨7, [0x03, 0x02, 0xBE]⟩
      [[0x00, 0x01, 0x00, 0x00, 0x00, 0x05, 0x01, 0x03, 0x02, 0x12, 0x34]]
    = [.frame ⟨some 1, 1, [0x03, 0x02, 0xBE, 0x00]⟩, .err (.frameLengthTooBig 1281 254)] := by
  decide

/-- the hypotheses of `frames_roundtrip` / `bad_header_after_frames` are satisfiable -/
example : (⟨7, 0x2A, [0x01, 0xCA, 0xFE]⟩ : Msg).Valid := by
  refine ⟨by decide, by decide, by decide, by decide⟩

/-- a reachable reader state in the middle of a frame (after a read of the first 8 bytes) -/
example : Reach (.header ⟨7, 4, 0x2A⟩ 3) ⟨7, [0x01]⟩ := by
  have h1 : Reach .begin ⟨0, simpleFrame.take 8⟩ :=
    .read (st' := .begin) (rb' := RB.empty) (pend := simpleFrame.take 8) (pend' := []) .init
      (by decide) (by decide)
  exact .block h1 (by decide)

end Examples

end Rodbus
