import RodbusModel.Model.Basic
/-
  M11: `server/address_filter.rs`: `WildcardIPv4::from_str`, `WildcardIPv4::matches`,
  `AddressFilter::matches`.  Strings are lists of characters.
-/
namespace Rodbus.Filter

/-- `Option<u8>`: `None` is the wildcard -/
inductive Field
  | any
  | lit (n : Nat)
deriving DecidableEq, Repr

/-- decimal value of an ASCII digit (`char::to_digit(10)`) -/
def digit? (c : Char) : Option Nat :=
  if '0' ≤ c ∧ c ≤ '9' then some (c.toNat - 48) else none

/-- accumulate digits most-significant first; `none` on a non-digit -/
def digitsVal : Nat → List Char → Option Nat
  | acc, [] => some acc
  | acc, c :: cs =>
    match digit? c with
    | some d => digitsVal (acc * 10 + d) cs
    | none => none

/-- `u8::from_str` (`from_str_radix(_, 10)` for an unsigned type): empty → error; a single `+`
    or `-` → error; a leading `+` is skipped; every remaining char must be an ASCII digit; the
    checked arithmetic fails as soon as the value exceeds 255 (equivalently: the final value
    exceeds 255, since the value never decreases). -/
def parseDigits (ds : List Char) : Option Nat :=
  match digitsVal 0 ds with
  | some v => if v ≤ 255 then some v else none
  | none => none

def stripPlus : List Char → List Char
  | '+' :: rest => rest
  | s => s

def parseU8 (s : List Char) : Option Nat :=
  if s = [] ∨ stripPlus s = [] then none else parseDigits (stripPlus s)

/-- `get_byte` -/
def getByte (s : List Char) : Option Field :=
  if s = ['*'] then some .any
  else (parseU8 s).map .lit

/-- `str::split('.')`: always at least one (possibly empty) field -/
def splitDots : List Char → List (List Char)
  | [] => [[]]
  | c :: cs =>
    if c = '.' then [] :: splitDots cs
    else match splitDots cs with
      | f :: fs => (c :: f) :: fs
      | [] => [[c]]

structure Wildcard where
  b3 : Field
  b2 : Field
  b1 : Field
  b0 : Field
deriving DecidableEq, Repr

/-- `impl FromStr for WildcardIPv4`: exactly four fields -/
def parseWildcard (s : List Char) : Option Wildcard :=
  match splitDots s with
  | [f3, f2, f1, f0] =>
    match getByte f3, getByte f2, getByte f1, getByte f0 with
    | some a, some b, some c, some d => some ⟨a, b, c, d⟩
    | _, _, _, _ => none
  | _ => none

/-- peer addresses -/
inductive Addr
  | v4 (a b c d : Nat)
  | v6 (words : List Nat)
deriving DecidableEq, Repr

/-- `bm` -/
def fieldMatches (b : Nat) : Field → Bool
  | .any => true
  | .lit x => b == x

/-- `WildcardIPv4::matches` -/
def Wildcard.matches (w : Wildcard) : Addr → Bool
  | .v4 a b c d => fieldMatches a w.b3 && fieldMatches b w.b2 && fieldMatches c w.b1 && fieldMatches d w.b0
  | .v6 _ => false

/-- `AddressFilter` -/
inductive AddressFilter
  | any
  | exact (a : Addr)
  | anyOf (set : List Addr)
  | wildcard (w : Wildcard)
deriving DecidableEq, Repr

/-- `AddressFilter::matches` -/
def AddressFilter.matches : AddressFilter → Addr → Bool
  | .any, _ => true
  | .exact x, a => x == a
  | .anyOf set, a => set.contains a
  | .wildcard w, a => w.matches a

end Rodbus.Filter
