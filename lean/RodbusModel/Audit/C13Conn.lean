import RodbusModel.Props.C13Conn
#print axioms Rodbus.C13.connection_open_iff
#print axioms Rodbus.C13.next_state_announced_closed
#print axioms Rodbus.C13.connected_announced_open
#print axioms Rodbus.C13.closed_before_next_state
#print axioms Rodbus.C13.report_gate_log
#print axioms Rodbus.C13.session_end_closes_connection
#print axioms Rodbus.C13.disable_closes_connection'
#print axioms Rodbus.C13.shutdown_closes_connection'
#print axioms Rodbus.C13.drop_closes_connection'
#print axioms Rodbus.C13.idle_session_reachable_facts
#print axioms Rodbus.C13.afterShutdownOk_of_not_mem
#print axioms Rodbus.C13.afterShutdownOk_append_quiet
#print axioms Rodbus.C13.afterShutdownOk_shutdown_gate
#print axioms Rodbus.C13.foldl_applyAction_log
#print axioms Rodbus.C13.stop_shutRun
#print axioms Rodbus.C13.runStops_shutRun
#print axioms Rodbus.C13.nothing_after_shutdown
