import RodbusModel.Model.Session
import RodbusModel.Lemmas.ServerServe
/-
  Bridge between the session model (`handleEvents` / `runSession`, Model/Session.lean) and the
  frame-level fold `runFrames` (Model/Server.lean): a session handles exactly the frames that the
  reader delivered before its first framing error, and nothing else.  Used by the session forms
  of C01 (Props/C01Session.lean) and C02 (Props/C02Session.lean).

  The definitions are additive (nothing in Model/ or Spec/ depends on them).
-/
namespace Rodbus

/-- the frames the reader delivered before its first framing error -/
def framesBeforeError : List Event → List Frame
  | [] => []
  | .err _ :: _ => []
  | .frame f :: rest => f :: framesBeforeError rest

/-- the first framing error of an event list, if any -/
def firstError : List Event → Option FrameErr
  | [] => none
  | .err e :: _ => some e
  | .frame _ :: rest => firstError rest

/-- how a session over these events ends: with the first framing error, otherwise as the
    transport script says -/
def endOf (k : EndKind) (evs : List Event) : EndKind :=
  match firstError evs with
  | some e => .badFrame e
  | none => k

theorem framesBeforeError_frames (pre : List Frame) :
    framesBeforeError (pre.map Event.frame) = pre := by
  induction pre with
  | nil => rfl
  | cons f fs ih => simp [framesBeforeError, ih]

theorem framesBeforeError_frames_err (pre : List Frame) (e : FrameErr) (post : List Event) :
    framesBeforeError (pre.map Event.frame ++ Event.err e :: post) = pre := by
  induction pre with
  | nil => rfl
  | cons f fs ih => simp [framesBeforeError, ih]

theorem firstError_frames (pre : List Frame) : firstError (pre.map Event.frame) = none := by
  induction pre with
  | nil => rfl
  | cons f fs ih => simp [firstError, ih]

theorem firstError_frames_err (pre : List Frame) (e : FrameErr) (post : List Event) :
    firstError (pre.map Event.frame ++ Event.err e :: post) = some e := by
  induction pre with
  | nil => rfl
  | cons f fs ih => simp [firstError, ih]

/-- every event list is frames, then possibly an error and whatever follows it -/
theorem events_split (evs : List Event) :
    evs = (framesBeforeError evs).map Event.frame ∧ firstError evs = none
    ∨ ∃ e post, evs = (framesBeforeError evs).map Event.frame ++ Event.err e :: post
        ∧ firstError evs = some e := by
  induction evs with
  | nil => left; exact ⟨rfl, rfl⟩
  | cons ev rest ih =>
    cases ev with
    | err e => right; exact ⟨e, rest, rfl, rfl⟩
    | frame f =>
      rcases ih with ⟨h1, h2⟩ | ⟨e, post, h1, h2⟩
      · left; exact ⟨by simp only [framesBeforeError, List.map_cons]; rw [← h1], h2⟩
      · right
        exact ⟨e, post, by simp only [framesBeforeError, List.map_cons, List.cons_append]; rw [← h1],
          h2⟩

/-- `f` is one of the frames before the first error iff the event list is frames only up to an
    occurrence of `f` -/
theorem mem_framesBeforeError_iff (evs : List Event) (f : Frame) :
    f ∈ framesBeforeError evs ↔
      ∃ (pre : List Frame) (post : List Event),
        evs = pre.map Event.frame ++ Event.frame f :: post := by
  induction evs with
  | nil => simp [framesBeforeError]
  | cons ev rest ih =>
    cases ev with
    | err e =>
      simp only [framesBeforeError, List.not_mem_nil, false_iff]
      rintro ⟨pre, post, h⟩
      cases pre with
      | nil => simp at h
      | cons g gs => simp at h
    | frame g =>
      simp only [framesBeforeError, List.mem_cons]
      constructor
      · rintro (h | h)
        · subst h; exact ⟨[], rest, rfl⟩
        · obtain ⟨pre, post, hp⟩ := ih.1 h
          exact ⟨g :: pre, post, by rw [hp]; rfl⟩
      · rintro ⟨pre, post, h⟩
        cases pre with
        | nil =>
          simp only [List.map_nil, List.nil_append, List.cons.injEq, Event.frame.injEq] at h
          exact Or.inl h.1.symm
        | cons g' gs =>
          simp only [List.map_cons, List.cons_append, List.cons.injEq] at h
          exact Or.inr (ih.2 ⟨gs, post, h.2⟩)

/-- THE bridge: a session over an event list is `runFrames` over the frames before the first
    framing error; the bytes written are the framed replies of those frames, in order; the
    session ends with the first framing error if there is one -/
theorem handleEvents_eq_runFrames {σ : Type} (fr : Framing) (cfg : ServerCfg σ) (k : EndKind)
    (hs : List (Nat × σ)) (evs : List Event) :
    handleEvents fr cfg k hs evs =
      ⟨((runFrames cfg hs (framesBeforeError evs)).1.map fun p => frameOut fr p.1 p.2).flatten,
       (runFrames cfg hs (framesBeforeError evs)).2.1,
       (runFrames cfg hs (framesBeforeError evs)).2.2,
       endOf k evs⟩ := by
  induction evs generalizing hs with
  | nil => rfl
  | cons ev rest ih =>
    cases ev with
    | err e => rfl
    | frame f =>
      simp only [handleEvents, framesBeforeError, runFrames, endOf, firstError]
      rw [ih]
      cases (handleFrame cfg hs f).reply <;> simp [endOf]

/-- the events after the first framing error, and the error itself, contribute nothing: the
    session is the one that handles the frames before it and then ends with `badFrame e` -/
theorem handleEvents_err {σ : Type} (fr : Framing) (cfg : ServerCfg σ) (k : EndKind)
    (hs : List (Nat × σ)) (pre : List Frame) (e : FrameErr) (post : List Event) :
    handleEvents fr cfg k hs (pre.map Event.frame ++ Event.err e :: post)
      = handleEvents fr cfg (.badFrame e) hs (pre.map Event.frame) := by
  rw [handleEvents_eq_runFrames, handleEvents_eq_runFrames, framesBeforeError_frames_err,
    framesBeforeError_frames]
  simp [endOf, firstError_frames_err, firstError_frames]

/-- the configured units, as a Boolean test on the key list -/
theorem contains_keys_eq {σ : Type} (hs : List (Nat × σ)) (u : Nat) :
    (hs.map Prod.fst).contains u = (lookupUnit hs u).isSome := by
  cases h : (lookupUnit hs u).isSome with
  | true => simpa using (lookupUnit_isSome_iff hs u).1 h
  | false =>
    have : ¬ u ∈ hs.map Prod.fst := fun hm => by
      have := (lookupUnit_isSome_iff hs u).2 hm; rw [h] at this; cases this
    simpa using this

end Rodbus
