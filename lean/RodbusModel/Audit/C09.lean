import RodbusModel.Props.C09
import RodbusModel.Props.C09Client
import RodbusModel.Props.C15NetTls
#print axioms Rodbus.C09.versions_correct
#print axioms Rodbus.C09.tls_table_correct
#print axioms Rodbus.C09.negotiated_at_least_min
#print axioms Rodbus.C09.negotiation_succeeds
#print axioms Rodbus.C09.admit_iff
#print axioms Rodbus.C09.role_is_certificate_role
#print axioms Rodbus.C09.no_role_refused
#print axioms Rodbus.C09.no_authz_no_role
#print axioms Rodbus.C09.client_admit_iff
#print axioms Rodbus.C09.cert_accepted_meaning
#print axioms Rodbus.C09.no_certificate_refused
#print axioms Rodbus.C09.extra_certificates_irrelevant
#print axioms Rodbus.C09.role_is_end_entity_role
#print axioms Rodbus.C09.self_signed_single_certificate
#print axioms Rodbus.C09.empty_chain_refused
#print axioms Rodbus.C09.roleless_end_entity_refused
#print axioms Rodbus.C09.admitServerSeq_get
#print axioms Rodbus.C09.admitServerSeq_length
#print axioms Rodbus.C09.admission_history_independent
#print axioms Rodbus.C09.admission_depends_on_peer_only
#print axioms Rodbus.C09.roleless_refused_after_any_history
#print axioms Rodbus.C09.role_is_own_role_after_any_history
/- client-side Certificate message (Props/C09Client.lean); no service before admission (Props/C15NetTls.lean) -/
#print axioms Rodbus.C09.client_self_signed_single_certificate
#print axioms Rodbus.C09.client_extra_certificates_irrelevant
#print axioms Rodbus.C09.client_single_certificate
#print axioms Rodbus.C09.client_empty_chain_refused
#print axioms Rodbus.C09.client_chain_admit_iff
#print axioms Rodbus.C09.client_chain_version
#print axioms Rodbus.C09.client_self_signed_name_irrelevant
#print axioms Rodbus.C09.self_signed_verifier_symmetric
#print axioms Rodbus.C15Net.no_service_before_admission
#print axioms Rodbus.C15Net.no_service_before_admission_reachable
#print axioms Rodbus.C15Net.tls_trace_serves_nothing
#print axioms Rodbus.C15Net.tls_constant_run
