//! `net` suite: the production TCP/TLS server tasks on loopback (real sockets, real time).
//!
//! net <tcp|tls|tlsa>[6] m<max_sessions> <filter> <script>
//!   filter: any | x<ip> | s<ip>/<ip>… | w<hex wildcard string>
//!   script: `,`-joined steps
//!     c<k>.<src ip>  connect connection k from that source address
//!     q<k>           send a read request on k (tcp only) and wait for the reply
//!     P<k>.<n>       write n pipelined requests (read 125 holding registers, tx ids 0..n-1) on k
//!                    WITHOUT reading until the server has stopped making progress, then read the
//!                    replies: `n=<well-formed replies with consecutive tx ids>,<hex of the first>` | closed
//!     B<k1>/<k2>/…   close all these connections at the same instant (a burst of session ends)
//!     W<n>.<src ip>  churn: n times connect from that address and close at once (no output)
//!     g<k>           send garbage on k
//!     x<k>           close k on the client side
//!     p<k>           probe k: still open?
//!     L / S / H      set decode level / shutdown / drop the server handle
use crate::points::*;
use crate::util::*;
use rodbus::server::*;
use rodbus::*;
use std::collections::HashMap;
use std::net::{IpAddr, SocketAddr};
use std::sync::atomic::{AtomicUsize, Ordering};
use std::sync::Arc;
use std::time::{Duration, Instant};
use tokio::io::{AsyncReadExt, AsyncWriteExt, Interest};
use tokio::net::{TcpSocket, TcpStream};

const SETTLE_MS: u64 = 60;
const CHURN_YIELDS: usize = 3;

fn parse_filter(tok: &str) -> AddressFilter {
    match &tok[0..1] {
        "a" => AddressFilter::Any,
        "x" => AddressFilter::Exact(tok[1..].parse().unwrap()),
        "s" => AddressFilter::AnyOf(
            tok[1..]
                .split('/')
                .filter(|x| !x.is_empty())
                .map(|x| x.parse().unwrap())
                .collect(),
        ),
        _ => AddressFilter::WildcardIpv4(
            String::from_utf8(unhex(&tok[1..]))
                .unwrap()
                .parse::<WildcardIPv4>()
                .expect("generator only emits valid wildcards here"),
        ),
    }
}

/// The application of the `net` suite: 125 holding registers of unit 1 (`reg_val(1, addr)`, the
/// segment `s2.0.125.1` of the point database), every call counted.  (No call log: a pipelined
/// step makes millions of calls.)
struct NetHandler {
    calls: Arc<AtomicUsize>,
}

const NET_REGS: u16 = 125;

impl RequestHandler for NetHandler {
    fn read_holding_register(&self, address: u16) -> Result<u16, ExceptionCode> {
        self.calls.fetch_add(1, Ordering::Relaxed);
        if address < NET_REGS {
            Ok(reg_val(1, address as u32) as u16)
        } else {
            Err(ExceptionCode::IllegalDataAddress)
        }
    }
}

async fn connect_from(src: IpAddr, dst: SocketAddr) -> std::io::Result<TcpStream> {
    let sock = if src.is_ipv4() {
        TcpSocket::new_v4()?
    } else {
        TcpSocket::new_v6()?
    };
    sock.bind(SocketAddr::new(src, 0))?;
    tokio::time::timeout(Duration::from_millis(1000), sock.connect(dst))
        .await
        .map_err(|_| std::io::Error::from(std::io::ErrorKind::TimedOut))?
}

/// open = nothing to read within the probe window; closed = EOF / reset
async fn probe(s: &mut TcpStream) -> &'static str {
    let mut buf = [0u8; 64];
    match tokio::time::timeout(Duration::from_millis(SETTLE_MS), s.read(&mut buf)).await {
        Err(_) => "open",
        Ok(Ok(0)) => "closed",
        Ok(Ok(_)) => "data",
        Ok(Err(_)) => "closed",
    }
}

const PIPE_REQ: usize = 12;
const PIPE_REPLY: usize = 9 + 2 * NET_REGS as usize;

/// `P<k>.<n>`: n requests back to back, nothing read until the server has stopped making
/// progress (it has answered everything, or it is blocked on a full send buffer: the handler's
/// call counter stands still and nothing more can be written), then everything is read while the
/// rest is written.  Readiness-driven non-blocking I/O: the harness itself can never dead-lock.
/// `read_replies = false` (step `Z`): the peer stalls - it writes the requests, never reads, and
/// keeps the connection open, so that the session is left blocked in the write of a reply
async fn pipeline(s: &mut TcpStream, cnt: usize, calls: &AtomicUsize, read_replies: bool) -> String {
    pipeline_mid(s, cnt, calls, read_replies, None).await
}

/// `mid`: decode-level changes made through the server handle between the two phases, i.e. while
/// the session is blocked in a write and does not poll its command queue
async fn pipeline_mid(
    s: &mut TcpStream,
    cnt: usize,
    calls: &AtomicUsize,
    read_replies: bool,
    mid: Option<(&mut ServerHandle, usize)>,
) -> String {
    let mut reqs = Vec::with_capacity(cnt * PIPE_REQ);
    for i in 0..cnt {
        let t = i as u16;
        reqs.extend_from_slice(&[(t >> 8) as u8, t as u8, 0, 0, 0, 6, 1, 3, 0, 0, 0, NET_REGS as u8]);
    }
    let mut off = 0usize;
    let mut dead = false;
    // phase 1: write only
    let start = Instant::now();
    let mut last_progress = Instant::now();
    let mut last_calls = calls.load(Ordering::Relaxed);
    while !dead && start.elapsed() < Duration::from_millis(2500) {
        if off < reqs.len() {
            match tokio::time::timeout(Duration::from_millis(20), s.writable()).await {
                Err(_) => {}
                Ok(Err(_)) => dead = true,
                Ok(Ok(())) => match s.try_write(&reqs[off..]) {
                    Ok(n) => {
                        off += n;
                        last_progress = Instant::now();
                        // let the server run
                        tokio::task::yield_now().await;
                    }
                    Err(e) if e.kind() == std::io::ErrorKind::WouldBlock => {}
                    Err(_) => dead = true,
                },
            }
        } else {
            tokio::time::sleep(Duration::from_millis(10)).await;
        }
        let c = calls.load(Ordering::Relaxed);
        if c != last_calls {
            last_calls = c;
            last_progress = Instant::now();
        }
        if last_progress.elapsed() >= Duration::from_millis(120) {
            break;
        }
    }
    if !read_replies {
        return String::new();
    }
    if let Some((h, l)) = mid {
        for i in 0..l {
            let lvl = if i % 2 == 0 { "d322" } else { "d000" };
            let _ = tokio::time::timeout(Duration::from_millis(500), h.set_decode_level(decode_level(lvl))).await;
        }
        tokio::time::sleep(Duration::from_millis(30)).await;
    }
    // phase 2: read (and write what is left)
    let total = cnt * PIPE_REPLY;
    let mut got: Vec<u8> = Vec::with_capacity(total);
    let mut tmp = vec![0u8; 1 << 16];
    let mut ended = false;
    while got.len() < total {
        let interest = if off < reqs.len() && !dead {
            Interest::READABLE | Interest::WRITABLE
        } else {
            Interest::READABLE
        };
        let ready = match tokio::time::timeout(Duration::from_millis(500), s.ready(interest)).await {
            Err(_) => break,
            Ok(Err(_)) => {
                ended = true;
                break;
            }
            Ok(Ok(r)) => r,
        };
        if ready.is_readable() || ready.is_read_closed() {
            match s.try_read(&mut tmp) {
                Ok(n) if n > 0 => got.extend_from_slice(&tmp[..n]),
                Err(e) if e.kind() == std::io::ErrorKind::WouldBlock => {}
                _ => {
                    ended = true;
                    break;
                }
            }
        }
        if ready.is_writable() && off < reqs.len() {
            match s.try_write(&reqs[off..]) {
                Ok(n) => off += n,
                Err(e) if e.kind() == std::io::ErrorKind::WouldBlock => {}
                Err(_) => dead = true,
            }
        }
    }
    if got.len() < PIPE_REPLY && ended {
        // not even one reply, then EOF / reset (like `q`)
        return "closed".to_string();
    }
    // replies 0, 1, 2, …: reply i is the first reply with transaction id i
    let first: Vec<u8> = got[..got.len().min(PIPE_REPLY)].to_vec();
    let mut good = 0usize;
    while first.len() == PIPE_REPLY && (good + 1) * PIPE_REPLY <= got.len() {
        let r = &got[good * PIPE_REPLY..(good + 1) * PIPE_REPLY];
        let t = good as u16;
        if r[0] == (t >> 8) as u8 && r[1] == t as u8 && r[2..] == first[2..] {
            good += 1;
        } else {
            break;
        }
    }
    format!("n={},{}", good, hex(&first))
}

fn set_linger_zero(s: &TcpStream) {
    use std::os::fd::AsRawFd;
    let l = libc::linger {
        l_onoff: 1,
        l_linger: 0,
    };
    unsafe {
        libc::setsockopt(
            s.as_raw_fd(),
            libc::SOL_SOCKET,
            libc::SO_LINGER,
            &l as *const libc::linger as *const libc::c_void,
            std::mem::size_of::<libc::linger>() as libc::socklen_t,
        );
    }
}

fn tls_config() -> TlsServerConfig {
    let d = std::path::Path::new("/repo/certs/self_signed");
    TlsServerConfig::new(
        &d.join("entity2_cert.pem"),
        &d.join("entity1_cert.pem"),
        &d.join("entity1_key.pem"),
        None,
        MinTlsVersion::V1_2,
        CertificateMode::SelfSigned,
    )
    .expect("tls config")
}

pub async fn run_net(tok: &[&str]) -> String {
    let v6 = tok[1].ends_with('6');
    let variant = tok[1].trim_end_matches('6');
    let max: usize = tok[2][1..].parse().unwrap();
    let filter = parse_filter(tok[3]);
    let calls = Arc::new(AtomicUsize::new(0));
    let mut map: ServerHandlerMap<NetHandler> = ServerHandlerMap::new();
    map.add(UnitId::new(1), NetHandler { calls: calls.clone() }.wrap());
    let bind_ip: IpAddr = if v6 { "::1".parse().unwrap() } else { "127.0.0.1".parse().unwrap() };
    let listener = match tokio::net::TcpListener::bind(SocketAddr::new(bind_ip, 0)).await {
        Ok(l) => l,
        Err(e) => return format!("bind-failed:{e}"),
    };
    let addr = listener.local_addr().unwrap();
    let (handle, task) = match variant {
        "tcp" => create_tcp_server_task(max, listener, map, filter, DecodeLevel::nothing()),
        "tls" => create_tls_server_task(max, listener, map, tls_config(), filter, DecodeLevel::nothing()),
        _ => create_tls_server_task_with_authz(
            max,
            listener,
            map,
            ReadOnlyAuthorizationHandler::create(),
            tls_config(),
            filter,
            DecodeLevel::nothing(),
        ),
    };
    let mut handle = Some(handle);
    let mut out: Vec<String> = Vec::new();
    // `J<n>` (first step only): n decode-level commands are queued BEFORE the server task is first
    // polled (the command queue holds 8), then shutdown is requested with the handle kept alive:
    // a shutdown request must never be lost, however full the queue is
    let mut pre_shutdown = None;
    if let Some(n) = tok[4].split(',').next().and_then(|s| s.strip_prefix('J')) {
        let n: usize = n.parse().unwrap();
        let h = handle.as_mut().unwrap();
        for _ in 0..n.min(8) {
            let _ = tokio::time::timeout(Duration::from_millis(100), h.set_decode_level(decode_level("d322"))).await;
        }
        let h2 = handle.take().unwrap();
        pre_shutdown = Some(tokio::spawn(async move {
            let r = h2.shutdown().await;
            (h2, r)
        }));
    }
    let join = tokio::spawn(task.run());
    if let Some(p) = pre_shutdown {
        let r = tokio::time::timeout(Duration::from_millis(1000), p).await;
        tokio::time::sleep(Duration::from_millis(SETTLE_MS)).await;
        match r {
            Ok(Ok((h2, res))) => {
                out.push(format!("S:{}", if res.is_ok() { "ok" } else { "shutdown" }));
                handle = Some(h2);
            }
            _ => out.push("S:blocked".to_string()),
        }
    }
    let mut conns: HashMap<String, TcpStream> = HashMap::new();
    let mut tx: u16 = 0;
    let mut half: HashMap<String, u16> = HashMap::new();
    if tok[4] != "-" {
        for step in tok[4].split(',') {
            let (op, rest) = step.split_at(1);
            match op {
                "c" => {
                    let (k, src) = rest.split_once('.').unwrap();
                    match connect_from(src.parse().unwrap(), addr).await {
                        Err(_) => out.push(format!("c{k}:refused")),
                        Ok(mut s) => {
                            let st = probe(&mut s).await;
                            out.push(format!("c{k}:{st}"));
                            conns.insert(k.to_string(), s);
                        }
                    }
                }
                "C" => {
                    // burst connect `C<k1>.<ip1>/<k2>.<ip2>/…`: every connection is initiated before the
                    // server task runs again (the connects are spawned first and complete in the
                    // listener's backlog), so the server finds them all queued at its next accept
                    let items: Vec<(String, IpAddr)> = rest
                        .split('/')
                        .map(|x| {
                            let (k, ip) = x.split_once('.').unwrap();
                            (k.to_string(), ip.parse().unwrap())
                        })
                        .collect();
                    let tasks: Vec<_> = items
                        .iter()
                        .map(|(_, ip)| tokio::spawn(connect_from(*ip, addr)))
                        .collect();
                    let mut streams = Vec::new();
                    for t in tasks {
                        streams.push(t.await.unwrap_or_else(|_| Err(std::io::Error::from(std::io::ErrorKind::Other))));
                    }
                    tokio::time::sleep(Duration::from_millis(SETTLE_MS)).await;
                    for ((k, _), st) in items.into_iter().zip(streams) {
                        match st {
                            Err(_) => out.push(format!("c{k}:refused")),
                            Ok(mut s) => {
                                let st = probe(&mut s).await;
                                out.push(format!("c{k}:{st}"));
                                conns.insert(k, s);
                            }
                        }
                    }
                }
                "h" => {
                    // the first five bytes of a request; `t<k>` sends the rest (a request cut in two
                    // segments, with other steps - a decode level change - in between)
                    if let Some(s) = conns.get_mut(rest) {
                        tx = tx.wrapping_add(1);
                        half.insert(rest.to_string(), tx);
                        let _ = s.write_all(&[(tx >> 8) as u8, tx as u8, 0, 0, 0]).await;
                        let _ = s.flush().await;
                        tokio::time::sleep(Duration::from_millis(SETTLE_MS)).await;
                    }
                }
                "q" | "t" => {
                    let r = match conns.get_mut(rest) {
                        None => "noconn".to_string(),
                        Some(s) => {
                            if op == "q" {
                                tx = tx.wrapping_add(1);
                            }
                            // `t`: the transaction id announced by the matching `h`
                            let tx = if op == "q" { tx } else { half.remove(rest).unwrap_or(tx) };
                            let full = [(tx >> 8) as u8, tx as u8, 0, 0, 0, 6, 1, 3, 0, 0, 0, 1];
                            let req = if op == "q" { &full[..] } else { &full[5..] };
                            if s.write_all(req).await.is_err() {
                                "closed".to_string()
                            } else {
                                let mut buf = [0u8; 11];
                                match tokio::time::timeout(
                                    Duration::from_millis(500),
                                    s.read_exact(&mut buf),
                                )
                                .await
                                {
                                    Err(_) => "timeout".to_string(),
                                    Ok(Err(_)) => "closed".to_string(),
                                    Ok(Ok(_)) => {
                                        if buf[0] == (tx >> 8) as u8 && buf[1] == tx as u8 {
                                            format!("ok.{}", ((buf[9] as u16) << 8) | buf[10] as u16)
                                        } else {
                                            format!("wrongtx.{}", hex(&buf))
                                        }
                                    }
                                }
                            }
                        }
                    };
                    out.push(format!("q{rest}:{r}"));
                }
                "P" => {
                    // `P<k>.<n>[.<l>]`: l decode-level changes while the session is blocked in a write
                    let mut parts = rest.split('.');
                    let k = parts.next().unwrap();
                    let cnt: usize = parts.next().unwrap().parse().unwrap();
                    let l: usize = parts.next().map(|x| x.parse().unwrap()).unwrap_or(0);
                    let r = match conns.get_mut(k) {
                        None => "noconn".to_string(),
                        Some(s) => match handle.as_mut() {
                            Some(h) if l > 0 => pipeline_mid(s, cnt, &calls, true, Some((h, l))).await,
                            _ => pipeline(s, cnt, &calls, true).await,
                        },
                    };
                    out.push(format!("P{k}:{r}"));
                }
                "Z" => {
                    // a stalled peer: n requests written, nothing read, connection kept open
                    let (k, cnt) = rest.split_once('.').unwrap();
                    if let Some(s) = conns.get_mut(k) {
                        let _ = pipeline(s, cnt.parse().unwrap(), &calls, false).await;
                    }
                }
                "B" => {
                    // taken out of the table first, then dropped (closed) in one go
                    let gone: Vec<TcpStream> = rest.split('/').filter_map(|k| conns.remove(k)).collect();
                    drop(gone);
                    tokio::time::sleep(Duration::from_millis(SETTLE_MS)).await;
                }
                "W" => {
                    let (cnt, src) = rest.split_once('.').unwrap();
                    let cnt: usize = cnt.parse().unwrap();
                    let src: IpAddr = src.parse().unwrap();
                    for i in 0..cnt {
                        match connect_from(src, addr).await {
                            // nobody listens (or the source address is unusable): the rest would fail alike
                            Err(_) => break,
                            Ok(s) => {
                                // closed with a reset: no TIME_WAIT socket stays behind, the
                                // ephemeral ports do not run out
                                set_linger_zero(&s);
                                drop(s);
                            }
                        }
                        // let the server see the close before the next peer arrives (its tracker
                        // must not fill up with sessions that have ended already): one turn of
                        // the I/O driver each for accept + session start, session end, removal
                        let _ = i;
                        for _ in 0..CHURN_YIELDS {
                            tokio::task::yield_now().await;
                        }
                    }
                    tokio::time::sleep(Duration::from_millis(SETTLE_MS)).await;
                }
                "g" => {
                    let r = match conns.get_mut(rest) {
                        None => "noconn",
                        Some(s) => {
                            let _ = s.write_all(&[0, 1, 0xFF, 0xFF, 0, 2, 1, 3]).await;
                            probe(s).await
                        }
                    };
                    out.push(format!("g{rest}:{r}"));
                }
                "x" => {
                    conns.remove(rest);
                    tokio::time::sleep(Duration::from_millis(SETTLE_MS)).await;
                }
                "p" => {
                    let r = match conns.get_mut(rest) {
                        None => "noconn",
                        Some(s) => probe(s).await,
                    };
                    out.push(format!("p{rest}:{r}"));
                }
                "L" => {
                    if let Some(h) = handle.as_mut() {
                        let r = tokio::time::timeout(
                            Duration::from_millis(500),
                            h.set_decode_level(decode_level("d322")),
                        )
                        .await;
                        out.push(format!(
                            "L:{}",
                            match r {
                                Ok(Ok(())) => "ok",
                                Ok(Err(_)) => "shutdown",
                                Err(_) => "blocked",
                            }
                        ));
                    }
                }
                "S" => {
                    if let Some(h) = handle.as_ref() {
                        let r = tokio::time::timeout(Duration::from_millis(500), h.shutdown()).await;
                        out.push(format!(
                            "S:{}",
                            match r {
                                Ok(Ok(())) => "ok",
                                Ok(Err(_)) => "shutdown",
                                Err(_) => "blocked",
                            }
                        ));
                    }
                    tokio::time::sleep(Duration::from_millis(SETTLE_MS)).await;
                }
                "H" => {
                    handle = None;
                    tokio::time::sleep(Duration::from_millis(SETTLE_MS)).await;
                }
                _ => {}
            }
        }
    }
    let fin = if join.is_finished() { "taskdone" } else { "alive" };
    if !join.is_finished() {
        join.abort();
    }
    // with a stalled peer the number of requests answered before the send buffer filled up is
    // not determined
    let calls = if tok[4].split(',').any(|x| x.starts_with('Z')) {
        "*".to_string()
    } else {
        calls.load(Ordering::Relaxed).to_string()
    };
    format!(
        "{} | {} calls={}",
        if out.is_empty() { "-".into() } else { out.join(";") },
        fin,
        calls
    )
}
