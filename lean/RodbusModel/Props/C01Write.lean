import RodbusModel.Props.C01Session
import RodbusModel.Props.C02Session
/-
  C01 / C02 / C07 over a transport whose write fails (`io.write(...).await?` in
  server/task.rs): for EVERY configuration, handler state machine, unit map, framing, script and
  fault position `n` (the transport accepts `n` reply writes and fails the next one)

  * the session handles exactly a prefix of the frames the fault-free session handles: up to and
    including the request whose reply could not be written, and nothing after it;
  * the bytes on the wire are exactly the first `n` framed replies of the reference server;
  * the handler calls and states are those of the reference server over that prefix: the request
    whose reply was lost was executed exactly once (never retried, never rolled back);
  * the session ends with the write error iff the fault-free session has more than `n` replies;
    otherwise the fault is never reached and the session is the fault-free one.
-/
namespace Rodbus.C01W

/-- the frames a session handles when the transport accepts `n` reply writes and fails the next
    one, and whether the failing write was reached -/
def handledW {σ : Type} (cfg : ServerCfg σ) : Nat → List (Nat × σ) → List Frame → List Frame × Bool
  | _, _, [] => ([], false)
  | n, hs, f :: fs =>
    let o := handleFrame cfg hs f
    match o.reply, n with
    | none, n => let r := handledW cfg n o.states fs; (f :: r.1, r.2)
    | some _, 0 => ([f], true)
    | some _, n + 1 => let r := handledW cfg n o.states fs; (f :: r.1, r.2)

/-- the session's end in the vocabulary of `EndW` -/
def endW (failed : Bool) (k : EndKind) : EndW := if failed then .writeErr else .kind k

/-- when the failing write is reached, the handled prefix produced exactly `n + 1` replies: `n`
    written, one lost -/
theorem failed_reply_count {σ : Type} (cfg : ServerCfg σ) (n : Nat) (hs : List (Nat × σ))
    (fs : List Frame) (h : (handledW cfg n hs fs).2 = true) :
    (runFrames cfg hs (handledW cfg n hs fs).1).1.length = n + 1 := by
  induction fs generalizing hs n with
  | nil => simp [handledW] at h
  | cons f fs ih =>
    simp only [handledW] at h ⊢
    cases hr : (handleFrame cfg hs f).reply with
    | none =>
      simp only [hr] at h ⊢
      simp only [runFrames, hr, List.nil_append]
      exact ih n _ h
    | some p =>
      cases n with
      | zero => simp [runFrames, hr]
      | succ m =>
        simp only [hr] at h ⊢
        simp only [runFrames, hr, List.cons_append, List.nil_append, List.length_cons,
          Nat.add_right_cancel_iff]
        exact ih m _ h

/-- THE bridge for sessions with a failing write: `runFrames` over the handled prefix; all its
    replies but the last are on the wire when the failing write was reached -/
theorem handleEventsW_eq_runFrames {σ : Type} (fr : Framing) (cfg : ServerCfg σ) (k : EndKind)
    (n : Nat) (hs : List (Nat × σ)) (evs : List Event) :
    handleEventsW fr cfg k n hs evs =
      let h := handledW cfg n hs (framesBeforeError evs)
      let r := runFrames cfg hs h.1
      ⟨((if h.2 then r.1.dropLast else r.1).map fun p => frameOut fr p.1 p.2).flatten,
       r.2.1, r.2.2, endW h.2 (endOf k evs)⟩ := by
  induction evs generalizing hs n with
  | nil => rfl
  | cons ev rest ih =>
    cases ev with
    | err e => rfl
    | frame f =>
      rcases hr : (handleFrame cfg hs f).reply with _ | p
      · simp only [handleEventsW, framesBeforeError, handledW, hr, runFrames, List.nil_append,
          endOf, firstError]
        rw [ih]
        simp [endOf]
      · cases n with
        | zero =>
          simp [handleEventsW, framesBeforeError, handledW, runFrames, hr, endW]
        | succ m =>
          simp only [handleEventsW, framesBeforeError, handledW, hr, runFrames, endOf, firstError]
          rw [ih]
          cases hb : (handledW cfg m (handleFrame cfg hs f).states (framesBeforeError rest)).2
          · simp [endW, endOf, hb]
          · -- the failing write was reached in the tail: the tail has at least one reply
            have hne : (runFrames cfg (handleFrame cfg hs f).states
                (handledW cfg m (handleFrame cfg hs f).states (framesBeforeError rest)).1).1 ≠ [] := by
              have := failed_reply_count cfg m (handleFrame cfg hs f).states (framesBeforeError rest) hb
              intro h0
              rw [h0] at this
              simp at this
            simp [endW, endOf, hb, List.dropLast_cons_of_ne_nil hne]

/-- the handled frames are a prefix of the frames of the fault-free session -/
theorem handledW_prefix {σ : Type} (cfg : ServerCfg σ) (n : Nat) (hs : List (Nat × σ))
    (fs : List Frame) : (handledW cfg n hs fs).1 <+: fs := by
  induction fs generalizing hs n with
  | nil => simp [handledW]
  | cons f fs ih =>
    simp only [handledW]
    cases (handleFrame cfg hs f).reply with
    | none => simpa using ih n _
    | some p =>
      cases n with
      | zero => simp
      | succ m => simpa using ih m _

/-- the failing write is reached iff the fault-free session writes more than `n` replies -/
theorem failed_iff {σ : Type} (cfg : ServerCfg σ) (n : Nat) (hs : List (Nat × σ))
    (fs : List Frame) : (handledW cfg n hs fs).2 = true ↔ n < (runFrames cfg hs fs).1.length := by
  induction fs generalizing hs n with
  | nil => simp [handledW, runFrames]
  | cons f fs ih =>
    simp only [handledW, runFrames]
    cases hr : (handleFrame cfg hs f).reply with
    | none => simpa using ih n _
    | some p =>
      cases n with
      | zero => simp
      | succ m =>
        simp only [List.cons_append, List.nil_append, List.length_cons, Nat.add_lt_add_iff_right]
        exact ih m _

/-- a fault that is never reached changes nothing: all frames are handled -/
theorem not_failed_all {σ : Type} (cfg : ServerCfg σ) (n : Nat) (hs : List (Nat × σ))
    (fs : List Frame) (h : (handledW cfg n hs fs).2 = false) : (handledW cfg n hs fs).1 = fs := by
  induction fs generalizing hs n with
  | nil => rfl
  | cons f fs ih =>
    simp only [handledW] at h ⊢
    cases hr : (handleFrame cfg hs f).reply with
    | none => simp only [hr] at h ⊢; rw [ih n _ h]
    | some p =>
      cases n with
      | zero => simp [hr] at h
      | succ m => simp only [hr] at h ⊢; rw [ih m _ h]

/-- the last handled frame is the one whose reply was lost: every earlier frame's reply (if it
    has one) was written.  Stated through the replies: those of the handled prefix are a prefix
    of those of the fault-free session -/
theorem handled_replies_prefix {σ : Type} (cfg : ServerCfg σ) (n : Nat) (hs : List (Nat × σ))
    (fs : List Frame) :
    (runFrames cfg hs (handledW cfg n hs fs).1).1 <+: (runFrames cfg hs fs).1
    ∧ (runFrames cfg hs (handledW cfg n hs fs).1).2.1 <+: (runFrames cfg hs fs).2.1 := by
  obtain ⟨post, hp⟩ := handledW_prefix cfg n hs fs
  have := runFrames_append cfg hs (handledW cfg n hs fs).1 post
  rw [hp] at this
  rw [this]
  exact ⟨List.prefix_append _ _, List.prefix_append _ _⟩

/-! ## The properties, for every script -/

/-- the frames a session with a failing write handles -/
def sessionFramesW {σ : Type} (fr : Framing) (cfg : ServerCfg σ) (n : Nat) (hs : List (Nat × σ))
    (script : List SessStep) : List Frame :=
  (handledW cfg n hs (C01.sessionFrames fr script)).1

/-- whether the session reaches the failing write -/
def reachesFault {σ : Type} (fr : Framing) (cfg : ServerCfg σ) (n : Nat) (hs : List (Nat × σ))
    (script : List SessStep) : Bool :=
  (handledW cfg n hs (C01.sessionFrames fr script)).2

theorem runSessionW_eq {σ : Type} (fr : Framing) (cfg : ServerCfg σ) (l : DecodeLevel) (n : Nat)
    (hs : List (Nat × σ)) (script : List SessStep) :
    runSessionW fr cfg l n hs script
      = handleEventsW fr cfg (cutScript script).2 n hs (readerRun fr (cutScript script).1) := rfl

/-- **write_failure_session** (C01, C02): calls and final states of a session whose `(n+1)`-th
    write fails are those of the reference run over the handled prefix of the fault-free
    session's frames; it ends with the write error iff the fault was reached, otherwise as the
    fault-free session ends -/
theorem write_failure_session {σ : Type} (fr : Framing) (cfg : ServerCfg σ) (l : DecodeLevel)
    (n : Nat) (hs : List (Nat × σ)) (script : List SessStep) :
    sessionFramesW fr cfg n hs script <+: C01.sessionFrames fr script
    ∧ (runSessionW fr cfg l n hs script).calls
        = (runFrames cfg hs (sessionFramesW fr cfg n hs script)).2.1
    ∧ (runSessionW fr cfg l n hs script).states
        = (runFrames cfg hs (sessionFramesW fr cfg n hs script)).2.2
    ∧ (runSessionW fr cfg l n hs script).ended
        = endW (reachesFault fr cfg n hs script)
            (endOf (cutScript script).2 (readerRun fr (cutScript script).1)) := by
  rw [runSessionW_eq, handleEventsW_eq_runFrames]
  exact ⟨handledW_prefix _ _ _ _, rfl, rfl, rfl⟩

/-- **write_failure_wire** (C01): the bytes on the wire are exactly the first `n` framed replies
    of the fault-free session when the fault is reached, and all of them otherwise -/
theorem write_failure_wire {σ : Type} (fr : Framing) (cfg : ServerCfg σ) (l : DecodeLevel)
    (n : Nat) (hs : List (Nat × σ)) (script : List SessStep) :
    (runSessionW fr cfg l n hs script).tx
      = (((runFrames cfg hs (C01.sessionFrames fr script)).1.take n).map
          fun p => frameOut fr p.1 p.2).flatten := by
  rw [runSessionW_eq, handleEventsW_eq_runFrames]
  dsimp only
  show _ = (((runFrames cfg hs (C01.sessionFrames fr script)).1.take n).map _).flatten
  change (List.map _ (if (handledW cfg n hs (C01.sessionFrames fr script)).2 = true then
    (runFrames cfg hs (handledW cfg n hs (C01.sessionFrames fr script)).1).1.dropLast
    else (runFrames cfg hs (handledW cfg n hs (C01.sessionFrames fr script)).1).1)).flatten = _
  cases hb : (handledW cfg n hs (C01.sessionFrames fr script)).2 with
  | false =>
    have hall := not_failed_all cfg n hs _ hb
    have hle : (runFrames cfg hs (C01.sessionFrames fr script)).1.length ≤ n := by
      apply Nat.le_of_not_lt
      intro hlt
      have := (failed_iff cfg n hs (C01.sessionFrames fr script)).2 hlt
      rw [hb] at this
      cases this
    simp only [hb, Bool.false_eq_true, if_false]
    rw [hall, List.take_of_length_le hle]
  | true =>
    have hc := failed_reply_count cfg n hs _ hb
    obtain ⟨t, ht⟩ := (handled_replies_prefix cfg n hs (C01.sessionFrames fr script)).1
    simp only [hb, if_true]
    congr 2
    rw [← ht, List.take_append_of_le_length (by omega), List.dropLast_eq_take]
    congr 1
    omega

/-- **write_failure_prefix**: wire bytes and handler calls of the faulty session are prefixes of
    those of the fault-free session (nothing new, nothing reordered, nothing repeated) -/
theorem write_failure_prefix {σ : Type} (fr : Framing) (cfg : ServerCfg σ) (l : DecodeLevel)
    (n : Nat) (hs : List (Nat × σ)) (script : List SessStep) :
    (runSessionW fr cfg l n hs script).tx <+: (runSession fr cfg l hs script).tx
    ∧ (runSessionW fr cfg l n hs script).calls <+: (runSession fr cfg l hs script).calls := by
  constructor
  · rw [write_failure_wire, C01.runSession_eq, handleEvents_eq_runFrames]
    show _ <+: ((runFrames cfg hs (C01.sessionFrames fr script)).1.map _).flatten
    conv => rhs; rw [← List.take_append_drop n (runFrames cfg hs (C01.sessionFrames fr script)).1]
    rw [List.map_append, List.flatten_append]
    exact List.prefix_append _ _
  · rw [(write_failure_session fr cfg l n hs script).2.1, (C01.session_is_runFrames fr cfg l hs script).1]
    exact (handled_replies_prefix cfg n hs _).2

/-- **write_failure_ends_session** (C07): the session ends with the write error exactly when the
    fault-free session would have written more than `n` replies -/
theorem write_failure_ends_session {σ : Type} (fr : Framing) (cfg : ServerCfg σ) (l : DecodeLevel)
    (n : Nat) (hs : List (Nat × σ)) (script : List SessStep) :
    (runSessionW fr cfg l n hs script).ended = .writeErr
      ↔ n < (runFrames cfg hs (C01.sessionFrames fr script)).1.length := by
  rw [(write_failure_session fr cfg l n hs script).2.2.2, ← failed_iff]
  unfold reachesFault endW
  cases (handledW cfg n hs (C01.sessionFrames fr script)).2 <;> simp

/-- **write_failure_unreached**: a fault position beyond the session's replies is invisible -/
theorem write_failure_unreached {σ : Type} (fr : Framing) (cfg : ServerCfg σ) (l : DecodeLevel)
    (n : Nat) (hs : List (Nat × σ)) (script : List SessStep)
    (h : (runFrames cfg hs (C01.sessionFrames fr script)).1.length ≤ n) :
    runSessionW fr cfg l n hs script
      = ⟨(runSession fr cfg l hs script).tx, (runSession fr cfg l hs script).calls,
         (runSession fr cfg l hs script).states, .kind (runSession fr cfg l hs script).ended⟩ := by
  have hb : (handledW cfg n hs (C01.sessionFrames fr script)).2 = false := by
    cases hb : (handledW cfg n hs (C01.sessionFrames fr script)).2 with
    | false => rfl
    | true =>
      have := (failed_iff cfg n hs (C01.sessionFrames fr script)).1 hb
      omega
  have hall := not_failed_all cfg n hs _ hb
  rw [runSessionW_eq, handleEventsW_eq_runFrames, C01.runSession_eq, handleEvents_eq_runFrames]
  show SessOutW.mk _ _ _ _ = _
  simp only [C01.sessionFrames] at hb hall
  simp [hb, hall, endW]

/-- **write_failure_calls_justified** (C02): also with a failing write, every handler call of the
    session is justified by one of the frames the reader delivered (a valid, in-limit, permitted
    request addressed to that unit or broadcast) -/
theorem write_failure_calls_justified {σ : Type} (fr : Framing) (cfg : ServerCfg σ)
    (l : DecodeLevel) (n : Nat) (hs : List (Nat × σ)) (script : List SessStep) (c : Call)
    (hc : c ∈ (runSessionW fr cfg l n hs script).calls) :
    c ∈ (runSession fr cfg l hs script).calls :=
  (write_failure_prefix fr cfg l n hs script).2.subset hc

/-- **write_failure_wire_spec** (C01): stated against the declarative reference server: the wire
    carries exactly the first `n` framed replies of `Spec.Server.respond` folded over the frames the
    reader delivered -/
theorem write_failure_wire_spec {σ : Type} (fr : Framing) (cfg : ServerCfg σ) (l : DecodeLevel)
    (n : Nat) (hs : List (Nat × σ)) (script : List SessStep) :
    (runSessionW fr cfg l n hs script).tx
      = (((specRun cfg hs (C01.sessionFrames fr script)).1.take n).map
          fun p => frameOut fr p.1 p.2).flatten := by
  rw [write_failure_wire, C01.runFrames_eq_spec]

/-- the lost reply: when the fault is reached, the request whose reply could not be written is the
    `(n+1)`-th answered request of the reference server, and it was executed: the handler states
    are those after it -/
theorem write_failure_states_spec {σ : Type} (fr : Framing) (cfg : ServerCfg σ) (l : DecodeLevel)
    (n : Nat) (hs : List (Nat × σ)) (script : List SessStep) :
    (runSessionW fr cfg l n hs script).states
      = (specRun cfg hs (sessionFramesW fr cfg n hs script)).2.2
    ∧ (runSessionW fr cfg l n hs script).calls
      = (specRun cfg hs (sessionFramesW fr cfg n hs script)).2.1 := by
  have h := write_failure_session fr cfg l n hs script
  rw [h.2.1, h.2.2.1, C01.runFrames_eq_spec]
  exact ⟨rfl, rfl⟩

/-- **write_failure_monotone**: a later fault only adds to what an earlier fault lets through: the
    wire of the session whose `(n+1)`-th write fails is a prefix of the wire of the session whose
    `(m+1)`-th write fails, for `n ≤ m` -/
theorem write_failure_monotone {σ : Type} (fr : Framing) (cfg : ServerCfg σ) (l : DecodeLevel)
    (n m : Nat) (hnm : n ≤ m) (hs : List (Nat × σ)) (script : List SessStep) :
    (runSessionW fr cfg l n hs script).tx <+: (runSessionW fr cfg l m hs script).tx := by
  rw [write_failure_wire, write_failure_wire]
  generalize (runFrames cfg hs (C01.sessionFrames fr script)).1 = rs
  have : rs.take n <+: rs.take m := by
    rw [show rs.take n = (rs.take m).take n by rw [List.take_take]; congr 1; omega]
    exact List.take_prefix _ _
  obtain ⟨t, ht⟩ := this
  rw [← ht, List.map_append, List.flatten_append]
  exact List.prefix_append _ _

/-! ## Non-vacuity -/

open Demo

/-- two TCP reads for unit 1; the transport accepts one reply and fails the second: the first
    reply is on the wire, the session ends with the write error -/
example :
    (runSessionW .tcp tcp {} 1 units
      [.data ([0, 7, 0, 0, 0, 6, 1] ++ readCoils8 ++ [0, 8, 0, 0, 0, 6, 1] ++ readCoils8
              ++ [0, 9, 0, 0, 0, 6, 1] ++ readCoils8), .eof]).tx
      = [0, 7, 0, 0, 0, 4, 1, 1, 1, 0x4D]
    ∧ (runSessionW .tcp tcp {} 1 units
      [.data ([0, 7, 0, 0, 0, 6, 1] ++ readCoils8 ++ [0, 8, 0, 0, 0, 6, 1] ++ readCoils8
              ++ [0, 9, 0, 0, 0, 6, 1] ++ readCoils8), .eof]).ended = .writeErr := by
  decide +kernel

/-- a write whose reply is lost HAS been executed, once -/
example :
    ((runSessionW .tcp tcp {} 0 units
      [.data ([0, 7, 0, 0, 0, 6, 1] ++ writeCoil ++ [0, 8, 0, 0, 0, 6, 1] ++ writeCoil), .eof]).calls).length
      = 1 := by
  decide +kernel

end Rodbus.C01W
