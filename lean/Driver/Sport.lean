import RodbusModel.Model.SerialLife
import RodbusModel.Spec.SerialLife
/-
  `sport` suite (harness side: `pty port`): the life cycle of the serial client channel task.
  sport r<min ms>.<max ms> <script>      script = `-` or steps joined by `,`:
    f  the device path is absent from now on; a pending wait elapses (next open attempt: fails)
    o  the device path is present from now on; a pending wait elapses (next open attempt: succeeds)
    x  the device disappears (path removed; an open port fails)
    E / D / S  enable / disable / shutdown through the user's handle
    X  every handle is dropped
    ~<ms>  pause
  Output: the announced `PortState`s, e.g. `Disabled,Wait(40),Wait(80),Open,Disabled,Shutdown`
  (delays in whole milliseconds like `Duration::as_millis`; the model computes in nanoseconds).
-/
namespace Rodbus.Driver
open Rodbus.SerialLife

def sportStep (s : String) : Option Ev :=
  if s = "f" then some .absent
  else if s = "o" then some .present
  else if s = "x" then some .lost
  else if s = "E" then some .enable
  else if s = "D" then some .disable
  else if s = "S" then some .shutdown
  else if s = "X" then some .dropAll
  else if s.startsWith "~" && ((s.drop 1).toString.toNat?).isSome then some .pause
  else none

def NS_PER_MS : Nat := 1000000

def portStr : PortState → String
  | .disabled => "Disabled"
  | .wait d => s!"Wait({d / NS_PER_MS})"
  | .open_ => "Open"
  | .shutdown => "Shutdown"

def runSport (tok : List String) : String × String :=
  match tok with
  | [_, r, script] =>
    let rr := (String.ofList r.toList.tail).splitOn "."
    match (rr.getD 0 "").toNat?, (rr.getD 1 "").toNat?, r.startsWith "r", rr.length with
    | some mn, some mx, true, 2 =>
      let steps := if script = "-" then [] else script.splitOn ","
      match steps.mapM sportStep with
      | none => ("bad-case", "bad-case")
      | some evs =>
        let mnNs := mn * NS_PER_MS
        let mxNs := mx * NS_PER_MS
        let show_ (l : List PortState) := ",".intercalate (l.map portStr)
        let model := SerialLife.run mnNs mxNs evs
        -- specification: the counter machine, and its output checked on its own
        let spec := Spec.SerialLife.run mnNs mxNs evs
        let ok := Spec.SerialLife.conforms mnNs mxNs false 0 spec
        -- C13: Disabled first, legal adjacent pairs, Shutdown once and last
        let legal := Spec.SerialLife.legalLog spec
        (show_ model, (if ok then "" else "NONCONFORMING ") ++ (if legal then "" else "ILLEGAL ") ++
          show_ spec)
    | _, _, _, _ => ("bad-case", "bad-case")
  | _ => ("bad-case", "bad-case")

end Rodbus.Driver
