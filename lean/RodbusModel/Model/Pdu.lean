import RodbusModel.Model.Codec
/-
  M2: request/response PDUs.
  Server side: `server/request.rs` (`Request::parse`, `Request::get_reply`).
  Client side: `client/requests/*.rs`, `client/message.rs` (`Serialize for RequestDetails`,
  `Request::handle_response`, `get_error_for`).
-/
namespace Rodbus

/-! ## Server: parsed requests -/

/-- `server::request::Request`; the lazy iterators of the two multiple-write variants are
    represented by the list of values they yield -/
inductive Request
  | readCoils (r : Range)
  | readDiscreteInputs (r : Range)
  | readHoldingRegisters (r : Range)
  | readInputRegisters (r : Range)
  | writeSingleCoil (idx : Nat) (v : Bool)
  | writeSingleRegister (idx : Nat) (v : Nat)
  | writeMultipleCoils (r : Range) (vals : List Bool)
  | writeMultipleRegisters (r : Range) (vals : List Nat)
deriving DecidableEq, Repr

/-- `Request::get_function` -/
def Request.fc : Request → Fc
  | .readCoils _ => .readCoils | .readDiscreteInputs _ => .readDiscreteInputs
  | .readHoldingRegisters _ => .readHoldingRegisters | .readInputRegisters _ => .readInputRegisters
  | .writeSingleCoil _ _ => .writeSingleCoil | .writeSingleRegister _ _ => .writeSingleRegister
  | .writeMultipleCoils _ _ => .writeMultipleCoils
  | .writeMultipleRegisters _ _ => .writeMultipleRegisters

/-- `impl Parse for AddressRange`: two big-endian u16, then `AddressRange::try_from`;
    returns the remaining cursor contents -/
def parseRange : Bytes → Option (Range × Bytes)
  | a :: b :: c :: d :: rest =>
    match Range.tryFrom (be16 a b) (be16 c d) with
    | .ok r => some (r, rest)
    | .error _ => none
  | _ => none

/-- range, limit check, `expect_empty` (the four read requests) -/
def parseReadRange (limit : Nat) (body : Bytes) : Option Range :=
  match parseRange body with
  | some (r, rest) =>
    match r.limitedCount limit with
    | .ok r => if rest = [] then some r else none
    | .error _ => none
  | none => none

/-- `Request::parse`. `none` = any error (every error is answered with exception 03). -/
def parseRequest (fc : Fc) (body : Bytes) : Option Request :=
  match fc with
  | .readCoils => (parseReadRange MAX_READ_COILS_COUNT body).map .readCoils
  | .readDiscreteInputs => (parseReadRange MAX_READ_COILS_COUNT body).map .readDiscreteInputs
  | .readHoldingRegisters =>
    (parseReadRange MAX_READ_REGISTERS_COUNT body).map .readHoldingRegisters
  | .readInputRegisters =>
    (parseReadRange MAX_READ_REGISTERS_COUNT body).map .readInputRegisters
  | .writeSingleCoil =>
    match body with
    | [a, b, c, d] =>
      match coilFromU16 (be16 c d) with
      | some v => some (.writeSingleCoil (be16 a b) v)
      | none => none
    | _ => none
  | .writeSingleRegister =>
    match body with
    | [a, b, c, d] => some (.writeSingleRegister (be16 a b) (be16 c d))
    | _ => none
  | .writeMultipleCoils =>
    match parseRange body with
    | some (r, rest) =>
      match r.limitedCount MAX_WRITE_COILS_COUNT with
      | .error _ => none
      | .ok r =>
        match rest with
        | _byteCount :: payload =>
          -- `BitIterator::parse_all`: read exactly ⌈count/8⌉ bytes, then `expect_empty`
          if payload.length = numBytesForBits r.count then
            some (.writeMultipleCoils r (unpackBits payload r.count))
          else none
        | [] => none
    | none => none
  | .writeMultipleRegisters =>
    match parseRange body with
    | some (r, rest) =>
      match r.limitedCount MAX_WRITE_REGISTERS_COUNT with
      | .error _ => none
      | .ok r =>
        match rest with
        | _byteCount :: payload =>
          if payload.length = 2 * r.count then
            some (.writeMultipleRegisters r (unpackRegs payload))
          else none
        | [] => none
    | none => none

/-! ## Server: application handlers -/

/-- `RequestHandler`: reads take `&self`, writes `&mut self`. Exceptions are represented by
    their wire byte (`u8::from(ExceptionCode)`). -/
structure Handler (σ : Type) where
  readCoil : σ → Nat → Except Nat Bool
  readDiscreteInput : σ → Nat → Except Nat Bool
  readHoldingRegister : σ → Nat → Except Nat Nat
  readInputRegister : σ → Nat → Except Nat Nat
  writeSingleCoil : σ → Nat → Bool → Except Nat Unit × σ
  writeSingleRegister : σ → Nat → Nat → Except Nat Unit × σ
  writeMultipleCoils : σ → Range → List (Nat × Bool) → Except Nat Unit × σ
  writeMultipleRegisters : σ → Range → List (Nat × Nat) → Except Nat Unit × σ

/-- what the server asks of the application, in call order -/
inductive Call
  | authRange (fc : Fc) (unit : Nat) (r : Range) (role : String)
  | authIndex (fc : Fc) (unit : Nat) (idx : Nat) (role : String)
  | readCoil (unit addr : Nat)
  | readDiscreteInput (unit addr : Nat)
  | readHoldingRegister (unit addr : Nat)
  | readInputRegister (unit addr : Nat)
  | writeSingleCoil (unit idx : Nat) (v : Bool)
  | writeSingleRegister (unit idx v : Nat)
  | writeMultipleCoils (unit : Nat) (r : Range) (items : List (Nat × Bool))
  | writeMultipleRegisters (unit : Nat) (r : Range) (items : List (Nat × Nat))
deriving DecidableEq, Repr

/-- the getter loop of `BitWriter` / `RegisterWriter`: ascending addresses, stop at the first
    exception. Returns the addresses queried and the values or the exception. -/
def readSeq {α : Type} (get : Nat → Except Nat α) : List Nat → List Nat × Except Nat (List α)
  | [] => ([], .ok [])
  | a :: as =>
    match get a with
    | .error e => ([a], .error e)
    | .ok v =>
      let (c, r) := readSeq get as
      (a :: c, r.map (v :: ·))

/-- exception reply PDU `[fc | 0x80, code]` (`FrameWriter::format_ex`) -/
def exceptionPdu (fcByte : Nat) (code : Nat) : Bytes := [orErr fcByte, code]

/-- `Request::get_reply` at PDU level: reply PDU, calls made on the handler of unit `u`,
    new handler state -/
def getReply {σ : Type} (H : Handler σ) (u : Nat) (s : σ) (req : Request) :
    Bytes × List Call × σ :=
  let fcb := req.fc.toByte
  match req with
  | .readCoils r =>
    let (called, res) := readSeq (H.readCoil s) r.addresses
    (match res with
      | .ok vs => fcb :: numBytesForBits r.count :: packBits vs
      | .error e => exceptionPdu fcb e,
     called.map (Call.readCoil u), s)
  | .readDiscreteInputs r =>
    let (called, res) := readSeq (H.readDiscreteInput s) r.addresses
    (match res with
      | .ok vs => fcb :: numBytesForBits r.count :: packBits vs
      | .error e => exceptionPdu fcb e,
     called.map (Call.readDiscreteInput u), s)
  | .readHoldingRegisters r =>
    let (called, res) := readSeq (H.readHoldingRegister s) r.addresses
    (match res with
      | .ok vs => fcb :: (2 * r.count) :: packRegs vs
      | .error e => exceptionPdu fcb e,
     called.map (Call.readHoldingRegister u), s)
  | .readInputRegisters r =>
    let (called, res) := readSeq (H.readInputRegister s) r.addresses
    (match res with
      | .ok vs => fcb :: (2 * r.count) :: packRegs vs
      | .error e => exceptionPdu fcb e,
     called.map (Call.readInputRegister u), s)
  | .writeSingleCoil idx v =>
    let (res, s') := H.writeSingleCoil s idx v
    (match res with
      | .ok () => fcb :: u16be idx ++ u16be (coilToU16 v)
      | .error e => exceptionPdu fcb e,
     [Call.writeSingleCoil u idx v], s')
  | .writeSingleRegister idx v =>
    let (res, s') := H.writeSingleRegister s idx v
    (match res with
      | .ok () => fcb :: u16be idx ++ u16be v
      | .error e => exceptionPdu fcb e,
     [Call.writeSingleRegister u idx v], s')
  | .writeMultipleCoils r vals =>
    let items := indexed r.start vals
    let (res, s') := H.writeMultipleCoils s r items
    (match res with
      | .ok () => fcb :: u16be r.start ++ u16be r.count
      | .error e => exceptionPdu fcb e,
     [Call.writeMultipleCoils u r items], s')
  | .writeMultipleRegisters r vals =>
    let items := indexed r.start vals
    let (res, s') := H.writeMultipleRegisters s r items
    (match res with
      | .ok () => fcb :: u16be r.start ++ u16be r.count
      | .error e => exceptionPdu fcb e,
     [Call.writeMultipleRegisters u r items], s')

/-- `BroadcastRequest::execute` (`None` for the reads: `into_broadcast_request`) -/
def executeBroadcast {σ : Type} (H : Handler σ) (u : Nat) (s : σ) (req : Request) :
    Option (List Call × σ) :=
  match req with
  | .writeSingleCoil idx v =>
    some ([Call.writeSingleCoil u idx v], (H.writeSingleCoil s idx v).2)
  | .writeSingleRegister idx v =>
    some ([Call.writeSingleRegister u idx v], (H.writeSingleRegister s idx v).2)
  | .writeMultipleCoils r vals =>
    let items := indexed r.start vals
    some ([Call.writeMultipleCoils u r items], (H.writeMultipleCoils s r items).2)
  | .writeMultipleRegisters r vals =>
    let items := indexed r.start vals
    some ([Call.writeMultipleRegisters u r items], (H.writeMultipleRegisters s r items).2)
  | _ => none

/-! ## Client: requests and responses -/

/-- `client::message::RequestDetails` without the promise; ranges and vectors are as the
    caller constructed them (the validity checks are part of `encodeRequest`) -/
inductive ClientReq
  | readCoils (start count : Nat)
  | readDiscreteInputs (start count : Nat)
  | readHoldingRegisters (start count : Nat)
  | readInputRegisters (start count : Nat)
  | writeSingleCoil (idx : Nat) (v : Bool)
  | writeSingleRegister (idx : Nat) (v : Nat)
  | writeMultipleCoils (start : Nat) (vals : List Bool)
  | writeMultipleRegisters (start : Nat) (vals : List Nat)
deriving DecidableEq, Repr

def ClientReq.fc : ClientReq → Fc
  | .readCoils _ _ => .readCoils | .readDiscreteInputs _ _ => .readDiscreteInputs
  | .readHoldingRegisters _ _ => .readHoldingRegisters
  | .readInputRegisters _ _ => .readInputRegisters
  | .writeSingleCoil _ _ => .writeSingleCoil | .writeSingleRegister _ _ => .writeSingleRegister
  | .writeMultipleCoils _ _ => .writeMultipleCoils
  | .writeMultipleRegisters _ _ => .writeMultipleRegisters

/-- why the client API refuses a request before anything is transmitted -/
inductive ReqErr
  | badRange (e : RangeErr)          -- `InvalidRequest::BadRange`
  | countTooBigForU16                -- `InvalidRequest::CountTooBigForU16`
  | countTooBigForType               -- `InvalidRequest::CountTooBigForType`
deriving DecidableEq, Repr

/-- the validation performed by the public constructors and `Channel` methods
    (`AddressRange::try_from` + `of_read_bits`/`of_read_registers`; `WriteMultiple::from` +
    the count limit applied when the request is serialised) followed by
    `impl Serialize for RequestDetails`: the request PDU -/
def encodeRequest (req : ClientReq) : Except ReqErr Bytes :=
  let fcb := req.fc.toByte
  let readReq (limit start count : Nat) : Except ReqErr Bytes :=
    match Range.tryFrom start count with
    | .error e => .error (.badRange e)
    | .ok r =>
      match r.limitedCount limit with
      | .error e => .error (.badRange e)
      | .ok r => .ok (fcb :: u16be r.start ++ u16be r.count)
  match req with
  | .readCoils s c => readReq MAX_READ_COILS_COUNT s c
  | .readDiscreteInputs s c => readReq MAX_READ_COILS_COUNT s c
  | .readHoldingRegisters s c => readReq MAX_READ_REGISTERS_COUNT s c
  | .readInputRegisters s c => readReq MAX_READ_REGISTERS_COUNT s c
  | .writeSingleCoil idx v => .ok (fcb :: u16be idx ++ u16be (coilToU16 v))
  | .writeSingleRegister idx v => .ok (fcb :: u16be idx ++ u16be v)
  | .writeMultipleCoils s vals =>
    if vals.length > 65535 then .error .countTooBigForU16
    else match Range.tryFrom s vals.length with
      | .error e => .error (.badRange e)
      | .ok r =>
        if r.count > MAX_WRITE_COILS_COUNT then .error .countTooBigForType
        else .ok (fcb :: u16be r.start ++ u16be r.count
                    ++ numBytesForBits vals.length :: packBits vals)
  | .writeMultipleRegisters s vals =>
    if vals.length > 65535 then .error .countTooBigForU16
    else match Range.tryFrom s vals.length with
      | .error e => .error (.badRange e)
      | .ok r =>
        if r.count > MAX_WRITE_REGISTERS_COUNT then .error .countTooBigForType
        else .ok (fcb :: u16be r.start ++ u16be r.count
                    ++ (2 * vals.length) :: packRegs vals)

/-- what a completed client request yields -/
inductive RespVal
  | bits (items : List (Nat × Bool))
  | regs (items : List (Nat × Nat))
  | coil (idx : Nat) (v : Bool)
  | reg (idx : Nat) (v : Nat)
  | range (r : Range)
deriving DecidableEq, Repr

/-- the non-success outcomes of `Request::handle_response` (canonical kinds of `RequestError`) -/
inductive RespErr
  | exception (code : Nat)
  | badResponse      -- `RequestError::BadResponse(_)`
  | badRequest       -- `RequestError::BadRequest(_)` (an echoed range that is itself invalid)
deriving DecidableEq, Repr

/-- `Request::handle_response` for a *valid* request `req` (one for which `encodeRequest`
    succeeded) and a reply PDU -/
def handleResponse (req : ClientReq) (pdu : Bytes) : Except RespErr RespVal :=
  let fcb := req.fc.toByte
  match pdu with
  | [] => .error .badResponse
  | f :: body =>
    if f ≠ fcb then
      -- `get_error_for`
      if f = orErr fcb then
        match body with
        | [] => .error .badResponse
        | [code] => .error (.exception code)
        | _ => .error .badResponse
      else .error .badResponse
    else
      match req with
      | .readCoils s c | .readDiscreteInputs s c =>
        match body with
        | [] => .error .badResponse
        | _bc :: payload =>
          if payload.length = numBytesForBits c then
            .ok (.bits (indexed s (unpackBits payload c)))
          else .error .badResponse
      | .readHoldingRegisters s c | .readInputRegisters s c =>
        match body with
        | [] => .error .badResponse
        | _bc :: payload =>
          if payload.length = 2 * c then .ok (.regs (indexed s (unpackRegs payload)))
          else .error .badResponse
      | .writeSingleCoil idx v =>
        match body with
        | [a, b, c, d] =>
          match coilFromU16 (be16 c d) with
          | none => .error .badResponse
          | some v' => if be16 a b = idx ∧ v' = v then .ok (.coil idx v) else .error .badResponse
        | _ => .error .badResponse
      | .writeSingleRegister idx v =>
        match body with
        | [a, b, c, d] =>
          if be16 a b = idx ∧ be16 c d = v then .ok (.reg idx v) else .error .badResponse
        | _ => .error .badResponse
      | .writeMultipleCoils s vals | .writeMultipleRegisters s vals =>
        -- `MultipleWriteRequest::parse_all`: AddressRange::parse, compare, expect_empty
        match body with
        | a :: b :: c :: d :: rest =>
          match Range.tryFrom (be16 a b) (be16 c d) with
          | .error _ => .error .badRequest
          | .ok r =>
            if r ≠ ⟨s, vals.length⟩ then .error .badResponse
            else if rest ≠ [] then .error .badResponse
            else .ok (.range r)
        | _ => .error .badResponse

end Rodbus
