import RodbusModel.Model.SerialLife
/-
  Specification side of C14 for the serial client channel, written without the retry-strategy
  object: a counter `k` of failed open attempts since the last successful open (or since the
  start) and the closed form `min(min · 2^k, max)`.

  Two forms:
  * `run`: the announced `PortState` sequence of a script, from the counter;
  * `conforms`: a check of an announced sequence alone (no script): every `Wait` that does not
    directly follow `Open` carries `min(min · 2^k, max)`, k = number of such `Wait`s since the
    last `Open` (or since the start); a `Wait` directly after `Open` (port lost) carries `min`;
    nothing follows `Shutdown`.
-/
namespace Rodbus.Spec.SerialLife
open Rodbus.SerialLife (PortState Ev)

inductive Mode | disabled | waiting | open_ | done
deriving DecidableEq, Repr

structure T where
  mode : Mode := .disabled
  /-- the device path exists -/
  present : Bool := false
  /-- failed open attempts since the last successful open (or since the start) -/
  k : Nat := 0
deriving DecidableEq, Repr

/-- the delay after the (k+1)-th consecutive failure -/
def delay (mn mx k : Nat) : Nat := Nat.min (mn * 2 ^ k) mx

/-- an open attempt -/
def attempt (mn mx : Nat) (t : T) : T × List PortState :=
  if t.present then ({ t with mode := .open_, k := 0 }, [.open_])
  else ({ t with mode := .waiting, k := t.k + 1 }, [.wait (delay mn mx t.k)])

def step (mn mx : Nat) (t : T) (e : Ev) : T × List PortState :=
  match t.mode with
  | .done => (t, [])
  | .disabled =>
    match e with
    | .enable => attempt mn mx t
    | .shutdown | .dropAll => ({ t with mode := .done }, [.shutdown])
    | .absent | .lost => ({ t with present := false }, [])
    | .present => ({ t with present := true }, [])
    | .disable | .pause => (t, [])
  | .waiting =>
    match e with
    | .absent => attempt mn mx { t with present := false }
    | .present => attempt mn mx { t with present := true }
    | .lost => ({ t with present := false }, [])
    | .disable => ({ t with mode := .disabled }, [.disabled])
    | .shutdown | .dropAll => ({ t with mode := .done }, [.shutdown])
    | .enable | .pause => (t, [])
  | .open_ =>
    match e with
    -- after a lost connection the wait is `min`
    | .lost => ({ t with present := false, mode := .waiting }, [.wait mn])
    | .absent => ({ t with present := false }, [])
    | .present => ({ t with present := true }, [])
    | .disable => ({ t with mode := .disabled }, [.disabled])
    | .shutdown | .dropAll => ({ t with mode := .done }, [.shutdown])
    | .enable | .pause => (t, [])

def after (mn mx : Nat) (t : T) (es : List Ev) : T := es.foldl (fun t e => (step mn mx t e).1) t

def outputs (mn mx : Nat) : T → List Ev → List PortState
  | _, [] => []
  | t, e :: es => (step mn mx t e).2 ++ outputs mn mx (step mn mx t e).1 es

def run (mn mx : Nat) (script : List Ev) : List PortState :=
  .disabled :: outputs mn mx {} (script ++ [.shutdown])

/-- check of an announced sequence: `afterOpen` = the previous announcement was `Open`,
    `k` = failed opens since the last `Open` (or the start) -/
def conforms (mn mx : Nat) : Bool → Nat → List PortState → Bool
  | _, _, [] => true
  | _, _, .open_ :: rest => conforms mn mx true 0 rest
  | true, k, .wait d :: rest => d == mn && conforms mn mx false k rest
  | false, k, .wait d :: rest => d == delay mn mx k && conforms mn mx false (k + 1) rest
  | _, k, .disabled :: rest => conforms mn mx false k rest
  | _, _, .shutdown :: rest => rest.isEmpty

/-! ### C13 for the serial channel: which announcement may directly follow which

  `Disabled` first; `Open` only after `Disabled` (the user enabled the channel) or `Wait` (the
  delay elapsed); `Wait` after `Disabled` / `Wait` (the open failed) or after `Open` (the port was
  lost); `Disabled` only after `Wait` / `Open` (a disable ended the wait or closed the port);
  `Shutdown` after anything, nothing after it. Written independently of the task model, like
  `Spec.Life.legalNext` for the TCP channel. -/

def legalNext : PortState → PortState → Bool
  | .disabled, .wait _ => true
  | .disabled, .open_ => true
  | .disabled, .shutdown => true
  | .wait _, .wait _ => true
  | .wait _, .open_ => true
  | .wait _, .disabled => true
  | .wait _, .shutdown => true
  | .open_, .wait _ => true
  | .open_, .disabled => true
  | .open_, .shutdown => true
  | _, _ => false

/-- every adjacent pair of `a :: l` is in `legalNext` -/
def chain : PortState → List PortState → Bool
  | _, [] => true
  | a, b :: rest => legalNext a b && chain b rest

def legalPath : List PortState → Bool
  | [] => true
  | a :: rest => chain a rest

/-- `Disabled` first, the path is legal, `Shutdown` exactly once and last -/
def legalLog (l : List PortState) : Bool :=
  l.head? == some .disabled && legalPath l && l.count .shutdown == 1 &&
    l.getLast? == some .shutdown

end Rodbus.Spec.SerialLife
