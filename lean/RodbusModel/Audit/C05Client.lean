import RodbusModel.Props.C05Client
/-! axiom audit of every property theorem of Props/C05Client and of the lemmas it uses -/
#print axioms Rodbus.Client.rx_chunking_mbap
#print axioms Rodbus.Client.rx_chunking_rtu
#print axioms Rodbus.Client.rx_chunking_mbap_reachable
#print axioms Rodbus.Client.rx_chunking_rtu_reachable
#print axioms Rodbus.Client.reader_chunking_mbap
#print axioms Rodbus.Client.reader_chunking_rtu
#print axioms Rodbus.Client.quiet_of_blocked
#print axioms Rodbus.Client.runState_blocked_mbap
#print axioms Rodbus.Client.runState_blocked_rtu
#print axioms Rodbus.Client.rx_split
#print axioms Rodbus.Client.step_prefix
#print axioms Rodbus.Client.readerPoll_split
#print axioms Rodbus.Client.readerPoll_mid
#print axioms Rodbus.Client.tick_deliver
#print axioms Rodbus.Client.tick_quiet_none
#print axioms Rodbus.Client.mbap_hopInv
#print axioms Rodbus.Client.rtu_hopInv
#print axioms Rodbus.Client.rtu_none_nonempty
#print axioms Rodbus.Client.Example.Chunk.waiting_quiet
#print axioms Rodbus.Client.Example.Chunk.rtuWaiting_quiet
#print axioms Rodbus.Client.Example.Chunk.split_after_reply_differs
#print axioms Rodbus.Client.Example.Chunk.split_at_header_end_differs
#print axioms Rodbus.Client.Example.Chunk.unread_chunks_differ
