//! `life` suite: the production TCP channel task (`create_tcp_client_task_with_options`) against a
//! scripted peer on loopback, real time, with the connection-state listener used as a lock-step
//! gate (the task is blocked inside the listener callback while the harness acts).
//!
//! life r<min ms>.<max ms> m<max timeouts|0> t<request timeout ms> <behaviours> <stops>
//!   behaviours: `/`-joined, one per connection attempt (the last one repeats):
//!               refuse | close | garbage | silent | serve
//!   stops:      `,`-joined; each stop is `-` or `+`-joined actions out of
//!               E (enable) D (disable) S (shutdown) X (drop every handle) R (submit a read)
//! A stop is consumed each time the task reaches a listener callback (gate) or has been quiet
//! for IDLE ms. Output: the event log (`;`-joined) and a summary.
use crate::util::*;
use rodbus::client::*;
use rodbus::*;
use std::collections::VecDeque;
use std::sync::{Arc, Mutex};
use std::time::{Duration, Instant};
use tokio::io::{AsyncReadExt, AsyncWriteExt};

const IDLE_MS: u64 = 450;

struct GateListener {
    tx: tokio::sync::mpsc::UnboundedSender<(ClientState, tokio::sync::oneshot::Sender<()>)>,
}

impl Listener<ClientState> for GateListener {
    fn update(&mut self, value: ClientState) -> MaybeAsync<()> {
        let (rel_tx, rel_rx) = tokio::sync::oneshot::channel();
        let _ = self.tx.send((value, rel_tx));
        MaybeAsync::asynchronous(async move {
            let _ = rel_rx.await;
        })
    }
}

fn state_str(s: ClientState) -> String {
    match s {
        ClientState::Disabled => "Disabled".into(),
        ClientState::Connecting => "Connecting".into(),
        ClientState::Connected => "Connected".into(),
        ClientState::WaitAfterFailedConnect(d) => format!("WaitFail({})", d.as_millis()),
        ClientState::WaitAfterDisconnect(d) => format!("WaitDisc({})", d.as_millis()),
        ClientState::Shutdown => "Shutdown".into(),
    }
}

async fn serve_connection(mut sock: tokio::net::TcpStream, behaviour: String) {
    match behaviour.as_str() {
        "close" => {
            drop(sock);
        }
        "garbage" => {
            // protocol id 0xFFFF: framing error on the client
            let _ = sock.write_all(&[0, 1, 0xFF, 0xFF, 0, 2, 1, 3]).await;
            let mut buf = [0u8; 256];
            while let Ok(n) = sock.read(&mut buf).await {
                if n == 0 {
                    break;
                }
            }
        }
        "silent" => {
            let mut buf = [0u8; 256];
            while let Ok(n) = sock.read(&mut buf).await {
                if n == 0 {
                    break;
                }
            }
        }
        _ => {
            // serve: answer every read-holding-registers request of one register with 0x1234
            let mut buf = [0u8; 12];
            loop {
                if sock.read_exact(&mut buf).await.is_err() {
                    break;
                }
                let reply = [buf[0], buf[1], 0, 0, 0, 5, buf[6], 3, 2, 0x12, 0x34];
                if sock.write_all(&reply).await.is_err() {
                    break;
                }
            }
        }
    }
}

pub async fn run_life(tok: &[&str]) -> String {
    let (rmin, rmax) = tok[1][1..].split_once('.').unwrap();
    let rmin: u64 = rmin.parse().unwrap();
    let rmax: u64 = rmax.parse().unwrap();
    let maxto: usize = tok[2][1..].parse().unwrap();
    let req_timeout: u64 = tok[3][1..].parse().unwrap();
    let mut behaviours: VecDeque<String> = tok[4].split('/').map(|x| x.to_string()).collect();
    let stops: Vec<&str> = if tok[5] == "-" { vec![] } else { tok[5].split(',').collect() };

    let log: Arc<Mutex<Vec<String>>> = Arc::new(Mutex::new(Vec::new()));
    let accepts = Arc::new(Mutex::new(0usize));

    // reserve a port
    let l = tokio::net::TcpListener::bind("127.0.0.1:0").await.unwrap();
    let addr = l.local_addr().unwrap();
    drop(l);
    let mut listener_task: Option<tokio::task::JoinHandle<()>> = None;

    let (gate_tx, mut gate_rx) = tokio::sync::mpsc::unbounded_channel();
    // the builder's setters must be independent of the order in which they are called
    let order = tok.iter().map(|t| t.len()).sum::<usize>() % 6;
    let lim = std::num::NonZeroUsize::new(maxto);
    let dl = DecodeLevel::nothing();
    let cl = ChannelLoggingMode::StateChanges;
    let o = ClientOptions::default();
    let options = match order {
        0 => o.max_queued_requests(16).max_response_timeouts(lim).decode_level(dl).channel_logging(cl),
        1 => o.max_response_timeouts(lim).decode_level(dl).channel_logging(cl).max_queued_requests(16),
        2 => o.decode_level(dl).channel_logging(cl).max_queued_requests(16).max_response_timeouts(lim),
        3 => o.channel_logging(cl).max_queued_requests(16).max_response_timeouts(lim).decode_level(dl),
        4 => o.max_response_timeouts(lim).max_queued_requests(16).channel_logging(cl).decode_level(dl),
        _ => o.decode_level(dl).max_response_timeouts(lim).max_queued_requests(16).channel_logging(cl),
    };
    let (channel, task) = create_tcp_client_task_with_options(
        HostAddr::ip(addr.ip(), addr.port()),
        doubling_retry_strategy(Duration::from_millis(rmin), Duration::from_millis(rmax)),
        Some(Box::new(GateListener { tx: gate_tx })),
        options,
    );
    let join = tokio::spawn(task.run());
    let mut handles: Vec<Channel> = vec![channel];
    let mut stop_idx = 0usize;
    let mut rid = 0usize;
    let mut wait_started: Option<(Instant, u128)> = None;
    let mut saw_shutdown = false;
    let max_stops = stops.len() + 2;

    while stop_idx < max_stops {
        let ev = tokio::time::timeout(Duration::from_millis(IDLE_MS), gate_rx.recv()).await;
        let mut release: Option<tokio::sync::oneshot::Sender<()>> = None;
        match ev {
            Ok(Some((state, rel))) => {
                log.lock().unwrap().push(format!("g:{}", state_str(state)));
                match state {
                    ClientState::Connecting => {
                        if let Some((t, d)) = wait_started.take() {
                            if t.elapsed().as_millis() + 1 < d {
                                log.lock().unwrap().push("early".into());
                            }
                        }
                        // set the environment up for this attempt
                        let b = if behaviours.len() > 1 {
                            behaviours.pop_front().unwrap()
                        } else {
                            behaviours[0].clone()
                        };
                        if let Some(t) = listener_task.take() {
                            t.abort();
                            let _ = t.await;
                        }
                        if b != "refuse" {
                            let mut bound = None;
                            for _ in 0..50 {
                                match tokio::net::TcpListener::bind(addr).await {
                                    Ok(x) => {
                                        bound = Some(x);
                                        break;
                                    }
                                    Err(_) => tokio::time::sleep(Duration::from_millis(10)).await,
                                }
                            }
                            let l = bound.expect("cannot re-bind the listener");
                            let accepts = accepts.clone();
                            listener_task = Some(tokio::spawn(async move {
                                if let Ok((sock, _)) = l.accept().await {
                                    *accepts.lock().unwrap() += 1;
                                    drop(l);
                                    serve_connection(sock, b).await;
                                }
                            }));
                        }
                    }
                    ClientState::WaitAfterFailedConnect(d) | ClientState::WaitAfterDisconnect(d) => {
                        wait_started = Some((Instant::now(), d.as_millis()));
                    }
                    ClientState::Disabled => {
                        wait_started = None;
                    }
                    ClientState::Shutdown => {
                        saw_shutdown = true;
                    }
                    _ => {}
                }
                release = Some(rel);
            }
            Ok(None) => {
                // the task (and its listener) is gone
                break;
            }
            Err(_) => {
                log.lock().unwrap().push("idle".into());
            }
        }
        // scripted actions of this stop
        if let Some(stop) = stops.get(stop_idx) {
            for a in stop.split('+') {
                match a {
                    "E" | "D" | "S" => {
                        if let Some(ch) = handles.first() {
                            let mut f = FfiChannel::new(ch.clone());
                            match a {
                                "E" => {
                                    let _ = f.enable();
                                }
                                "D" => {
                                    let _ = f.disable();
                                }
                                _ => {
                                    let ch = ch.clone();
                                    // queue the shutdown command without blocking the driver
                                    tokio::spawn(async move {
                                        let _ = ch.shutdown().await;
                                    });
                                    tokio::task::yield_now().await;
                                }
                            }
                            log.lock().unwrap().push(format!("a:{a}"));
                        }
                    }
                    "X" => {
                        // like every other action: only possible while a handle exists
                        if !handles.is_empty() {
                            handles.clear();
                            log.lock().unwrap().push("a:X".into());
                        }
                    }
                    "R" => {
                        if let Some(ch) = handles.first() {
                            rid += 1;
                            let id = rid;
                            let ch = ch.clone();
                            let log2 = log.clone();
                            log.lock().unwrap().push(format!("a:R{id}"));
                            tokio::spawn(async move {
                                let res = ch
                                    .read_holding_registers(
                                        RequestParam::new(
                                            UnitId::new(1),
                                            Duration::from_millis(req_timeout),
                                        ),
                                        AddressRange::try_from(0, 1).unwrap(),
                                    )
                                    .await;
                                let s = match res {
                                    Ok(v) => format!("ok.{}", v[0].value),
                                    Err(e) => req_err(e),
                                };
                                log2.lock().unwrap().push(format!("done:R{id}:{s}"));
                            });
                            // let the submission reach the queue before anything else happens
                            settle_n(5).await;
                        }
                    }
                    _ => {}
                }
            }
        }
        stop_idx += 1;
        if let Some(rel) = release {
            let _ = rel.send(());
        }
        if saw_shutdown {
            break;
        }
    }
    // wind down: shutdown must be honoured from wherever the task is
    let mut fin = "term";
    if !saw_shutdown {
        if let Some(ch) = handles.first() {
            let ch = ch.clone();
            tokio::spawn(async move {
                let _ = ch.shutdown().await;
            });
        }
        let deadline = Instant::now() + Duration::from_millis(3000);
        loop {
            match tokio::time::timeout(Duration::from_millis(100), gate_rx.recv()).await {
                Ok(Some((state, rel))) => {
                    if state == ClientState::Shutdown {
                        saw_shutdown = true;
                    }
                    let _ = rel.send(());
                    if saw_shutdown {
                        break;
                    }
                }
                Ok(None) => break,
                Err(_) => {}
            }
            if Instant::now() > deadline {
                fin = "hung";
                break;
            }
        }
    }
    if tokio::time::timeout(Duration::from_millis(2000), join).await.is_err() {
        fin = "hung";
    }
    // after shutdown every handle reports shutdown
    let mut after = "-".to_string();
    if let Some(ch) = handles.first() {
        let r = tokio::time::timeout(
            Duration::from_millis(1000),
            ch.read_holding_registers(
                RequestParam::new(UnitId::new(1), Duration::from_millis(50)),
                AddressRange::try_from(0, 1).unwrap(),
            ),
        )
        .await;
        after = match r {
            Ok(Ok(_)) => "ok".into(),
            Ok(Err(e)) => req_err(e),
            Err(_) => "pending".into(),
        };
    }
    if let Some(t) = listener_task.take() {
        t.abort();
    }
    tokio::time::sleep(Duration::from_millis(20)).await;
    let entries = log.lock().unwrap().clone();
    let l = entries.join(";");
    // a connection reaches the peer only for an announced attempt, and every announced
    // connection was accepted by the peer (the exact count depends on when an attempt is dropped)
    let n_connecting = entries.iter().filter(|e| *e == "g:Connecting").count();
    let n_connected = entries.iter().filter(|e| *e == "g:Connected").count();
    let acc = *accepts.lock().unwrap();
    let acc_ok = acc <= n_connecting + 1 && acc >= n_connected;
    format!(
        "{} | shutdown_seen={} fin={} after={} acc={}",
        if l.is_empty() { "-".into() } else { l },
        saw_shutdown,
        fin,
        after,
        if acc_ok { "ok".to_string() } else { format!("bad({acc}/{n_connecting}/{n_connected})") }
    )
}

/// `slife r<min us>.<max us> <n>`: the production RTU client channel on a serial device path that
/// does not exist: every open fails, so the task announces `PortState::Wait(delay)` with the
/// delays of its retry strategy. Output: the first `n` announced delays in microseconds.
pub async fn run_slife(tok: &[&str]) -> String {
    struct L {
        tx: tokio::sync::mpsc::UnboundedSender<PortState>,
    }
    impl Listener<PortState> for L {
        fn update(&mut self, value: PortState) -> MaybeAsync<()> {
            let _ = self.tx.send(value);
            MaybeAsync::ready(())
        }
    }
    let (rmin, rmax) = tok[1][1..].split_once('.').unwrap();
    let rmin: u64 = rmin.parse().unwrap();
    let rmax: u64 = rmax.parse().unwrap();
    let n: usize = tok[2].parse().unwrap();
    let (tx, mut rx) = tokio::sync::mpsc::unbounded_channel();
    let channel = spawn_rtu_client_task(
        "/dev/verif-no-such-serial-port",
        SerialSettings::default(),
        4,
        doubling_retry_strategy(Duration::from_micros(rmin), Duration::from_micros(rmax)),
        DecodeLevel::nothing(),
        Some(Box::new(L { tx })),
    );
    let _ = channel.enable().await;
    let mut out = Vec::new();
    let deadline = tokio::time::Instant::now() + Duration::from_millis(3000);
    while out.len() < n {
        match tokio::time::timeout_at(deadline, rx.recv()).await {
            Ok(Some(PortState::Wait(d))) => out.push(d.as_micros().to_string()),
            Ok(Some(PortState::Open)) => out.push("open".into()),
            Ok(Some(_)) => {}
            _ => break,
        }
    }
    let _ = channel.shutdown().await;
    if out.is_empty() {
        "-".into()
    } else {
        out.join(",")
    }
}
