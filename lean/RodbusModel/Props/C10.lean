import RodbusModel.Lemmas.ClientDrain
import RodbusModel.Gen.Tables
/-
  C10  Every client request completes exactly once, under every interleaving of replies, errors,
  timeouts, disable, reconnect, shutdown and handle drop; none is lost, completed twice or left
  pending forever.  The error tells what happened.

  Model: Model/Client.lean (`runState F (State.init F cap maxTo d coins) steps`: any framing, queue
  capacity, timeout limit, decode level, any resolution `coins` of the `tokio::select!` polling
  order, any script of submissions (future / callback / try-send style), commands, handle
  operations, phases, peer deliveries, transport errors, clock movements and the abort of the task).
  The model is abstracted to the transition system `Reach` / `TEff` (task and clock) / `UEff`
  (script) of Lemmas/Client.lean; `model_refines` below is the refinement theorem.

  Only property theorems and non-vacuity examples here.
-/
namespace Rodbus.Client

/-- Refinement: every state of every run of the model is a reachable state of the abstract
    transition system, one tick of the task is one `TEff`, the direct effect of a script step one
    `UEff`, and the clock moves by `TEff.time`. -/
theorem model_refines {σ : Type} (F : Framing σ) :
    (∀ cap maxTo d coins steps, Reach (core (runState F (State.init F cap maxTo d coins) steps)))
      ∧ (∀ s t : State σ, tick F s = some t → TEff (core s) (core t))
      ∧ (∀ (s : State σ) st, UEff (core s) (core (applyStep s st)))
      ∧ (∀ (s : State σ) target, TEff (core s) (core (moveClock s target))) :=
  ⟨runState_reach F, tick_eff F, applyStep_eff, moveClock_eff⟩

/-- `pending_partition`.  In every reachable state and for every request id: the number of its
    completions in the log, plus the number of times it is queued, plus the number of times it is in
    flight, equals the number of times it was accepted.  Nothing is lost and nothing is invented,
    under every interleaving. -/
theorem pending_partition {σ : Type} (F : Framing σ) (cap maxTo : Nat) (d : Decode)
    (coins : List Bool) (steps : List Step) (s : State σ)
    (hs : s = runState F (State.init F cap maxTo d coins) steps) (rid : Rid) :
    (doneIds s.log).count rid + (queueIds s.queue).count rid + (inflightIds s.pos).count rid
      = s.accepted.count rid := by
  subst hs; exact bal_reach _ (runState_reach F cap maxTo d coins steps) rid

/-- A script that uses distinct request ids gets each of them accepted at most once. -/
theorem accepted_distinct {σ : Type} (F : Framing σ) (cap maxTo : Nat) (d : Decode)
    (coins : List Bool) (steps : List Step) (h : (scriptRids steps).Nodup) :
    (runState F (State.init F cap maxTo d coins) steps).accepted.Nodup :=
  accepted_nodup F cap maxTo d coins steps h

/-- No request is completed twice (and a request that is still queued or in flight has not been
    completed at all). -/
theorem never_completed_twice {σ : Type} (F : Framing σ) (cap maxTo : Nat) (d : Decode)
    (coins : List Bool) (steps : List Step) (h : (scriptRids steps).Nodup) (s : State σ)
    (hs : s = runState F (State.init F cap maxTo d coins) steps) (rid : Rid) :
    (doneIds s.log).count rid + (queueIds s.queue).count rid + (inflightIds s.pos).count rid ≤ 1 := by
  have h1 := pending_partition F cap maxTo d coins steps s hs rid
  have h2 := List.nodup_iff_count.mp (accepted_distinct F cap maxTo d coins steps h) rid
  subst hs
  omega

/-- `closed_trace_exactly_once`.  Once the task is gone nothing is queued or in flight, and every
    accepted request has been completed exactly as often as it was accepted: exactly once for a
    script with distinct ids. -/
theorem closed_trace_exactly_once {σ : Type} (F : Framing σ) (cap maxTo : Nat) (d : Decode)
    (coins : List Bool) (steps : List Step) (s : State σ)
    (hs : s = runState F (State.init F cap maxTo d coins) steps) (hdead : s.alive = false) :
      s.queue = [] ∧ s.pos = .noPhase
        ∧ (∀ rid, (doneIds s.log).count rid = s.accepted.count rid)
        ∧ ((scriptRids steps).Nodup → ∀ rid ∈ s.accepted, (doneIds s.log).count rid = 1) := by
  have hr := runState_reach F cap maxTo d coins steps
  rw [← hs] at hr
  obtain ⟨hq, hp⟩ := (tidy_reach _ hr).1 hdead
  have hq' : s.queue = [] := hq
  have hp' : s.pos = .noPhase := hp
  have hall : ∀ rid, (doneIds s.log).count rid = s.accepted.count rid := by
    intro rid
    have := pending_partition F cap maxTo d coins steps s hs rid
    rw [hq', hp'] at this
    simpa [queueIds, reqsOf, inflightIds] using this
  refine ⟨hq', hp', hall, ?_⟩
  intro hnd rid hmem
  rw [hall rid]
  have h1 := List.nodup_iff_count.mp (accepted_distinct F cap maxTo d coins steps hnd) rid
  rw [← hs] at h1
  have h2 : 0 < s.accepted.count rid := List.count_pos_iff.mpr hmem
  omega

/-- The same once the queue has been drained while the task is still there (all handles dropped and
    the queue emptied, or simply nothing pending): whenever nothing is queued and nothing is in
    flight every accepted request has its completion. -/
theorem drained_exactly_once {σ : Type} (F : Framing σ) (cap maxTo : Nat) (d : Decode)
    (coins : List Bool) (steps : List Step) (s : State σ)
    (hs : s = runState F (State.init F cap maxTo d coins) steps) (rid : Rid)
    (hq : queueIds s.queue = []) (hp : inflightIds s.pos = []) :
      (doneIds s.log).count rid = s.accepted.count rid := by
  have := pending_partition F cap maxTo d coins steps s hs rid
  rw [hq, hp] at this
  simpa using this

/-- `drain_completes_partial`.  From every reachable state in which the task is between phases
    (alive, no phase running, none scheduled: e.g. after a session has ended for whatever reason),
    a finite sequence of steps that needs no cooperation from the peer or the user, namely as many
    rounds "`fail_requests_for(1 ms)`, 1 ms passes" as there are queued commands (the channel
    tasks of the library perform these phases on their own after a lost connection), completes
    every pending request: afterwards nothing is queued, nothing is in flight, nothing new was
    accepted and every accepted request has its completion.

    The full statement — the same from EVERY reachable state in which the task is alive, also while
    a phase is running — is `drain_completes` in Props/C10Drain.lean (proved with a termination
    measure over queue, phases, unread transport bytes, parser state and position; the framing
    hypothesis `Consuming` is proved for MBAP and RTU).  This theorem is kept as the special case
    with an explicit continuation. -/
theorem drain_completes_partial {σ : Type} (F : Framing σ) (cap maxTo : Nat) (d : Decode)
    (coins : List Bool) (steps : List Step) (s : State σ)
    (hs : s = runState F (State.init F cap maxTo d coins) steps)
    (hidle : s.alive = true ∧ s.pos = .noPhase ∧ s.phases = []) :
    ∃ more : List Step, (∀ st ∈ more, st = .failFor 1 ∨ st = .advance 1) ∧
      ∀ s', s' = runState F (State.init F cap maxTo d coins) (steps ++ more) →
        s'.queue = [] ∧ s'.pos = .noPhase ∧ s'.accepted = s.accepted
          ∧ ∀ rid, (doneIds s'.log).count rid = s.accepted.count rid := by
  refine ⟨drainSteps s.queue.length, drainSteps_kind _, ?_⟩
  intro s' hs'
  rw [runState_append, ← hs] at hs'
  obtain ⟨⟨_, hp, _⟩, hq⟩ := drain_idle F s.queue.length s hidle (Nat.le_refl _)
  have hacc := drain_accepted F s.queue.length s
  rw [← hs'] at hp hq hacc
  refine ⟨hq, hp, hacc, ?_⟩
  intro rid
  have hs'' : s' = runState F (State.init F cap maxTo d coins) (steps ++ drainSteps s.queue.length) := by
    rw [runState_append, ← hs]; exact hs'
  have := pending_partition F cap maxTo d coins _ s' hs'' rid
  rw [hq, hp, hacc] at this
  simpa [queueIds, reqsOf, inflightIds] using this

/-! ### `error_meaning`: what a completion tells -/

/-- `noconn` is only produced while the channel is not connected: the task is in
    `wait_for_enabled` or `fail_requests_for`, and the request is the one at the head of the queue. -/
theorem error_meaning_noconn {c c' : Core} (t : TEff c c') (rid : Rid) (st : Style) (time : Nat)
    (h : LogEntry.done rid st .noConn time ∈ c'.log) :
    LogEntry.done rid st .noConn time ∈ c.log
      ∨ (c.alive = true ∧ (c.pos = .waitEnabled ∨ ∃ dl b, c.pos = .failFor dl b) ∧ time = c.now
          ∧ ∃ r q, c.queue = .req r :: q ∧ r.rid = rid) := by
  rcases teff_new_done c c' t _ rfl h with h | h
  · exact Or.inl h
  · right
    generalize he : LogEntry.done rid st Res.noConn time = e at h
    cases h with
    | noConn r q ha hp hq =>
      simp only [doneEntry, LogEntry.done.injEq] at he
      obtain ⟨h1, _, _, h4⟩ := he
      exact ⟨ha, hp, h4, r, q, hq, h1.symm⟩
    | dequeue m r q res ha hp hq hres hk =>
      simp only [doneEntry, LogEntry.done.injEq] at he
      obtain ⟨_, _, h3, _⟩ := he
      subst h3
      exact absurd rfl (dequeueRes_ne hres).1
    | finish m r tx dl res ha hp ht h3 h4 hk =>
      simp only [doneEntry, LogEntry.done.injEq] at he
      exact absurd he.2.2.1.symm h3

/-- `timeout` is only produced for the request in flight, at the instant of its deadline. -/
theorem error_meaning_timeout {c c' : Core} (hr : Reach c) (t : TEff c c') (rid : Rid)
    (st : Style) (time : Nat) (h : LogEntry.done rid st .timeout time ∈ c'.log) :
    LogEntry.done rid st .timeout time ∈ c.log
      ∨ ∃ m r tx dl, c.pos = .inflight m r tx dl ∧ r.rid = rid ∧ c.now = dl ∧ time = dl := by
  rcases teff_new_done c c' t _ rfl h with h | h
  · exact Or.inl h
  · right
    generalize he : LogEntry.done rid st Res.timeout time = e at h
    cases h with
    | noConn r q ha hp hq => simp [doneEntry] at he
    | dequeue m r q res ha hp hq hres hk =>
      simp only [doneEntry, LogEntry.done.injEq] at he
      obtain ⟨_, _, h3, _⟩ := he
      subst h3
      exact absurd rfl (dequeueRes_ne hres).2.2
    | finish m r tx dl res ha hp ht h3 h4 hk =>
      simp only [doneEntry, LogEntry.done.injEq] at he
      obtain ⟨h1, _, h3, h4⟩ := he
      have hle := ht h3.symm
      have hge := (tidy_reach c hr).2 m r tx dl hp
      exact ⟨m, r, tx, dl, hp, h1.symm, by omega, by omega⟩

/-- An I/O or framing error is only produced by the transport event itself (for the request just
    taken from the queue: a failed write, or a framing error in the bytes that were buffered before
    it; for the request in flight: a read or framing error), and the same step ends the session
    with that error. -/
theorem error_meaning_transport {c c' : Core} (t : TEff c c') (rid : Rid) (st : Style)
    (res : Res) (k : EndKind) (time : Nat) (hk : res.sessionEnd = some k)
    (h : LogEntry.done rid st res time ∈ c'.log) :
    LogEntry.done rid st res time ∈ c.log
      ∨ (time = c.now ∧ c'.pos = .noPhase ∧ LogEntry.fin k c.now ∈ c'.log
          ∧ ((∃ m r tx dl, c.pos = .inflight m r tx dl ∧ r.rid = rid)
              ∨ ((res = .io .pipe ∨ ∃ e, res = frameErrRes e)
                  ∧ ∃ m r q, c.pos = .idle m ∧ c.queue = .req r :: q ∧ r.rid = rid))) := by
  rcases teff_new_done c c' t _ rfl h with h | h
  · exact Or.inl h
  · right
    generalize he : LogEntry.done rid st res time = e at h
    cases h with
    | noConn r q ha hp hq =>
      simp only [doneEntry, LogEntry.done.injEq] at he
      obtain ⟨_, _, h3, _⟩ := he
      subst h3; cases hk
    | dequeue m r q res' ha hp hq hres hend =>
      simp only [doneEntry, LogEntry.done.injEq] at he
      obtain ⟨h1, _, h3, h4⟩ := he
      subst h3
      obtain ⟨e1, e2⟩ := hend k hk
      refine ⟨h4, e1, e2, Or.inr ⟨?_, m, r, q, hp, hq, h1.symm⟩⟩
      rcases hres with ⟨e, h⟩ | h | h
      · subst h; cases hk
      · exact Or.inl h
      · exact Or.inr h
    | finish m r tx dl res' ha hp ht h3 h4 hend =>
      simp only [doneEntry, LogEntry.done.injEq] at he
      obtain ⟨h1, _, h3', h4'⟩ := he
      subst h3'
      obtain ⟨e1, e2⟩ := hend k hk
      exact ⟨h4', e1, e2, Or.inl ⟨m, r, tx, dl, hp, h1.symm⟩⟩

/-- The task itself never completes a request with `shutdown`: while it runs, requests end with a
    reply, an exception, a validation error, a transport error, a timeout or `noconn`. -/
theorem error_meaning_shutdown_task {c c' : Core} (t : TEff c c') (rid : Rid) (st : Style)
    (time : Nat) (h : LogEntry.done rid st .shutdown time ∈ c'.log) :
    LogEntry.done rid st .shutdown time ∈ c.log := by
  rcases teff_new_done c c' t _ rfl h with h | h
  · exact h
  · exfalso
    generalize he : LogEntry.done rid st Res.shutdown time = e at h
    cases h with
    | noConn r q ha hp hq => simp [doneEntry] at he
    | dequeue m r q res ha hp hq hres hk =>
      simp only [doneEntry, LogEntry.done.injEq] at he
      obtain ⟨_, _, h3, _⟩ := he
      subst h3
      exact absurd rfl (dequeueRes_ne hres).2.1
    | finish m r tx dl res ha hp ht h3 h4 hk =>
      simp only [doneEntry, LogEntry.done.injEq] at he
      exact absurd he.2.2.1.symm h4


/-- `error_meaning_partial` for `shutdown`.  A script step by itself completes a request with
    `shutdown` only when the task is being dropped (`abort`) or is already gone, EXCEPT in the
    try-send style of `FfiChannel` while the task is alive: a full queue drops the command
    (finding F10, open).  (Together with `error_meaning_shutdown_task` this covers every source of
    `shutdown`.)

    Full statement that does NOT hold for the code: "`shutdown` only when the task is gone or the
    queue is closed".  The exclusion is the last disjunct; the `example` below is a concrete
    witness. -/
theorem error_meaning_shutdown_partial {σ : Type} (s : State σ) (st : Step) (rid : Rid)
    (sty : Style) (time : Nat)
    (h : LogEntry.done rid sty .shutdown time ∈ (applyStep s st).log) :
    LogEntry.done rid sty .shutdown time ∈ s.log
      ∨ st = .abort
      ∨ s.alive = false
      ∨ ∃ hd r, st = .submit .T hd r ∧ s.cap ≤ s.queue.length := by
  cases st with
  | abort => exact Or.inr (Or.inl rfl)
  | submit op hd r =>
    simp only [applyStep] at h
    split at h
    · unfold submit at h
      split at h
      · simp [emit] at h; exact Or.inl h
      · rename_i e bits hpre
        split at h
        · simp [complete, emit, accept] at h; exact Or.inl h
        · simp [complete, emit, accept] at h; exact Or.inl h
      · simp only [] at h
        split at h
        · split at h
          · rename_i ha
            exact Or.inr (Or.inr (Or.inl (by simpa [accept] using ha)))
          · split at h
            · rename_i hfull
              exact Or.inr (Or.inr (Or.inr ⟨hd, r, rfl, by simpa [accept] using hfull⟩))
            · simp [enqueue, accept] at h; exact Or.inl h
        · split at h
          · rename_i ha
            exact Or.inr (Or.inr (Or.inl (by simpa [accept] using ha)))
          · simp [enqueue, accept] at h; exact Or.inl h
    · simp [emit] at h; exact Or.inl h
  | enable hd =>
    simp only [applyStep, trySetting] at h
    split at h
    · split at h
      · simp [emit] at h; exact Or.inl h
      · exact Or.inl h
    · exact Or.inl h
  | disable hd =>
    simp only [applyStep, trySetting] at h
    split at h
    · split at h
      · simp [emit] at h; exact Or.inl h
      · exact Or.inl h
    · exact Or.inl h
  | setDecode dd =>
    simp only [applyStep, trySetting] at h
    split at h
    · split at h
      · simp [emit] at h; exact Or.inl h
      · exact Or.inl h
    · exact Or.inl h
  | shutdown hd => simp only [applyStep] at h; split at h <;> exact Or.inl h
  | newSession => simp only [applyStep, addPhase] at h; split at h <;> exact Or.inl h
  | waitEnabled => simp only [applyStep, addPhase] at h; split at h <;> exact Or.inl h
  | failFor ms => simp only [applyStep, addPhase] at h; split at h <;> exact Or.inl h
  | rx x => simp only [applyStep, pushRx] at h; split at h <;> exact Or.inl h
  | failWrite => simp only [applyStep] at h; split at h <;> exact Or.inl h
  | cloneHandle => exact Or.inl h
  | dropHandle i => exact Or.inl h
  | advance ms => exact Or.inl h


/-! ### non-vacuity -/


/-! ## Which request errors end the session: regenerated from client/task.rs -/

/-- the Rust variant of a request result -/
def Res.variant : Res → String
  | .ok _ => "Ok"
  | .exc _ => "Exception"
  | .badResp => "BadResponse"
  | .badReq _ => "BadRequest"
  | .bf _ => "BadFrame"
  | .io _ => "Io"
  | .internal => "Internal"
  | .timeout => "ResponseTimeout"
  | .noConn => "NoConnection"
  | .shutdown => "Shutdown"

/-- `SessionError::from_request_err` (its arms are regenerated from the Rust source on every run):
    a request result ends the session exactly when the table lists its variant — I/O errors and bad
    frames, nothing else (in particular not a timeout, an exception or a bad response). -/
theorem session_ending_table_correct (r : Res) :
    r.sessionEnd.isSome = (Gen.sessionEnding.lookup r.variant).isSome := by
  cases r <;> simp only [Res.sessionEnd, Res.variant, Option.isSome_some, Option.isSome_none] <;> decide

namespace Example

def rc (rid : String) (sty : Style) (timeout : Nat) : Req := ⟨rid, sty, 1, timeout, .readCoils 0 8⟩

/-- queue capacity 1, no timeout limit, MBAP -/
def s1 : State Mbap.PState := State.init mbap 1 0 ⟨0, 0, 0⟩ []

/-- queue capacity 16 -/
def s16 : State Mbap.PState := State.init mbap 16 0 ⟨0, 0, 0⟩ []

/-- `shutdown_while_alive`: the witness for the exclusion of `error_meaning_shutdown_partial`
    (finding F10): with one request queued (capacity 1), a second try-send submission is refused
    with `full` and its callback completes with `shutdown` although the task is alive. -/
example :
    let s := runState mbap s1 [.submit .T 0 (rc "a" .trySend 10), .submit .T 0 (rc "b" .trySend 10)]
    s.alive = true ∧ s.log = [.sub "b" .full, .done "b" .trySend .shutdown 0] := by decide

/-- finding F9b (repaired): `FfiChannel::read_holding_registers` with 126 registers and
    `read_coils` with 2001 coils both complete the callback with the range error they return -/
example :
    (runState mbap s16 [.submit .T 0 ⟨"a", .trySend, 1, 10, .readHoldingRegisters 0 126⟩,
                        .submit .T 0 ⟨"b", .trySend, 1, 10, .readCoils 0 2001⟩]).log
      = [.sub "b" (.badReq (.badRange .countTooLargeForType)),
         .done "b" .trySend (.badReq (.badRange .countTooLargeForType)) 0,
         .sub "a" (.badReq (.badRange .countTooLargeForType)),
         .done "a" .trySend (.badReq (.badRange .countTooLargeForType)) 0] := by decide

/-- a run in which every kind of accounting occurs: a reply, a timeout, `noconn`, a request still
    queued and one in flight -/
example :
    let s := runState mbap s16
      [.newSession, .submit .R 0 (rc "a" .future 1000),
       .rx (.data [0, 0, 0, 0, 0, 4, 1, 1, 1, 0x55]),
       .submit .C 0 (rc "b" .callback 10), .advance 10,
       .disable 0, .waitEnabled, .submit .R 0 (rc "c" .future 10),
       .enable 0, .newSession, .submit .R 0 (rc "d" .future 10), .submit .T 0 (rc "e" .trySend 10)]
    doneIds s.log = ["c", "b", "a"] ∧ queueIds s.queue = ["e"] ∧ inflightIds s.pos = ["d"]
      ∧ s.accepted = ["e", "d", "c", "b", "a"] := by decide

/-- abort: the request in flight and the queued ones complete with `shutdown`; later submissions
    too; afterwards everything accepted is completed exactly once -/
example :
    let s := runState mbap s16
      [.newSession, .submit .R 0 (rc "a" .future 1000), .submit .C 0 (rc "b" .callback 10),
       .abort, .submit .R 0 (rc "c" .future 10)]
    s.alive = false
      ∧ s.log = [.done "c" .future .shutdown 0, .done "b" .callback .shutdown 0,
                 .done "a" .future .shutdown 0, .tx [0, 0, 0, 0, 0, 6, 1, 1, 0, 0, 0, 8]]
      ∧ ∀ rid ∈ s.accepted, (doneIds s.log).count rid = 1 := by decide

/-- a transport error fails the request in flight with that error and ends the session -/
example :
    (runState mbap s16 [.newSession, .submit .R 0 (rc "a" .future 1000), .rx .err]).log
      = [.fin (.io .reset) 0, .done "a" .future (.io .reset) 0,
         .tx [0, 0, 0, 0, 0, 6, 1, 1, 0, 0, 0, 8]] := by decide

/-- `drain_completes_partial` is not vacuous: a session has ended with `maxto1`, two requests are
    still queued; two rounds complete them with `noconn` -/
example :
    let s := runState mbap (State.init mbap 16 1 ⟨0, 0, 0⟩ [])
      [.newSession, .submit .R 0 (rc "a" .future 10), .submit .C 0 (rc "b" .callback 10),
       .submit .R 0 (rc "c" .future 10), .advance 10]
    (s.alive = true ∧ s.pos = .noPhase ∧ s.phases = []) ∧ queueIds s.queue = ["b", "c"]
      ∧ doneIds (runState mbap s (drainSteps 2)).log = ["c", "b", "a"] := by decide

end Example

end Rodbus.Client
