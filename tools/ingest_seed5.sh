#!/bin/bash
# copies the results of a round-4 seeding agent (/tmp/seed5-Cxx/out/m1..m2) to the next free seeded/Cxx-m<k>
for c in "$@"; do
  for i in 1 2; do
    d=/tmp/seed5-$c/out/m$i
    [ -f $d/patch.diff ] || { echo "$c m$i: missing"; continue; }
    k=1; while [ -d /verif/seeded/$c-m$k ]; do k=$((k+1)); done
    t=/verif/seeded/$c-m$k
    mkdir -p $t
    cp $d/patch.diff $d/demo.rs $d/meta.json $t/
    echo "$c-m$k"
  done
done
