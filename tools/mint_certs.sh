#!/bin/bash
# Mints the certificate zoo of the TLS grid (C09) into /verif/certs with the openssl CLI.
# The committed output is used by the checks; this script documents how it was produced.
set -e
D=${1:-/verif/certs}
mkdir -p $D && cd $D
rm -f *.srl *.cnf *.csr   # existing certificates are kept: only missing ones are minted
ROLE_OID=1.3.6.1.4.1.50316.802.1
key() { openssl genpkey -algorithm EC -pkeyopt ec_paramgen_curve:P-256 -out $1 2>/dev/null; }
# two authorities
for ca in ca1 ca2; do
  [ -f ${ca}_cert.pem ] && continue
  key ${ca}_key.pem
  openssl req -x509 -new -key ${ca}_key.pem -subj "/O=verif/CN=$ca" -days 18000 \
    -addext "basicConstraints=critical,CA:TRUE" -addext "keyUsage=critical,keyCertSign,cRLSign" -out ${ca}_cert.pem
done
# leaf: name ca subjectCN san ext-lines startdate enddate
leaf() {
  name=$1; ca=$2; cn=$3; san=$4; ext=$5; start=$6; end=$7
  [ -f ${name}_cert.pem ] && return 0
  key ${name}_key.pem
  openssl req -new -key ${name}_key.pem -subj "/O=verif/CN=$cn" -out ${name}.csr
  {
    echo "basicConstraints=CA:FALSE"
    echo "keyUsage=digitalSignature,keyEncipherment"
    echo "extendedKeyUsage=serverAuth,clientAuth"
    [ -n "$san" ] && echo "subjectAltName=$san"
    [ -n "$ext" ] && echo -e "$ext"
  } > ${name}.cnf
  openssl x509 -req -in ${name}.csr -CA ${ca}_cert.pem -CAkey ${ca}_key.pem -CAcreateserial \
    -not_before $start -not_after $end -extfile ${name}.cnf -out ${name}_cert.pem 2>/dev/null
  rm -f ${name}.csr ${name}.cnf
}
OK_START=20200101000000Z; OK_END=20700101000000Z
role() { echo "$ROLE_OID=ASN1:UTF8String:$1"; }
# servers
leaf srv_ok        ca1 test.com  DNS:test.com  ""                 $OK_START $OK_END
leaf srv_wrongname ca1 other.com DNS:other.com ""                 $OK_START $OK_END
leaf srv_cnonly    ca1 test.com  ""            ""                 $OK_START $OK_END
leaf srv_wrongca   ca2 test.com  DNS:test.com  ""                 $OK_START $OK_END
leaf srv_expired   ca1 test.com  DNS:test.com  ""                 20200101000000Z 20210101000000Z
leaf srv_future    ca1 test.com  DNS:test.com  ""                 20690101000000Z 20700101000000Z
leaf srv_ip        ca1 test.com  DNS:test.com,IP:127.0.0.1 ""     $OK_START $OK_END
# clients
leaf cli_operator  ca1 client    ""            "$(role operator)" $OK_START $OK_END
leaf cli_viewer    ca1 client    ""            "$(role viewer)"   $OK_START $OK_END
leaf cli_norole    ca1 client    ""            ""                 $OK_START $OK_END
leaf cli_wrongca   ca2 client    ""            "$(role operator)" $OK_START $OK_END
leaf cli_expired   ca1 client    ""            "$(role operator)" 20200101000000Z 20210101000000Z
leaf cli_future    ca1 client    ""            "$(role operator)" 20690101000000Z 20700101000000Z
# self-signed entities
ss() {
  name=$1; start=$2; end=$3; ext=$4
  [ -f ${name}_cert.pem ] && return 0
  key ${name}_key.pem
  if [ -n "$ext" ]; then
    openssl req -x509 -new -key ${name}_key.pem -subj "/O=verif/CN=entity" -not_before $start -not_after $end \
      -addext "$ext" -out ${name}_cert.pem
  else
    openssl req -x509 -new -key ${name}_key.pem -subj "/O=verif/CN=entity" -not_before $start -not_after $end -out ${name}_cert.pem
  fi
}
ss ss_a        $OK_START $OK_END "$ROLE_OID=ASN1:UTF8String:operator"
ss ss_b        $OK_START $OK_END ""
ss ss_impostor $OK_START $OK_END ""
ss ss_expired  20200101000000Z 20210101000000Z ""
ss ss_future   20690101000000Z 20700101000000Z ""
ss ss_norole   $OK_START $OK_END ""
rm -f *.srl
ls
