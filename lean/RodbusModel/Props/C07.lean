import RodbusModel.Model.Session
import RodbusModel.Props.C05
import RodbusModel.Props.C06
import RodbusModel.Props.C01
import RodbusModel.Props.C02
/-
  C07 — No peer input can panic, wedge or silently kill a task: what a theorem can carry.

  Lean definitions are total, so "the model never gets stuck" is automatic; the content is
  (1) *bounds*: at every arithmetic / indexing site mirrored from the Rust code the value fits its
      Rust type under the model's invariants (so the Rust expression neither wraps nor panics);
  (2) *no internal error*: no reachable parser / session state produces an internal error
      (an internal error returned without consuming input would make the idle client loop spin);
  (3) *outcome*: for every byte stream a server session ends with one of the listed kinds.
  The logging / `Display` paths, tokio and the OS are not modelled: for them the claim rests on
  the differential runs (every suite under `catch_unwind`, overflow checks on, all decode levels).
  (the client side is in Props/C07Client)
-/
namespace Rodbus.C07

/-! ### (1) bounds -/

/-- `AddressIterator`, `BitIterator::next`, `RegisterIterator::next`, `collect_vec`:
    `start + pos` never exceeds `u16::MAX` for a validated range -/
theorem range_addresses_fit (s c : Nat) (r : Range) (h : Range.tryFrom s c = .ok r) (hc : c < 65536) :
    ∀ a ∈ r.addresses, a < 65536 := by
  obtain ⟨_, hle, rfl⟩ := (C01.range_tryFrom s c hc r).1 h
  intro a ha
  simp [Range.addresses] at ha
  obtain ⟨i, hi, rfl⟩ := ha
  omega

/-- the last address of a range may be exactly `u16::MAX`: the iterator must not increment past
    it with a checked `+= 1` (finding F13, repaired) -/
theorem last_address_may_be_max : (⟨65535, 1⟩ : Range).addresses = [65535] := by decide

/-- `indexed`: the i-th item of a decoded write carries index `start + i` -/
theorem indexed_indices {α : Type} (start : Nat) (vs : List α) :
    (indexed start vs).map Prod.fst = (List.range vs.length).map (start + ·) := by
  simp [indexed, List.map_map, Function.comp_def]
  apply List.ext_getElem <;> simp

/-- … and stays below 65536 when the range is valid -/
theorem indexed_indices_fit {α : Type} (start : Nat) (vs : List α) (h : start + vs.length ≤ 65536) :
    ∀ p ∈ indexed start vs, p.1 < 65536 := by
  intro p hp
  have : p.1 ∈ (indexed start vs).map Prod.fst := List.mem_map_of_mem hp
  rw [indexed_indices] at this
  simp at this
  obtain ⟨i, hi, hp1⟩ := this
  omega

/-- `format_mbap`: `(end_pdu - start_pdu + 1) as u16` does not truncate -/
theorem mbap_length_field_fits (pdu : Bytes) (h : pdu.length ≤ 253) : pdu.length + 1 < 65536 := by
  omega

/-- `calc_bytes_for_bits` / `calc_bytes_for_registers`: `u8::try_from` succeeds within limits -/
theorem byte_counts_fit (n : Nat) :
    (n ≤ 2000 → numBytesForBits n ≤ 255) ∧ (n ≤ 125 → 2 * n ≤ 255) := by
  constructor
  · intro h; unfold numBytesForBits; omega
  · intro h; omega

/-- `ReadBuffer`: `begin ≤ end ≤ 260` in every reachable reader state (MBAP; the RTU reader
    satisfies the same invariant, see `Rtu.Sim` in Lemmas/Rtu) -/
theorem read_buffer_indices_in_bounds {st : Mbap.PState} {rb : RB} (h : Mbap.Reach st rb) :
    rb.begin + rb.data.length ≤ CAP :=
  (reader_invariant h).1

/-- every reply PDU fits the 253-byte ADU limit, so `FrameWriter` never overflows its 260-byte
    buffer (no `InsufficientWriteSpace` internal error can end a session) -/
theorem reply_fits_writer {σ : Type} (fr : Framing) (cfg : ServerCfg σ) (hs : List (Nat × σ))
    (f : Frame) (pdu : Bytes) (h : (handleFrame cfg hs f).reply = some pdu) :
    (frameOut fr f pdu).length ≤ 260 := by
  have := C01.reply_pdu_len cfg hs f pdu h
  cases fr <;> simp [frameOut, Mbap.format, Rtu.format, u16be, u16le] <;> omega

/-! ### (2) no internal error, (3) session outcome -/

/-- the framing errors a peer can provoke; the two internal conditions are excluded -/
def IsProtocolError : FrameErr → Prop
  | .internalShortRead => False
  | .spuriousEof => False
  | _ => True

theorem reader_errors_are_protocol_errors (fr : Framing) (chunks : List Bytes) (e : FrameErr)
    (h : Event.err e ∈ readerRun fr chunks) : IsProtocolError e := by
  cases fr with
  | tcp =>
    rcases run_errors chunks e h with ⟨p, _, rfl⟩ | ⟨n, _, rfl⟩ | rfl <;> trivial
  | rtu =>
    rcases C06.run_errors .request chunks e h with ⟨fc, rfl⟩ | ⟨n, rfl⟩ | ⟨r, x, _, rfl⟩ <;> trivial

theorem handleEvents_ended {σ : Type} (fr : Framing) (cfg : ServerCfg σ) (k : EndKind)
    (hs : List (Nat × σ)) (evs : List Event) :
    (handleEvents fr cfg k hs evs).ended = k ∨
      ∃ e, Event.err e ∈ evs ∧ (handleEvents fr cfg k hs evs).ended = .badFrame e := by
  induction evs generalizing hs with
  | nil => left; rfl
  | cons ev rest ih =>
    cases ev with
    | err e => right; exact ⟨e, by simp, rfl⟩
    | frame f =>
      simp only [handleEvents]
      rcases ih (handleFrame cfg hs f).states with h | ⟨e, he, h⟩
      · left; exact h
      · right; exact ⟨e, by simp [he], h⟩

/-- **session_outcome**: for every byte stream, chunking, configuration and command sequence a
    server session ends because the peer closed, the transport failed, shutdown was requested,
    or with a *protocol* framing error — never with an internal error, and there is no other
    outcome -/
theorem session_outcome {σ : Type} (fr : Framing) (cfg : ServerCfg σ) (l : DecodeLevel)
    (hs : List (Nat × σ)) (script : List SessStep) :
    match (runSession fr cfg l hs script).ended with
    | .badFrame e => IsProtocolError e
    | _ => True := by
  unfold runSession
  rcases handleEvents_ended fr cfg (cutScript script).2 hs (readerRun fr (cutScript script).1) with h | ⟨e, he, h⟩
  · simp only [h]
    cases hk : (cutScript script).2 with
    | badFrame e =>
      -- `cutScript` never produces a framing error
      exfalso
      have : ∀ s : List SessStep, ∀ e, (cutScript s).2 ≠ .badFrame e := by
        intro s
        induction s with
        | nil => intro e; simp [cutScript]
        | cons st rest ih =>
          intro e
          cases st <;> simp [cutScript] <;> exact ih e
      exact this script e hk
    | _ => trivial
  · simp only [h]
    exact reader_errors_are_protocol_errors fr _ e he

/-- shutdown is honoured whatever the peer sent before: once the `Shutdown` command is consumed
    the session ends with `shutdown` unless a framing error already ended it -/
theorem shutdown_honoured {σ : Type} (fr : Framing) (cfg : ServerCfg σ) (l : DecodeLevel)
    (hs : List (Nat × σ)) (chunks : List Bytes) (rest : List SessStep) :
    let o := runSession fr cfg l hs (chunks.map SessStep.data ++ [.shutdown] ++ rest)
    o.ended = .shutdown ∨ ∃ e, o.ended = .badFrame e ∧ IsProtocolError e := by
  have hc : cutScript (chunks.map SessStep.data ++ [.shutdown] ++ rest) = (chunks, .shutdown) := by
    induction chunks with
    | nil => simp [cutScript]
    | cons c cs ih => simp only [List.map_cons, List.cons_append, cutScript]; rw [ih]
  simp only [runSession, hc]
  rcases handleEvents_ended fr cfg .shutdown hs (readerRun fr chunks) with h | ⟨e, he, h⟩
  · left; exact h
  · right; exact ⟨e, h, reader_errors_are_protocol_errors fr _ e he⟩

/-- non-vacuity: garbage (a bad protocol id) ends the session with a protocol error -/
example : (runSession (σ := Unit) .tcp ⟨false, ⟨fun _ _ => .ok false, fun _ _ => .ok false,
    fun _ _ => .ok 0, fun _ _ => .ok 0, fun s _ _ => (.ok (), s), fun s _ _ => (.ok (), s),
    fun s _ _ => (.ok (), s), fun s _ _ => (.ok (), s)⟩, none⟩ {} []
    [.data [0, 1, 0xFF, 0xFF, 0, 2, 1, 3], .eof]).ended = .badFrame (.unknownProtocolId 65535) := by
  decide

end Rodbus.C07
