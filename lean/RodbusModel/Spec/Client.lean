import RodbusModel.Model.Pdu
import RodbusModel.Model.Crc
/-
  Reference Modbus client at PDU/ADU level (the specification side of C03/C04), written
  declaratively: which requests may be transmitted, the bytes that denote them (by position, no
  cursor), which reply PDUs are the genuine answer to a request and the data they carry (by index).
  The model (`encodeRequest`, `handleResponse`, which mirror the Rust code) is *proved* equal to it
  in Props/C03 and Props/C04.
-/
namespace Rodbus

/-- the scalar arguments of the request are u16 values (the Rust types guarantee this) -/
def ClientReq.FieldsU16 : ClientReq → Prop
  | .readCoils s c => s < 65536 ∧ c < 65536
  | .readDiscreteInputs s c => s < 65536 ∧ c < 65536
  | .readHoldingRegisters s c => s < 65536 ∧ c < 65536
  | .readInputRegisters s c => s < 65536 ∧ c < 65536
  | .writeSingleCoil i _ => i < 65536
  | .writeSingleRegister i v => i < 65536 ∧ v < 65536
  | .writeMultipleCoils s _ => s < 65536
  | .writeMultipleRegisters s _ => s < 65536

instance (req : ClientReq) : Decidable req.FieldsU16 := by
  cases req <;> unfold ClientReq.FieldsU16 <;> exact inferInstance

/-- the register values of a write-multiple-registers request are u16 values
    (`Vec<u16>` in Rust) -/
def ClientReq.ValuesU16 : ClientReq → Prop
  | .writeMultipleRegisters _ vals => ∀ v ∈ vals, v < 65536
  | _ => True

instance (req : ClientReq) : Decidable req.ValuesU16 := by
  cases req <;> unfold ClientReq.ValuesU16 <;> exact inferInstance

namespace Spec.Client
open Rodbus.Crc

/-! ## 1. Which requests may be transmitted -/

/-- The request is a Modbus request: u16 arguments, quantity at least 1 and within the protocol
    limit of its kind (2000 bits / 125 registers read, 1968 coils / 123 registers written), and
    the last address `start + quantity - 1` is at most 65535. -/
def ClientValid : ClientReq → Prop
  | .readCoils s c => s < 65536 ∧ c < 65536 ∧ 1 ≤ c ∧ s + c ≤ 65536 ∧ c ≤ 2000
  | .readDiscreteInputs s c => s < 65536 ∧ c < 65536 ∧ 1 ≤ c ∧ s + c ≤ 65536 ∧ c ≤ 2000
  | .readHoldingRegisters s c => s < 65536 ∧ c < 65536 ∧ 1 ≤ c ∧ s + c ≤ 65536 ∧ c ≤ 125
  | .readInputRegisters s c => s < 65536 ∧ c < 65536 ∧ 1 ≤ c ∧ s + c ≤ 65536 ∧ c ≤ 125
  | .writeSingleCoil i _ => i < 65536
  | .writeSingleRegister i v => i < 65536 ∧ v < 65536
  | .writeMultipleCoils s vals =>
    1 ≤ vals.length ∧ vals.length ≤ 1968 ∧ s + vals.length ≤ 65536
  | .writeMultipleRegisters s vals =>
    1 ≤ vals.length ∧ vals.length ≤ 123 ∧ s + vals.length ≤ 65536

instance (req : ClientReq) : Decidable (ClientValid req) := by
  cases req <;> unfold ClientValid <;> exact inferInstance

/-- Why a request is refused (nothing is transmitted), `none` when it is valid.
    Reads: quantity 0, address overflow, quantity above the read limit (all `BadRange`).
    Write-multiple: more than 65535 values, no value, address overflow, more values than the
    write limit. -/
def rejection : ClientReq → Option ReqErr
  | .readCoils s c | .readDiscreteInputs s c =>
    if c = 0 then some (.badRange .countOfZero)
    else if s + c > 65536 then some (.badRange .addressOverflow)
    else if c > 2000 then some (.badRange .countTooLargeForType)
    else none
  | .readHoldingRegisters s c | .readInputRegisters s c =>
    if c = 0 then some (.badRange .countOfZero)
    else if s + c > 65536 then some (.badRange .addressOverflow)
    else if c > 125 then some (.badRange .countTooLargeForType)
    else none
  | .writeSingleCoil _ _ | .writeSingleRegister _ _ => none
  | .writeMultipleCoils s vals =>
    if vals.length > 65535 then some .countTooBigForU16
    else if vals.length = 0 then some (.badRange .countOfZero)
    else if s + vals.length > 65536 then some (.badRange .addressOverflow)
    else if vals.length > 1968 then some .countTooBigForType
    else none
  | .writeMultipleRegisters s vals =>
    if vals.length > 65535 then some .countTooBigForU16
    else if vals.length = 0 then some (.badRange .countOfZero)
    else if s + vals.length > 65536 then some (.badRange .addressOverflow)
    else if vals.length > 123 then some .countTooBigForType
    else none

/-! ## 2. The protocol encoding of a request -/

/-- high byte of a u16 -/
def hi (n : Nat) : Nat := n / 256 % 256
/-- low byte of a u16 -/
def lo (n : Nat) : Nat := n % 256

/-- value `i` of a coil vector as 0/1; positions past the end (padding) are 0 -/
def bit01 (vals : List Bool) (i : Nat) : Nat := if vals.getD i false then 1 else 0

/-- byte `j` of the packed coil values: bit `k` is value `8j + k` -/
def coilByte (vals : List Bool) (j : Nat) : Nat :=
  bit01 vals (8 * j) + 2 * bit01 vals (8 * j + 1) + 4 * bit01 vals (8 * j + 2)
    + 8 * bit01 vals (8 * j + 3) + 16 * bit01 vals (8 * j + 4) + 32 * bit01 vals (8 * j + 5)
    + 64 * bit01 vals (8 * j + 6) + 128 * bit01 vals (8 * j + 7)

/-- `⌈n/8⌉` bytes of packed coil values -/
def coilBytes (vals : List Bool) : Bytes :=
  (List.range ((vals.length + 7) / 8)).map (coilByte vals)

/-- register values, each big-endian -/
def regBytes (vals : List Nat) : Bytes := (vals.map fun v => [hi v, lo v]).flatten

/-- The request PDU: function code, big-endian start address (or index), big-endian quantity
    (or value); write-multiple requests continue with the byte count and the packed values. -/
def pdu : ClientReq → Bytes
  | .readCoils s c => [1, hi s, lo s, hi c, lo c]
  | .readDiscreteInputs s c => [2, hi s, lo s, hi c, lo c]
  | .readHoldingRegisters s c => [3, hi s, lo s, hi c, lo c]
  | .readInputRegisters s c => [4, hi s, lo s, hi c, lo c]
  | .writeSingleCoil i v => [5, hi i, lo i, if v then 0xFF else 0x00, 0x00]
  | .writeSingleRegister i v => [6, hi i, lo i, hi v, lo v]
  | .writeMultipleCoils s vals =>
    [15, hi s, lo s, hi vals.length, lo vals.length, (vals.length + 7) / 8] ++ coilBytes vals
  | .writeMultipleRegisters s vals =>
    [16, hi s, lo s, hi vals.length, lo vals.length, 2 * vals.length] ++ regBytes vals

/-- The frame on the wire.
    MBAP (`rtu = false`): transaction id, protocol id 0, length = |PDU| + 1 (all big-endian),
    unit id, PDU.
    RTU (`rtu = true`, `tx` unused): unit id, PDU, CRC-16/MODBUS of both, low byte first. -/
def adu (rtu : Bool) (tx unit : Nat) (req : ClientReq) : Bytes :=
  let p := pdu req
  if rtu then
    let c := crc (unit :: p)
    unit :: p ++ [lo c, hi c]
  else
    [hi tx, lo tx, 0, 0, hi (p.length + 1), lo (p.length + 1), unit] ++ p

/-! ## 3. The genuine reply to a request and the data it carries -/

/-- bit `i` of a packed payload: bit `i % 8` of byte `i / 8` -/
def bitOf (payload : Bytes) (i : Nat) : Bool := (payload.getD (i / 8) 0).testBit (i % 8)

/-- register `i` of a payload: big-endian u16 at byte offset `2i` -/
def regOf (payload : Bytes) (i : Nat) : Nat :=
  payload.getD (2 * i) 0 * 256 + payload.getD (2 * i + 1) 0

/-- `pdu` is the (non-exception) reply PDU that answers `req` and `v` is the data it carries.
    Reads: function code, a byte-count byte (its value is not constrained), then exactly
    `⌈n/8⌉` resp. `2n` payload bytes; the data are the `n` items `(start + i, value i)`.
    Writes: the echo of the request: index and value, resp. start and quantity. -/
def WellFormedReply (req : ClientReq) (pdu : Bytes) (v : RespVal) : Prop :=
  match req with
  | .readCoils s c | .readDiscreteInputs s c =>
    ∃ bc payload, pdu = req.fc.toByte :: bc :: payload ∧ payload.length = (c + 7) / 8 ∧
      v = .bits ((List.range c).map fun i => (s + i, bitOf payload i))
  | .readHoldingRegisters s c | .readInputRegisters s c =>
    ∃ bc payload, pdu = req.fc.toByte :: bc :: payload ∧ payload.length = 2 * c ∧
      v = .regs ((List.range c).map fun i => (s + i, regOf payload i))
  | .writeSingleCoil i b =>
    pdu = [5, hi i, lo i, if b then 0xFF else 0x00, 0x00] ∧ v = .coil i b
  | .writeSingleRegister i x =>
    pdu = [6, hi i, lo i, hi x, lo x] ∧ v = .reg i x
  | .writeMultipleCoils s vals =>
    pdu = [15, hi s, lo s, hi vals.length, lo vals.length] ∧ v = .range ⟨s, vals.length⟩
  | .writeMultipleRegisters s vals =>
    pdu = [16, hi s, lo s, hi vals.length, lo vals.length] ∧ v = .range ⟨s, vals.length⟩

/-- `pdu` is the exception reply to `req` carrying code `c`: the function code with the top bit
    set, one code byte, nothing else -/
def ExceptionReply (req : ClientReq) (pdu : Bytes) (c : Nat) : Prop :=
  pdu = [req.fc.toByte + 128, c]

/-! ## 4. Client and server composed -/

/-- the server-side request that a client request denotes -/
def toServer : ClientReq → Request
  | .readCoils s c => .readCoils ⟨s, c⟩
  | .readDiscreteInputs s c => .readDiscreteInputs ⟨s, c⟩
  | .readHoldingRegisters s c => .readHoldingRegisters ⟨s, c⟩
  | .readInputRegisters s c => .readInputRegisters ⟨s, c⟩
  | .writeSingleCoil i v => .writeSingleCoil i v
  | .writeSingleRegister i v => .writeSingleRegister i v
  | .writeMultipleCoils s vals => .writeMultipleCoils ⟨s, vals.length⟩ vals
  | .writeMultipleRegisters s vals => .writeMultipleRegisters ⟨s, vals.length⟩ vals

/-- the application's answers for the addresses `start, …, start + qty - 1` asked in ascending
    order: all the values, or the exception raised at the lowest failing address -/
def readAll {α : Type} (get : Nat → Except Nat α) (start qty : Nat) : Except Nat (List α) :=
  (List.range qty).mapM fun i => get (start + i)

/-- values paired with their addresses, ascending from `start` -/
def withAddr {α : Type} (start : Nat) (vs : List α) : List (Nat × α) :=
  (List.range vs.length).zip vs |>.map fun (i, v) => (start + i, v)

/-- outcome of a write: the echoed data, or the exception the application raised -/
def writeOutcome (res : Except Nat Unit) (echo : RespVal) : Except RespErr RespVal :=
  match res with
  | .ok () => .ok echo
  | .error e => .error (.exception e)

/-- what the caller of the client API must be told when the request `req` is executed by the
    application `H` in state `s`: the application's data or the application's exception -/
def served {σ : Type} (H : Handler σ) (s : σ) : ClientReq → Except RespErr RespVal
  | .readCoils st c =>
    match readAll (H.readCoil s) st c with
    | .ok vs => .ok (.bits (withAddr st vs))
    | .error e => .error (.exception e)
  | .readDiscreteInputs st c =>
    match readAll (H.readDiscreteInput s) st c with
    | .ok vs => .ok (.bits (withAddr st vs))
    | .error e => .error (.exception e)
  | .readHoldingRegisters st c =>
    match readAll (H.readHoldingRegister s) st c with
    | .ok vs => .ok (.regs (withAddr st vs))
    | .error e => .error (.exception e)
  | .readInputRegisters st c =>
    match readAll (H.readInputRegister s) st c with
    | .ok vs => .ok (.regs (withAddr st vs))
    | .error e => .error (.exception e)
  | .writeSingleCoil i v => writeOutcome (H.writeSingleCoil s i v).1 (.coil i v)
  | .writeSingleRegister i v => writeOutcome (H.writeSingleRegister s i v).1 (.reg i v)
  | .writeMultipleCoils st vals =>
    writeOutcome (H.writeMultipleCoils s ⟨st, vals.length⟩ (withAddr st vals)).1
      (.range ⟨st, vals.length⟩)
  | .writeMultipleRegisters st vals =>
    writeOutcome (H.writeMultipleRegisters s ⟨st, vals.length⟩ (withAddr st vals)).1
      (.range ⟨st, vals.length⟩)

/-- the register values the application returns are u16 values (`Result<u16, _>` in Rust) -/
def HandlerU16 {σ : Type} (H : Handler σ) (s : σ) : Prop :=
  (∀ a v, H.readHoldingRegister s a = .ok v → v < 65536) ∧
  (∀ a v, H.readInputRegister s a = .ok v → v < 65536)

end Spec.Client
end Rodbus
