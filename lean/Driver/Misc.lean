import RodbusModel.Model.Codec
import RodbusModel.Model.Crc
/-
  small suites: `range`, `crc`
-/
namespace Rodbus.Driver

/-- specification of `AddressRange::try_from`, stated directly -/
def specRange (s c : Nat) : String :=
  if c = 0 then "err zero" else if s + c > 65536 then "err overflow" else s!"ok {s}+{c}"

def runRange (tok : List String) : String × String :=
  match tok with
  | [_, s, c] =>
    let s := s.toNat?.getD 0
    let c := c.toNat?.getD 0
    (match Range.tryFrom s c with
      | .ok r => s!"ok {r.start}+{r.count}"
      | .error .countOfZero => "err zero"
      | .error .addressOverflow => "err overflow"
      | .error .countTooLargeForType => "err toolarge",
     specRange s c)
  | _ => ("bad-case", "bad-case")

def runCrc (tok : List String) : String × String :=
  match tok with
  | [_, h] =>
    let v := toString (Crc.crc ((ofHex h).getD []))
    (v, v)
  | _ => ("bad-case", "bad-case")

end Rodbus.Driver
