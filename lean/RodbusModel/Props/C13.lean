import RodbusModel.Lemmas.Lifecycle
import RodbusModel.Spec.LifecycleObs
/-
  C13 — The connection-state listener always observes a legal path: Disabled first; Connecting
  only while enabled; Connected only directly after Connecting; a wait state after every failed
  connect or lost connection; Disabled after a disable, which also closes an open connection;
  Shutdown exactly once and last, after which every handle reports shutdown.  While not connected,
  requests fail immediately with no-connection instead of queueing, no connection attempt is made
  while disabled, and shutdown or dropping all handles ends the task from every state.

  C14 (task-level half) — after the k-th consecutive failed connect the wait is min × 2^(k-1)
  capped at max, after a lost connection it is min, and the sequence restarts at min after any
  successful connection.  The delay announced to the listener is the delay actually waited.

  Everything below is about `Rodbus.Life` (Model/Lifecycle.lean): `advance` runs the task until it
  blocks, `stop` lets the environment act at a blocking point, `runStops` runs a script of stops.
  A full run is `run s0 script = runStops (start s0).1 (start s0).2 script` from an `Initial s0`
  (not enabled, empty queue, a live handle, empty log, alive); retry strategy, peer behaviours and
  the timeout limit of `s0` are arbitrary.  `Reachable s pos` means `(s, pos) = run s0 script` for
  some such `s0` and some `script : List (List Action)`.  Gate events (`.gate st`) are appended
  to the log by `stop` when the listener callback runs; `states log` extracts them.

  Since the audit of the model three things are part of it that were missing before:
  (1) actions after the end of the task (`stop` at `Pos.done` applies `applyDone`; `runStops` no
  longer stops at `Pos.done`): `done_is_final`, `after_shutdown_handles_report_shutdown`, and
  `C13.nothing_after_shutdown` in Props/C13Conn.lean; (2) the connection object (`S.conn`,
  `Ev.closed`): Props/C13Conn.lean; (3) the `select!` race between the peer's EOF / garbage and
  the command queue in `ClientLoop::poll`, resolved by the scheduler coins `S.coins`, which
  `Initial` leaves arbitrary — every theorem over runs holds for every resolution (§6b),
  `lost_session_outcomes` / `wait_after_lost_connection` list the outcomes — and peers that go
  away in the middle of a session (`Behaviour.serveN`): `wait_after_lost_connection_in_flight`,
  `wait_after_lost_connection_mid_session`, `wait_after_lost_connection_served`.
  C14 for all scripts: `C14Life.announced_delays_conform` (Props/C14Life.lean).

  The user alphabet `Action` is {enable, disable, shutdown, dropAll, request id, setDecode lvl};
  every theorem that quantifies over scripts (`legal_path`, `no_attempt_while_disabled`,
  `connecting_only_enabled_run`, `shutdown_from_anywhere`, `conservation`, …) quantifies over
  scripts that may contain `Channel::set_decode_level` at every blocking point.  The peer
  behaviours include `hsfail` (TLS: the TCP connect succeeds, the handshake fails), a failed
  attempt exactly like `refuse` (§3, §7); what `set_decode_level` does is §8.
-/
namespace Rodbus.C13
open Rodbus.Life Rodbus.Spec.Life

/-! ## 1. the listener sees a legal path -/

/-- **legal_path**: for every initial state, every script of stops (user actions at every
    blocking point) and every environment (behaviours / retry / timeout limit are fields of
    `s0`), the announced states satisfy the specification automaton `Spec.Life.legalLog`:
    `Disabled` first, every adjacent pair in `legalNext`, `Shutdown` at most once and last. -/
theorem legal_path (s0 : S) (h0 : Initial s0) (script : List (List Action)) :
    legalLog (run s0 script).1.log = true :=
  (Reachable.runInv ⟨s0, script, h0, rfl⟩).legalLog

/-- `legal_path` without the Boolean packaging -/
theorem legal_path_spelled_out (s0 : S) (h0 : Initial s0) (script : List (List Action)) :
    (states (run s0 script).1.log = [] ∨
      (states (run s0 script).1.log).head? = some .disabled) ∧
    (∀ pre a b post, states (run s0 script).1.log = pre ++ a :: b :: post →
      legalNext a b = true) ∧
    (states (run s0 script).1.log).count .shutdown ≤ 1 ∧
    (∀ pre post, states (run s0 script).1.log = pre ++ .shutdown :: post → post = []) := by
  have hinv := Reachable.runInv ⟨s0, script, h0, rfl⟩
  have hadj : ∀ pre a b post, states (run s0 script).1.log = pre ++ a :: b :: post →
      legalNext a b = true := fun pre a b post h =>
    legalPath_adjacent pre a b post (h ▸ hinv.2.1)
  refine ⟨hinv.1.symm, hadj, (legalPath_shutdown_last _ hinv.2.1).1, ?_⟩
  intro pre post h
  cases post with
  | nil => rfl
  | cons b post =>
    have := hadj pre .shutdown b post h
    rw [legalNext_shutdown_left] at this
    exact absurd this (by decide)

/-! ## 2. Connecting only while enabled, Connected only after Connecting -/

/-- **connecting_only_enabled**: whenever a call of `advance` (any fuel, any phase, any state)
    blocks at the `Connecting` gate, the task's enabled flag is set in the returned state, and
    the task continues with `connect()`. -/
theorem connecting_only_enabled (fuel : Nat) (ph : Phase) (s s' : S) (next : Phase)
    (h : advance fuel ph s = (s', .gate .connecting next)) :
    s'.enabled = true ∧ next = .connect := by
  have := (advance_gate_facts fuel ph s .connecting next (by rw [h])).1 rfl
  rw [h] at this
  exact this

/-- … and the same on runs: at every `Connecting` gate of every run the flag is set. -/
theorem connecting_only_enabled_run (s0 : S) (h0 : Initial s0) (script : List (List Action))
    (s : S) (next : Phase) (h : run s0 script = (s, .gate .connecting next)) :
    s.enabled = true := by
  have := (Reachable.runInv ⟨s0, script, h0, h⟩).2.2
  exact this.2.2.2.1 rfl

/-- **no attempt while disabled**: wherever a run is blocked, if the task is about to connect,
    is in a session, or is waiting to reconnect, then it is enabled; and a `Disabled` gate is only
    ever reached with the flag cleared. -/
theorem no_attempt_while_disabled (s : S) (pos : Pos) (hr : Reachable s pos) :
    (∀ st ph, pos = .gate st ph → needsEnabled ph = true → s.enabled = true) ∧
    (∀ ph, pos = .idle ph → needsEnabled ph = true → s.enabled = true) ∧
    (∀ next, pos = .gate .disabled next → s.enabled = false) := by
  have hinv := hr.runInv.2.2
  refine ⟨?_, ?_, ?_⟩
  · intro st ph hp hn; subst hp; exact hinv.2.1.2.1 hn
  · intro ph hp hn; subst hp
    obtain ⟨l, _, hl⟩ := hinv
    exact hl.2.1 hn
  · intro next hp; subst hp; exact hinv.2.2.1 rfl

/-- **connected_only_after_connecting**: every `Connected` in the announced states of a run is
    immediately preceded by `Connecting`. -/
theorem connected_only_after_connecting (s0 : S) (h0 : Initial s0) (script : List (List Action))
    (pre post : List St) (h : states (run s0 script).1.log = pre ++ .connected :: post) :
    ∃ pre', pre = pre' ++ [.connecting] := by
  have hsp := legal_path_spelled_out s0 h0 script
  rcases List.eq_nil_or_concat pre with rfl | ⟨pre', l, rfl⟩
  · rcases hsp.1 with h1 | h1
    · rw [h] at h1; simp at h1
    · rw [h] at h1; simp at h1
  · refine ⟨pre', ?_⟩
    have := hsp.2.1 pre' l .connected post (by rw [h]; simp)
    cases l <;> simp_all [legalNext]

/-! ## 3. a wait state after every failed connect or lost connection -/

/-- **wait_after_failure (failed attempt)**: if the attempt fails — the connect is refused, or
    (TLS) the TCP connect succeeds and the handshake fails: both end in
    `handle_failed_connection` —, a live handle exists and the queue holds no `Disable` /
    `Shutdown` (only requests, redundant enables and decode-level changes, which are answered /
    ignored / applied first), the task goes from the `connect` phase straight to the gate
    `WaitAfterFailedConnect d` where `d` is what the strategy's `after_failed_connect` returned,
    and the strategy is advanced — it is NOT reset, whatever the reason of the failure.  Side
    condition forced by the model: one unit of fuel per queued command plus one (`stop` supplies
    `2·len + 8`). -/
theorem wait_after_failed_attempt (s : S) (fuel : Nat) (hq : ∀ c ∈ s.queue, benign c = true)
    (hh : s.handles = true) (hc : s.cur.fails = true) (hf : s.queue.length + 1 ≤ fuel) :
    advance fuel .connect s =
      ({ s with queue := [], log := s.log ++ noconnEvents s.queue,
                retry := (Retry.afterFailedConnect s.retry).2,
                decode := decodeAfter s.decode s.queue },
        .gate (.waitFail (Retry.afterFailedConnect s.retry).1) .failFor) := by
  obtain ⟨k, rfl⟩ : ∃ k, fuel = s.queue.length + (k + 1) := ⟨fuel - s.queue.length - 1, by omega⟩
  rw [advance_benign .connect (Or.inl rfl) s.queue [] s (k + 1) hq (by simp), advance_succ]
  simp [step, hh, hc, Res.fin]

/-- **wait_after_failure (refused connect)**: `wait_after_failed_attempt` for a refused connect.
    (`benign` now also covers decode-level changes in the queue; they change `decode` only.) -/
theorem wait_after_refused (s : S) (fuel : Nat) (hq : ∀ c ∈ s.queue, benign c = true)
    (hh : s.handles = true) (hc : s.cur = .refuse) (hf : s.queue.length + 1 ≤ fuel) :
    advance fuel .connect s =
      ({ s with queue := [], log := s.log ++ noconnEvents s.queue,
                retry := (Retry.afterFailedConnect s.retry).2,
                decode := decodeAfter s.decode s.queue },
        .gate (.waitFail (Retry.afterFailedConnect s.retry).1) .failFor) :=
  wait_after_failed_attempt s fuel hq hh (by rw [hc]; rfl) hf

/-- **wait_after_failure (failed TLS handshake)**: the TCP connect succeeded, the connection
    handler failed: exactly the same wait state, delay and strategy update as a refused connect -/
theorem wait_after_failed_handshake (s : S) (fuel : Nat) (hq : ∀ c ∈ s.queue, benign c = true)
    (hh : s.handles = true) (hc : s.cur = .hsfail) (hf : s.queue.length + 1 ≤ fuel) :
    advance fuel .connect s =
      ({ s with queue := [], log := s.log ++ noconnEvents s.queue,
                retry := (Retry.afterFailedConnect s.retry).2,
                decode := decodeAfter s.decode s.queue },
        .gate (.waitFail (Retry.afterFailedConnect s.retry).1) .failFor) :=
  wait_after_failed_attempt s fuel hq hh (by rw [hc]; rfl) hf

/-- the same at the level of stops: the listener sees `Connecting`, then (at the next stop)
    `WaitAfterFailedConnect d` -/
theorem wait_after_failed_attempt_announced (s : S) (hq : s.queue = []) (hh : s.handles = true)
    (hc : s.cur.fails = true) (acts : List Action) :
    let r1 := stop s (.gate .connecting .connect) []
    states (stop r1.1 r1.2 acts).1.log =
      states s.log ++ [.connecting, .waitFail (Retry.afterFailedConnect s.retry).1] := by
  intro r1
  have h1 : r1 = stop s.report (.gate .connecting .connect) [] := stop_gate_report s _ _ []
  rw [h1, stop_connect_refused s.report (by simpa using hq) (by simpa using hh) (by simpa using hc)
    (report_unreported s)]
  simp only [stop]
  rw [advance_states, (foldl_applyAction_frame acts _).1]
  simp

theorem wait_after_refused_announced (s : S) (hq : s.queue = []) (hh : s.handles = true)
    (hc : s.cur = .refuse) (acts : List Action) :
    let r1 := stop s (.gate .connecting .connect) []
    states (stop r1.1 r1.2 acts).1.log =
      states s.log ++ [.connecting, .waitFail (Retry.afterFailedConnect s.retry).1] :=
  wait_after_failed_attempt_announced s hq hh (by rw [hc]; rfl) acts

theorem wait_after_failed_handshake_announced (s : S) (hq : s.queue = []) (hh : s.handles = true)
    (hc : s.cur = .hsfail) (acts : List Action) :
    let r1 := stop s (.gate .connecting .connect) []
    states (stop r1.1 r1.2 acts).1.log =
      states s.log ++ [.connecting, .waitFail (Retry.afterFailedConnect s.retry).1] :=
  wait_after_failed_attempt_announced s hq hh (by rw [hc]; rfl) acts

/-- **every** failed attempt (refused connect or failed handshake): whatever is queued, it ends
    at the wait state announced with the strategy's delay, or — only if a `Disable` resp.
    `Shutdown` / the loss of all handles is processed first — at `Disabled` resp. `Shutdown`.  It
    never ends at `Connected` and never blocks anywhere else. -/
theorem failed_attempt_outcomes (fuel : Nat) (ph : Phase) (s : S)
    (hph : ph = .connect ∨ ph = .afterDisable) (hc : s.cur.fails = true)
    (hf : s.queue.length + 1 ≤ fuel) :
    (advance fuel ph s).2 = .gate (.waitFail (Retry.afterFailedConnect s.retry).1) .failFor ∨
    (advance fuel ph s).2 = .gate .disabled .waitEnabled ∨
    (advance fuel ph s).2 = .gate .shutdown .finished := by
  have aux : ∀ (fuel : Nat) (ph : Phase) (s' : S), (ph = .connect ∨ ph = .afterDisable) →
      s'.cur.fails = true → s'.queue.length + 1 ≤ fuel → s'.retry = s.retry →
      (advance fuel ph s').2 = .gate (.waitFail (Retry.afterFailedConnect s.retry).1) .failFor ∨
      (advance fuel ph s').2 = .gate .disabled .waitEnabled ∨
      (advance fuel ph s').2 = .gate .shutdown .finished := by
    intro fuel
    induction fuel with
    | zero => intro ph s' _ _ hf; omega
    | succ fuel ih =>
      intro ph s' hph hc hf hr
      rw [advance_succ]
      rcases hph with rfl | rfl
      · cases hq : s'.queue with
        | nil =>
          by_cases hh : s'.handles = true <;> simp [step, hq, hh, hc, Res.fin, hr]
        | cons c q =>
          have hlen : q.length + 1 ≤ fuel := by rw [hq] at hf; simp at hf; omega
          cases c <;> simp only [step, hq, Res.fin]
          · exact ih .connect { s' with queue := q } (Or.inl rfl) hc hlen hr
          · exact ih .afterDisable { s' with queue := q, enabled := false } (Or.inr rfl) hc hlen hr
          · simp
          · exact ih .connect ({ s' with queue := q }.emit _) (Or.inl rfl) hc hlen hr
          · exact ih .connect { s' with queue := q, decode := _ } (Or.inl rfl) hc hlen hr
      · simp [step, Res.fin]
  exact aux fuel ph s hph hc hf rfl

/-- `failed_attempt_outcomes` for a refused connect -/
theorem refused_outcomes (fuel : Nat) (ph : Phase) (s : S)
    (hph : ph = .connect ∨ ph = .afterDisable) (hc : s.cur = .refuse)
    (hf : s.queue.length + 1 ≤ fuel) :
    (advance fuel ph s).2 = .gate (.waitFail (Retry.afterFailedConnect s.retry).1) .failFor ∨
    (advance fuel ph s).2 = .gate .disabled .waitEnabled ∨
    (advance fuel ph s).2 = .gate .shutdown .finished :=
  failed_attempt_outcomes fuel ph s hph (by rw [hc]; rfl) hf

/-- … and for a failed TLS handshake: in particular it never ends at `Connected` -/
theorem failed_handshake_outcomes (fuel : Nat) (ph : Phase) (s : S)
    (hph : ph = .connect ∨ ph = .afterDisable) (hc : s.cur = .hsfail)
    (hf : s.queue.length + 1 ≤ fuel) :
    (advance fuel ph s).2 = .gate (.waitFail (Retry.afterFailedConnect s.retry).1) .failFor ∨
    (advance fuel ph s).2 = .gate .disabled .waitEnabled ∨
    (advance fuel ph s).2 = .gate .shutdown .finished :=
  failed_attempt_outcomes fuel ph s hph (by rw [hc]; rfl) hf

/-- every session in which the peer is gone (it has closed its side or sent garbage: the socket
    branch of `ClientLoop::poll` is ready) ends, whatever is queued and however `select!` resolves
    (the coins of `s` are arbitrary): the connection is closed and the task blocks at
    `WaitAfterDisconnect(after_disconnect())`, or — only if a `Disable` resp. a `Shutdown` / the
    loss of every handle wins the race — at `Disabled` resp. `Shutdown`.  The retry strategy is not
    touched. -/
theorem lost_session_outcomes (b : Behaviour) (hbf : b.fails = false) (fuel : Nat) (ph : Phase)
    (s : S) (hph : ph = .session b ∨ ph = .afterDisable) (hg : b.gone s.served = true)
    (hc : ph = .afterDisable → s.conn = false) (hf : s.queue.length + 1 ≤ fuel) :
    ((advance fuel ph s).2 = .gate (.waitDisc (Retry.afterDisconnect s.retry)) .failFor ∨
     (advance fuel ph s).2 = .gate .disabled .waitEnabled ∨
     (advance fuel ph s).2 = .gate .shutdown .finished) ∧
    (advance fuel ph s).1.conn = false ∧ (advance fuel ph s).1.retry = s.retry := by
  have aux : ∀ (fuel : Nat) (ph : Phase) (s' : S), (ph = .session b ∨ ph = .afterDisable) →
      b.gone s'.served = true → (ph = .afterDisable → s'.conn = false) →
      s'.queue.length + 1 ≤ fuel → s'.retry = s.retry →
      ((advance fuel ph s').2 = .gate (.waitDisc (Retry.afterDisconnect s.retry)) .failFor ∨
       (advance fuel ph s').2 = .gate .disabled .waitEnabled ∨
       (advance fuel ph s').2 = .gate .shutdown .finished) ∧
      (advance fuel ph s').1.conn = false ∧ (advance fuel ph s').1.retry = s.retry := by
    intro fuel
    induction fuel with
    | zero => intro ph s' _ _ _ hf; omega
    | succ fuel ih =>
      intro ph s' hph hg hc hf hr
      rw [advance_succ]
      rcases hph with rfl | rfl
      · cases hq : s'.queue with
        | nil =>
          by_cases hh : s'.handles = true <;> by_cases hcoin : s'.coinVal = true <;>
            simp [step, hq, hh, hg, hbf, hcoin, Res.fin, hr]
        | cons c q =>
          have hlen : q.length + 1 ≤ fuel := by rw [hq] at hf; simp at hf; omega
          by_cases hcoin : s'.coinVal = true
          · simp [step, hq, hg, hbf, hcoin, Res.fin, hr]
          · cases c <;> simp only [step, hq, hg, hbf, hcoin, Res.fin, Bool.false_eq_true, ↓reduceIte]
            · exact ih (.session b) { s'.coinPop with queue := q } (Or.inl rfl) hg (by simp) hlen hr
            · exact ih .afterDisable { s'.coinPop.closeConn with queue := q, enabled := false }
                (Or.inr rfl) hg (fun _ => rfl) hlen hr
            · simp [hr]
            · simp [hr]
            · exact ih (.session b) { s'.coinPop with queue := q, decode := _ } (Or.inl rfl) hg
                (by simp) hlen hr
      · simp [step, Res.fin, hc rfl, hr]
  exact aux fuel ph s hph hg hc hf rfl

/-- … and it ends at `WaitAfterDisconnect` if the socket wins the first race, or nothing races it
    (nothing queued and a live handle) -/
theorem lost_session_socket_first (b : Behaviour) (hbf : b.fails = false) (s : S)
    (hg : b.gone s.served = true)
    (h : s.coinVal = true ∨ (s.queue = [] ∧ s.handles = true)) (fuel : Nat) :
    (advance (fuel + 1) (.session b) s).2 =
      .gate (.waitDisc (Retry.afterDisconnect s.retry)) .failFor := by
  rw [advance_succ]
  rcases h with hcoin | ⟨hq, hh⟩
  · cases hq : s.queue with
    | nil => by_cases hh : s.handles = true <;> simp [step, hq, hh, hbf, hg, hcoin, Res.fin]
    | cons c q => simp [step, hq, hbf, hg, hcoin, Res.fin]
  · simp [step, hq, hh, hbf, hg, Res.fin]

/-- **wait_after_failure (lost connection)**: with a peer that closes the connection or sends
    garbage, the session that starts at the `Connected` gate ends at once, whatever the user does
    at the gate:
    * the retry strategy has been reset at the start of the session (and is not touched again);
    * the connection is closed;
    * the state announced next is `WaitAfterDisconnect` with the strategy's `after_disconnect`
      delay — or, only if a command queued at the gate wins the `select!` race against the peer's
      EOF / garbage in `ClientLoop::poll`, `Disabled` (a `Disable` did) or `Shutdown` (a `Shutdown`
      or the loss of every handle did);
    * if the socket wins the first race (`coinVal`), or nothing races it (nothing queued, a live
      handle), it IS `WaitAfterDisconnect`: the commands stay queued and fail fast afterwards.
    (Before the race was modelled this theorem claimed `WaitAfterDisconnect` unconditionally.) -/
theorem wait_after_lost_connection (b : Behaviour) (hb : b = .close ∨ b = .garbage) (s : S)
    (acts : List Action) :
    (stop s (.gate .connected (.sessionStart b)) acts).1.retry = Retry.reset s.retry ∧
    (stop s (.gate .connected (.sessionStart b)) acts).1.conn = false ∧
    ((stop s (.gate .connected (.sessionStart b)) acts).2 =
        .gate (.waitDisc (Retry.afterDisconnect s.retry)) .failFor ∨
     (stop s (.gate .connected (.sessionStart b)) acts).2 = .gate .disabled .waitEnabled ∨
     (stop s (.gate .connected (.sessionStart b)) acts).2 = .gate .shutdown .finished) ∧
    ((s.coinVal = true ∨ (acts = [] ∧ s.queue = [] ∧ s.handles = true)) →
      (stop s (.gate .connected (.sessionStart b)) acts).2 =
        .gate (.waitDisc (Retry.afterDisconnect s.retry)) .failFor) := by
  have hf := foldl_applyAction_frame acts (s.report.emit (.gate .connected))
  have hbf : b.fails = false := by rcases hb with rfl | rfl <;> rfl
  have hg : ∀ n, b.gone n = true := by rcases hb with rfl | rfl <;> intro n <;> rfl
  simp only [stop, fuelFor_succ]
  generalize hs2 : acts.foldl applyAction (s.report.emit (.gate .connected)) = s2 at hf
  have hr : s2.retry = s.retry := by rw [hf.2.2.2.1]; simp
  have hcoins : s2.coins = s.coins := by rw [hf.2.2.2.2.2.2.2.2.2.2.2.1]; simp
  rw [advance_succ]
  simp only [step, Res.fin]
  have hout := lost_session_outcomes b hbf (2 * s2.queue.length + 7) (.session b)
    { s2 with retry := Retry.reset s2.retry, tcount := 0, served := 0 } (Or.inl rfl) (hg _)
    (by simp) (by simp only []; omega)
  have hsock := lost_session_socket_first b hbf
    { s2 with retry := Retry.reset s2.retry, tcount := 0, served := 0 } (hg _)
  simp only [Retry.afterDisconnect, Retry.reset] at hout hsock ⊢
  refine ⟨by rw [hout.2.2, hr], hout.2.1, by simpa [hr] using hout.1, ?_⟩
  intro hcase
  have := hsock (by
    rcases hcase with hcoin | ⟨rfl, hq, hh⟩
    · left; simpa [S.coinVal, hcoins] using hcoin
    · right
      simp only [List.foldl_nil] at hs2
      subst hs2
      exact ⟨by simpa using hq, by simpa using hh⟩) (2 * s2.queue.length + 6)
  simpa [hr] using this

/-- a peer that serves `k` requests: while fewer than `k` have been answered on this connection a
    request is served like by `serve` -/
theorem serveN_serves (k : Nat) (w : Bool) (s : S) (id : Nat) (rest : List Cmd)
    (hq : s.queue = .request id :: rest) (hk : s.served < k) (fuel : Nat) :
    advance (fuel + 1) (.session (.serveN k w)) s =
      advance fuel (.session (.serveN k w))
        ({ s with queue := rest, tcount := 0, served := s.served + 1 }.emit (.done id "ok.4660")) := by
  have hnk : ¬ k ≤ s.served := Nat.not_le.2 hk
  cases w <;> simp [advance_succ, step, hq, hnk, Res.fin, Behaviour.gone, Behaviour.dropsNext]

/-- **wait_after_failure (connection lost with a request in flight)**: the peer has answered its
    `k` requests and closes when the next one arrives (`serveN k true`).  That request — at the
    head of the queue — is written, the peer goes away, the request fails with the transport
    error (`io.eof`), the session ends: the connection is dropped and the task blocks at
    `WaitAfterDisconnect(after_disconnect())`; the commands behind it stay queued. -/
theorem wait_after_lost_connection_in_flight (k : Nat) (s : S) (id : Nat) (rest : List Cmd)
    (hq : s.queue = .request id :: rest) (hk : k ≤ s.served) (fuel : Nat) :
    advance (fuel + 1) (.session (.serveN k true)) s =
      ({ s with queue := rest, log := s.log ++ [.done id "io.eof"], conn := false,
                unreported := true },
        .gate (.waitDisc (Retry.afterDisconnect s.retry)) .failFor) := by
  simp [advance_succ, step, hq, hk, Res.fin, S.emit, S.closeConn, Behaviour.gone,
    Behaviour.dropsNext]

theorem noconnEvents_requests (l : List Nat) :
    noconnEvents (l.map Cmd.request) = l.map (fun id => Ev.done id "noconn") := by
  induction l with
  | nil => rfl
  | cons i l ih => simp [ih]

/-- **wait_after_failure (connection lost after the `k`-th reply)**: a peer that closes right
    after its `k`-th reply (`serveN k false`) is gone from then on: the session ends like one with
    a peer that closed at once (`lost_session_outcomes`, `lost_session_socket_first`) —
    `WaitAfterDisconnect` with the minimum delay if the socket wins or nothing races it (the
    task was idle: nothing queued, a live handle), whatever is queued failing fast afterwards. -/
theorem wait_after_lost_connection_served (k : Nat) (s : S) (hk : k ≤ s.served) (fuel : Nat)
    (hf : s.queue.length + 1 ≤ fuel) :
    ((advance fuel (.session (.serveN k false)) s).2 =
        .gate (.waitDisc (Retry.afterDisconnect s.retry)) .failFor ∨
     (advance fuel (.session (.serveN k false)) s).2 = .gate .disabled .waitEnabled ∨
     (advance fuel (.session (.serveN k false)) s).2 = .gate .shutdown .finished) ∧
    (advance fuel (.session (.serveN k false)) s).1.conn = false ∧
    (advance fuel (.session (.serveN k false)) s).1.retry = s.retry ∧
    ((s.coinVal = true ∨ (s.queue = [] ∧ s.handles = true)) →
      (advance fuel (.session (.serveN k false)) s).2 =
        .gate (.waitDisc (Retry.afterDisconnect s.retry)) .failFor) := by
  have hg : (Behaviour.serveN k false).gone s.served = true := by simp [hk]
  have h1 := lost_session_outcomes (.serveN k false) rfl fuel (.session (.serveN k false)) s
    (Or.inl rfl) hg (by simp) hf
  refine ⟨h1.1, h1.2.1, h1.2.2, ?_⟩
  intro hcase
  obtain ⟨f, rfl⟩ : ∃ f, fuel = f + 1 := ⟨fuel - 1, by omega⟩
  exact lost_session_socket_first (.serveN k false) rfl s hg hcase f

/-- **wait_after_failure (silent peer, limit `n > 0`)**: exactly the `n`-th consecutive
    timed-out request ends the session with `WaitAfterDisconnect`; the commands behind it stay
    queued. -/
theorem silent_session_ends_after_maxto (n : Nat) (hn : 0 < n) (ids : List Nat)
    (hlen : ids.length = n) (rest : List Cmd) (s : S) (hm : s.maxto = n) (ht : s.tcount = 0)
    (hq : s.queue = ids.map Cmd.request ++ rest) (fuel : Nat) (hf : n ≤ fuel) :
    advance fuel (.session .silent) s =
      ({ s with queue := rest, tcount := n, log := s.log ++ timeoutEvents ids,
                conn := false, unreported := true },
        .gate (.waitDisc (Retry.afterDisconnect s.retry)) .failFor) := by
  obtain ⟨init, last, rfl⟩ : ∃ init last, ids = init ++ [last] := by
    rcases List.eq_nil_or_concat ids with rfl | ⟨i, l, rfl⟩
    · simp at hlen; omega
    · exact ⟨i, l, by simp⟩
  simp only [List.length_append, List.length_cons, List.length_nil] at hlen
  obtain ⟨k, rfl⟩ : ∃ k, fuel = init.length + (k + 1) := ⟨fuel - init.length - 1, by omega⟩
  rw [advance_silent_below init (.request last :: rest) s (k + 1) (by simp [hq])
    (by right; omega)]
  rw [advance_silent_limit last rest _ k rfl (by simp only []; omega) (by simp only []; omega)]
  simp [timeoutEvents, ht, ← hlen]

/-- … and fewer than `n` timeouts do not end it: the task idles in the session. -/
theorem silent_session_survives (ids : List Nat) (s : S) (hlt : s.tcount + ids.length < s.maxto)
    (hh : s.handles = true) (hq : s.queue = ids.map Cmd.request) (k : Nat) :
    advance (ids.length + (k + 1)) (.session .silent) s =
      ({ s with queue := [], tcount := s.tcount + ids.length, log := s.log ++ timeoutEvents ids },
        .idle (.session .silent)) := by
  rw [advance_silent_below ids [] s (k + 1) (by simp [hq]) (Or.inr hlt), advance_succ]
  simp [step, hh, Res.fin]

/-! ## 4. Disabled after a disable -/

/-- **disable_leads_to_disabled**: a `Disable` command at the head of the queue, processed while
    connecting, connected (peer serving or silent) or waiting to reconnect, clears the enabled
    flag and takes the task — with no event in between, the log is unchanged — to the
    announcement of `Disabled`; leaving the session phase drops the connection (`closeConn`: the
    connection object is gone, the peer sees the close). -/
theorem disable_leads_to_disabled (ph : Phase)
    (hph : ph = .connect ∨ ph = .failFor ∨ ph = .session .serve ∨ ph = .session .silent)
    (s : S) (q : List Cmd) (hq : s.queue = .disable :: q) (fuel : Nat) :
    advance (fuel + 2) ph s =
      ({ (if ph = .connect ∨ ph = .failFor then s else s.closeConn) with
          queue := q, enabled := false }, .gate .disabled .waitEnabled) := by
  rcases hph with rfl | rfl | rfl | rfl <;>
    simp [advance_succ, step, hq, Res.fin]

/-- in `wait_for_enabled` (already disabled) a `Disable` is a no-op: it is consumed and the task
    carries on exactly as if it had not been there -/
theorem disable_noop_when_disabled (s : S) (q : List Cmd) (hq : s.queue = .disable :: q)
    (he : s.enabled = false) (fuel : Nat) :
    advance (fuel + 1) .waitEnabled s = advance fuel .waitEnabled { s with queue := q } := by
  simp [advance_succ, step, hq, he, Res.fin]

/-- a `Disable` behind requests / redundant enables / decode-level changes while not connected:
    those are answered (noconn) / ignored / applied, then `Disabled` is announced; nothing else
    happens in between -/
theorem disable_after_requests (ph : Phase) (hph : ph = .connect ∨ ph = .failFor) (s : S)
    (pre q : List Cmd) (hpre : ∀ c ∈ pre, benign c = true) (hq : s.queue = pre ++ .disable :: q)
    (fuel : Nat) (hf : pre.length + 2 ≤ fuel) :
    advance fuel ph s =
      ({ s with queue := q, enabled := false, log := s.log ++ noconnEvents pre,
                decode := decodeAfter s.decode pre },
        .gate .disabled .waitEnabled) := by
  obtain ⟨k, rfl⟩ : ∃ k, fuel = pre.length + (k + 2) := ⟨fuel - pre.length - 2, by omega⟩
  rw [advance_benign ph hph pre (.disable :: q) s (k + 2) hpre hq]
  rw [disable_leads_to_disabled ph (by rcases hph with rfl | rfl <;> simp) _ q rfl k]
  rcases hph with rfl | rfl <;> simp

/-- **Disabled after a disable, which also closes an open connection**, at the level of stops:
    the task idles in a session with a serving peer, the user disables; the task leaves the
    session (the connection is dropped), clears the flag, and blocks at the `Disabled` gate, which
    the listener sees at the next stop. -/
theorem disable_closes_connection (s : S) (hq : s.queue = []) (hh : s.handles = true)
    (acts : List Action) :
    stop s (.idle (.session .serve)) [.disable] =
      ({ s with log := s.log ++ [.idle, .act .disable], enabled := false,
                conn := false, unreported := true },
        .gate .disabled .waitEnabled) ∧
    states (stop { s with log := s.log ++ [.idle, .act .disable], enabled := false,
                          conn := false, unreported := true }
      (.gate .disabled .waitEnabled) acts).1.log = states s.log ++ [.disabled] := by
  constructor
  · simp [stop, applyAction, hh, hq, fuelFor, advance_succ, step, Res.fin, S.emit, S.closeConn]
  · simp only [stop]
    rw [advance_states, (foldl_applyAction_frame acts _).1]
    simp [show states [Ev.idle, Ev.act Action.disable] = [] from rfl]

/-! ## 5. requests fail fast while not connected -/

/-- **fail_fast**.  Original statement (kept for reference; it is *false* in the model — and, by
    reading, in the code: `fail_requests` returns at the first `Disable`, client/task.rs:334-340,
    and `listener.update(Disabled)` is awaited before the queue is read again,
    tcp/client.rs:130-131): "after `advance fuel ph s` with `ph ∈ {waitEnabled, connect, failFor}` and
    `fuel ≥ 2·len + 8`, unless the call ended at a Shutdown gate, no request remains in the
    returned queue and every request that was in the queue has a `noconn` completion".
    Counter-example: queue `[disable, request 1]` in `connect` ends at the `Disabled` gate with
    `request 1` still queued (it fails with noconn right after the callback returns); likewise
    `[enable, request 1]` in `waitEnabled` ends at the `Connecting` gate.  The listener callback
    is the only place where the task stops with requests pending, so the exception has to cover
    the three state-change gates `Disabled`, `Connecting`, `Shutdown`.  With that amendment:

    * what the call consumed is a prefix of the queue, and the log grew by exactly one
      `done id "noconn"` per consumed request — every request dequeued while not connected is
      completed with noconn in the same call, no other completion is produced;
    * unless the call ended at one of the three gates, the whole queue was consumed: nothing is
      left queued and every request that was queued has its noconn completion. -/
theorem fail_fast (fuel : Nat) (ph : Phase) (s s' : S) (pos : Pos)
    (hph : ph = .waitEnabled ∨ ph = .connect ∨ ph = .failFor)
    (hf : fuel ≥ 2 * s.queue.length + 8) (h : advance fuel ph s = (s', pos)) :
    (∃ consumed, s.queue = consumed ++ s'.queue ∧ s'.log = s.log ++ noconnEvents consumed) ∧
    (pos ≠ .gate .shutdown .finished → pos ≠ .gate .disabled .waitEnabled →
      pos ≠ .gate .connecting .connect →
      s'.queue = [] ∧ ∀ id, Cmd.request id ∈ s.queue → Ev.done id "noconn" ∈ s'.log) := by
  have hnc : notConnected ph = true := by rcases hph with rfl | rfl | rfl <;> rfl
  have hc := advance_consumed fuel ph s hnc
  have hd := advance_drained fuel ph s hnc
    (by have : slack ph ≤ 2 := by rcases hph with rfl | rfl | rfl <;> simp [slack]
        omega)
  rw [h] at hc hd
  refine ⟨hc, ?_⟩
  intro h1 h2 h3
  have hq : s'.queue = [] := by
    rcases hd with hd | hd
    · exfalso
      simp only [] at hd
      unfold changeGate at hd
      split at hd <;> simp_all
    · exact hd
  refine ⟨hq, ?_⟩
  intro id hid
  obtain ⟨consumed, hc1, hc2⟩ := hc
  simp only [] at hc1 hc2
  rw [hq, List.append_nil] at hc1
  rw [hc2, ← hc1]
  exact List.mem_append_right _ (mem_noconnEvents id _ hid)

/-- **fail_fast**, the plain case: only requests are queued.  While disabled, connecting or
    waiting to reconnect, one call of `advance` answers every one of them with noconn, in order,
    and leaves the queue empty — no request waits for a connection. -/
theorem fail_fast_requests_only (ph : Phase) (s : S) (ids : List Nat)
    (hph : (ph = .waitEnabled ∧ s.enabled = false) ∨ ph = .connect ∨ ph = .failFor)
    (hq : s.queue = ids.map Cmd.request) (fuel : Nat) (hf : fuel ≥ 2 * s.queue.length + 8) :
    (advance fuel ph s).1.queue = [] ∧
    (advance fuel ph s).1.log = s.log ++ ids.map (fun id => Ev.done id "noconn") := by
  have hlen : s.queue.length = ids.length := by simp [hq]
  obtain ⟨k, rfl⟩ : ∃ k, fuel = (ids.map Cmd.request).length + (k + 2) :=
    ⟨fuel - ids.length - 2, by simp; omega⟩
  have hne' : ∀ l : List Nat,
      noconnEvents (l.map Cmd.request) = l.map (fun id => Ev.done id "noconn") := by
    intro l
    induction l with
    | nil => rfl
    | cons i l ih => simp [ih]
  have hne := hne' ids
  have key : ∀ (ph' : Phase) (s1 : S), notConnected ph' = true → s1.queue = [] →
      (advance (k + 2) ph' s1).1.queue = [] ∧ (advance (k + 2) ph' s1).1.log = s1.log := by
    intro ph' s1 hn h1
    obtain ⟨c, hc1, hc2⟩ := advance_consumed (k + 2) ph' s1 hn
    rw [h1] at hc1
    have hc : c = [] := by
      cases c with
      | nil => rfl
      | cons x c => simp at hc1
    subst hc
    simp only [List.nil_append] at hc1
    exact ⟨hc1.symm, by simpa using hc2⟩
  rcases hph with ⟨rfl, he⟩ | rfl | rfl
  · rw [advance_inert (ids.map Cmd.request) [] s (k + 2) (by simp [inert]) he (by simp [hq])]
    have := key .waitEnabled { s with queue := [], log := s.log ++ noconnEvents (ids.map Cmd.request) } rfl rfl
    rw [decodeAfter_requests]
    rw [hne] at this ⊢
    exact this
  · rw [advance_benign .connect (Or.inl rfl) (ids.map Cmd.request) [] s (k + 2)
      (by simp [benign]) (by simp [hq])]
    have := key .connect { s with queue := [], log := s.log ++ noconnEvents (ids.map Cmd.request) } rfl rfl
    rw [decodeAfter_requests]
    rw [hne] at this ⊢
    exact this
  · rw [advance_benign .failFor (Or.inr rfl) (ids.map Cmd.request) [] s (k + 2)
      (by simp [benign]) (by simp [hq])]
    have := key .failFor { s with queue := [], log := s.log ++ noconnEvents (ids.map Cmd.request) } rfl rfl
    rw [decodeAfter_requests]
    rw [hne] at this ⊢
    exact this

/-- **instead of queueing**: in every run, when the task announces `Connected` its command queue
    is empty — no request submitted while there was no connection is ever carried over into a
    connection. -/
theorem no_request_survives_to_connected (s0 : S) (h0 : Initial s0)
    (script : List (List Action)) (s : S) (next : Phase)
    (h : run s0 script = (s, .gate .connected next)) : s.queue = [] :=
  (Reachable.runInv ⟨s0, script, h0, h⟩).2.2.2.2.2.2 rfl

/-- **the task never sleeps on a command**: wherever a run is idle (awaiting the queue, the
    socket or the retry timer — the only places where time passes), the command queue is empty.
    In particular the fuel `stop` hands to `advance` is never exhausted in a run, so every
    `idle` event of the model is a genuine await of the task. -/
theorem never_sleeps_on_requests (s0 : S) (h0 : Initial s0) (script : List (List Action))
    (s : S) (ph : Phase) (h : run s0 script = (s, .idle ph)) : s.queue = [] :=
  Reachable.idle_empty ⟨s0, script, h0, h⟩

/-! ## 6. shutdown / dropping all handles ends the task from every state -/

/-- **shutdown_from_anywhere**: from every position reachable by a run — whatever is queued,
    whatever the peer does — the stop `[a]` with `a = shutdown` or `a = dropAll`, followed by
    `n ≥ termBound s = 3·len + 6` empty stops (`len` the queue length at that position), reaches
    `Pos.done`.  At that point the task is not alive, its queue is empty, `Shutdown` has been
    announced exactly once and is the last announced state, the whole log is a legal path, and
    every request ever submitted has been completed exactly as often as it was submitted. -/
theorem shutdown_from_anywhere (s : S) (pos : Pos) (hr : Reachable s pos) (a : Action)
    (ha : a = .shutdown ∨ a = .dropAll) (n : Nat) (hn : termBound s ≤ n) :
    (runStops s pos ([a] :: List.replicate n [])).2 = .done ∧
    (runStops s pos ([a] :: List.replicate n [])).1.alive = false ∧
    (runStops s pos ([a] :: List.replicate n [])).1.queue = [] ∧
    (states (runStops s pos ([a] :: List.replicate n [])).1.log).count .shutdown = 1 ∧
    (states (runStops s pos ([a] :: List.replicate n [])).1.log).getLast? = some .shutdown ∧
    legalLog (runStops s pos ([a] :: List.replicate n [])).1.log = true ∧
    (∀ id, submitted id (runStops s pos ([a] :: List.replicate n [])).1.log =
      completed id (runStops s pos ([a] :: List.replicate n [])).1.log) := by
  have hdone := runStops_kill s pos a ha hr.runInv n hn
  have hr' := hr.runStops ([a] :: List.replicate n [])
  have hinv := hr'.runInv
  have hacc := hr'.runAcc
  generalize runStops s pos ([a] :: List.replicate n []) = r at *
  obtain ⟨s', pos'⟩ := r
  simp only [] at hdone
  subst hdone
  obtain ⟨hlast, halive, hqueue⟩ := hinv.2.2
  have hcount : (states s'.log).count .shutdown ≤ 1 := (legalPath_shutdown_last _ hinv.2.1).1
  have hmem : St.shutdown ∈ states s'.log := by
    obtain ⟨ys, hys⟩ := List.getLast?_eq_some_iff.1 hlast
    rw [hys]; simp
  have hpos := List.count_pos_iff.2 hmem
  refine ⟨rfl, halive, hqueue, Nat.le_antisymm hcount hpos, hlast, hinv.legalLog, ?_⟩
  intro id
  have := hacc id
  rw [hqueue] at this
  simpa using this

/-- the bound of `shutdown_from_anywhere` is attainable: a concrete position and a concrete
    number of stops -/
example : (runStops (run { retry := Retry.create 30 120, behaviours := [.silent] }
      [[.enable], [], [.request 1, .request 2]]).1
    (run { retry := Retry.create 30 120, behaviours := [.silent] }
      [[.enable], [], [.request 1, .request 2]]).2
    ([.shutdown] :: List.replicate 2 [])).2 = .done := by decide

/-- **the task's last act**: when it terminates, every request still queued is completed with
    `shutdown` (the `Promise` is dropped) — nothing else is logged —, the queue is emptied and the
    task is gone. -/
theorem finished_flushes (s : S) (fuel : Nat) :
    advance (fuel + 1) .finished s = ({ flush s with queue := [], alive := false }, .done) ∧
    (flush s).log = s.log ++ shutdownEvents s.queue ∧
    (∀ id, completed id (flush s).log = completed id s.log + queued id s.queue) :=
  ⟨by simp [advance_succ, step, Res.fin], flush_log s, fun id => flush_completed id s⟩

/-- what the handles of the ended task log for a list of actions (`h`: a handle is left):
    a request is submitted and completed with `shutdown` at once, every other call is refused
    with `shutdown`, dropping the handles ends it -/
def afterEvents : Bool → List Action → List Ev
  | false, _ => []
  | true, [] => []
  | true, .request id :: r => .act (.request id) :: .done id "shutdown" :: afterEvents true r
  | true, .dropAll :: _ => [.act .dropAll]
  | true, .enable :: r => .refused .enable :: afterEvents true r
  | true, .disable :: r => .refused .disable :: afterEvents true r
  | true, .shutdown :: r => .refused .shutdown :: afterEvents true r
  | true, .setDecode l :: r => .refused (.setDecode l) :: afterEvents true r

theorem foldl_applyDone_eq (acts : List Action) (s : S) :
    acts.foldl applyDone s =
      { s with log := s.log ++ afterEvents s.handles acts,
               handles := s.handles && !acts.contains .dropAll } := by
  induction acts generalizing s with
  | nil => cases hh : s.handles <;> simp [afterEvents, hh] <;> (cases s; simp_all)
  | cons a acts ih =>
    simp only [List.foldl_cons]
    rw [ih]
    cases hh : s.handles
    · simp [applyDone, hh, afterEvents]
    · cases a <;> simp [applyDone, hh, afterEvents, S.emit, List.append_assoc]

theorem runStops_done_eq (script : List (List Action)) (s : S) :
    runStops s .done script = (script.flatten.foldl applyDone s, .done) := by
  induction script generalizing s with
  | nil => rfl
  | cons acts rest ih =>
    rw [runStops_cons]
    simp only [stop, List.flatten_cons, List.foldl_append]
    exact ih _

/-- **Shutdown is final** (this used to say `runStops s .done script = (s, .done)`, which was true
    only because the model did not apply actions after the end of the task; it does now).  Once
    the task has ended, whatever script the handles perform — any number of stops, any actions —
    the task stays ended and the ONLY thing that happens is what `afterEvents` lists: every
    request submitted (while a handle is left) is logged and completed with `shutdown` at once,
    every other call (enable, disable, shutdown, set_decode_level) is refused with `shutdown`,
    dropping the handles is logged.  Nothing else of the state changes: in particular the queue
    stays empty (nothing is ever queued again) and nothing is announced. -/
theorem done_is_final (s : S) (script : List (List Action)) :
    runStops s .done script =
      ({ s with log := s.log ++ afterEvents s.handles script.flatten,
                handles := s.handles && !script.flatten.contains .dropAll }, .done) := by
  rw [runStops_done_eq, foldl_applyDone_eq]

/-- what `afterEvents` consists of: no state announcement, no idle period, no connection event;
    every completion is `shutdown` (`Spec.LifeObs.quiet`) -/
theorem afterEvents_quiet (h : Bool) (acts : List Action) :
    ∀ e ∈ afterEvents h acts, Spec.LifeObs.quiet e = true := by
  induction acts with
  | nil => cases h <;> simp [afterEvents]
  | cons a acts ih =>
    cases h
    · simp [afterEvents]
    · cases a <;> simp [afterEvents, Spec.LifeObs.quiet] <;> exact ih

/-- … every completion in it answers a request submitted in it, exactly once: per request id,
    completions = submissions -/
theorem afterEvents_exactly_once (h : Bool) (acts : List Action) (id : Nat) :
    completed id (afterEvents h acts) = submitted id (afterEvents h acts) := by
  induction acts with
  | nil => cases h <;> simp [afterEvents, completed, submitted]
  | cons a acts ih =>
    cases h
    · simp [afterEvents, completed, submitted]
    · cases a <;>
        simp only [afterEvents, completed, submitted, isDone, List.countP_cons, List.count_cons,
          List.countP_nil, List.count_nil] at ih ⊢ <;> simp_all <;> omega

/-- … and while a handle is left every request of the script IS submitted (hence, by
    `afterEvents_exactly_once` and `afterEvents_quiet`, completed with `shutdown` exactly once) -/
theorem afterEvents_submitted (acts : List Action) (hx : Action.dropAll ∉ acts) (id : Nat) :
    submitted id (afterEvents true acts) = acts.count (.request id) := by
  induction acts with
  | nil => simp [afterEvents, submitted]
  | cons a acts ih =>
    have hx' : Action.dropAll ∉ acts := fun h => hx (List.mem_cons_of_mem _ h)
    have ih := ih hx'
    cases a <;>
      simp only [afterEvents, submitted, List.count_cons, List.count_nil] at ih ⊢ <;>
      simp_all

/-- **after `Shutdown` every handle reports shutdown**: from every position reachable by a run,
    a shutdown (or the loss of every handle) followed by enough empty stops ends the task
    (`shutdown_from_anywhere`); whatever the handles do afterwards (`script`), the task stays
    ended, no state is announced any more (the announced states are those of the moment the task
    ended, `Shutdown` last), and the log grows by exactly `afterEvents`: requests complete with
    `shutdown`, exactly once each; every other call is refused with `shutdown`. -/
theorem after_shutdown_handles_report_shutdown (s : S) (pos : Pos) (hr : Reachable s pos)
    (a : Action) (ha : a = .shutdown ∨ a = .dropAll) (n : Nat) (hn : termBound s ≤ n)
    (script : List (List Action)) :
    let e := runStops s pos ([a] :: List.replicate n [])
    let r := runStops s pos (([a] :: List.replicate n []) ++ script)
    e.2 = .done ∧ r.2 = .done ∧
    r.1.log = e.1.log ++ afterEvents e.1.handles script.flatten ∧
    states r.1.log = states e.1.log ∧ (states r.1.log).getLast? = some .shutdown ∧
    r.1.alive = false ∧ r.1.queue = [] ∧
    (∀ id, submitted id r.1.log = completed id r.1.log) := by
  intro e r
  have he := shutdown_from_anywhere s pos hr a ha n hn
  have hr' : r = runStops e.1 e.2 script := runStops_append s pos _ script
  have hdone : e.2 = .done := he.1
  rw [hdone, done_is_final] at hr'
  have hst : states r.1.log = states e.1.log := by
    rw [hr']
    simp only [states_append]
    have : states (afterEvents e.1.handles script.flatten) = [] := by
      have hq := afterEvents_quiet e.1.handles script.flatten
      generalize afterEvents e.1.handles script.flatten = l at hq
      induction l with
      | nil => rfl
      | cons x l ih =>
        have hx := hq x (by simp)
        have := ih (fun e he => hq e (List.mem_cons_of_mem _ he))
        cases x <;> simp_all [states, Spec.LifeObs.quiet]
    rw [this, List.append_nil]
  refine ⟨hdone, by rw [hr'], by rw [hr'], hst, by rw [hst]; exact he.2.2.2.2.1,
    by rw [hr']; exact he.2.1, by rw [hr']; exact he.2.2.1, ?_⟩
  intro id
  have h1 : submitted id e.1.log = completed id e.1.log := he.2.2.2.2.2.2 id
  rw [hr']
  simp only [submitted_append, completed_append, afterEvents_exactly_once]
  omega

/-- **conservation**: at every position of every run, for every request id:
    submitted (through a live handle) = completed + still queued. -/
theorem conservation (s0 : S) (h0 : Initial s0) (script : List (List Action)) (id : Nat) :
    submitted id (run s0 script).1.log =
      completed id (run s0 script).1.log + queued id (run s0 script).1.queue :=
  Reachable.runAcc (pos := (run s0 script).2) ⟨s0, script, h0, rfl⟩ id

/-- **exactly once** at the task level: a request id that occurs at most once in the script is
    never both completed and still queued, nor completed twice. -/
theorem exactly_once (s0 : S) (h0 : Initial s0) (script : List (List Action)) (id : Nat)
    (hid : script.flatten.count (.request id) ≤ 1) :
    completed id (run s0 script).1.log + queued id (run s0 script).1.queue ≤ 1 := by
  have h1 := conservation s0 h0 script id
  have h2 := runStops_submitted id script (start s0).1 (start s0).2
  have h3 : submitted id (start s0).1.log = 0 := by
    obtain ⟨_, _, _, h4, _⟩ := h0
    simp [start, h4, submitted]
  unfold run at h1 ⊢
  omega

/-! ## 6b. every resolution of the `select!` races

  `Initial s0` says nothing about `s0.coins`: every theorem above that quantifies over initial
  states (`legal_path`, `conservation`, `exactly_once`, `connecting_only_enabled_run`, …) or over
  reachable positions (`shutdown_from_anywhere`, `no_attempt_while_disabled`, …) holds for EVERY
  list of scheduler coins, i.e. for every way the races between the peer's EOF / garbage and the
  command queue can resolve.  Spelled out: -/

theorem initial_coins (s0 : S) (h0 : Initial s0) (coins : List Bool) :
    Initial { s0 with coins := coins } := h0

theorem legal_path_every_resolution (s0 : S) (h0 : Initial s0) (coins : List Bool)
    (script : List (List Action)) :
    legalLog (run { s0 with coins := coins } script).1.log = true :=
  legal_path _ (initial_coins s0 h0 coins) script

theorem conservation_every_resolution (s0 : S) (h0 : Initial s0) (coins : List Bool)
    (script : List (List Action)) (id : Nat) :
    submitted id (run { s0 with coins := coins } script).1.log =
      completed id (run { s0 with coins := coins } script).1.log +
        queued id (run { s0 with coins := coins } script).1.queue :=
  conservation _ (initial_coins s0 h0 coins) script id

theorem exactly_once_every_resolution (s0 : S) (h0 : Initial s0) (coins : List Bool)
    (script : List (List Action)) (id : Nat) (hid : script.flatten.count (.request id) ≤ 1) :
    completed id (run { s0 with coins := coins } script).1.log +
      queued id (run { s0 with coins := coins } script).1.queue ≤ 1 :=
  exactly_once _ (initial_coins s0 h0 coins) script id hid

theorem shutdown_from_anywhere_every_resolution (s0 : S) (h0 : Initial s0) (coins : List Bool)
    (script : List (List Action)) (a : Action) (ha : a = .shutdown ∨ a = .dropAll) (n : Nat)
    (hn : termBound (run { s0 with coins := coins } script).1 ≤ n) :
    (runStops (run { s0 with coins := coins } script).1 (run { s0 with coins := coins } script).2
      ([a] :: List.replicate n [])).2 = .done :=
  (shutdown_from_anywhere _ _ ⟨_, script, initial_coins s0 h0 coins, rfl⟩ a ha n hn).1

/-- the race is real in the model: the same script, two coin lists, two different paths (harness
    case `life r30.120 m0 t100 close/serve E,-,D,-,-`): the peer's EOF first —
    `WaitAfterDisconnect`, then the queued `Disable` —, or the `Disable` first -/
example :
    states (run { retry := Retry.create 30 120, behaviours := [.close, .serve], coins := [true] }
      [[.enable], [], [.disable], [], []]).1.log =
      [.disabled, .connecting, .connected, .waitDisc 30, .disabled] ∧
    states (run { retry := Retry.create 30 120, behaviours := [.close, .serve], coins := [false] }
      [[.enable], [], [.disable], [], []]).1.log =
      [.disabled, .connecting, .connected, .disabled] := by decide

/-! ## 7. C14 at the task level -/

/-- **announced_delays_follow_strategy** (general form): the first `fs.length` attempts fail —
    each one either a refused connect or (TLS) a connect that succeeds followed by a failed
    handshake, in any order — and then the peer behaves as `b`, an attempt that succeeds; the
    user enables the channel and does nothing else.  Then the listener sees `Disabled`, then
    `Connecting, WaitAfterFailedConnect (min (mn·2^i) mx)` for `i = 0..k-1`, then
    `Connecting, Connected`: a TCP connect that succeeds does NOT restart the sequence, only a
    fully established connection does; and after `Connected` the strategy is back in its initial
    state, so the next failure sequence restarts at `min mn mx` (`restart_after_success`).
    `mx ≤ DURATION_MAX`: the cap is a representable `Duration`. -/
theorem announced_delays_follow_strategy_failures (mn mx : Nat) (hmx : mx ≤ Retry.DURATION_MAX)
    (fs : List Behaviour) (hfs : ∀ x ∈ fs, x.fails = true) (b : Behaviour) (hb : b.fails = false)
    (s0 : S) (h0 : Initial s0) (hr : s0.retry = Retry.create mn mx)
    (hbs : s0.behaviours = fs ++ [b]) :
    states (run s0 ([.enable] :: List.replicate (2 * fs.length + 2) [])).1.log =
      .disabled ::
        ((List.range fs.length).flatMap
          fun i => [.connecting, .waitFail (Nat.min (mn * 2 ^ i) mx)]) ++
        [.connecting, .connected] ∧
    (run s0 ([.enable] :: List.replicate (2 * fs.length + 2) [])).1.retry =
      Retry.create mn mx := by
  obtain ⟨he, hq, hh, hl, _, _, _, hu⟩ := h0
  generalize hk : fs.length = k
  have h2 : 2 * k + 2 = (2 * k + 1) + 1 := by omega
  have hsplit : List.replicate (2 * k + 2) ([] : List Action) =
      List.replicate (2 * k + 1) [] ++ [[]] := by
    rw [h2, List.replicate_succ']
  unfold run
  rw [runStops_cons, hsplit, runStops_append]
  -- the first stop: `Disabled` is seen, the channel is enabled, the task enters the loop
  have h1 : stop (start s0).1 (start s0).2 [.enable] =
      advance 9 .waitEnabled
        { s0 with log := [.gate .disabled, .act .enable], enabled := true } := by
    simp [start, stop, applyAction, hh, hq, hl, fuelFor, advance_succ, step, he, Res.fin, S.emit,
      report_of_false s0 hu]
  rw [h1]
  have hloop := reconnect_loop_fails b hb fs
    { s0 with log := [.gate .disabled, .act .enable], enabled := true } 8 rfl hq hh hu hfs hbs
  rw [hk] at hloop
  simp only [Nat.reduceAdd] at hloop
  obtain ⟨hp, hs, hret⟩ := hloop
  generalize runStops
    (advance 9 Phase.waitEnabled
      { s0 with log := [.gate .disabled, .act .enable], enabled := true }).1
    (advance 9 Phase.waitEnabled
      { s0 with log := [.gate .disabled, .act .enable], enabled := true }).2
    (List.replicate (2 * k + 1) []) = r at hp hs hret
  obtain ⟨s', pos'⟩ := r
  simp only [] at hp hs hret
  subst hp
  simp only [runStops, stop, List.foldl_nil, fuelFor_succ]
  constructor
  · rw [advance_states]
    simp only [emit_log, states_append, states_gate, report_states, hs, hr]
    rw [C14.kth_delay_created mn mx hmx k, failEvents, List.flatMap_map]
    simp [states]
  · rw [advance_sessionStart_retry]
    simp only [emit_retry, report_retry, hret, hr]
    have := retryAfter_min_max k (Retry.create mn mx)
    simp only [Retry.reset, this.1, this.2]
    rfl

/-- **announced_delays_follow_strategy**: the peer refuses `k` times and then behaves as `b`, an
    attempt that does not fail (`b ≠ refuse`, and — the behaviour type has grown — `b ≠ hsfail`);
    the user enables the channel and does nothing else.  Then the listener sees `Disabled`, then
    `Connecting, WaitAfterFailedConnect (min (mn·2^i) mx)` for `i = 0..k-1`, then
    `Connecting, Connected`; and after `Connected` the strategy is back in its initial state, so
    the next failure sequence restarts at `min mn mx` (`restart_after_success`).
    `mx ≤ DURATION_MAX`: the cap is a representable `Duration`. -/
theorem announced_delays_follow_strategy (mn mx : Nat) (hmx : mx ≤ Retry.DURATION_MAX)
    (k : Nat) (b : Behaviour) (hb : b ≠ .refuse) (hb' : b ≠ .hsfail) (s0 : S) (h0 : Initial s0)
    (hr : s0.retry = Retry.create mn mx)
    (hbs : s0.behaviours = List.replicate k .refuse ++ [b]) :
    states (run s0 ([.enable] :: List.replicate (2 * k + 2) [])).1.log =
      .disabled ::
        ((List.range k).flatMap fun i => [.connecting, .waitFail (Nat.min (mn * 2 ^ i) mx)]) ++
        [.connecting, .connected] ∧
    (run s0 ([.enable] :: List.replicate (2 * k + 2) [])).1.retry = Retry.create mn mx := by
  have hbf : b.fails = false := by cases b <;> simp_all
  have := announced_delays_follow_strategy_failures mn mx hmx (List.replicate k .refuse)
    (fun x hx => by rw [List.eq_of_mem_replicate hx]; rfl) b hbf s0 h0 hr hbs
  simpa using this

/-- **announced_delays_follow_strategy (TLS)**: the TCP connect succeeds `k` times in a row but
    the handshake fails each time, then an attempt succeeds: the announced delays double exactly
    as for refused connects — a reachable host whose handshake keeps failing is backed off from. -/
theorem announced_delays_follow_strategy_tls (mn mx : Nat) (hmx : mx ≤ Retry.DURATION_MAX)
    (k : Nat) (b : Behaviour) (hb : b.fails = false) (s0 : S) (h0 : Initial s0)
    (hr : s0.retry = Retry.create mn mx)
    (hbs : s0.behaviours = List.replicate k .hsfail ++ [b]) :
    states (run s0 ([.enable] :: List.replicate (2 * k + 2) [])).1.log =
      .disabled ::
        ((List.range k).flatMap fun i => [.connecting, .waitFail (Nat.min (mn * 2 ^ i) mx)]) ++
        [.connecting, .connected] ∧
    (run s0 ([.enable] :: List.replicate (2 * k + 2) [])).1.retry = Retry.create mn mx := by
  have := announced_delays_follow_strategy_failures mn mx hmx (List.replicate k .hsfail)
    (fun x hx => by rw [List.eq_of_mem_replicate hx]; rfl) b hb s0 h0 hr hbs
  simpa using this

/-- **reset on success**: from the announcement of `Connected` on, whatever happens in the
    session, the strategy is in its reset state when the task blocks next. -/
theorem retry_reset_on_connect (s : S) (b : Behaviour) (acts : List Action) :
    (stop s (.gate .connected (.sessionStart b)) acts).1.retry = Retry.reset s.retry := by
  have hf := foldl_applyAction_frame acts (s.report.emit (.gate .connected))
  simp only [stop, fuelFor_succ]
  generalize acts.foldl applyAction (s.report.emit (.gate .connected)) = s2 at hf
  rw [advance_sessionStart_retry, hf.2.2.2.1]
  simp

/-- **restart_after_success**: from a reset strategy the next `j` consecutive failed connects wait
    `min·2^i` capped at `max`, `i = 0..j-1`, again — whatever the state was before the reset. -/
theorem restart_after_success (d : Retry.Doubling) (hmax : d.max ≤ Retry.DURATION_MAX) (j : Nat) :
    Retry.failures (Retry.reset d) j =
      (List.range j).map (fun i => Nat.min (d.min * 2 ^ i) d.max) :=
  C14.kth_delay_after_reset d hmax j

/-- **after a lost connection the wait is `min`**: the delay announced in `WaitAfterDisconnect`
    by `wait_after_lost_connection` / `silent_session_ends_after_maxto` is the strategy's `min`,
    whatever failures came before. -/
theorem lost_connection_delay_is_min (r : Retry.Doubling) (k : Nat) :
    Retry.afterDisconnect (Retry.reset (retryAfter r k)) = r.min := by
  simp [Retry.afterDisconnect, Retry.reset, (retryAfter_min_max k r).1]

/-- **wait_is_waited** (what the model can say; real time is abstracted).  The phase after the
    announcement of a wait state is `failFor`.  From there, with the channel enabled:
    * if only requests / redundant enables are queued and a handle is alive, the timer branch is
      taken: the requests fail with noconn and the next gate is `Connecting`;
    * `Connecting` is reached **only** that way: if the call ends at the `Connecting` gate then
      no `Disable` / `Shutdown` was queued and a handle was alive;
    * in every case the call ends at `Connecting`, `Disabled` or `Shutdown` — no other state is
      announced between a wait state and the next `Connecting`.
    That the announced delay is the one handed to the timer is a fact about the code, not the
    model: `handle_failed_connection` (tcp/client.rs:192-205) and `run_connection` (:180-186) pass
    the same local `delay` to `listener.update(..)` and `fail_requests_for(..)`. -/
theorem wait_is_waited (s : S) (he : s.enabled = true) (fuel : Nat)
    (hf : s.queue.length + 2 ≤ fuel) :
    ((∀ c ∈ s.queue, benign c = true) → s.handles = true →
      (advance fuel .failFor s).2 = .gate .connecting .connect ∧
      (advance fuel .failFor s).1.queue = [] ∧
      (advance fuel .failFor s).1.log = s.log ++ noconnEvents s.queue) ∧
    ((advance fuel .failFor s).2 = .gate .connecting .connect →
      (∀ c ∈ s.queue, benign c = true) ∧ s.handles = true) ∧
    ((advance fuel .failFor s).2 = .gate .connecting .connect ∨
     (advance fuel .failFor s).2 = .gate .disabled .waitEnabled ∨
     (advance fuel .failFor s).2 = .gate .shutdown .finished) := by
  -- the outcome, by cases on the queue
  have hben : (∀ c ∈ s.queue, benign c = true) →
      (s.handles = true → (advance fuel .failFor s).2 = .gate .connecting .connect ∧
        (advance fuel .failFor s).1.queue = [] ∧
        (advance fuel .failFor s).1.log = s.log ++ noconnEvents s.queue) ∧
      (s.handles = false → (advance fuel .failFor s).2 = .gate .shutdown .finished) := by
    intro hb
    obtain ⟨k, rfl⟩ : ∃ k, fuel = s.queue.length + (k + 2) :=
      ⟨fuel - s.queue.length - 2, by omega⟩
    rw [advance_benign .failFor (Or.inr rfl) s.queue [] s (k + 2) hb (by simp)]
    constructor
    · intro hh
      simp [advance_succ, step, hh, he, Res.fin]
    · intro hh
      simp [advance_succ, step, hh, Res.fin]
  have hsplit : ∀ pre c rest, s.queue = pre ++ c :: rest → (∀ x ∈ pre, benign x = true) →
      (c = .disable ∨ c = .shutdown) →
      (advance fuel .failFor s).2 = .gate .disabled .waitEnabled ∨
      (advance fuel .failFor s).2 = .gate .shutdown .finished := by
    intro pre c rest hq hpre hc
    have hl : pre.length + 2 ≤ fuel := by rw [hq] at hf; simp at hf; omega
    rcases hc with rfl | rfl
    · left
      rw [disable_after_requests .failFor (Or.inr rfl) s pre rest hpre hq fuel hl]
    · right
      obtain ⟨k, rfl⟩ : ∃ k, fuel = pre.length + (k + 1) := ⟨fuel - pre.length - 1, by omega⟩
      rw [advance_benign .failFor (Or.inr rfl) pre (.shutdown :: rest) s (k + 1) hpre hq]
      simp [advance_succ, step, Res.fin]
  refine ⟨fun hb hh => (hben hb).1 hh, ?_, ?_⟩
  · intro hc
    rcases benign_split s.queue with hb | ⟨pre, c, rest, hq, hpre, hcc⟩
    · refine ⟨hb, ?_⟩
      cases hh : s.handles with
      | true => rfl
      | false => have := (hben hb).2 hh; rw [hc] at this; simp at this
    · rcases hsplit pre c rest hq hpre hcc with h | h <;> rw [hc] at h <;> simp at h
  · rcases benign_split s.queue with hb | ⟨pre, c, rest, hq, hpre, hcc⟩
    · cases hh : s.handles with
      | true => exact Or.inl ((hben hb).1 hh).1
      | false => exact Or.inr (Or.inr ((hben hb).2 hh))
    · exact Or.inr (hsplit pre c rest hq hpre hcc)

/-- at the callback of a wait state, with the peer's observation of the close pending: `closed`
    is logged in front of the state, and as soon as the callback returns the queued requests fail
    fast (`noconn`, in order) and `Connecting` is announced -/
theorem queued_fail_fast_at_wait_gate (s1 : S) (st : St) (ids : List Nat)
    (hq : s1.queue = ids.map Cmd.request) (he : s1.enabled = true) (hh : s1.handles = true)
    (hu : s1.unreported = true) :
    (stop s1 (.gate st .failFor) []).2 = .gate .connecting .connect ∧
    (stop s1 (.gate st .failFor) []).1.log =
      s1.log ++ [.closed, .gate st] ++ ids.map (fun i => Ev.done i "noconn") ∧
    (stop s1 (.gate st .failFor) []).1.queue = [] := by
  simp only [stop, List.foldl_nil]
  have hlog : (s1.report.emit (.gate st)).log = s1.log ++ [.closed, .gate st] := by
    simp [S.report, S.emit, hu]
  have hw := (wait_is_waited (s1.report.emit (.gate st)) (by simpa using he)
    (fuelFor (s1.report.emit (.gate st))) (by unfold fuelFor; omega)).1
    (by
      simp only [emit_queue, report_queue, hq]
      intro c hc; obtain ⟨i, _, rfl⟩ := List.mem_map.1 hc; rfl)
    (by simpa using hh)
  refine ⟨hw.1, ?_, hw.2.1⟩
  rw [hw.2.2, hlog]
  simp [hq, noconnEvents_requests]

/-- **wait_after_failure (connection lost in the middle of a session, requests queued)**: the
    channel is enabled, a handle is alive, the peer has answered its `k` requests and the queue
    holds requests `id :: ids` only.  Then:
    * `id` is in flight when the connection is lost: it fails with the transport error `io.eof`;
    * the connection is dropped and `WaitAfterDisconnect` is announced with the MINIMUM delay
      (`after_disconnect()`), the requests `ids` still queued;
    * at that callback the peer's observation `closed` is logged in front of the state, and as
      soon as the callback returns the queued requests fail fast — `noconn`, in order, none of
      them waits for the next connection — and the task announces `Connecting`. -/
theorem wait_after_lost_connection_mid_session (k : Nat) (s : S) (id : Nat) (ids : List Nat)
    (hq : s.queue = .request id :: ids.map Cmd.request) (hk : k ≤ s.served)
    (he : s.enabled = true) (hh : s.handles = true) (fuel : Nat) :
    (advance (fuel + 1) (.session (.serveN k true)) s).2 =
      .gate (.waitDisc s.retry.min) .failFor ∧
    (advance (fuel + 1) (.session (.serveN k true)) s).1.log = s.log ++ [.done id "io.eof"] ∧
    (advance (fuel + 1) (.session (.serveN k true)) s).1.conn = false ∧
    (advance (fuel + 1) (.session (.serveN k true)) s).1.queue = ids.map Cmd.request ∧
    (stop (advance (fuel + 1) (.session (.serveN k true)) s).1
        (.gate (.waitDisc s.retry.min) .failFor) []).2 = .gate .connecting .connect ∧
    (stop (advance (fuel + 1) (.session (.serveN k true)) s).1
        (.gate (.waitDisc s.retry.min) .failFor) []).1.log =
      s.log ++ [.done id "io.eof", .closed, .gate (.waitDisc s.retry.min)] ++
        ids.map (fun i => Ev.done i "noconn") ∧
    (stop (advance (fuel + 1) (.session (.serveN k true)) s).1
        (.gate (.waitDisc s.retry.min) .failFor) []).1.queue = [] := by
  have hr := wait_after_lost_connection_in_flight k s id _ hq hk fuel
  generalize advance (fuel + 1) (.session (.serveN k true)) s = r at hr ⊢
  have h2 : r.2 = .gate (.waitDisc s.retry.min) .failFor := by rw [hr]; rfl
  have hlogr : r.1.log = s.log ++ [.done id "io.eof"] := by rw [hr]
  have hq' : r.1.queue = ids.map Cmd.request := by rw [hr]
  have hc : r.1.conn = false := by rw [hr]
  have he' : r.1.enabled = true := by rw [hr]; exact he
  have hh' : r.1.handles = true := by rw [hr]; exact hh
  have hu' : r.1.unreported = true := by rw [hr]
  have h := queued_fail_fast_at_wait_gate r.1 (.waitDisc s.retry.min) ids hq' he' hh' hu'
  refine ⟨h2, hlogr, hc, hq', h.1, ?_, h.2.2⟩
  rw [h.2.1, hlogr]
  simp

/-! ## 8. `set_decode_level` changes the decode level and nothing else -/

/-- **decode_changes_only_decode**: in every phase in which the task reads its command queue
    (`wait_for_enabled` while disabled, `connect`, `fail_requests_for`, a session with a serving
    or silent peer), a `DecodeLevel` setting at the head of the queue is consumed, the decode
    level is set, and the task carries on IN THE SAME PHASE exactly as if the command had not
    been there: nothing is announced, nothing is logged, the enabled flag is untouched. -/
theorem decode_changes_only_decode (ph : Phase)
    (hph : ph = .waitEnabled ∨ ph = .connect ∨ ph = .failFor ∨ ph = .session .serve ∨
      ph = .session .silent)
    (s : S) (l : Nat) (q : List Cmd) (hq : s.queue = .decode l :: q)
    (he : ph = .waitEnabled → s.enabled = false) (fuel : Nat) :
    advance (fuel + 1) ph s = advance fuel ph { s with queue := q, decode := l } := by
  rcases hph with rfl | rfl | rfl | rfl | rfl
  · simp [advance_succ, step, hq, he rfl, Res.fin]
  all_goals simp [advance_succ, step, hq, Res.fin]

/-- a stop of `set_decode_level` calls only: what the environment does to the state -/
theorem foldl_setDecode (lvls : List Nat) (s : S) (hh : s.handles = true) :
    (lvls.map Action.setDecode).foldl applyAction s =
      { s with queue := s.queue ++ lvls.map Cmd.decode,
               log := s.log ++ lvls.map (fun l => Ev.act (.setDecode l)) } := by
  induction lvls generalizing s with
  | nil => simp
  | cons l lvls ih =>
    simp only [List.map_cons, List.foldl_cons]
    have h1 : applyAction s (.setDecode l) =
        { s with queue := s.queue ++ [.decode l], log := s.log ++ [.act (.setDecode l)] } := by
      simp [applyAction, hh, S.emit]
    have h2 := ih { s with queue := s.queue ++ [.decode l],
                           log := s.log ++ [.act (.setDecode l)] } hh
    rw [h1, h2]
    simp [List.append_assoc]

/-- **decode_level_never_dials**: the channel is disabled and the task is blocked at the
    `Disabled` gate or idle in `wait_for_enabled`, with nothing but requests, redundant disables
    and decode-level changes queued.  Then any number of `set_decode_level` calls leaves it idle
    in `wait_for_enabled`: still disabled, no `Connecting` (nothing at all) is announced, the
    queue is drained, and the decode level is the last one set. -/
theorem decode_level_never_dials (s : S) (pos : Pos)
    (hpos : pos = .idle .waitEnabled ∨ pos = .gate .disabled .waitEnabled)
    (he : s.enabled = false) (hh : s.handles = true) (hq : ∀ c ∈ s.queue, inert c = true)
    (lvls : List Nat) :
    (stop s pos (lvls.map .setDecode)).2 = .idle .waitEnabled ∧
    (stop s pos (lvls.map .setDecode)).1.enabled = false ∧
    (stop s pos (lvls.map .setDecode)).1.queue = [] ∧
    (stop s pos (lvls.map .setDecode)).1.decode =
      decodeAfter s.decode (s.queue ++ lvls.map Cmd.decode) ∧
    states (stop s pos (lvls.map .setDecode)).1.log =
      states s.log ++ (if pos = .idle .waitEnabled then [] else [.disabled]) := by
  have key : ∀ (s1 : S), s1.enabled = false → s1.handles = true → s1.queue = s.queue →
      s1.decode = s.decode →
      (advance (fuelFor ((lvls.map Action.setDecode).foldl applyAction s1)) .waitEnabled
        ((lvls.map Action.setDecode).foldl applyAction s1)).2 = .idle .waitEnabled ∧
      (advance (fuelFor ((lvls.map Action.setDecode).foldl applyAction s1)) .waitEnabled
        ((lvls.map Action.setDecode).foldl applyAction s1)).1.enabled = false ∧
      (advance (fuelFor ((lvls.map Action.setDecode).foldl applyAction s1)) .waitEnabled
        ((lvls.map Action.setDecode).foldl applyAction s1)).1.queue = [] ∧
      (advance (fuelFor ((lvls.map Action.setDecode).foldl applyAction s1)) .waitEnabled
        ((lvls.map Action.setDecode).foldl applyAction s1)).1.decode =
          decodeAfter s.decode (s.queue ++ lvls.map Cmd.decode) ∧
      states (advance (fuelFor ((lvls.map Action.setDecode).foldl applyAction s1)) .waitEnabled
        ((lvls.map Action.setDecode).foldl applyAction s1)).1.log = states s1.log := by
    intro s1 he1 hh1 hq1 hd1
    rw [foldl_setDecode lvls s1 hh1]
    generalize hX : ({ s1 with queue := s1.queue ++ lvls.map Cmd.decode,
                               log := s1.log ++ lvls.map (fun l => Ev.act (.setDecode l)) } : S) = X
    have hXq : X.queue = s.queue ++ lvls.map Cmd.decode := by rw [← hX, ← hq1]
    have hXe : X.enabled = false := by rw [← hX]; exact he1
    have hXh : X.handles = true := by rw [← hX]; exact hh1
    have hXd : X.decode = s.decode := by rw [← hX]; exact hd1
    have hXl : states X.log = states s1.log := by
      rw [← hX]
      simp only [states_append]
      have : states (lvls.map (fun l => Ev.act (.setDecode l))) = [] := by
        induction lvls with
        | nil => rfl
        | cons l lvls ih => simpa [states] using ih
      rw [this, List.append_nil]
    have hin : ∀ c ∈ X.queue, inert c = true := by
      intro c hc
      rw [hXq] at hc
      rcases List.mem_append.1 hc with h | h
      · exact hq c h
      · obtain ⟨l, _, rfl⟩ := List.mem_map.1 h
        rfl
    have hfuel : fuelFor X = X.queue.length + (X.queue.length + 7 + 1) := by
      simp only [fuelFor]; omega
    rw [hfuel, advance_inert X.queue [] X (X.queue.length + 7 + 1) hin hXe (by simp), advance_succ]
    simp only [step, hXe, hXh, Res.fin, Bool.false_eq_true, ↓reduceIte, hXd, hXq]
    refine ⟨trivial, trivial, trivial, trivial, ?_⟩
    rw [← hXl]
    have : states (noconnEvents (s.queue ++ lvls.map Cmd.decode)) = [] := by
      generalize s.queue ++ lvls.map Cmd.decode = q
      induction q with
      | nil => rfl
      | cons c q ih => cases c <;> simpa [states] using ih
    simp [this]
  rcases hpos with rfl | rfl
  · simp only [stop, ↓reduceIte, List.append_nil]
    have := key (s.emit .idle) he hh rfl rfl
    simpa using this
  · simp only [stop]
    have := key (s.report.emit (.gate .disabled)) (by simpa using he) (by simpa using hh)
      (by simp) (by simp)
    simpa using this

/-! ## non-vacuity and the two reference scenarios -/

/-- an `Initial` state exists, for every strategy / behaviours / limit -/
example (r : Retry.Doubling) (bs : List Behaviour) (m : Nat) :
    Initial { retry := r, behaviours := bs, maxto := m } :=
  ⟨rfl, rfl, rfl, rfl, rfl, rfl, rfl, rfl⟩

/-- the fuel side conditions are satisfiable: `stop` always supplies enough -/
example (s : S) : s.queue.length + 2 ≤ fuelFor s ∧ fuelFor s ≥ 2 * s.queue.length + 8 := by
  unfold fuelFor; omega

/-- scenario 1 (harness: `g:Disabled;a:E;g:Connecting;g:Connected;idle;a:R1;done:R1:ok.4660;idle;
    a:D;closed;g:Disabled;idle;a:E;g:Connecting;g:Connected`): enable, one served request, disable,
    enable again, against a serving peer; the driver appends two empty stops. -/
example :
    (run { retry := Retry.create 30 120, behaviours := [.serve] }
      ([[.enable], [], [], [.request 1], [.disable], [], [.enable]] ++ [[], []])).1.log =
    [.gate .disabled, .act .enable, .gate .connecting, .gate .connected, .idle,
     .act (.request 1), .done 1 "ok.4660", .idle, .act .disable, .closed, .gate .disabled, .idle,
     .act .enable, .gate .connecting, .gate .connected] := by decide

/-- scenario 2 (harness: `g:Disabled;a:E;g:Connecting;g:WaitFail(30);g:Connecting;a:R1;
    done:R1:noconn;g:WaitFail(60);g:Connecting`): three refusals then a serving peer, retry
    30/120, a request submitted at the second `Connecting` gate fails with noconn. -/
example :
    (run { retry := Retry.create 30 120, behaviours := [.refuse, .refuse, .refuse, .serve] }
      ([[.enable], [], [], [.request 1]] ++ [[], []])).1.log =
    [.gate .disabled, .act .enable, .gate .connecting, .gate (.waitFail 30), .gate .connecting,
     .act (.request 1), .done 1 "noconn", .gate (.waitFail 60), .gate .connecting] := by decide

/-- both are legal paths according to the specification automaton, and an illegal one is
    rejected by it -/
example : legalLog [.gate .disabled, .gate .connecting, .gate (.waitFail 30), .gate .connecting,
    .gate .connected, .gate (.waitDisc 30), .gate .shutdown] = true := by decide
example : legalLog [.gate .disabled, .gate .connected] = false := by decide
example : legalLog [.gate .disabled, .gate .shutdown, .gate .shutdown] = false := by decide

/-- `announced_delays_follow_strategy` instantiated: 1 s / 8 s, five refusals -/
example :
    states (run { retry := Retry.create 1 8, behaviours := List.replicate 5 .refuse ++ [.close] }
      ([.enable] :: List.replicate 12 [])).1.log =
    [.disabled, .connecting, .waitFail 1, .connecting, .waitFail 2, .connecting, .waitFail 4,
     .connecting, .waitFail 8, .connecting, .waitFail 8, .connecting, .connected] := by decide

/-- `silent_session_ends_after_maxto` instantiated: limit 2, three requests: the third stays
    queued and fails with noconn after the `WaitAfterDisconnect` gate -/
example :
    (run { retry := Retry.create 30 120, behaviours := [.silent], maxto := 2 }
      [[.enable], [], [], [.request 1, .request 2, .request 3], []]).1.log =
    [.gate .disabled, .act .enable, .gate .connecting, .gate .connected, .idle,
     .act (.request 1), .act (.request 2), .act (.request 3), .done 1 "timeout", .done 2 "timeout",
     .closed, .gate (.waitDisc 30), .done 3 "noconn"] := by decide

/-- `shutdown_from_anywhere` instantiated with a dropped handle in the middle of a session:
    the queued request is still served, then the task announces `Shutdown` and ends -/
example :
    (run { retry := Retry.create 30 120, behaviours := [.serve] }
      [[.enable], [], [], [.request 1, .dropAll], []]).2 = .done ∧
    (run { retry := Retry.create 30 120, behaviours := [.serve] }
      [[.enable], [], [], [.request 1, .dropAll], []]).1.alive = false ∧
    (run { retry := Retry.create 30 120, behaviours := [.serve] }
      [[.enable], [], [], [.request 1, .dropAll], []]).1.log =
      [.gate .disabled, .act .enable, .gate .connecting, .gate .connected, .idle,
       .act (.request 1), .act .dropAll, .done 1 "ok.4660", .closed, .gate .shutdown] := by
  decide

/-- `decode_level_never_dials` / `no_attempt_while_disabled` instantiated (harness:
    `g:Disabled;a:L2;idle;a:L1;a:R1;done:R1:noconn;idle;a:E;g:Connecting;g:Connected`, stops `L2,L1+R,E`): decode
    levels set before the channel is enabled announce nothing; the channel dials only after the
    enable. -/
example :
    (run { retry := Retry.create 30 120, behaviours := [.serve] }
      [[.setDecode 2], [.setDecode 1, .request 1], [.enable], [], []]).1.log =
    [.gate .disabled, .act (.setDecode 2), .idle, .act (.setDecode 1), .act (.request 1),
     .done 1 "noconn", .idle, .act .enable, .gate .connecting, .gate .connected] ∧
    (run { retry := Retry.create 30 120, behaviours := [.serve] }
      [[.setDecode 2], [.setDecode 1, .request 1], [.enable], [], []]).1.decode = 1 := by decide

/-- … and after a disable: the decode level set while the channel is disabled again does not
    re-open the connection -/
example :
    states (run { retry := Retry.create 30 120, behaviours := [.serve] }
      [[.enable], [], [], [.disable], [.setDecode 3], [.setDecode 0], []]).1.log =
    [.disabled, .connecting, .connected, .disabled] := by decide

/-- `announced_delays_follow_strategy_failures` instantiated with a TLS peer (harness:
    `tls:hsclose/refuse/hsgarbage/close/hsclose/hsclose/serve`, 10 ms / 80 ms): handshake fails,
    connect refused, handshake fails — 10, 20, 40 —, then the handshake succeeds and the
    connection is lost (`WaitAfterDisconnect 10`), and the next failures restart at 10. -/
example :
    states (run { retry := Retry.create 10 80,
                  behaviours := [.hsfail, .refuse, .hsfail, .close, .hsfail, .hsfail, .serve] }
      ([.enable] :: List.replicate 15 [])).1.log =
    [.disabled, .connecting, .waitFail 10, .connecting, .waitFail 20, .connecting, .waitFail 40,
     .connecting, .connected, .waitDisc 10, .connecting, .waitFail 10, .connecting, .waitFail 20,
     .connecting, .connected] := by decide

end Rodbus.C13
