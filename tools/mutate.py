#!/usr/bin/env python3
"""Mutation sweep (development tool, not registered in MANIFEST.json): applies small syntactic
mutations to the files the properties are anchored in, one at a time, directly in /repo (reverted
after each), and runs the quick checks of the properties anchored in that file.  A mutant nobody
catches is then run against the existing test suite; if that passes too it is a SURVIVOR - either an
equivalent mutant or a blind spot of the checks - and is written to mutants/survivors/ for triage.
usage: tools/mutate.py [--seed N] [--per-file K] [--files substr,substr] [--max N]"""
import argparse, json, os, random, re, subprocess, sys, time
VERIF = os.path.normpath(os.path.join(os.path.dirname(os.path.abspath(__file__)), ".."))
sys.path.insert(0, os.path.join(VERIF, "tools"))
import props  # noqa: E402
REPO = "/repo"
OUT = os.path.join(VERIF, "mutants")

OPS = [
    (r" < ", " <= "), (r" <= ", " < "), (r" > ", " >= "), (r" >= ", " > "), (r" == ", " != "), (r" != ", " == "),
    (r" && ", " || "), (r" \|\| ", " && "), (r" \+ 1\b", " + 2"), (r" - 1\b", " - 2"), (r" \+ 1\b", ""), (r" - 1\b", ""),
    (r" \+ ", " - "), (r" - ", " + "), (r"\btrue\b", "false"), (r"\bfalse\b", "true"),
    (r"\.checked_add\(", ".wrapping_add("), (r"\.checked_sub\(", ".wrapping_sub("), (r"\.saturating_add\(", ".wrapping_add("),
    (r"\bmin\(", "max("), (r"\bmax\(", "min("), (r"\.min\(", ".max("), (r"\.max\(", ".min("),
    (r"\.first\(\)", ".last()"), (r"\.is_some\(\)", ".is_none()"), (r"\.is_none\(\)", ".is_some()"),
    (r"\.is_empty\(\)", ".is_empty() == false"), (r"\b0x80\b", "0x40"), (r"\b0xFF00\b", "0x00FF"),
    (r"\bif !", "if "), (r"\bcontinue;", "break;"), (r"\bbreak;", "continue;"),
    ("NUM", "NUM"),     # integer literal +1
    ("DEL", "DEL"),     # delete a call statement
]


def anchored_files():
    m = {}
    for line in open(os.path.join(VERIF, "properties.jsonl")):
        p = json.loads(line)
        for f in p["anchors"]["files"]:
            if f.endswith(".rs") and os.path.exists(os.path.join(REPO, f)) and "rodbus-schema" not in f:
                m.setdefault(f, set()).add(p["id"])
    for f in list(m):
        if f.startswith("ffi/"):
            m[f] |= {"C18"}
    return m


def candidate_lines(src):
    lines = src.split("\n")
    out = []
    in_test = False
    for i, l in enumerate(lines):
        st = l.strip()
        if st.startswith("#[cfg(test)]"):
            in_test = True
        if in_test or not st or st.startswith("//") or st.startswith("#[") or st.startswith("use ") \
                or "tracing::" in st or "assert" in st or st.startswith("///") or "write!(" in st or "=> write" in st \
                or "f.write_str" in st or "format!(" in st:
            continue
        out.append(i)
    return lines, out


def mutants_of(path, rng, k):
    src = open(path).read()
    lines, cand = candidate_lines(src)
    pool = []
    for i in cand:
        code = lines[i].split("//")[0]
        for pat, rep in OPS:
            if pat == "NUM":
                for m in re.finditer(r"(?<![\w.])(\d+)(?![\w.xX])", code):
                    if lines[i].lstrip().startswith(("const", "pub const", "pub(crate) const")) or " = " in code or "(" in code:
                        pool.append((i, m.start(), m.end(), str(int(m.group(1)) + 1), "num+1"))
            elif pat == "DEL":
                if re.fullmatch(r"\s*(self\.)?[\w.]+\([^;]*\);\s*", code) and "let " not in code and "return" not in code:
                    pool.append((i, 0, len(lines[i]), "", "delete-call"))
            else:
                for m in re.finditer(pat, code):
                    pool.append((i, m.start(), m.end(), rep, f"{pat.strip()} -> {rep.strip() or 'nothing'}"))
    rng.shuffle(pool)
    seen, res = set(), []
    for i, a, b, rep, what in pool:
        if len(res) >= k:
            break
        if (i, what) in seen:
            continue
        seen.add((i, what))
        new = lines[:]
        new[i] = lines[i][:a] + rep + lines[i][b:]
        res.append((i + 1, what, lines[i].strip(), "\n".join(new)))
    return res


def run(cmd, **kw):
    return subprocess.run(cmd, capture_output=True, text=True, **kw)


def main():
    ap = argparse.ArgumentParser()
    ap.add_argument("--seed", type=int, default=1)
    ap.add_argument("--per-file", type=int, default=4)
    ap.add_argument("--files", default="")
    ap.add_argument("--max", type=int, default=10**6)
    a = ap.parse_args()
    if run(["git", "-C", REPO, "diff", "--quiet"]).returncode != 0:
        sys.exit("refusing: /repo has uncommitted changes")
    os.makedirs(os.path.join(OUT, "survivors"), exist_ok=True)
    rng = random.Random(a.seed)
    files = anchored_files()
    res_path = os.path.join(OUT, f"results-seed{a.seed}.jsonl")
    done = 0
    for f in sorted(files):
        if a.files and not any(x in f for x in a.files.split(",")):
            continue
        path = os.path.join(REPO, f)
        orig = open(path).read()
        for line_no, what, text, mutated in mutants_of(path, rng, a.per_file):
            if done >= a.max:
                return
            done += 1
            rec = {"file": f, "line": line_no, "op": what, "text": text, "props": sorted(files[f])}
            t0 = time.time()
            try:
                open(path, "w").write(mutated)
                crate = ["-p", "rodbus-ffi"] if f.startswith("ffi/") else ["-p", "rodbus", "--features", "verif-hooks"]
                b = run(["cargo", "build", "--offline"] + crate, cwd=REPO,
                        env=dict(os.environ, CARGO_TARGET_DIR=os.path.join(VERIF, ".cache", "target-mut")))
                if b.returncode != 0:
                    rec["status"] = "does-not-compile"
                else:
                    caught = []
                    for p in sorted(files[f]):
                        o = run([sys.executable, os.path.join(VERIF, "tools", "check.py"), p, "--tier", "quick"], cwd=VERIF).stdout
                        if "VIOLATION" in o:
                            caught.append(p)
                            break
                    if caught:
                        rec["status"] = "caught"
                        rec["by"] = caught
                    else:
                        t = run(["cargo", "test", "--workspace", "--no-fail-fast", "--offline"], cwd=REPO,
                                env=dict(os.environ, CARGO_TARGET_DIR=os.path.join(VERIF, ".cache", "target-mut")))
                        rec["status"] = "killed-by-existing-tests" if t.returncode != 0 else "SURVIVOR"
                        if rec["status"] == "SURVIVOR":
                            d = run(["git", "-C", REPO, "diff"]).stdout
                            open(os.path.join(OUT, "survivors", f"s{a.seed}-{done:03d}.diff"), "w").write(d)
            finally:
                open(path, "w").write(orig)
                for g in os.listdir(os.path.join(VERIF, "replays")):
                    if g.endswith(".json"):
                        os.remove(os.path.join(VERIF, "replays", g))
            rec["secs"] = round(time.time() - t0)
            open(res_path, "a").write(json.dumps(rec) + "\n")
            print(f"{rec['status']:26s} {f}:{line_no} [{what}] {text[:70]}", flush=True)
    run(["git", "-C", REPO, "checkout", "--", "."])


if __name__ == "__main__":
    main()
