import RodbusModel.Props.C05
import RodbusModel.Props.C06
import RodbusModel.Props.C07Client
import RodbusModel.Props.C11Run
import RodbusModel.Lemmas.ClientChunk
/-
  C05 / C06 in the CLIENT role, at the level of a run of the client task: how the transport cuts a
  reply into reads does not matter.

  `rx_chunking_mbap` / `rx_chunking_rtu`: the script step `.rx (.data (a ++ b))` leads to the SAME
  STATE (all fields: log, position, queue, results, reader, transports, coins …) as the two steps
  `.rx (.data a)`, `.rx (.data b)` — the tasks run until they block after each step — when

  (H1) the task is quiet (`QuietRx u m`): alive, in a session on the newest transport `m` (the one
       `.rx` delivers to) with nothing unread, and either idle with an empty queue that still has a
       sender or waiting for the reply to the request in flight before its deadline; no completed
       future holds a clone (`u.held = 0`).  Every blocked state in a session on the newest
       transport is quiet (`quiet_of_blocked`), and every state reached by a script whose last
       step is not a clock movement is blocked (`runState_blocked_mbap` / `_rtu`);
  (H2) `a` and `b` are not empty (an empty read is the end of file);
  (H3) the split is INSIDE a reply: the delivery `a` alone leaves the reader blocked
       (`hmid`: no frame and no error is completed by `a`);
  (H4) `a ++ b` fits behind the buffered bytes (`hfit`): the reader takes each delivery with one
       `read_some`;
  (H5, MBAP only) `a` does not end exactly at the end of the 7-byte header (`hne`: bytes remain
       buffered after `a`; for RTU this always holds, `rtu_none_nonempty`).

  What fails without them (each with a concrete witness below, found by evaluation):
  * without (H3): a reply that is complete in `a` is handled when `a` arrives; the task then goes
    on (completes the request, transmits the next one) BEFORE `b` is there, whereas with the joint
    delivery `b` is already buffered and `discard_buffered_frames` drops it as stale
    (`split_after_reply_differs`: different logs — inherent in the protocol, not a defect);
  * without (H5): the logs, positions and results agree but `rb.begin` — the read index of
    `ReadBuffer`, not observable except through the capacity — differs, because `read_some`
    resets the indices of an EMPTY buffer (`split_at_header_end_differs`);
  * without (H1): bytes delivered while no session reads the newest transport stay in the
    transport's queue, as two chunks resp. one (`unread_chunks_differ`).
  No coin of the scheduler is consumed under (H1): the `select!` branches are never ready at once.
  For (H4) no witness was found (the instance tried gives equal states); it is a limitation of
  the proof: beyond it the amounts taken by the individual `read_some` calls differ and equality
  would have to be shown up to the position of the bytes (buffer vs. unread rest).
-/
namespace Rodbus.Client

deriving instance DecidableEq for State

section
variable {σ : Type}

theorem tickIdle_none_rx (F : Framing σ) (u : State σ) (m : Nat) (h : tickIdle F u m = none) :
    (getMock u m).rx = [] := by
  unfold tickIdle at h
  simp only [] at h
  generalize pollReader F u m = pr at h
  obtain ⟨r, s'⟩ := pr
  simp only [] at h
  split at h
  · split at h
    · cases h
    · split at h
      · cases h
      · rename_i hx
        simpa using hx
  · split at h
    · split at h
      · cases h
      · -- `recvReady` held and the queue was polled: `sessionRecv` of a ready queue is not `none`
        rename_i hready _
        exfalso
        have hq := sessionRecv_none F _ m h
        have hq0 : (flip u).2.queue = u.queue := congrArg Core.queue (core_flip u)
        have hc0 := closed_flip u
        unfold recvReady at hready
        rw [← hq0, hq.1, ← hc0, hq.2] at hready
        simp at hready
    · cases h

theorem tickInflight_none_rx (F : Framing σ) (u : State σ) (m : Nat) (q : Req) (tx dl : Nat)
    (h : tickInflight F u m q tx dl = none) : (getMock u m).rx = [] ∧ u.now < dl := by
  obtain ⟨hb, hnow⟩ := tickInflight_none F u m q tx dl h
  refine ⟨?_, hnow⟩
  generalize hpr : pollReader F u m = pr at hb
  obtain ⟨r, s'⟩ := pr
  simp only [] at hb
  subst hb
  rw [tickInflight_before F u s' m q tx dl .blocked hpr hnow] at h
  simp only [] at h
  split at h
  · cases h
  · rename_i hx; simpa using hx

/-- a blocked task in a session on the newest transport is quiet -/
theorem quiet_of_blocked (F : Framing σ) (u : State σ) (m : Nat) (ha : u.alive = true)
    (hm : m + 1 = u.mocks.length) (hb : tick F u = none)
    (hpos : u.pos = .idle m ∨ ∃ q tx dl, u.pos = .inflight m q tx dl) : QuietRx u m := by
  have hb' := hb
  unfold tick at hb
  rw [ha] at hb
  simp only [Bool.not_true, Bool.false_eq_true, if_false] at hb
  rcases hpos with hp | ⟨q, tx, dl, hp⟩
  · rw [hp] at hb
    obtain ⟨hq, hc⟩ := blocked_not_pending_shutdown F u ha hb' (Or.inl ⟨m, hp⟩)
    exact ⟨ha, hm, tickIdle_none_rx F u m hb, Or.inl ⟨hp, hq, hc⟩⟩
  · rw [hp] at hb
    obtain ⟨hrx, hnow⟩ := tickInflight_none_rx F u m q tx dl hb
    exact ⟨ha, hm, hrx, Or.inr ⟨q, tx, dl, hp, hnow⟩⟩

end

/-! ## the theorems -/

/-- `rx_chunking_mbap` (TCP / TLS).  See the header for the hypotheses. -/
theorem rx_chunking_mbap (u : State Mbap.PState) (m : Nat) (hq : QuietRx u m) (hu : u.held = 0)
    (a b : Bytes) (ha : a ≠ []) (hb : b ≠ [])
    (hfit : u.rb.begin + u.rb.data.length + a.length + b.length ≤ CAP)
    (st1 : Mbap.PState) (rb1 : RB)
    (hmid : readerPoll mbap (readerFuel [.data a]) u.pst u.rb [.data a] = (.blocked, st1, rb1, []))
    (hne : rb1.data ≠ []) :
    stepState mbap (stepState mbap u (.rx (.data a))) (.rx (.data b))
      = stepState mbap u (.rx (.data (a ++ b))) :=
  rx_split mbap mbapW mbap_measure mbapW_le1 (fun _ => True) mbap_hopInv u m hq hu trivial a b ha hb
    hfit st1 rb1 hmid hne

/-- `rx_chunking_rtu` (serial, response parser), from every parser state the reader can be in
    between calls; no hypothesis (H5). -/
theorem rx_chunking_rtu (u : State Rtu.PState) (m : Nat) (hq : QuietRx u m) (hu : u.held = 0)
    (hst : Rtu.StOk u.pst) (a b : Bytes) (ha : a ≠ []) (hb : b ≠ [])
    (hfit : u.rb.begin + u.rb.data.length + a.length + b.length ≤ CAP)
    (st1 : Rtu.PState) (rb1 : RB)
    (hmid : readerPoll rtu (readerFuel [.data a]) u.pst u.rb [.data a] = (.blocked, st1, rb1, [])) :
    stepState rtu (stepState rtu u (.rx (.data a))) (.rx (.data b))
      = stepState rtu u (.rx (.data (a ++ b))) := by
  obtain ⟨st0, rb0, _, _, hp2⟩ :=
    readerPoll_mid rtu Rtu.StOk rtu_hopInv u.pst u.rb hst a ha (by omega) st1 rb1 hmid
  have hne : rb1.data ≠ [] :=
    rtu_none_nonempty st0 _ st1 rb1 hp2 (by simp [ha])
  exact rx_split rtu (fun _ => 0) rtu_measure (fun _ => by omega) Rtu.StOk rtu_hopInv u m hq hu hst
    a b ha hb hfit st1 rb1 hmid hne

/-- every state reached by a script whose last step is not a clock movement is blocked -/
theorem runState_blocked_mbap (cap maxTo : Nat) (d : Decode) (coins : List Bool)
    (steps : List Step) (st : Step) (hst : ∀ ms, st ≠ .advance ms) :
    Blocked mbap (runState mbap (State.init mbap cap maxTo d coins) (steps ++ [st])) := by
  rw [runState_append]
  exact stepState_blocked mbap mbapW mbap_measure mbapW_le1 _ st hst

theorem runState_blocked_rtu (cap maxTo : Nat) (d : Decode) (coins : List Bool)
    (steps : List Step) (st : Step) (hst : ∀ ms, st ≠ .advance ms) :
    Blocked rtu (runState rtu (State.init rtu cap maxTo d coins) (steps ++ [st])) := by
  rw [runState_append]
  exact stepState_blocked rtu (fun _ => 0) rtu_measure (fun _ => by omega) _ st hst

/-- `rx_chunking_mbap` for the reachable states: a script, then the two deliveries resp. the joint
    one -/
theorem rx_chunking_mbap_reachable (cap maxTo : Nat) (d : Decode) (coins : List Bool)
    (steps : List Step) (u : State Mbap.PState)
    (hu : u = runState mbap (State.init mbap cap maxTo d coins) steps) (hblocked : Blocked mbap u)
    (halive : u.alive = true) (m : Nat) (hm : m + 1 = u.mocks.length)
    (hpos : u.pos = .idle m ∨ ∃ q tx dl, u.pos = .inflight m q tx dl)
    (a b : Bytes) (ha : a ≠ []) (hb : b ≠ [])
    (hfit : u.rb.begin + u.rb.data.length + a.length + b.length ≤ CAP)
    (st1 : Mbap.PState) (rb1 : RB)
    (hmid : readerPoll mbap (readerFuel [.data a]) u.pst u.rb [.data a] = (.blocked, st1, rb1, []))
    (hne : rb1.data ≠ []) :
    runState mbap (State.init mbap cap maxTo d coins) (steps ++ [.rx (.data a), .rx (.data b)])
      = runState mbap (State.init mbap cap maxTo d coins) (steps ++ [.rx (.data (a ++ b))]) := by
  rw [runState_append, runState_append, ← hu]
  exact rx_chunking_mbap u m (quiet_of_blocked mbap u m halive hm hblocked.1 hpos) hblocked.2
    a b ha hb hfit st1 rb1 hmid hne

/-- `rx_chunking_rtu` for the reachable states (`Rtu.StOk` by `rtu_stok_reachable`) -/
theorem rx_chunking_rtu_reachable (cap maxTo : Nat) (d : Decode) (coins : List Bool)
    (steps : List Step) (u : State Rtu.PState)
    (hu : u = runState rtu (State.init rtu cap maxTo d coins) steps) (hblocked : Blocked rtu u)
    (halive : u.alive = true) (m : Nat) (hm : m + 1 = u.mocks.length)
    (hpos : u.pos = .idle m ∨ ∃ q tx dl, u.pos = .inflight m q tx dl)
    (a b : Bytes) (ha : a ≠ []) (hb : b ≠ [])
    (hfit : u.rb.begin + u.rb.data.length + a.length + b.length ≤ CAP)
    (st1 : Rtu.PState) (rb1 : RB)
    (hmid : readerPoll rtu (readerFuel [.data a]) u.pst u.rb [.data a] = (.blocked, st1, rb1, [])) :
    runState rtu (State.init rtu cap maxTo d coins) (steps ++ [.rx (.data a), .rx (.data b)])
      = runState rtu (State.init rtu cap maxTo d coins) (steps ++ [.rx (.data (a ++ b))]) := by
  have hst : Rtu.StOk u.pst := by rw [hu]; exact rtu_stok_reachable cap maxTo d coins steps
  rw [runState_append, runState_append, ← hu]
  exact rx_chunking_rtu u m (quiet_of_blocked rtu u m halive hm hblocked.1 hpos) hblocked.2 hst
    a b ha hb hfit st1 rb1 hmid

/-- the reader alone (no hypothesis on the task): polling it on the joint delivery gives what
    polling it on `b` gives after `a` left it blocked -/
theorem reader_chunking_mbap (st : Mbap.PState) (rb : RB) (a b : Bytes) (ha : a ≠ []) (hb : b ≠ [])
    (hfit : rb.begin + rb.data.length + a.length + b.length ≤ CAP) (st1 : Mbap.PState) (rb1 : RB)
    (hmid : readerPoll mbap (readerFuel [.data a]) st rb [.data a] = (.blocked, st1, rb1, []))
    (hne : rb1.data ≠ []) :
    readerPoll mbap (readerFuel [.data (a ++ b)]) st rb [.data (a ++ b)]
      = readerPoll mbap (readerFuel [.data b]) st1 rb1 [.data b] :=
  readerPoll_split mbap (fun _ => True) mbap_hopInv st rb trivial a b ha hb hfit st1 rb1 hmid hne

theorem reader_chunking_rtu (st : Rtu.PState) (rb : RB) (hst : Rtu.StOk st) (a b : Bytes)
    (ha : a ≠ []) (hb : b ≠ [])
    (hfit : rb.begin + rb.data.length + a.length + b.length ≤ CAP) (st1 : Rtu.PState) (rb1 : RB)
    (hmid : readerPoll rtu (readerFuel [.data a]) st rb [.data a] = (.blocked, st1, rb1, [])) :
    readerPoll rtu (readerFuel [.data (a ++ b)]) st rb [.data (a ++ b)]
      = readerPoll rtu (readerFuel [.data b]) st1 rb1 [.data b] := by
  obtain ⟨st0, rb0, _, _, hp2⟩ :=
    readerPoll_mid rtu Rtu.StOk rtu_hopInv st rb hst a ha (by omega) st1 rb1 hmid
  exact readerPoll_split rtu Rtu.StOk rtu_hopInv st rb hst a b ha hb hfit st1 rb1 hmid
    (rtu_none_nonempty st0 _ st1 rb1 hp2 (by simp [ha]))

/-! ## non-vacuity and the witnesses for the hypotheses -/

namespace Example.Chunk

/-- the reply `00 00 00 00 00 04 01 01 01 55` to the request `a` (tx id 0, 8 coils) -/
def reply : Bytes := [0, 0, 0, 0, 0, 4, 1, 1, 1, 0x55]

/-- a session on the newest transport with request `a` in flight -/
def waiting : State Mbap.PState :=
  runState mbap s16 [.newSession, .submit .R 0 (rc "a" .future 1000)]

theorem waiting_quiet : QuietRx waiting 0 :=
  ⟨by decide, by decide, by decide, Or.inr ⟨rc "a" .future 1000, 0, 1000, by decide, by decide⟩⟩

/-- split INSIDE THE HEADER (after 4 of its 7 bytes): the hypotheses of `rx_chunking_mbap` hold -/
example :
    stepState mbap (stepState mbap waiting (.rx (.data (reply.take 4)))) (.rx (.data (reply.drop 4)))
      = stepState mbap waiting (.rx (.data (reply.take 4 ++ reply.drop 4))) :=
  rx_chunking_mbap waiting 0 waiting_quiet (by decide) _ _ (by decide) (by decide) (by decide)
    .begin ⟨0, [0, 0, 0, 0]⟩ (by decide) (by decide)

/-- split INSIDE THE BODY (after the header and one byte of the PDU) -/
example :
    stepState mbap (stepState mbap waiting (.rx (.data (reply.take 8)))) (.rx (.data (reply.drop 8)))
      = stepState mbap waiting (.rx (.data (reply.take 8 ++ reply.drop 8))) :=
  rx_chunking_mbap waiting 0 waiting_quiet (by decide) _ _ (by decide) (by decide) (by decide)
    (.header ⟨0, 4, 1⟩ 3) ⟨7, [1]⟩ (by decide) (by decide)

/-- … and the request is completed with the reply in both (evaluation of the model) -/
example :
    (runState mbap s16 [.newSession, .submit .R 0 (rc "a" .future 1000),
        .rx (.data (reply.take 4)), .rx (.data (reply.drop 4))])
      = (runState mbap s16 [.newSession, .submit .R 0 (rc "a" .future 1000), .rx (.data reply)])
    ∧ doneIds (runState mbap s16 [.newSession, .submit .R 0 (rc "a" .future 1000),
        .rx (.data (reply.take 8)), .rx (.data (reply.drop 8))]).log = ["a"] := by decide +kernel

/-- RTU: the reply `01 01 01 55 91 B7`, split inside the two header bytes … -/
def rtuWaiting : State Rtu.PState :=
  runState rtu (State.init rtu 16 0 ⟨0, 0, 0⟩ []) [.newSession, .submit .R 0 (rc "a" .future 1000)]

theorem rtuWaiting_quiet : QuietRx rtuWaiting 0 :=
  ⟨by decide +kernel, by decide +kernel, by decide +kernel,
    Or.inr ⟨rc "a" .future 1000, 0, 1000, by decide +kernel, by decide +kernel⟩⟩

example :
    stepState rtu (stepState rtu rtuWaiting (.rx (.data [1]))) (.rx (.data [1, 1, 0x55, 0x91, 0xB7]))
      = stepState rtu rtuWaiting (.rx (.data ([1] ++ [1, 1, 0x55, 0x91, 0xB7]))) :=
  rx_chunking_rtu rtuWaiting 0 rtuWaiting_quiet (by decide +kernel)
    (rtu_stok_reachable 16 0 ⟨0, 0, 0⟩ [] _) _ _
    (by decide) (by decide) (by decide +kernel) .start ⟨0, [1]⟩ (by decide +kernel)

/-- … and inside the body (after the byte count) -/
example :
    stepState rtu (stepState rtu rtuWaiting (.rx (.data [1, 1, 1]))) (.rx (.data [0x55, 0x91, 0xB7]))
      = stepState rtu rtuWaiting (.rx (.data ([1, 1, 1] ++ [0x55, 0x91, 0xB7]))) :=
  rx_chunking_rtu rtuWaiting 0 rtuWaiting_quiet (by decide +kernel)
    (rtu_stok_reachable 16 0 ⟨0, 0, 0⟩ [] _) _ _
    (by decide) (by decide) (by decide +kernel) (.fullBody 1 2) ⟨1, [1, 1]⟩ (by decide +kernel)

example :
    doneIds (stepState rtu (stepState rtu rtuWaiting (.rx (.data [1, 1, 1])))
      (.rx (.data [0x55, 0x91, 0xB7]))).log = ["a"] := by decide +kernel

/-- `split_after_reply_differs` (witness for (H3)).  Request `a` in flight, `b` queued; the transport
    delivers the reply to `a` and a frame with the tx id `b` will get.  Delivered together, the
    second frame is buffered before `b` is transmitted and is dropped as stale: only `a` completes.
    Delivered as two reads, `b` has been transmitted when the second frame arrives, and it becomes
    the reply to `b`. -/
theorem split_after_reply_differs :
    let script := [Step.newSession, .submit .R 0 (rc "a" .future 1000),
      .submit .R 0 (rc "b" .future 1000)]
    let second : Bytes := [0, 1, 0, 0, 0, 4, 1, 1, 1, 0xFF]
    doneIds (runState mbap s16 (script ++ [.rx (.data (reply ++ second))])).log = ["a"]
      ∧ doneIds (runState mbap s16 (script ++ [.rx (.data reply), .rx (.data second)])).log
          = ["b", "a"] := by decide

/-- the two runs of `split_at_header_end_differs` -/
def headerTwo : State Mbap.PState :=
  runState mbap s16 [.newSession, .submit .R 0 (rc "a" .future 1000),
    .rx (.data (reply.take 7)), .rx (.data (reply.drop 7))]

def headerOne : State Mbap.PState :=
  runState mbap s16 [.newSession, .submit .R 0 (rc "a" .future 1000),
    .rx (.data (reply.take 7 ++ reply.drop 7))]

/-- `split_at_header_end_differs` (witness for (H5)).  Split exactly after the 7-byte header: same
    log, same position, but the read index of the buffer differs (the empty buffer was reset before
    the second read), so the states are not equal. -/
theorem split_at_header_end_differs :
    headerOne.log = headerTwo.log ∧ headerOne.pos = headerTwo.pos ∧ headerOne.pst = headerTwo.pst
      ∧ headerOne.rb.data = headerTwo.rb.data ∧ headerOne.mocks = headerTwo.mocks
      ∧ headerOne.coins = headerTwo.coins
      ∧ headerOne.rb.begin = 10 ∧ headerTwo.rb.begin = 3 ∧ headerOne ≠ headerTwo := by
  have h : headerOne.log = headerTwo.log ∧ headerOne.pos = headerTwo.pos
      ∧ headerOne.pst = headerTwo.pst ∧ headerOne.rb.data = headerTwo.rb.data
      ∧ headerOne.mocks = headerTwo.mocks ∧ headerOne.coins = headerTwo.coins
      ∧ headerOne.rb.begin = 10 ∧ headerTwo.rb.begin = 3 := by decide +kernel
  obtain ⟨a, b, c, d, e, f, g, i⟩ := h
  exact ⟨a, b, c, d, e, f, g, i, fun he => by rw [he] at g; omega⟩

/-- `unread_chunks_differ` (witness for (H1)).  While the running session is on an older transport
    the bytes stay in the queue of the newest one, as they were delivered. -/
theorem unread_chunks_differ :
    (runState mbap s16 [.newSession, .newSession, .rx (.data [1]), .rx (.data [2])]).mocks
        = [{}, { rx := [.data [1], .data [2]] }]
      ∧ (runState mbap s16 [.newSession, .newSession, .rx (.data ([1] ++ [2]))]).mocks
        = [{}, { rx := [.data [1, 2]] }] := by decide

end Example.Chunk

end Rodbus.Client
