import RodbusModel.Props.C05Cancel
import RodbusModel.Props.C05
/-! axiom audit of every property theorem of Props/C05 -/
#print axioms Rodbus.chunking_independent
#print axioms Rodbus.chunking_irrelevant
#print axioms Rodbus.reader_invariant
#print axioms Rodbus.pump_reachable
#print axioms Rodbus.read_has_space
#print axioms Rodbus.pump_read_has_space
#print axioms Rodbus.run_errors
#print axioms Rodbus.no_spurious_eof
#print axioms Rodbus.no_internal_error
#print axioms Rodbus.bad_header_ends_session
#print axioms Rodbus.bad_protocol_id
#print axioms Rodbus.bad_length_too_big
#print axioms Rodbus.bad_length_zero
#print axioms Rodbus.bad_header_after_frames
#print axioms Rodbus.bad_header_ends_session_chunked
#print axioms Rodbus.format_length
#print axioms Rodbus.format_length_le
#print axioms Rodbus.format_wf
#print axioms Rodbus.specFrames_append_frame
#print axioms Rodbus.specFrames_append_frames
#print axioms Rodbus.frames_roundtrip
#print axioms Rodbus.frames_roundtrip_chunked
#print axioms Rodbus.no_loss_no_reread
#print axioms Rodbus.Mbap.run_spec
#print axioms Rodbus.Mbap.constants_ok
#print axioms Rodbus.Cancel.mbap_blocked_begin
#print axioms Rodbus.Cancel.mbap_cancel_from
#print axioms Rodbus.Cancel.cancel_safe_mbap
#print axioms Rodbus.Cancel.rtu_cancel_from
#print axioms Rodbus.Cancel.cancel_safe_rtu
#print axioms Rodbus.Cancel.deliveriesC_cut
#print axioms Rodbus.Cancel.readerRunC_eq
#print axioms Rodbus.Cancel.session_cancel_safe
#print axioms Rodbus.Cancel.session_cancel_safe_with_write_fault
