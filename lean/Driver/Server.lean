import Driver.Points
import RodbusModel.Model.Mbap
import RodbusModel.Model.Rtu
import RodbusModel.Spec.Server
import RodbusModel.Model.Session
import RodbusModel.Spec.Mbap
import RodbusModel.Spec.Rtu
/-
  `srv` and `rdr` suites of the line protocol (see /verif/PROTOCOL.md): the model's and the
  specification's answer for a case line.
-/
namespace Rodbus.Driver

def frameErrStr : FrameErr → String
  | .unknownProtocolId _ => "bf.proto"
  | .frameLengthTooBig _ _ => "bf.toobig"
  | .mbapLengthZero => "bf.lenzero"
  | .unknownFunctionCode _ => "bf.unkfc"
  | .crcValidationFailure _ _ => "bf.crc"
  | .internalShortRead => "internal"
  | .spuriousEof => "io.eof"

def joinOrDash (sep : String) (xs : List String) : String :=
  if xs.isEmpty then "-" else sep.intercalate xs

/-! ### rdr -/

def eventStr : Event → String
  | .frame f =>
    let tx := match f.tx with | some t => toString t | none => "n"
    s!"F{tx}.{f.dest}.{hexOrDash f.pdu}"
  | .err e => s!"E{frameErrStr e}"

def parseChunks (s : String) : List Bytes :=
  if s = "-" then [] else (s.splitOn ",").filterMap ofHex

/-- both the chunked model reader and the whole-stream specification -/
def runRdr (tok : List String) : String × String :=
  match tok with
  | [_, kind, _dec, chunks] =>
    let cs := parseChunks chunks
    let (m, s) := match kind with
      | "t" => (Mbap.run cs, Mbap.specFrames cs.flatten)
      | "q" => (Rtu.run .request cs, Rtu.specFrames .request cs.flatten)
      | _ => (Rtu.run .response cs, Rtu.specFrames .response cs.flatten)
    (joinOrDash ";" (m.map eventStr), joinOrDash ";" (s.map eventStr))
  | _ => ("bad-case", "bad-case")

/-! ### srv -/

def callStr : Call → String
  | .authRange fc u r role => s!"A{fc.toByte}.{u}.r{r.start}+{r.count}.{role}"
  | .authIndex fc u i role => s!"A{fc.toByte}.{u}.i{i}.{role}"
  | .readCoil u a => s!"rc.{u}.{a}"
  | .readDiscreteInput u a => s!"rd.{u}.{a}"
  | .readHoldingRegister u a => s!"rh.{u}.{a}"
  | .readInputRegister u a => s!"ri.{u}.{a}"
  | .writeSingleCoil u i v => s!"wc.{u}.{i}.{b2n v}"
  | .writeSingleRegister u i v => s!"wr.{u}.{i}.{v}"
  | .writeMultipleCoils u r items =>
    s!"wC.{u}.{r.start}+{r.count}." ++ "/".intercalate (items.map fun (i, v) => s!"{i}:{b2n v}")
  | .writeMultipleRegisters u r items =>
    s!"wR.{u}.{r.start}+{r.count}." ++ "/".intercalate (items.map fun (i, v) => s!"{i}:{v}")

/-- role tokens are kept opaque (`r<hex>`); the hash policy needs the byte sum -/
def roleSum (role : String) : Nat :=
  match ofHex (String.ofList role.toList.tail) with
  | some bs => bs.foldl (· + ·) 0
  | none => 0

def policyOf (name : String) : AuthFn := fun fc unit arg role =>
  if name = "allow" then true
  else if name = "deny" then false
  else if name = "ro" then fc.isRead
  else if name = "default" then false     -- the trait's provided methods: deny everything
  else
    let seed := (String.ofList name.toList.tail).toNat?.getD 0
    let (a, b) := match arg with
      | .range r => (r.start, r.count)
      | .index i => (i, 65536)
    (seed + fc.toByte * 3 + unit * 5 + a * 7 + b * 11 + roleSum role) % 4 ≠ 0

def parseAuth (s : String) : Option (AuthFn × String) :=
  if s = "-" then none
  else match s.splitOn "." with
    | [pol, role] => some (policyOf pol, role)
    | _ => none

def insertUnit (x : Nat × Points) : List (Nat × Points) → List (Nat × Points)
  | [] => [x]
  | y :: ys => if x.1 < y.1 then x :: y :: ys
               else if x.1 = y.1 then x :: ys          -- `BTreeMap::insert` replaces
               else y :: insertUnit x ys

/-- `<unit>=<other>`: the SAME handler object is registered under a second unit id (only used with
    stateless `D` handlers, so sharing needs no model of its own: the alias gets a copy of the
    points).  The instrumented handler logs its own label, i.e. the id it was created for. -/
def parseAliases (s : String) : List (Nat × Nat) :=
  if s = "-" then []
  else (s.splitOn ";").filterMap fun u =>
    match u.splitOn "=" with
    | [a, b] => some (a.toNat?.getD 0, b.toNat?.getD 0)
    | _ => none

def parseUnits (s : String) : List (Nat × Points) :=
  if s = "-" then []
  else (s.splitOn ";").foldl (fun acc u =>
    match u.splitOn "=" with
    | [a, b] =>
      match acc.find? (fun p => p.1 = b.toNat?.getD 0) with
      | some p => insertUnit (a.toNat?.getD 0, p.2) acc
      | none => acc
    | _ =>
    match u.splitOn ":" with
    | [id, items] => insertUnit (id.toNat?.getD 0, Points.parse items) acc
    | [id] => insertUnit (id.toNat?.getD 0, {}) acc
    | _ => acc) []

def relabelUnit (al : List (Nat × Nat)) (u : Nat) : Nat :=
  match al.find? (fun p => p.1 = u) with
  | some p => p.2
  | none => u

/-- handler calls are logged with the label of the handler object that received them -/
def relabelCall (al : List (Nat × Nat)) : Call → Call
  | .readCoil u a => .readCoil (relabelUnit al u) a
  | .readDiscreteInput u a => .readDiscreteInput (relabelUnit al u) a
  | .readHoldingRegister u a => .readHoldingRegister (relabelUnit al u) a
  | .readInputRegister u a => .readInputRegister (relabelUnit al u) a
  | .writeSingleCoil u i v => .writeSingleCoil (relabelUnit al u) i v
  | .writeSingleRegister u i v => .writeSingleRegister (relabelUnit al u) i v
  | .writeMultipleCoils u r items => .writeMultipleCoils (relabelUnit al u) r items
  | .writeMultipleRegisters u r items => .writeMultipleRegisters (relabelUnit al u) r items
  | c => c

inductive SrvStep
  | data (bs : Bytes)
  | decode
  | shutdown
  | readErr
  /-- `W<n>`: the transport accepts `n` reply writes and fails the next one -/
  | failAfter (n : Nat)

def parseSrvScript (s : String) : List SrvStep :=
  if s = "-" then []
  else (s.splitOn ",").map fun st =>
    if st.startsWith "K" then .decode       -- a held handler mutex is waited for: no effect on the outcome
    else if st.startsWith "W" then .failAfter ((String.ofList (st.toList.tail.takeWhile Char.isDigit)).toNat?.getD 0)
    else if st.startsWith "!" then
      if st = "!s" then .shutdown else if st = "!x" then .readErr else .decode
    else .data ((ofHex st).getD [])

structure SrvAcc where
  tx : Bytes := []
  calls : List Call := []
  hs : List (Nat × Points)
  ended : Option String := none
  /-- reply writes the transport still accepts before one fails (`none`: no fault armed) -/
  wleft : Option Nat := none

def frameReply (rtu : Bool) (f : Frame) (pdu : Bytes) : Bytes :=
  if rtu then Rtu.format f.dest pdu else Mbap.format (f.tx.getD 0) f.dest pdu

/-- process reader events of one delivery -/
def srvEvents (respond : List (Nat × Points) → Frame → FrameOut Points) (rtu : Bool)
    (acc : SrvAcc) : List Event → SrvAcc
  | [] => acc
  | .err e :: _ => { acc with ended := some (frameErrStr e) }
  | .frame f :: rest =>
    let o := respond acc.hs f
    match o.reply, acc.wleft with
    | some _, some 0 =>
      -- the write of this reply fails: the request was executed, the session ends
      { acc with calls := acc.calls ++ o.calls, hs := o.states, ended := some "io.pipe", wleft := none }
    | reply, wleft =>
      let acc' := { acc with
        tx := acc.tx ++ (match reply with | some p => frameReply rtu f p | none => []),
        calls := acc.calls ++ o.calls,
        hs := o.states,
        wleft := match reply, wleft with
          | some _, some n => some (n - 1)
          | _, w => w }
      srvEvents respond rtu acc' rest

/-- the session: reader state threaded through the deliveries -/
def srvLoop {σ : Type} (parse : ParseFn σ)
    (respond : List (Nat × Points) → Frame → FrameOut Points) (rtu : Bool) :
    σ → RB → SrvAcc → List SrvStep → SrvAcc
  | _, _, acc, [] => { acc with ended := some (acc.ended.getD "io.eof") }
  | st, rb, acc, step :: rest =>
    match step with
    -- a command cancels the pending read: what the dropped future leaves behind is `rb.normalize`
    | .decode => srvLoop parse respond rtu st rb.normalize acc rest
    | .failAfter n => srvLoop parse respond rtu st rb { acc with wleft := some n } rest
    | .shutdown => { acc with ended := some "shutdown" }
    | .readErr => { acc with ended := some "io.reset" }
    | .data bs =>
      match pump parse (fuelFor rb bs) st rb bs with
      | (es, none) => srvEvents respond rtu acc es
      | (es, some (st', rb')) =>
        let acc' := srvEvents respond rtu acc es
        match acc'.ended with
        | some _ => acc'
        | none => srvLoop parse respond rtu st' rb' acc' rest

def srvOut (acc : SrvAcc) : String :=
  let st := joinOrDash ";" (acc.hs.map fun (u, p) => s!"{u}[{p.stateString}]")
  s!"tx={hexOrDash acc.tx} calls={joinOrDash ";" (acc.calls.map callStr)} st={st} end={acc.ended.getD "io.eof"}"

/-- model (`handleFrame`) and specification (`Spec.Server.respond`) outputs -/
def runSrv (tok : List String) : String × String :=
  match tok with
  | [_, framing, _dec, auth, units, script] =>
    -- `F<n>.<hex>` (flooding peer + Shutdown queued at the same moment) is an ORACLE case, not a
    -- model comparison: how much of the flood is served before the command is seen is left to the
    -- scheduler; required: the session ends with `shutdown` with at least half of the flood unread
    if (script.splitOn ",").any (·.startsWith "F") then
      ("tx=* calls=* st=* end=shutdown flood=honoured", "tx=* calls=* st=* end=shutdown flood=honoured")
    else
    let rtu := framing = "r"
    let cfg : ServerCfg Points := ⟨rtu, pointsHandler, parseAuth auth⟩
    let hs := parseUnits units
    let steps := parseSrvScript script
    let al := parseAliases units
    let go (respond : List (Nat × Points) → Frame → FrameOut Points) : String :=
      let acc := if rtu then srvLoop (Rtu.parse .request) respond rtu .start RB.empty ⟨[], [], hs, none, none⟩ steps
                 else srvLoop Mbap.parse respond rtu .begin RB.empty ⟨[], [], hs, none, none⟩ steps
      srvOut { acc with calls := acc.calls.map (relabelCall al) }
    -- model: `runSession` (event-based formulation); specification: the reference server
    -- `Spec.Server.respond` driven by the reader threaded through the deliveries
    let script : List SessStep := (steps.map fun st => match st with
      | .data bs => SessStep.data bs
      | .decode => SessStep.setDecode {}
      | .shutdown => SessStep.shutdown
      | .failAfter _ => SessStep.setDecode {}     -- the fault position is a parameter of `runSessionW`
      | .readErr => SessStep.readErr) ++ [SessStep.eof]
    let kindStr : EndKind → String := fun k => match k with
      | .eof => "io.eof" | .reset => "io.reset" | .shutdown => "shutdown"
      | .badFrame e => frameErrStr e | .running => "running"
    -- a leading `W<n>` selects the fault model `runSessionW`; otherwise `runSession`
    let model := match steps with
      | .failAfter n :: _ =>
        let o := runSessionW (if rtu then .rtu else .tcp) cfg {} n hs script
        let endStr := match o.ended with | .kind k => kindStr k | .writeErr => "io.pipe"
        srvOut ⟨o.tx, o.calls.map (relabelCall al), o.states, some endStr, none⟩
      | _ =>
        let o := runSession (if rtu then .rtu else .tcp) cfg {} hs script
        srvOut ⟨o.tx, o.calls.map (relabelCall al), o.states, some (kindStr o.ended), none⟩
    (model, go (Spec.Server.respond cfg))
  | _ => ("bad-case", "bad-case")

end Rodbus.Driver
