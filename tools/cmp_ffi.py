#!/usr/bin/env python3
"""Development helper: generate a suite, run implementation (verif-harness-ffi) and model/spec
(rodbus_model), report the disagreements.  usage: cmp_ffi.py <suite|all> [seed] [n] [tier]"""
import collections
import subprocess
import sys
import os
HERE = os.path.dirname(os.path.abspath(__file__))
sys.path.insert(0, HERE)
import gen_ffi

HARNESS = os.environ.get("FFI_BIN", os.path.join(HERE, "target", "debug", "verif-harness-ffi"))
DRIVER = os.path.join(HERE, "lean", ".lake", "build", "bin", "rodbus_model")


def finding_key(case, impl, model):
    """known defects of the current FFI sources, by call site"""
    t = case.split()
    if t[1] == "fnet" and t[2] == "tls" and impl == "served" and model == "closed":
        return "F5"
    if t[1] in ("wres",) and t[2] == "wc" and "IllegalDataAddress" in impl:
        return "F6"
    if t[1] == "op" and t[3] in ("zero", "overflow", "emptylist", "nulllist", "nullchan") and "ffi=none c0 f0 d1" in impl:
        return "F9"
    if t[1] == "op" and t[3] in ("read", "write") and "ffi=none c0 f0 d1" in impl and ("rc=InvalidRange" in impl or "rc=InvalidRequest" in impl):
        return "F9"
    if t[1] == "db" and "rc.InvalidRange" in model:
        return None
    if t[1] == "op" and t[3] == "qfull" and "TooManyRequests,Shutdown" in impl:
        return "F10"
    if t[1] == "op" and ("toolarge" == t[3] or t[3] == "read") and "rc=InvalidRange ffi=Shutdown" in impl:
        return "F10"
    return None


def run(suite, seed, n, tier):
    cases = gen_ffi.generate(suite, seed, n, tier)
    inp = "\n".join(cases) + "\n"
    impl = subprocess.run([HARNESS], input=inp, capture_output=True, text=True).stdout.splitlines()
    mod = subprocess.run([DRIVER], input=inp, capture_output=True, text=True).stdout.splitlines()
    assert len(impl) == len(cases) == len(mod), (len(cases), len(impl), len(mod))
    agree = 0
    known = collections.Counter()
    unknown = []
    modelspec = []
    first = {}
    for c, i, m in zip(cases, impl, mod):
        mm, ss = m.split(" ## ")
        if mm != ss:
            modelspec.append((c, mm, ss))
        if i == mm and i == ss:
            agree += 1
            continue
        k = finding_key(c, i, mm)
        if k:
            known[k] += 1
            first.setdefault(k, (c, i, mm))
        else:
            unknown.append((c, i, mm, ss))
    print(f"suite {suite}: cases={len(cases)} distinct={len(set(cases))} agree={agree} known={dict(known)} unexplained={len(unknown)} model!=spec={len(modelspec)}")
    for k, (c, i, m) in sorted(first.items()):
        print(f"  first {k}: {c}\n     impl : {i}\n     model: {m}")
    for c, i, m, s in unknown[:15]:
        print(f"  UNEXPLAINED {c}\n     impl : {i}\n     model: {m}\n     spec : {s}")
    for c, m, s in modelspec[:10]:
        print(f"  MODEL!=SPEC {c}\n     model: {m}\n     spec : {s}")
    return len(unknown) + len(modelspec)


if __name__ == "__main__":
    suite = sys.argv[1]
    seed = int(sys.argv[2]) if len(sys.argv) > 2 else 1
    n = int(sys.argv[3]) if len(sys.argv) > 3 else 200
    tier = sys.argv[4] if len(sys.argv) > 4 else "quick"
    suites = list(gen_ffi.FFI_SUITES) if suite == "all" else [suite]
    bad = 0
    for s in suites:
        bad += run(s, seed, n, tier)
    sys.exit(1 if bad else 0)
