import RodbusModel.Spec.Mbap
/-
  Helper lemmas for Props/C05: the MBAP reader over any chunking equals the whole-stream
  specification.  Ported from the validated spike (/root/spike/mb).
-/
namespace Rodbus.Mbap

/-- state-aware form of the whole-stream specification -/
def specFrom : PState → Bytes → List Event
  | .begin, s => specFrames s
  | .header h adu, s =>
    if s.length < adu then []
    else .frame ⟨some h.tx, h.unit, s.take adu⟩ :: specFrames (s.drop adu)

theorem specFrames_short (s : Bytes) (h : s.length < 7) : specFrames s = [] := by
  rw [specFrames]; simp [h]

theorem specFrames_err (s : Bytes) (h : 7 ≤ s.length) (e : FrameErr)
    (hp : parseHeader (s.take 7) = .error e) : specFrames s = [.err e] := by
  rw [specFrames]; have : ¬ s.length < 7 := by omega
  simp [this, hp]

theorem specFrames_ok (s : Bytes) (h : 7 ≤ s.length) (hd : Header) (adu : Nat)
    (hp : parseHeader (s.take 7) = .ok (hd, adu)) :
    specFrames s = specFrom (.header hd adu) (s.drop 7) := by
  rw [specFrames]; have : ¬ s.length < 7 := by omega
  simp [this, hp, specFrom]

/-! ### `parseHeader` -/

theorem parseHeader_adu (bs : Bytes) (hd : Header) (adu : Nat)
    (hp : parseHeader bs = .ok (hd, adu)) : adu ≤ 253 := by
  unfold parseHeader at hp
  split at hp
  · simp only at hp
    repeat (split at hp; · simp at hp)
    simp at hp; omega
  · simp at hp

/-- the three ways a 7-byte header is rejected -/
def HeaderErr (e : FrameErr) : Prop :=
  (∃ p, p ≠ 0 ∧ e = .unknownProtocolId p) ∨ (∃ n, 254 < n ∧ e = .frameLengthTooBig n 254)
    ∨ e = .mbapLengthZero

theorem parseHeader_err_kind (bs : Bytes) (hl : bs.length = 7) (e : FrameErr)
    (h : parseHeader bs = .error e) : HeaderErr e := by
  unfold parseHeader at h
  split at h
  · simp only at h
    split at h
    · rename_i hp; simp at h; subst h; exact .inl ⟨_, hp, rfl⟩
    · split at h
      · rename_i hp; simp at h; subst h; exact .inr (.inl ⟨_, hp, rfl⟩)
      · split at h
        · simp at h; subst h; exact .inr (.inr rfl)
        · simp at h
  · rename_i hne
    exfalso
    match bs, hl with
    | [a, b, c, d, e', f, g], _ => exact hne a b c d e' f g rfl

theorem HeaderErr.ne_spurious {e : FrameErr} (h : HeaderErr e) : e ≠ .spuriousEof := by
  rcases h with ⟨_, _, rfl⟩ | ⟨_, _, rfl⟩ | rfl <;> simp

theorem HeaderErr.ne_internal {e : FrameErr} (h : HeaderErr e) : e ≠ .internalShortRead := by
  rcases h with ⟨_, _, rfl⟩ | ⟨_, _, rfl⟩ | rfl <;> simp

/-! ### `parseBody` / `parse` against the specification -/

theorem parseBody_none (h : Header) (adu : Nat) (rb : RB) (st' : PState) (rb' : RB)
    (hp : parseBody h adu rb = (.none, st', rb')) :
    st' = .header h adu ∧ rb' = rb ∧ rb.data.length < adu := by
  unfold parseBody at hp
  split at hp
  · simp at hp; simp_all
  · simp at hp

theorem parseBody_err (h : Header) (adu : Nat) (rb : RB) (e : FrameErr) (st' : PState) (rb' : RB) :
    parseBody h adu rb ≠ (.err e, st', rb') := by
  unfold parseBody; split <;> simp

theorem parseBody_frame (h : Header) (adu : Nat) (rb : RB) (f : Frame) (st' : PState) (rb' : RB)
    (fut : Bytes) (hp : parseBody h adu rb = (.frame f, st', rb')) :
    specFrom (.header h adu) (rb.data ++ fut) = .frame f :: specFrom st' (rb'.data ++ fut)
      ∧ rb'.data.length + adu = rb.data.length
      ∧ rb'.begin + rb'.data.length = rb.begin + rb.data.length
      ∧ st' = .begin := by
  unfold parseBody at hp
  split at hp
  · simp at hp
  · rename_i hlen
    have hlen : adu ≤ rb.data.length := by omega
    simp only [Prod.mk.injEq, PResult.frame.injEq] at hp
    obtain ⟨hf, hs, hr⟩ := hp
    subst hf; subst hs; subst hr
    have : ¬ (rb.data ++ fut).length < adu := by simp; omega
    refine ⟨?_, ?_, ?_, rfl⟩
    · simp only [specFrom, RB.consume, if_neg this, List.take_append_of_le_length hlen,
        List.drop_append_of_le_length hlen]
    · simp [RB.consume]; omega
    · simp [RB.consume]; omega

theorem parse_frame (st : PState) (rb : RB) (f : Frame) (st' : PState) (rb' : RB) (fut : Bytes)
    (hp : parse st rb = (.frame f, st', rb')) :
    specFrom st (rb.data ++ fut) = .frame f :: specFrom st' (rb'.data ++ fut)
      ∧ rb'.data.length ≤ rb.data.length
      ∧ rb'.begin + rb'.data.length = rb.begin + rb.data.length
      ∧ (st = .begin → rb'.data.length + 7 ≤ rb.data.length)
      ∧ st' = .begin := by
  cases st with
  | header h adu =>
    simp only [parse] at hp
    obtain ⟨h1, h2, h3, h4⟩ := parseBody_frame h adu rb f st' rb' fut hp
    exact ⟨h1, by omega, h3, by simp, h4⟩
  | begin =>
    simp only [parse] at hp
    split at hp
    · simp at hp
    · rename_i hl
      have hl : 7 ≤ rb.data.length := by omega
      have hl' : 7 ≤ (rb.data ++ fut).length := by simp; omega
      have htake : (rb.data ++ fut).take 7 = rb.data.take 7 := List.take_append_of_le_length hl
      have hdrop : (rb.data ++ fut).drop 7 = rb.data.drop 7 ++ fut :=
        List.drop_append_of_le_length hl
      split at hp
      · simp at hp
      · rename_i hd adu hph
        obtain ⟨h1, h2, h3, h4⟩ := parseBody_frame hd adu (rb.consume 7) f st' rb' fut hp
        have hc : (rb.consume 7).data = rb.data.drop 7 := rfl
        have hcb : (rb.consume 7).begin = rb.begin + 7 := rfl
        rw [hc] at h1 h2 h3; rw [hcb] at h3
        simp only [List.length_drop] at h2 h3
        refine ⟨?_, by omega, by omega, fun _ => by omega, h4⟩
        simp only [specFrom]
        rw [specFrames_ok _ hl' hd adu (by rw [htake]; exact hph), hdrop]
        exact h1

/-- a parse error is a header error, and it is what the specification yields -/
theorem parse_err (st : PState) (rb : RB) (e : FrameErr) (st' : PState) (rb' : RB) (fut : Bytes)
    (hp : parse st rb = (.err e, st', rb')) :
    specFrom st (rb.data ++ fut) = [.err e] ∧ HeaderErr e ∧ st = .begin ∧ st' = .begin
      ∧ rb' = rb.consume 7 ∧ 7 ≤ rb.data.length := by
  cases st with
  | header h adu => simp only [parse] at hp; exact absurd hp (parseBody_err _ _ _ _ _ _)
  | begin =>
    simp only [parse] at hp
    split at hp
    · simp at hp
    · rename_i hl
      have hl : 7 ≤ rb.data.length := by omega
      have hl' : 7 ≤ (rb.data ++ fut).length := by simp; omega
      have htake : (rb.data ++ fut).take 7 = rb.data.take 7 := List.take_append_of_le_length hl
      split at hp
      · rename_i e' hph
        simp at hp; obtain ⟨he, hs, hr⟩ := hp; subst he
        refine ⟨?_, ?_, rfl, hs.symm, hr.symm, hl⟩
        · simp only [specFrom]
          exact specFrames_err _ hl' _ (by rw [htake]; exact hph)
        · exact parseHeader_err_kind _ (by simp; omega) _ hph
      · exact absurd hp (parseBody_err _ _ _ _ _ _)

/-- `need st`: number of buffered bytes the parser in state `st` waits for -/
def need : PState → Nat
  | .begin => 7
  | .header _ adu => adu

theorem parse_none (st : PState) (rb : RB) (st' : PState) (rb' : RB) (fut : Bytes)
    (hp : parse st rb = (.none, st', rb')) :
    specFrom st (rb.data ++ fut) = specFrom st' (rb'.data ++ fut)
      ∧ rb'.begin + rb'.data.length = rb.begin + rb.data.length
      ∧ rb'.data.length < need st'
      ∧ (st = .begin → rb'.data.length < 253)
      ∧ rb'.data.length ≤ rb.data.length
      ∧ parse st' rb' = (.none, st', rb') := by
  cases st with
  | header h adu =>
    simp only [parse] at hp
    obtain ⟨h1, h2, h3⟩ := parseBody_none h adu rb st' rb' hp
    subst h1; subst h2
    refine ⟨rfl, rfl, by simpa [need] using h3, by simp, by omega, ?_⟩
    simp [parse, parseBody, h3]
  | begin =>
    simp only [parse] at hp
    split at hp
    · rename_i hl
      simp at hp; obtain ⟨h1, h2⟩ := hp; subst h1; subst h2
      refine ⟨rfl, rfl, by simpa [need] using hl, fun _ => by omega, by omega, ?_⟩
      simp [parse, hl]
    · rename_i hl
      have hl : 7 ≤ rb.data.length := by omega
      have hl' : 7 ≤ (rb.data ++ fut).length := by simp; omega
      have htake : (rb.data ++ fut).take 7 = rb.data.take 7 := List.take_append_of_le_length hl
      have hdrop : (rb.data ++ fut).drop 7 = rb.data.drop 7 ++ fut :=
        List.drop_append_of_le_length hl
      split at hp
      · simp at hp
      · rename_i hd adu hph
        obtain ⟨h1, h2, h3⟩ := parseBody_none hd adu (rb.consume 7) st' rb' hp
        subst h1; subst h2
        have hadu := parseHeader_adu _ _ _ hph
        have hc : (rb.consume 7).data = rb.data.drop 7 := rfl
        have hcb : (rb.consume 7).begin = rb.begin + 7 := rfl
        rw [hc] at h3; simp only [List.length_drop] at h3
        refine ⟨?_, ?_, ?_, ?_, ?_, ?_⟩
        · simp only [specFrom]
          rw [specFrames_ok _ hl' hd adu (by rw [htake]; exact hph), hdrop, hc]
          simp [specFrom]
        · rw [hc, hcb]; simp; omega
        · rw [hc]; simp [need]; omega
        · intro _; rw [hc]; simp; omega
        · rw [hc]; simp
        · have : ((rb.consume 7).data.length < adu) := by rw [hc]; simp; omega
          simp [parse, parseBody, this]

/-! ### `ReadBuffer::read_some` -/

theorem normalize_data (rb : RB) : rb.normalize.data = rb.data := by
  unfold RB.normalize
  by_cases hd : rb.data = []
  · simp [hd]
  · simp only [hd, if_false]; split <;> rfl

theorem normalize_inv (rb : RB) (hinv : rb.begin + rb.data.length ≤ CAP) :
    rb.normalize.begin + rb.data.length ≤ CAP
      ∧ (rb.data.length < CAP → rb.normalize.begin + rb.data.length < CAP) := by
  unfold RB.normalize
  by_cases hd : rb.data = []
  · simp [hd, CAP]
  · simp only [hd, if_false]
    split
    · simp; omega
    · constructor <;> omega

/-- a successful `read_some` moves a non-empty prefix of the delivery to the end of the buffered
    bytes: nothing is lost, duplicated or reordered, and the indices stay within the array -/
theorem readSome_some (rb : RB) (pend : Bytes) (rb' : RB) (pend' : Bytes)
    (hinv : rb.begin + rb.data.length ≤ CAP)
    (hr : readSome rb pend = some (rb', pend')) :
    rb'.data ++ pend' = rb.data ++ pend ∧ (pend ≠ [] → pend'.length < pend.length)
      ∧ rb'.begin + rb'.data.length ≤ CAP
      ∧ rb'.data.length + pend'.length = rb.data.length + pend.length := by
  unfold readSome at hr
  have hnd := normalize_data rb
  have hni := (normalize_inv rb hinv).1
  simp only at hr
  split at hr
  · simp at hr
  · rename_i hsp
    simp only [Option.some.injEq, Prod.mk.injEq] at hr
    obtain ⟨h1, h2⟩ := hr
    subst h1; subst h2
    rw [hnd] at hsp ⊢
    refine ⟨?_, ?_, ?_, ?_⟩
    · simp [List.append_assoc]
    · intro hne
      have hpl : 0 < pend.length := List.length_pos_iff.mpr hne
      simp [List.length_drop]; omega
    · simp [List.length_take]; omega
    · simp [List.length_take, List.length_drop]; omega

/-- `read_some` is never handed an empty slice when fewer than `CAP` bytes are buffered -/
theorem readSome_ne_none (rb : RB) (pend : Bytes) (hinv : rb.begin + rb.data.length ≤ CAP)
    (hlt : rb.data.length < CAP) : readSome rb pend ≠ Option.none := by
  unfold readSome
  have hnd := normalize_data rb
  have hni := (normalize_inv rb hinv).2 hlt
  simp only
  rw [hnd]
  split
  · omega
  · simp

/-! ### reader invariants -/

/-- buffer invariant: `end ≤ capacity` -/
def Inv (rb : RB) : Prop := rb.begin + rb.data.length ≤ CAP

/-- parser-state invariant: the pending ADU length fits a frame -/
def StOk : PState → Prop
  | .begin => True
  | .header _ adu => adu ≤ 253

def hdr : PState → Nat
  | .begin => 0
  | .header _ _ => 1

theorem need_le (st : PState) (h : StOk st) : need st ≤ 253 := by
  cases st <;> simp_all [need, StOk]

theorem parse_none_stok (st : PState) (rb : RB) (st' : PState) (rb' : RB) (hs : StOk st)
    (hp : parse st rb = (.none, st', rb')) :
    StOk st' ∧ 2 * rb'.data.length + hdr st' ≤ 2 * rb.data.length + hdr st := by
  cases st with
  | header h adu =>
    simp only [parse] at hp
    obtain ⟨h1, h2, _⟩ := parseBody_none h adu rb st' rb' hp
    subst h1; subst h2; exact ⟨hs, by omega⟩
  | begin =>
    simp only [parse] at hp
    split at hp
    · simp at hp; obtain ⟨h1, h2⟩ := hp; subst h1; subst h2; exact ⟨trivial, by omega⟩
    · split at hp
      · simp at hp
      · rename_i hl hd adu hph
        obtain ⟨h1, h2, _⟩ := parseBody_none hd adu (rb.consume 7) st' rb' hp
        subst h1; subst h2
        refine ⟨parseHeader_adu _ _ _ hph, ?_⟩
        simp [RB.consume, hdr]; omega

/-- after `parse` returned `Ok(None)` in a state satisfying the invariants, `read_some` has room -/
theorem readSome_after_none (st : PState) (rb : RB) (st' : PState) (rb' : RB) (pend : Bytes)
    (hinv : Inv rb) (hst : StOk st) (hp : parse st rb = (.none, st', rb')) :
    Inv rb' ∧ StOk st' ∧ readSome rb' pend ≠ Option.none := by
  obtain ⟨_, h2, h3, _, _, _⟩ := parse_none st rb st' rb' [] hp
  obtain ⟨hst', _⟩ := parse_none_stok st rb st' rb' hst hp
  have hinv' : Inv rb' := by unfold Inv at *; omega
  have hlt : rb'.data.length < CAP := by have := need_le st' hst'; simp [CAP]; omega
  exact ⟨hinv', hst', readSome_ne_none rb' pend hinv' hlt⟩

/-- every reachable reader state satisfies the buffer and parser-state invariants -/
theorem reach_inv {st : PState} {rb : RB} (h : Reach st rb) : Inv rb ∧ StOk st := by
  induction h with
  | init => exact ⟨by simp [Inv, RB.empty, CAP], trivial⟩
  | frame _ hp ih =>
    obtain ⟨_, _, h3, _, h5⟩ := parse_frame _ _ _ _ _ [] hp
    subst h5
    exact ⟨by have := ih.1; unfold Inv at *; omega, trivial⟩
  | block _ hp ih =>
    obtain ⟨a, b, _⟩ := readSome_after_none _ _ _ _ [] ih.1 ih.2 hp
    exact ⟨a, b⟩
  | read _ hp hr ih =>
    obtain ⟨a, b, _⟩ := readSome_after_none _ _ _ _ [] ih.1 ih.2 hp
    exact ⟨(readSome_some _ _ _ _ a hr).2.2.1, b⟩

/-- the states through which `pump` passes, and the one in which it blocks, are reachable -/
theorem pump_reach : ∀ (fuel : Nat) (st : PState) (rb : RB) (pend : Bytes) (es : List Event)
    (st' : PState) (rb' : RB), Reach st rb →
    pump parse fuel st rb pend = (es, some (st', rb')) → Reach st' rb' := by
  intro fuel
  induction fuel with
  | zero =>
    intro st rb pend es st' rb' hr h
    simp only [pump, Prod.mk.injEq, Option.some.injEq] at h
    obtain ⟨_, h1, h2⟩ := h; subst h1; subst h2; exact hr
  | succ fuel ih =>
    intro st rb pend es st' rb' hr h
    unfold pump at h
    split at h
    · rename_i f st1 rb1 hp
      generalize hq : pump parse fuel st1 rb1 pend = q at h
      obtain ⟨es1, r1⟩ := q
      simp only [Prod.mk.injEq] at h
      obtain ⟨_, h2⟩ := h; subst h2
      exact ih st1 rb1 pend es1 st' rb' (.frame hr hp) hq
    · simp at h
    · rename_i st1 rb1 hp
      split at h
      · simp only [Prod.mk.injEq, Option.some.injEq] at h
        obtain ⟨_, h1, h2⟩ := h; subst h1; subst h2
        exact .block hr hp
      · split at h
        · simp at h
        · rename_i rb2 pend2 hrs
          exact ih st1 rb2 pend2 es st' rb' (.read hr hp hrs) h

/-! ### the reader loop against the specification -/

def Post (st : PState) (rb : RB) (pend fut : Bytes) :
    List Event × Option (PState × RB) → Prop
  | (es, some (st', rb')) =>
      specFrom st (rb.data ++ (pend ++ fut)) = es ++ specFrom st' (rb'.data ++ fut)
        ∧ Inv rb' ∧ StOk st'
        ∧ rb'.data.length ≤ rb.data.length + pend.length
        ∧ parse st' rb' = (.none, st', rb')
  | (es, Option.none) =>
      specFrom st (rb.data ++ (pend ++ fut)) = es ∧ Event.err .spuriousEof ∉ es
        ∧ ∃ e, es.getLast? = some (.err e)

theorem pump_spec : ∀ (fuel : Nat) (st : PState) (rb : RB) (pend fut : Bytes),
    Inv rb → StOk st →
    3 * pend.length + 2 * rb.data.length + hdr st + 1 ≤ fuel →
    Post st rb pend fut (pump parse fuel st rb pend) := by
  intro fuel
  induction fuel with
  | zero => intro st rb pend fut _ _ h; omega
  | succ fuel ih =>
    intro st rb pend fut hinv hst hfuel
    unfold pump
    split
    · -- frame
      rename_i f st' rb' hp
      obtain ⟨h1, h2, h3, h4, h5⟩ := parse_frame st rb f st' rb' (pend ++ fut) hp
      have hinv' : Inv rb' := by unfold Inv at *; omega
      have hst' : StOk st' := by subst h5; trivial
      have hm : 3 * pend.length + 2 * rb'.data.length + hdr st' + 1 ≤ fuel := by
        subst h5
        cases st with
        | begin => have := h4 rfl; simp [hdr] at *; omega
        | header hh adu => simp [hdr] at *; omega
      have ih' := ih st' rb' pend fut hinv' hst' hm
      generalize hq : pump parse fuel st' rb' pend = q at ih'
      obtain ⟨es, r⟩ := q
      cases r with
      | none =>
        simp only [Post] at ih' ⊢
        obtain ⟨i1, i2, e, i3⟩ := ih'
        refine ⟨by rw [h1, i1], by simp [i2], e, ?_⟩
        cases es with
        | nil => simp at i3
        | cons a t => simpa [List.getLast?_cons_cons] using i3
      | some v =>
        obtain ⟨st2, rb2⟩ := v
        simp only [Post] at ih' ⊢
        obtain ⟨i1, i2, i3, i4, i5⟩ := ih'
        exact ⟨by rw [h1, i1]; simp, i2, i3, by omega, i5⟩
    · -- error
      rename_i e st' rb' hp
      obtain ⟨h1, h2, _⟩ := parse_err st rb e st' rb' (pend ++ fut) hp
      simp only [Post]
      refine ⟨h1, ?_, e, by simp⟩
      simp; exact fun h => h2.ne_spurious h.symm
    · -- none
      rename_i st' rb' hp
      obtain ⟨h1, h2, h3, h4, h5, h6⟩ := parse_none st rb st' rb' (pend ++ fut) hp
      obtain ⟨hst', hmeas⟩ := parse_none_stok st rb st' rb' hst hp
      have hinv' : Inv rb' := by unfold Inv at *; omega
      split
      · rename_i hpe
        subst hpe
        simp only [Post]
        exact ⟨by simpa using h1, hinv', hst', by simp; omega, h6⟩
      · rename_i hpe
        have hlt : rb'.data.length < CAP := by have := need_le st' hst'; simp [CAP]; omega
        split
        · rename_i hr
          exact absurd hr (readSome_ne_none rb' pend hinv' hlt)
        · rename_i rb'' pend' hr
          obtain ⟨r1, r2, r3, r4⟩ := readSome_some rb' pend rb'' pend' hinv' hr
          have r2 := r2 hpe
          have hm : 3 * pend'.length + 2 * rb''.data.length + hdr st' + 1 ≤ fuel := by omega
          have ih' := ih st' rb'' pend' fut r3 hst' hm
          have hstream : rb'.data ++ (pend ++ fut) = rb''.data ++ (pend' ++ fut) := by
            rw [← List.append_assoc, ← r1, List.append_assoc]
          generalize hq : pump parse fuel st' rb'' pend' = q at ih'
          obtain ⟨es, r⟩ := q
          cases r with
          | none =>
            simp only [Post] at ih' ⊢
            obtain ⟨i1, i2, i3⟩ := ih'
            exact ⟨by rw [h1, hstream, i1], i2, i3⟩
          | some v =>
            obtain ⟨st2, rb2⟩ := v
            simp only [Post] at ih' ⊢
            obtain ⟨i1, i2, i3, i4, i5⟩ := ih'
            exact ⟨by rw [h1, hstream, i1], i2, i3, by omega, i5⟩

theorem blocked_spec (st : PState) (rb : RB) (hp : parse st rb = (.none, st, rb)) :
    specFrom st rb.data = [] := by
  have h := (parse_none st rb st rb [] hp).2.2.1
  cases st with
  | begin => simp only [need] at h; simpa [specFrom] using specFrames_short _ h
  | header hd adu => simp only [need] at h; simp [specFrom, h]

/-- from any blocked reader state satisfying the invariants, the reader over any chunking yields
    the specification of (buffered bytes ++ the stream) -/
theorem run_spec : ∀ (chunks : List Bytes) (st : PState) (rb : RB),
    Inv rb → StOk st → parse st rb = (.none, st, rb) →
    runChunks parse st rb chunks = specFrom st (rb.data ++ chunks.flatten) := by
  intro chunks
  induction chunks with
  | nil => intro st rb _ _ hb; simp [runChunks, blocked_spec st rb hb]
  | cons c cs ih =>
    intro st rb hinv hst hb
    have hf : 3 * c.length + 2 * rb.data.length + hdr st + 1 ≤ fuelFor rb c := by
      unfold fuelFor; cases st <;> simp [hdr] <;> omega
    have hp := pump_spec (fuelFor rb c) st rb c cs.flatten hinv hst hf
    unfold runChunks
    generalize hq : pump parse (fuelFor rb c) st rb c = q at hp
    obtain ⟨es, r⟩ := q
    cases r with
    | none =>
      simp only [Post] at hp
      simp [hp.1]
    | some v =>
      obtain ⟨st', rb'⟩ := v
      simp only [Post] at hp
      obtain ⟨h1, h2, h3, _, h5⟩ := hp
      simp only [List.flatten_cons]
      rw [h1, ih st' rb' h2 h3 h5]

/-! ### facts about the specification -/

/-- every error in the specification is one of the three header errors -/
theorem specFrames_err_kind : ∀ (n : Nat) (s : Bytes), s.length ≤ n → ∀ e,
    Event.err e ∈ specFrames s → HeaderErr e := by
  intro n
  induction n with
  | zero => intro s hs e he; rw [specFrames_short s (by omega)] at he; simp at he
  | succ n ih =>
    intro s hs e he
    by_cases hl : s.length < 7
    · rw [specFrames_short s hl] at he; simp at he
    · have hl : 7 ≤ s.length := by omega
      cases hph : parseHeader (s.take 7) with
      | error e' =>
        rw [specFrames_err s hl e' hph] at he
        simp at he; subst he
        exact parseHeader_err_kind _ (by simp; omega) _ hph
      | ok v =>
        obtain ⟨hd, adu⟩ := v
        rw [specFrames_ok s hl hd adu hph] at he
        simp only [specFrom] at he
        split at he
        · simp at he
        · simp only [List.mem_cons, reduceCtorEq, false_or] at he
          exact ih _ (by simp [List.length_drop]; omega) e he

/-! ### `format` -/

theorem format_length (tx unit : Nat) (pdu : Bytes) :
    (format tx unit pdu).length = 7 + pdu.length := by
  simp [format, u16be]; omega

theorem format_eq (tx unit : Nat) (pdu : Bytes) :
    format tx unit pdu =
      [tx / 256 % 256, tx % 256, 0, 0, (pdu.length + 1) / 256 % 256, (pdu.length + 1) % 256, unit]
        ++ pdu := by
  simp [format, u16be]

theorem format_wf (tx unit : Nat) (pdu : Bytes) (hu : unit < 256) (hp : Bytes.WF pdu) :
    Bytes.WF (format tx unit pdu) := by
  rw [format_eq]
  intro b hb
  simp only [List.mem_append, List.mem_cons, List.not_mem_nil, or_false] at hb
  rcases hb with (h | h | h | h | h | h | h) | h
  all_goals first | exact hp b h | omega

theorem parseHeader_format (tx unit : Nat) (pdu : Bytes) (htx : tx < 65536)
    (hp : pdu.length ≤ 253) :
    parseHeader [tx / 256 % 256, tx % 256, 0, 0, (pdu.length + 1) / 256 % 256,
      (pdu.length + 1) % 256, unit] = .ok (⟨tx, pdu.length + 1, unit⟩, pdu.length) := by
  have h1 : be16 (tx / 256 % 256) (tx % 256) = tx := be16_u16be htx
  have h2 : be16 ((pdu.length + 1) / 256 % 256) ((pdu.length + 1) % 256) = pdu.length + 1 :=
    be16_u16be (by omega)
  have h3 : be16 0 0 = 0 := rfl
  simp only [parseHeader, h1, h2, h3]
  have : ¬ (pdu.length + 1 > 254) := by omega
  simp [this]

/-! ### consequences used in Props/C05 -/

/-- in no reachable state, with no amount of fuel and no delivery, does the loop hit the
    zero-space `read_some` -/
theorem pump_no_spurious : ∀ (fuel : Nat) (st : PState) (rb : RB) (pend : Bytes), Reach st rb →
    Event.err .spuriousEof ∉ (pump parse fuel st rb pend).1 := by
  intro fuel
  induction fuel with
  | zero => intro st rb pend _; simp [pump]
  | succ fuel ih =>
    intro st rb pend hr
    unfold pump
    split
    · rename_i f st1 rb1 hp
      have := ih st1 rb1 pend (.frame hr hp)
      generalize pump parse fuel st1 rb1 pend = q at this
      obtain ⟨es, r⟩ := q
      simpa using this
    · rename_i e st1 rb1 hp
      obtain ⟨_, h2, _⟩ := parse_err st rb e st1 rb1 [] hp
      simp; exact fun h => h2.ne_spurious h.symm
    · rename_i st1 rb1 hp
      split
      · simp
      · split
        · rename_i hrs
          obtain ⟨hi, hs⟩ := reach_inv hr
          exact absurd hrs (readSome_after_none st rb st1 rb1 pend hi hs hp).2.2
        · rename_i rb2 pend2 hrs
          exact ih st1 rb2 pend2 (.read hr hp hrs)

theorem take7_append (a b c d e f g : Nat) (rest : Bytes) :
    ([a, b, c, d, e, f, g] ++ rest).take 7 = [a, b, c, d, e, f, g] := by simp

theorem drop7_append (a b c d e f g : Nat) (rest : Bytes) :
    ([a, b, c, d, e, f, g] ++ rest).drop 7 = rest := by simp

theorem parseHeader_bad (t1 t0 p1 p0 l1 l0 u : Nat)
    (hbad : be16 p1 p0 ≠ 0 ∨ be16 l1 l0 = 0 ∨ 254 < be16 l1 l0) :
    parseHeader [t1, t0, p1, p0, l1, l0, u]
      = .error (badHeaderErr (be16 p1 p0) (be16 l1 l0)) := by
  simp only [parseHeader, badHeaderErr]
  split
  · rfl
  · split
    · rfl
    · split
      · rfl
      · omega

theorem specFrames_bad_header (t1 t0 p1 p0 l1 l0 u : Nat) (rest : Bytes)
    (hbad : be16 p1 p0 ≠ 0 ∨ be16 l1 l0 = 0 ∨ 254 < be16 l1 l0) :
    specFrames ([t1, t0, p1, p0, l1, l0, u] ++ rest)
      = [.err (badHeaderErr (be16 p1 p0) (be16 l1 l0))] := by
  apply specFrames_err _ (by simp)
  rw [take7_append]
  exact parseHeader_bad t1 t0 p1 p0 l1 l0 u hbad

theorem specFrames_format_append (tx unit : Nat) (pdu rest : Bytes) (htx : tx < 65536)
    (hp : pdu.length ≤ 253) :
    specFrames (format tx unit pdu ++ rest)
      = .frame ⟨some tx, unit, pdu⟩ :: specFrames rest := by
  rw [format_eq, List.append_assoc]
  rw [specFrames_ok _ (by simp) ⟨tx, pdu.length + 1, unit⟩ pdu.length
    (by rw [take7_append]; exact parseHeader_format tx unit pdu htx hp)]
  rw [drop7_append]
  simp [specFrom]

theorem specFrames_msgs_append (ms : List Msg) (hv : ∀ m ∈ ms, m.Valid) (tail : Bytes) :
    specFrames ((ms.map Msg.bytes).flatten ++ tail) = ms.map Msg.event ++ specFrames tail := by
  induction ms with
  | nil => simp
  | cons m ms ih =>
    have hm := hv m (by simp)
    simp only [List.map_cons, List.flatten_cons, List.append_assoc, List.cons_append]
    rw [Msg.bytes, specFrames_format_append _ _ _ _ hm.1 hm.2.2.1,
      ih (fun x hx => hv x (by simp [hx]))]
    rfl

theorem specFrames_nil : specFrames [] = [] := specFrames_short [] (by simp)

/-- decoding then re-encoding: the delivered frames account for a prefix of the stream, byte for
    byte and in order; what is left is an incomplete frame or starts with a rejected header -/
theorem specFrames_reencode : ∀ (n : Nat) (s : Bytes), s.length ≤ n → Bytes.WF s →
    ∃ tail, s = ((specFrames s).map eventBytes).flatten ++ tail
      ∧ (specFrames tail = [] ∨ ∃ e, specFrames tail = [.err e] ∧ specFrames s ≠ []
            ∧ (specFrames s).getLast? = some (.err e)) := by
  intro n
  induction n with
  | zero =>
    intro s hs _
    have h := specFrames_short s (by omega)
    exact ⟨s, by simp [h], .inl h⟩
  | succ n ih =>
    intro s hs hwf
    by_cases hl : s.length < 7
    · have h := specFrames_short s hl
      exact ⟨s, by simp [h], .inl h⟩
    · have hl : 7 ≤ s.length := by omega
      cases hph : parseHeader (s.take 7) with
      | error e' =>
        have h := specFrames_err s hl e' hph
        exact ⟨s, by simp [h, eventBytes], .inr ⟨e', h, by simp [h], by simp [h]⟩⟩
      | ok v =>
        obtain ⟨hd, adu⟩ := v
        have h := specFrames_ok s hl hd adu hph
        simp only [specFrom] at h
        by_cases hb : (s.drop 7).length < adu
        · rw [if_pos hb] at h
          exact ⟨s, by simp [h], .inl h⟩
        · rw [if_neg hb] at h
          -- the header bytes
          have hs7 : s = s.take 7 ++ s.drop 7 := (List.take_append_drop 7 s).symm
          have hlen7 : (s.take 7).length = 7 := by simp; omega
          have hwf7 : Bytes.WF (s.take 7) := fun b hb => hwf b (List.mem_of_mem_take hb)
          generalize hh : s.take 7 = hdr at hph hs7 hlen7 hwf7
          match hdr, hlen7 with
          | [t1, t0, p1, p0, l1, l0, u], _ =>
            simp only [parseHeader] at hph
            split at hph
            · simp at hph
            · split at hph
              · simp at hph
              · split at hph
                · simp at hph
                · rename_i hp0 hl254 hl0
                  simp only [Except.ok.injEq, Prod.mk.injEq] at hph
                  obtain ⟨hhd, hadu⟩ := hph
                  subst hhd
                  simp only [Bytes.WF, List.mem_cons, List.not_mem_nil, or_false] at hwf7
                  have w1 := hwf7 t1 (by simp)
                  have w0 := hwf7 t0 (by simp)
                  have wp1 := hwf7 p1 (by simp)
                  have wp0 := hwf7 p0 (by simp)
                  have wl1 := hwf7 l1 (by simp)
                  have wl0 := hwf7 l0 (by simp)
                  have hbl : adu ≤ s.length - 7 := by
                    have := hb; simp only [List.length_drop] at this; omega
                  have hwfr : Bytes.WF ((s.drop 7).drop adu) :=
                    fun b hb => hwf b (List.mem_of_mem_drop (List.mem_of_mem_drop hb))
                  obtain ⟨tail, ht1, ht2⟩ := ih ((s.drop 7).drop adu)
                    (by simp [List.length_drop]; omega) hwfr
                  refine ⟨tail, ?_, ?_⟩
                  · rw [h]
                    simp only [List.map_cons, List.flatten_cons, eventBytes, Option.getD_some,
                      List.append_assoc]
                    rw [← ht1, format_eq]
                    have e1 : be16 t1 t0 / 256 % 256 = t1 ∧ be16 t1 t0 % 256 = t0 := by
                      unfold be16; omega
                    have e2 : p1 = 0 ∧ p0 = 0 := by unfold be16 at hp0; omega
                    have e3 : ((s.drop 7).take adu).length = adu := by
                      simp [List.length_take]; omega
                    have e4 : (adu + 1) / 256 % 256 = l1 ∧ (adu + 1) % 256 = l0 := by
                      unfold be16 at hadu hl254 hl0; omega
                    rw [e3, e1.1, e1.2, e4.1, e4.2]
                    obtain ⟨rfl, rfl⟩ := e2
                    rw [List.append_assoc, List.take_append_drop]
                    exact hs7
                  · rcases ht2 with ht | ⟨e, he1, he2, he3⟩
                    · exact .inl ht
                    · refine .inr ⟨e, he1, by simp [h], ?_⟩
                      rw [h]
                      cases hrest : specFrames ((s.drop 7).drop adu) with
                      | nil => exact absurd hrest he2
                      | cons a t => rw [hrest] at he3; simpa [List.getLast?_cons_cons] using he3

end Rodbus.Mbap
