import RodbusModel.Lemmas.ClientSettle
import RodbusModel.Lemmas.ClientSessions
/-
  Between script steps the reader of the request in flight has nothing to deliver, and what the
  clock does to a request in flight (C12 at run level).

  * `Quiet F s`: if a request is in flight in `s` (and the task exists), the reader polled on its
    transport reports `blocked`: no bytes are pending on the transport and the read buffer holds
    no complete frame and no error.
  * `settled_blocked`: for a framing whose parser consumes or blocks with a parser-state weight
    of at most 1 (MBAP, RTU) the fuel of `settled` suffices: the task is blocked afterwards.
  * `runState_quiet`: `Quiet` holds after every script (the clock does not touch the reader).
  * `advance_before_deadline` / `advance_reaches_deadline`: what `Step.advance` does to a request
    in flight whose reader is quiet.
  * `applyStep_log`: what a script step logs by itself is never a `.fin`; `taskLog_fins`:
    the task log of a run is a sublist of the log and has all its `.fin` entries.
-/
namespace Rodbus.Client

def LogEntry.isFin : LogEntry → Bool
  | .fin .. => true
  | _ => false

section
variable {σ : Type}

/-- the reader of the request in flight has nothing to deliver -/
def Quiet (F : Framing σ) (s : State σ) : Prop :=
  s.alive = true → ∀ m r tx dl, s.pos = .inflight m r tx dl → (pollReader F s m).1 = .blocked

theorem posW_le (p : Pos) : posW p ≤ 3 := by
  cases p with
  | failFor dl b => cases b <;> simp [posW]
  | _ => simp [posW]

/-- the fuel of `settled` suffices when the weight of the parser state is at most 1 -/
theorem settled_blocked (F : Framing σ) (w : σ → Nat) (hw : ParseMeasure F w)
    (hb : ∀ st, w st ≤ 1) (s : State σ) : Blocked F (settled F s) := by
  rcases settle_progress F w hw (settleFuel s) s with h | h
  · exact h
  · exfalso
    have h1 := posW_le s.pos
    have h2 := heldW_le s.held
    have h3 := hb s.pst
    simp only [mu, ctl, rho, settleFuel] at h
    omega

theorem blocked_quiet (F : Framing σ) (s : State σ) (h : Blocked F s) : Quiet F s := by
  intro ha m r tx dl hp
  have ht := h.1
  rw [tick_inflight_eq F s m r tx dl ha hp] at ht
  exact (tickInflight_none F s m r tx dl ht).1

theorem moveClock_quiet (F : Framing σ) (s : State σ) (target : Nat) (h : Quiet F s) :
    Quiet F (moveClock s target) := by
  intro ha m r tx dl hp
  unfold moveClock
  simp only []
  rw [pollReader_now]
  exact h ha m r tx dl hp

theorem advance_quiet (F : Framing σ) (hS : ∀ x : State σ, Quiet F (settled F x)) (fuel target : Nat)
    (s : State σ) (h : Quiet F s) : Quiet F (advance F fuel target s) := by
  induction fuel generalizing s with
  | zero => exact moveClock_quiet F s target h
  | succ n ih =>
    unfold advance
    split
    · split
      · exact ih _ (hS _)
      · exact moveClock_quiet F s target h
    · exact moveClock_quiet F s target h

theorem stepState_quiet (F : Framing σ) (hS : ∀ x : State σ, Quiet F (settled F x)) (s : State σ)
    (st : Step) (h : Quiet F s) : Quiet F (stepState F s st) := by
  unfold stepState
  split
  · exact advance_quiet F hS _ _ s h
  · exact hS _

theorem runState_quiet (F : Framing σ) (hS : ∀ x : State σ, Quiet F (settled F x)) (s : State σ)
    (steps : List Step) (h : Quiet F s) : Quiet F (runState F s steps) := by
  induction steps generalizing s with
  | nil => exact h
  | cons st rest ih => exact ih _ (stepState_quiet F hS s st h)

/-- after every script the reader of the request in flight has nothing to deliver -/
theorem reachable_quiet (F : Framing σ) (w : σ → Nat) (hw : ParseMeasure F w)
    (hb : ∀ st, w st ≤ 1) (cap maxTo : Nat) (d : Decode) (coins : List Bool) (steps : List Step) :
    Quiet F (runState F (State.init F cap maxTo d coins) steps) := by
  apply runState_quiet F (fun x => blocked_quiet F _ (settled_blocked F w hw hb x))
  intro _ m r tx dl hp
  simp [State.init] at hp

theorem mbapW_le (st : Mbap.PState) : mbapW st ≤ 1 := by cases st <;> simp [mbapW]

/-! ### the clock and the request in flight -/

/-- strictly before the deadline of the request in flight `Step.advance` only moves the clock -/
theorem advance_before_deadline (F : Framing σ) (s : State σ) (m : Nat) (r : Req) (tx dl ms : Nat)
    (ha : s.alive = true) (hp : s.pos = .inflight m r tx dl) (hms : s.now + ms < dl) :
    stepState F s (.advance ms) = { s with now := s.now + ms } := by
  have hnt : nextTimer s = some dl := by simp [nextTimer, ha, hp]
  have hfu : advanceFuel s = (s.queue.length + s.phases.length + 1) + 1 := by
    simp [advanceFuel]
  show advance F (advanceFuel s) (s.now + ms) s = _
  rw [hfu]
  unfold advance
  rw [hnt]
  have : ¬ dl ≤ s.now + ms := by omega
  simp only [this, if_false]
  unfold moveClock
  rw [hnt]
  have e : max s.now (min dl (s.now + ms)) = s.now + ms := by omega
  simp only [e]

/-- when the clock reaches the deadline of the request in flight and the reader has nothing to
    deliver, the request completes with a timeout stamped with the deadline -/
theorem advance_reaches_deadline (F : Framing σ) (s : State σ) (m : Nat) (r : Req)
    (tx dl ms : Nat) (ha : s.alive = true) (hp : s.pos = .inflight m r tx dl)
    (hq : (pollReader F s m).1 = .blocked) (hnow : s.now ≤ dl) (hms : dl ≤ s.now + ms) :
    LogEntry.done r.rid r.style .timeout dl ∈ (stepState F s (.advance ms)).log := by
  have hnt : nextTimer s = some dl := by simp [nextTimer, ha, hp]
  have hfu : advanceFuel s = (s.queue.length + s.phases.length + 1) + 1 := by
    simp [advanceFuel]
  show _ ∈ (advance F (advanceFuel s) (s.now + ms) s).log
  rw [hfu]
  unfold advance
  rw [hnt]
  simp only [hms, if_true]
  have hmc : moveClock s dl = { s with now := dl } := by
    unfold moveClock
    rw [hnt]
    simp only [Nat.min_self]
    have : max s.now dl = dl := by omega
    rw [this]
  rw [hmc]
  generalize hsm : ({ s with now := dl } : State σ) = sm
  have hsma : sm.alive = true := by rw [← hsm]; exact ha
  have hsmp : sm.pos = .inflight m r tx dl := by rw [← hsm]; exact hp
  have hpr : pollReader F sm m = (.blocked, { (pollReader F s m).2 with now := dl }) := by
    rw [← hsm, pollReader_now, hq]
  have htick : tick F sm = some (finish { (pollReader F s m).2 with now := dl } m r .timeout) := by
    unfold tick
    simp only [hsma, Bool.not_true, Bool.false_eq_true, if_false, hsmp]
    exact tickInflight_expired_blocked F sm _ m r tx dl hpr (by rw [← hsm]; exact Nat.le_refl _)
  have hfuel : settleFuel sm = (settleFuel sm - 1) + 1 := by simp [settleFuel]
  have hst : settled F sm
      = settle F (settleFuel sm - 1) (finish { (pollReader F s m).2 with now := dl } m r .timeout) := by
    unfold settled
    rw [hfuel, settle_succ_some F _ sm _ htick]
    simp
  rw [hst]
  generalize hfin : finish { (pollReader F s m).2 with now := dl } m r .timeout = fin
  have hin : LogEntry.done r.rid r.style .timeout dl ∈ fin.log := by
    rw [← hfin]
    rcases finish_log_cases ({ (pollReader F s m).2 with now := dl } : State σ) m r .timeout
      with h | ⟨k, h⟩ <;> rw [h] <;> simp
  obtain ⟨n1, h1⟩ := tsteps_log_ext (settle_steps F (settleFuel sm - 1) fin)
  obtain ⟨n2, h2⟩ := tsteps_log_ext (advance_steps F (s.queue.length + s.phases.length + 1)
    (s.now + ms) (settle F (settleFuel sm - 1) fin))
  have h1' : (settle F (settleFuel sm - 1) fin).log = n1 ++ fin.log := h1
  have h2' : (advance F (s.queue.length + s.phases.length + 1) (s.now + ms)
      (settle F (settleFuel sm - 1) fin)).log = n2 ++ (settle F (settleFuel sm - 1) fin).log := h2
  rw [h2', h1']
  simp [hin]

/-! ### what the script steps log themselves -/

theorem completeAll_log (s : State σ) (res : Res) (rs : List Req) :
    (completeAll s res rs).log = (rs.map fun r => doneEntry (core s) r res).reverse ++ s.log :=
  congrArg Core.log (core_completeAll s res rs)

/-- a script step by itself appends to the log, and never a `.fin` -/
theorem applyStep_log (s : State σ) (st : Step) :
    ∃ unew, (applyStep s st).log = unew ++ s.log ∧ ∀ e ∈ unew, e.isFin = false := by
  have nil : ∀ t : State σ, t.log = s.log → ∃ unew, t.log = unew ++ s.log ∧ ∀ e ∈ unew, e.isFin = false :=
    fun t h => ⟨[], h, by simp⟩
  have trySet : ∀ op c, ∃ unew, (trySetting s op c).log = unew ++ s.log ∧ ∀ e ∈ unew, e.isFin = false := by
    intro op c
    unfold trySetting
    split
    · exact ⟨[.cmdErr op], rfl, by simp [LogEntry.isFin]⟩
    · exact nil _ rfl
  cases st with
  | newSession => simp only [applyStep, addPhase]; split <;> exact nil _ rfl
  | waitEnabled => simp only [applyStep, addPhase]; split <;> exact nil _ rfl
  | failFor ms => simp only [applyStep, addPhase]; split <;> exact nil _ rfl
  | enable h => simp only [applyStep]; split; exact trySet _ _; exact nil _ rfl
  | disable h => simp only [applyStep]; split; exact trySet _ _; exact nil _ rfl
  | setDecode d => simp only [applyStep]; split; exact trySet _ _; exact nil _ rfl
  | shutdown h => simp only [applyStep]; split <;> exact nil _ rfl
  | cloneHandle => exact nil _ rfl
  | dropHandle i => exact nil _ rfl
  | rx x => simp only [applyStep, pushRx]; split <;> exact nil _ rfl
  | failWrite => simp only [applyStep]; split <;> exact nil _ rfl
  | advance ms => exact nil _ rfl
  | abort =>
    simp only [applyStep, abort]
    split
    · exact nil _ rfl
    · refine ⟨_, completeAll_log s .shutdown _, ?_⟩
      intro e he
      simp only [List.mem_reverse, List.mem_map] at he
      obtain ⟨r, _, rfl⟩ := he
      rfl
  | submit op h r =>
    simp only [applyStep]
    split
    · unfold submit
      split
      · exact ⟨[_], rfl, by simp [LogEntry.isFin]⟩
      · split
        · exact ⟨[_, _], rfl, by simp [LogEntry.isFin]⟩
        · exact ⟨[_], rfl, by simp [LogEntry.isFin]⟩
      · simp only []
        split
        · split
          · exact ⟨[_, _], rfl, by simp [LogEntry.isFin]⟩
          · split
            · exact ⟨[_, _], rfl, by simp [LogEntry.isFin]⟩
            · exact nil _ rfl
        · split
          · exact ⟨[_], rfl, by simp [LogEntry.isFin]⟩
          · exact nil _ rfl
    · exact ⟨[_], rfl, by simp [LogEntry.isFin]⟩

theorem stepBase_log (s : State σ) (st : Step) :
    ∃ unew, (stepBase s st).log = unew ++ s.log ∧ ∀ e ∈ unew, e.isFin = false := by
  cases st with
  | advance ms => exact ⟨[], rfl, by simp⟩
  | _ => exact applyStep_log s _

theorem stepState_log_base (F : Framing σ) (s : State σ) (st : Step) :
    ∃ new, (stepState F s st).log = new ++ (stepBase s st).log := by
  cases st with
  | advance ms => exact tsteps_log_ext (advance_steps F _ _ s)
  | _ => exact tsteps_log_ext (settled_steps F _)

/-- the task log of a run is the log of the run without what the script steps logged themselves:
    a sublist of it that has all its `.fin` entries, in the same order -/
theorem taskLog_fins (F : Framing σ) (s : State σ) (steps : List Step) :
    List.Sublist (taskLog F s steps ++ s.log) (runState F s steps).log
      ∧ (runState F s steps).log.filter (·.isFin)
          = (taskLog F s steps).filter (·.isFin) ++ s.log.filter (·.isFin) := by
  induction steps generalizing s with
  | nil => exact ⟨by simp [taskLog, runState], by simp [taskLog, runState]⟩
  | cons st rest ih =>
    obtain ⟨ih1, ih2⟩ := ih (stepState F s st)
    obtain ⟨unew, hu, hfin⟩ := stepBase_log s st
    obtain ⟨new, hn⟩ := stepState_log_base F s st
    have hls : logSince (stepBase s st).log (stepState F s st).log = new := by
      rw [hn, logSince_append]
    have hrun : runState F s (st :: rest) = runState F (stepState F s st) rest := rfl
    have htl : taskLog F s (st :: rest) = taskLog F (stepState F s st) rest ++ new := by
      simp only [taskLog, hls]
    have hlog : (stepState F s st).log = new ++ (unew ++ s.log) := by rw [hn, hu]
    rw [hrun, htl]
    constructor
    · refine List.Sublist.trans ?_ ih1
      rw [hlog, List.append_assoc]
      refine List.Sublist.append (List.Sublist.refl _) (List.Sublist.append (List.Sublist.refl _) ?_)
      exact List.sublist_append_right _ _
    · rw [ih2, hlog]
      have : unew.filter (·.isFin) = [] := by
        rw [List.filter_eq_nil_iff]
        intro e he; simp [hfin e he]
      simp [List.filter_append, this]

theorem stepBase_done_cause (s : State σ) (st : Step) (e : LogEntry) (he : e.isDone = true)
    (h : e ∈ (stepBase s st).log) : e ∈ s.log ∨ UserDone e := by
  cases st with
  | advance ms => exact Or.inl h
  | _ => all_goals exact applyStep_done_cause s _ e he h

/-- every completion in the log of a run is in the task log, or was produced by a script step
    itself (`shutdown` / `bad request`), or was there before -/
theorem taskLog_done (F : Framing σ) (s : State σ) (steps : List Step) (e : LogEntry)
    (he : e.isDone = true) (h : e ∈ (runState F s steps).log) :
    e ∈ taskLog F s steps ∨ e ∈ s.log ∨ UserDone e := by
  induction steps generalizing s with
  | nil => exact Or.inr (Or.inl h)
  | cons st rest ih =>
    have h' : e ∈ (runState F (stepState F s st) rest).log := h
    obtain ⟨new, hn⟩ := stepState_log_base F s st
    have hls : logSince (stepBase s st).log (stepState F s st).log = new := by
      rw [hn, logSince_append]
    have htl : taskLog F s (st :: rest) = taskLog F (stepState F s st) rest ++ new := by
      simp only [taskLog, hls]
    rw [htl]
    rcases ih _ h' with h1 | h1 | h1
    · exact Or.inl (List.mem_append_left _ h1)
    · rw [hn] at h1
      rcases List.mem_append.mp h1 with h2 | h2
      · exact Or.inl (List.mem_append_right _ h2)
      · exact Or.inr (stepBase_done_cause s st e he h2)
    · exact Or.inr (Or.inr h1)

/-- the outcomes of the phase that is still running at the head of a task log are the results of
    the completions logged since the last `.fin`, oldest first -/
def LogEntry.doneRes : LogEntry → Option Res
  | .done _ _ res _ => some res
  | _ => none

/-- the results of the completions in the newest segment of a log (everything since the last
    `.fin`), oldest first -/
def curOutcomes (L : List LogEntry) : List Res :=
  ((L.takeWhile fun e => !e.isFin).filterMap LogEntry.doneRes).reverse

theorem phasesOf_fst (L : List LogEntry) : (phasesOf L).1 = curOutcomes L := by
  induction L with
  | nil => rfl
  | cons e L ih =>
    cases e with
    | done rid st res t =>
      show (phasesOf L).1 ++ [res] = (res :: _).reverse
      rw [ih, List.reverse_cons]; rfl
    | fin k t => rfl
    | sub rid e => exact ih
    | cmdErr op => exact ih
    | tx b => exact ih

end

end Rodbus.Client
