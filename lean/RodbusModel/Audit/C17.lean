import RodbusModel.Props.C17
/- axiom audit for C17: every line must report a subset of {propext, Classical.choice, Quot.sound} -/
#print axioms Rodbus.C17.broadcast_iff
#print axioms Rodbus.C17.silent_unless_addressed
#print axioms Rodbus.C17.silent_unless_addressed_rtu
#print axioms Rodbus.C17.silent_session
#print axioms Rodbus.C17.broadcast_never_answered
#print axioms Rodbus.C17.broadcast_write
#print axioms Rodbus.C17.broadcast_malformed_ignored
#print axioms Rodbus.C17.broadcast_read_ignored
#print axioms Rodbus.C17.unit0_ordinary_on_tcp
#print axioms Rodbus.C17.unit0_served_on_tcp
#print axioms Rodbus.C17.unit0_unconfigured_on_tcp
#print axioms Rodbus.C17.silent_unless_addressed_or_denied
#print axioms Rodbus.C17.denied_answered_even_if_unconfigured
