/-
  Shared conventions of the rodbus model.

  * a byte is a `Nat` (well-formed when `< 256`), a u16 a `Nat` (`< 65536`); byte strings are
    `List Nat`.  Unbounded naturals keep `omega` effective; the places where the Rust code could
    wrap or panic are covered by separate `bounds_*` lemmas (Props/C07).
  * model files import nothing outside core Lean, so the line-protocol driver links as an
    executable.
-/
namespace Rodbus

abbrev Bytes := List Nat

/-- every element is a byte -/
def Bytes.WF (bs : Bytes) : Prop := ∀ b ∈ bs, b < 256

instance (bs : Bytes) : Decidable (Bytes.WF bs) := by unfold Bytes.WF; exact inferInstance

/-- big-endian decode of two bytes (`ReadCursor::read_u16_be`, `ReadBuffer::read_u16_be`) -/
def be16 (hi lo : Nat) : Nat := hi * 256 + lo

/-- big-endian encode of a u16 (`WriteCursor::write_u16_be`) -/
def u16be (n : Nat) : Bytes := [n / 256 % 256, n % 256]

/-- little-endian encode of a u16 (`WriteCursor::write_u16_le`) -/
def u16le (n : Nat) : Bytes := [n % 256, n / 256 % 256]

theorem be16_lt {hi lo : Nat} (h1 : hi < 256) (h2 : lo < 256) : be16 hi lo < 65536 := by
  unfold be16; omega

theorem be16_u16be {n : Nat} (h : n < 65536) : be16 (n / 256 % 256) (n % 256) = n := by
  unfold be16; omega

theorem u16be_be16 {hi lo : Nat} (h1 : hi < 256) (h2 : lo < 256) :
    u16be (be16 hi lo) = [hi, lo] := by
  unfold u16be be16
  have : (hi * 256 + lo) / 256 % 256 = hi := by omega
  have : (hi * 256 + lo) % 256 = lo := by omega
  simp [*]

theorem u16be_wf (n : Nat) : Bytes.WF (u16be n) := by
  intro b hb; simp [u16be] at hb; omega

theorem u16le_wf (n : Nat) : Bytes.WF (u16le n) := by
  intro b hb; simp [u16le] at hb; omega

theorem Bytes.WF_append {a b : Bytes} : Bytes.WF (a ++ b) ↔ Bytes.WF a ∧ Bytes.WF b := by
  simp [Bytes.WF, or_imp, forall_and]

theorem Bytes.WF_cons {a : Nat} {b : Bytes} : Bytes.WF (a :: b) ↔ a < 256 ∧ Bytes.WF b := by
  simp [Bytes.WF]

theorem Bytes.WF_nil : Bytes.WF [] := by simp [Bytes.WF]

/-! ### text helpers for the line-protocol driver (not used in theorems) -/

def hexDigit (n : Nat) : Char :=
  if n < 10 then Char.ofNat (48 + n) else Char.ofNat (87 + n)

def hexByte (b : Nat) : String := String.ofList [hexDigit (b / 16 % 16), hexDigit (b % 16)]

def toHex (bs : Bytes) : String := String.join (bs.map hexByte)

def hexVal (c : Char) : Option Nat :=
  if '0' ≤ c ∧ c ≤ '9' then some (c.toNat - 48)
  else if 'a' ≤ c ∧ c ≤ 'f' then some (c.toNat - 87)
  else if 'A' ≤ c ∧ c ≤ 'F' then some (c.toNat - 55)
  else none

def ofHexChars : List Char → Option Bytes
  | [] => some []
  | [_] => none
  | a :: b :: rest => do
    let x ← hexVal a
    let y ← hexVal b
    let r ← ofHexChars rest
    pure ((x * 16 + y) :: r)

/-- `-` denotes the empty string -/
def ofHex (s : String) : Option Bytes :=
  if s = "-" then some [] else ofHexChars s.toList

def hexOrDash (bs : Bytes) : String := if bs.isEmpty then "-" else toHex bs

end Rodbus
