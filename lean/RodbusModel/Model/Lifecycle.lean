import RodbusModel.Model.Retry
/-
  M8 (outer loop): `TcpChannelTask::{run, run_inner, connect, try_connect_and_run,
  run_connection, handle_failed_connection}` (tcp/client.rs) together with the command handling of
  `ClientLoop::{wait_for_enabled, fail_next_request, fail_requests_for, run, run_cmd}` at the
  granularity of whole requests.  The connection-state listener is a lock-step gate: the task is
  blocked inside `listener.update(..)` until the environment releases it.

  Time is abstracted to "which timer fires next"; the peer is one of six behaviours per
  connection attempt.  Serial channels (`SerialChannelTask`) have the same structure with
  `PortState::{Disabled, Wait, Open, Shutdown}`.

  TLS channels are the same task with `TcpTaskConnectionHandler::Tls`: the handshake runs inside
  `try_connect_and_run` after the TCP connect succeeded, and its failure goes through
  `handle_failed_connection` exactly like a refused connect (`Behaviour.hsfail`).  The command
  queue also carries `Setting::DecodeLevel` (`Cmd.decode`), which changes the decode level and
  nothing else, in every phase.
-/
namespace Rodbus.Life

/-- `hsfail`: the TCP connect succeeds, the connection handler (TLS handshake) fails -/
inductive Behaviour | refuse | close | garbage | silent | serve | hsfail
deriving DecidableEq, Repr

/-- the attempt ends in `handle_failed_connection`: `connect()` returned an error, or the
    connection handler (TLS handshake) did -/
def Behaviour.fails : Behaviour → Bool
  | .refuse | .hsfail => true
  | _ => false

/-- what the user does through a handle -/
inductive Action
  | enable | disable | shutdown | dropAll | request (id : Nat) | setDecode (lvl : Nat)
deriving DecidableEq, Repr

/-- commands in the mpsc queue -/
inductive Cmd
  | enable | disable | shutdown | request (id : Nat) | decode (lvl : Nat)
deriving DecidableEq, Repr

/-- `ClientState` -/
inductive St
  | disabled | connecting | connected | waitFail (d : Nat) | waitDisc (d : Nat) | shutdown
deriving DecidableEq, Repr

/-- observable events -/
inductive Ev
  | gate (s : St)
  | idle
  | act (a : Action)
  | done (id : Nat) (res : String)
deriving DecidableEq, Repr

/-- what the task does next once it is released / woken -/
inductive Phase
  | waitEnabled                 -- `wait_for_enabled`
  | connect                     -- after `Connecting`: `connect()` (fail_requests ‖ host.connect)
  | sessionStart (b : Behaviour) -- after `Connected`: reset retry, `ClientLoop::run`
  | session (b : Behaviour)      -- inside `ClientLoop::run`
  | failFor                      -- after a wait state: `fail_requests_for(delay)`
  | afterDisable                 -- `if !is_enabled { update(Disabled) }` then loop
  | finished
deriving DecidableEq, Repr

/-- where the task is blocked -/
inductive Pos
  | gate (s : St) (next : Phase)
  | idle (resume : Phase)
  | done
deriving DecidableEq, Repr

structure S where
  enabled : Bool := false
  queue : List Cmd := []
  handles : Bool := true
  retry : Retry.Doubling
  behaviours : List Behaviour
  /-- the peer behaviour in force for the connection attempt announced last -/
  cur : Behaviour := .serve
  maxto : Nat := 0
  tcount : Nat := 0
  /-- the task has not terminated -/
  alive : Bool := true
  /-- `ClientLoop::decode` (an opaque level number) -/
  decode : Nat := 0
  log : List Ev := []
deriving Repr

def S.emit (s : S) (e : Ev) : S := { s with log := s.log ++ [e] }

def nextBehaviour (s : S) : Behaviour × S :=
  match s.behaviours with
  | [] => (.serve, s)
  | [b] => (b, s)
  | b :: rest => (b, { s with behaviours := rest })

/-- run the task from `phase` until it blocks (gate or idle). `fuel` bounds the number of
    commands processed; every iteration consumes a queued command or blocks. -/
def advance : Nat → Phase → S → S × Pos
  | 0, ph, s => (s, .idle ph)
  | fuel + 1, ph, s =>
    match ph with
    | .finished =>
      -- the task is gone: every queued request is dropped, i.e. completed with Shutdown
      let s := s.queue.foldl (fun s c => match c with
        | .request id => s.emit (.done id "shutdown")
        | _ => s) s
      ({ s with queue := [], alive := false }, .done)
    | .afterDisable => (s, .gate .disabled .waitEnabled)
    | .waitEnabled =>
      if s.enabled then
        -- the environment of an attempt is fixed when the attempt is announced
        let (b, s) := nextBehaviour s
        ({ s with cur := b }, .gate .connecting .connect)
      else match s.queue with
        | [] =>
          if s.handles then (s, .idle .waitEnabled)
          else (s, .gate .shutdown .finished)
        | c :: q =>
          let s := { s with queue := q }
          match c with
          | .request id => advance fuel .waitEnabled (s.emit (.done id "noconn"))
          | .enable => advance fuel .waitEnabled { s with enabled := true }
          | .disable => advance fuel .waitEnabled s
          | .decode l => advance fuel .waitEnabled { s with decode := l }
          | .shutdown => (s, .gate .shutdown .finished)
    | .connect =>
      -- queued commands are served by `fail_requests` before the connect result is looked at
      match s.queue with
      | c :: q =>
        let s := { s with queue := q }
        match c with
        | .request id => advance fuel .connect (s.emit (.done id "noconn"))
        | .enable => advance fuel .connect s
        | .decode l => advance fuel .connect { s with decode := l }
        | .disable => advance fuel .afterDisable { s with enabled := false }
        | .shutdown => (s, .gate .shutdown .finished)
      | [] =>
        if !s.handles then (s, .gate .shutdown .finished)
        else if s.cur.fails then
          -- refused connect or failed handshake: `handle_failed_connection`
          let (d, r) := Retry.afterFailedConnect s.retry
          let s := { s with retry := r }
          (s, .gate (.waitFail d) .failFor)
        else (s, .gate .connected (.sessionStart s.cur))
    | .sessionStart b =>
      advance fuel (.session b) { s with retry := Retry.reset s.retry, tcount := 0 }
    | .session b =>
      match b with
      | .refuse | .hsfail => (s, .idle (.session b))   -- not reachable
      | .close | .garbage =>
        -- the peer's EOF / garbage ends the session
        let d := Retry.afterDisconnect s.retry
        (s, .gate (.waitDisc d) .failFor)
      | .silent | .serve =>
        match s.queue with
        | [] =>
          if s.handles then (s, .idle (.session b))
          else (s, .gate .shutdown .finished)
        | c :: q =>
          let s := { s with queue := q }
          match c with
          | .enable => advance fuel (.session b) s
          | .decode l => advance fuel (.session b) { s with decode := l }
          | .disable => advance fuel .afterDisable { s with enabled := false }
          | .shutdown => (s, .gate .shutdown .finished)
          | .request id =>
            if b = .serve then
              advance fuel (.session b) ({ s with tcount := 0 }.emit (.done id "ok.4660"))
            else
              let s := ({ s with tcount := s.tcount + 1 }).emit (.done id "timeout")
              if s.maxto ≠ 0 ∧ s.tcount ≥ s.maxto then
                let d := Retry.afterDisconnect s.retry
                (s, .gate (.waitDisc d) .failFor)
              else advance fuel (.session b) s
    | .failFor =>
      match s.queue with
      | c :: q =>
        let s := { s with queue := q }
        match c with
        | .request id => advance fuel .failFor (s.emit (.done id "noconn"))
        | .enable => advance fuel .failFor s
        | .decode l => advance fuel .failFor { s with decode := l }
        | .disable => advance fuel .afterDisable { s with enabled := false }
        | .shutdown => (s, .gate .shutdown .finished)
      | [] =>
        if !s.handles then (s, .gate .shutdown .finished)
        else
          -- the delay elapses: back to the top of `run_inner` (still enabled)
          advance fuel .waitEnabled s

def applyAction (s : S) (a : Action) : S :=
  if !s.handles then s        -- no handle left to act through
  else
    let s := s.emit (.act a)
    match a with
    | .enable => { s with queue := s.queue ++ [.enable] }
    | .disable => { s with queue := s.queue ++ [.disable] }
    | .shutdown => { s with queue := s.queue ++ [.shutdown] }
    | .request id => { s with queue := s.queue ++ [.request id] }
    | .setDecode l => { s with queue := s.queue ++ [.decode l] }
    | .dropAll => { s with handles := false }

def fuelFor (s : S) : Nat := 2 * s.queue.length + 8

/-- one stop: the environment acts while the task is blocked, then the task runs on -/
def stop (s : S) (pos : Pos) (acts : List Action) : S × Pos :=
  match pos with
  | .done => (s, .done)
  | .gate st next =>
    -- the environment observes the state (the callback), acts, then releases the task
    let s := s.emit (.gate st)
    let s := acts.foldl applyAction s
    advance (fuelFor s) next s
  | .idle resume =>
    let s := s.emit .idle
    let s := acts.foldl applyAction s
    advance (fuelFor s) resume s

/-- run a script of stops; stops as soon as `Shutdown` has been announced and released -/
def runStops : S → Pos → List (List Action) → S × Pos
  | s, pos, [] => (s, pos)
  | s, .done, _ => (s, .done)
  | s, pos, acts :: rest =>
    let (s', pos') := stop s pos acts
    runStops s' pos' rest

/-- the task from its start (`run`: announce `Disabled`, then `run_inner`) -/
def start (s : S) : S × Pos := (s, .gate .disabled .waitEnabled)

end Rodbus.Life
