#!/bin/bash
# copies the results of a round-2 seeding agent (/tmp/seed2-Cxx/out/m1..m3) to seeded/Cxx-m4..m6
set -e
for c in "$@"; do
  for i in 1 2 3; do
    d=/tmp/seed2-$c/out/m$i
    [ -f $d/patch.diff ] || { echo "$c m$i: missing"; continue; }
    t=/verif/seeded/$c-m$((i+3))
    mkdir -p $t
    cp $d/patch.diff $d/demo.rs $d/meta.json $t/
  done
done
ls /verif/seeded | grep -c "^C"
