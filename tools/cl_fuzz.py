#!/usr/bin/env python3
"""Random `cl` scripts: generated incrementally against the production harness (so that replies
can target the request that is really in flight), then compared with the Lean model.

  cl_fuzz.py --n 3000 --steps 26 --seed 1 [--framing t|r] [--mode normal|blocked] [--out DIR]

Scripts whose outcome depends on the polling order inside `tokio::select!` (the model reports how
many scheduler coins it consumed) are checked against the set of model outputs over all coin
assignments; every run of the harness must land inside that set.
"""
import argparse, os, random, subprocess, sys, collections

HERE = os.path.dirname(os.path.abspath(__file__))
HARNESS = os.path.join(HERE, "verif-harness")
MODEL = os.path.join(HERE, "lean/.lake/build/bin/cl_model")


def run(cmd, lines):
    p = subprocess.run(cmd, input="\n".join(lines) + "\n", capture_output=True, text=True)
    out = p.stdout.split("\n")
    if out and out[-1] == "":
        out.pop()
    if cmd[0] == HARNESS and any(l.startswith("@@") for l in out):
        # newer harness builds mark result lines (third-party code may print to stdout)
        out = [l[2:] for l in out if l.startswith("@@")]
    assert len(out) == len(lines), (len(out), len(lines), p.stderr[:500])
    return out


def crc16(data):
    crc = 0xFFFF
    for b in data:
        crc ^= b
        for _ in range(8):
            crc = (crc >> 1) ^ 0xA001 if crc & 1 else crc >> 1
    return crc


def hexs(bs):
    return "".join("%02x" % b for b in bs) if bs else "-"


def gen_bits(n, seed):
    return [(i * 7 + seed) % 3 == 0 for i in range(n)]


def gen_regs(n, seed):
    return [(i * 31 + seed) % 65536 for i in range(n)]


def pack_bits(bits):
    out = []
    for i in range(0, len(bits), 8):
        b = 0
        for k, v in enumerate(bits[i:i + 8]):
            if v:
                b |= 1 << k
        out.append(b)
    return out


FC = {"rc": 1, "rd": 2, "rh": 3, "ri": 4, "wc": 5, "wr": 6, "wC": 15, "wR": 16}


class Req:
    def __init__(self, rid, kind, unit, timeout, a, b, tmo_tok=None):
        self.rid, self.kind, self.unit, self.timeout, self.a, self.b = rid, kind, unit, timeout, a, b
        self.tmo_tok = tmo_tok if tmo_tok is not None else str(timeout)

    def args(self):
        return "%s.%s" % (self.a, self.b)

    def values(self):
        b = self.b
        if self.kind == "wC":
            if b == "-":
                return []
            if b.startswith("n"):
                n, s = b[1:].split("s")
                return gen_bits(int(n), int(s))
            return [c == "1" for c in b]
        if self.kind == "wR":
            if b == "-":
                return []
            if b.startswith("n"):
                n, s = b[1:].split("s")
                return gen_regs(int(n), int(s))
            return [int(x) for x in b.split("/")]
        return None

    def pdu(self):
        """request PDU as the client transmits it (None if it cannot be built simply)"""
        fc = FC[self.kind]
        a = int(self.a) % 65536
        if self.kind in ("rc", "rd", "rh", "ri"):
            c = int(self.b) % 65536
            return [fc, a >> 8, a & 255, c >> 8, c & 255]
        if self.kind == "wc":
            return [fc, a >> 8, a & 255, 0xFF if int(self.b) != 0 else 0, 0]
        if self.kind == "wr":
            v = int(self.b) % 65536
            return [fc, a >> 8, a & 255, v >> 8, v & 255]
        vals = self.values()
        n = len(vals)
        if self.kind == "wC":
            body = pack_bits(vals)
        else:
            body = [x for v in vals for x in (v >> 8, v & 255)]
        return [fc, a >> 8, a & 255, (n >> 8) & 255, n & 255, len(body) & 255] + body

    def good_reply(self, rnd):
        fc = FC[self.kind]
        a = int(self.a) % 65536
        if self.kind in ("rc", "rd"):
            n = (int(self.b) + 7) // 8
            return [fc, n & 255] + [rnd.randrange(256) for _ in range(n)]
        if self.kind in ("rh", "ri"):
            n = 2 * int(self.b)
            return [fc, n & 255] + [rnd.randrange(256) for _ in range(n)]
        if self.kind in ("wc", "wr"):
            return self.pdu()
        n = len(self.values())
        return [fc, a >> 8, a & 255, (n >> 8) & 255, n & 255]


def frame(framing, tx, unit, pdu, proto=0, length=None):
    if framing == "t":
        ln = len(pdu) + 1 if length is None else length
        return [tx >> 8, tx & 255, proto >> 8, proto & 255, ln >> 8, ln & 255, unit] + pdu
    body = [unit] + pdu
    c = crc16(body)
    return body + [c & 255, c >> 8]


class Script:
    def __init__(self, rnd, framing, mode):
        self.rnd = rnd
        self.framing = framing
        self.mode = mode
        self.q = rnd.choice([1, 1, 2, 2, 3, 4, 16, 16])
        self.m = rnd.choice([0, 0, 0, 1, 2, 3])
        self.dec = "d%d%d%d" % (rnd.randrange(4), rnd.randrange(3), rnd.randrange(3))
        self.steps = []
        self.plan = []
        self.nreq = 0
        self.reqs = {}          # rid -> Req
        self.enq = []           # commands believed enqueued: rid or None (setting)
        self.handles = [True]
        self.now = 0
        self.killed = False
        self.have_io = False
        self.inflight = None    # (Req or None, tx, unit, fresh)
        self.out = ""
        self.single_style = rnd.choice("RC") if mode == "blocked" else None

    def line(self):
        return "cl %s %s q%d m%d %s" % (self.framing, self.dec, self.q, self.m,
                                        ",".join(self.steps) if self.steps else "-")

    # ---- what the harness told us about the prefix
    def digest(self, out):
        self.out = out
        groups = out.split(" | ")[:-2]  # drop the final settle group and fin
        done = set()
        consumed = set()
        cur = None
        cur_group = None
        for gi, g in enumerate(groups):
            if g == "-":
                continue
            for e in g.split(";"):
                if e.startswith("done."):
                    p = e.split(".")
                    rid, res = p[1], p[2]
                    done.add(rid)
                    if res not in ("shutdown", "badreq"):
                        consumed.add(rid)
                    if res not in ("noconn", "shutdown"):
                        cur = None
                elif e.startswith("tx."):
                    cur = e[3:]
                    cur_group = gi
                elif e.startswith("end."):
                    cur = None
        self.done = done
        # queue occupancy upper bound: everything up to the last command known to have left
        last = -1
        for i, c in enumerate(self.enq):
            if c is not None and c in consumed:
                last = i
        inflight_req = None
        self.inflight = None
        if cur is not None:
            bs = [int(cur[i:i + 2], 16) for i in range(0, len(cur), 2)] if cur != "-" else []
            if self.framing == "t" and len(bs) >= 8:
                tx, unit, pdu = bs[0] * 256 + bs[1], bs[6], bs[7:]
            elif self.framing == "r" and len(bs) >= 4:
                tx, unit, pdu = 0, bs[0], bs[1:-2]
            else:
                tx, unit, pdu = 0, 0, []
            for i, c in enumerate(self.enq):
                if c is None or c in done:
                    continue
                r = self.reqs[c]
                if r.unit == unit and r.pdu() == pdu:
                    inflight_req = r
                    last = max(last, i)
                    break
            fresh = cur_group == len(groups) - 1 and not self.steps[-1].startswith("A")
            self.inflight = (inflight_req, tx, unit, fresh)
        self.occ = len(self.enq) - (last + 1)

    # ---- step generators
    def live_handle(self):
        alive = [i for i, h in enumerate(self.handles) if h]
        r = self.rnd
        if alive and r.random() < 0.93:
            return r.choice(alive)
        return r.randrange(len(self.handles) + 1)

    def new_req(self):
        r = self.rnd
        self.nreq += 1
        rid = "r%d" % self.nreq
        kind = r.choice(["rc", "rc", "rd", "rh", "rh", "ri", "wc", "wr", "wC", "wR"])
        unit = r.choice([1, 1, 1, 0, 7, 255])
        timeout = r.choice([1, 5, 10, 10, 50, 50, 100, 1000, 0] if r.random() < 0.15
                           else [5, 10, 50, 100, 1000])
        if kind in ("rc", "rd", "rh", "ri"):
            lim = 2000 if kind in ("rc", "rd") else 125
            x = r.random()
            if x < 0.80:
                a, b = r.choice([0, 1, 7, 100, 65000]), r.choice([1, 2, 3, 8, 9, 16, 17, min(lim, 125)])
            elif x < 0.86:
                a, b = r.choice([0, 5]), r.choice([lim, lim + 1, 2001, 65535])
            elif x < 0.92:
                a, b = r.choice([65535, 65530, 65000]), r.choice([1, 2, 6, 7, 600])
            else:
                a, b = r.choice([0, 65535]), 0
        elif kind == "wc":
            a, b = r.choice([0, 7, 65535]), r.choice([0, 1])
        elif kind == "wr":
            a, b = r.choice([0, 7, 65535]), r.choice([0, 1, 255, 256, 65535])
        elif kind == "wC":
            a = r.choice([0, 3, 65530, 65535])
            x = r.random()
            if x < 0.6:
                b = "".join(r.choice("01") for _ in range(r.choice([1, 2, 7, 8, 9, 16])))
            elif x < 0.7:
                b = "-"
            else:
                b = "n%ds%d" % (r.choice([1, 8, 17, 100, 1967, 1968, 1969, 1976, 1977, 2100]), r.randrange(3))
        else:
            a = r.choice([0, 3, 65530, 65535])
            x = r.random()
            if x < 0.6:
                b = "/".join(str(r.choice([0, 1, 255, 256, 65535, r.randrange(65536)]))
                             for _ in range(r.choice([1, 2, 3, 5])))
            elif x < 0.7:
                b = "-"
            else:
                b = "n%ds%d" % (r.choice([1, 2, 50, 122, 123, 124, 125, 126, 200]), r.randrange(100))
        tok = None
        if r.random() < 0.03:
            secs = r.choice([1, 5, 18446744073709551615, 9223372036854775807, 1000000000000])
            timeout, tok = secs * 1000, "%ds" % secs
        q = Req(rid, kind, unit, timeout, a, b, tok)
        self.reqs[rid] = q
        return q

    def submit_step(self):
        r = self.rnd
        q = self.new_req()
        h = self.live_handle()
        room = self.occ < self.q
        if self.mode == "blocked":
            style = self.single_style if r.random() < 0.85 else "T"
        elif not room:
            style = "T" if r.random() < 0.9 else None
            if style is None:
                return None
        else:
            style = r.choice("RRRCCTQ")
        if h < len(self.handles) and self.handles[h] and not self.killed:
            self.enq.append(q.rid)   # if it was refused it simply never shows up as consumed
        return "%s%d.%s.%s.%d.%s.%s" % (style, h, q.rid, q.kind, q.unit, q.tmo_tok, q.args())

    def reply_steps(self):
        """steps that answer (or almost answer) the request in flight"""
        r = self.rnd
        q, tx, unit, fresh = self.inflight
        steps = []
        x = r.random()
        if q is None:
            pdu = [r.choice([1, 3, 5, 0x81]), 1, 0x55]
        elif x < 0.50:
            pdu = q.good_reply(r)
        elif x < 0.62:
            pdu = [FC[q.kind] | 0x80, r.choice([1, 2, 3, 4, 5, 6, 8, 10, 11, 0, 7, 255])]
        elif x < 0.70:
            pdu = [FC[q.kind] | 0x80] + r.choice([[], [2, 0]])
        elif x < 0.78:
            pdu = q.good_reply(r)
            y = r.random()
            if y < 0.3 and len(pdu) > 1:
                pdu = pdu[:-1]
            elif y < 0.6:
                pdu = pdu + [r.randrange(256)]
            elif y < 0.8 and len(pdu) > 2:
                pdu[2] ^= 1 << r.randrange(8)
            else:
                pdu[1] ^= 0xFF
        elif x < 0.86:
            other = r.choice([1, 2, 3, 4, 5, 6, 15, 16, 0x81, 0x8F])
            pdu = [other] + q.good_reply(r)[1:]
        elif x < 0.90:
            pdu = [] if self.framing == "t" else [r.choice([7, 0x2B, 0x99])]
        else:
            pdu = [r.choice([0, 9, 0x2B, 0x7F, 0xFF])] + [r.randrange(256) for _ in range(r.randrange(4))]
        # header variations
        y = r.random()
        t = tx
        u = unit
        proto, length = 0, None
        if y < 0.12:
            t = (tx - 1) % 65536
        elif y < 0.22:
            t = (tx + 1) % 65536
        elif y < 0.26:
            t = r.randrange(65536)
        elif y < 0.30:
            u = r.choice([0, 1, 2, 255])
        elif y < 0.33 and self.framing == "t":
            proto = r.choice([1, 256, 65535])
        elif y < 0.36 and self.framing == "t":
            length = r.choice([0, 255, 256, 65535])
        elif y < 0.38 and self.framing == "t":
            length = max(1, len(pdu) + r.choice([0, 2]))
        bs = frame(self.framing, t, u, pdu, proto, length)
        if self.framing == "r" and r.random() < 0.06:
            bs[-1] ^= 0x10
        z = r.random()
        if z < 0.10:
            # a second frame in the same delivery (next tx id: an early reply to the next request)
            bs = bs + frame(self.framing, (tx + 1) % 65536, unit, q.good_reply(r) if q else [1, 1, 0])
        elif z < 0.16:
            bs = bs + bs
        elif z < 0.20:
            bs = bs + [r.randrange(256) for _ in range(r.choice([1, 3, 7, 9]))]
        # timing relative to the deadline when we know it
        tmo = q.timeout if q is not None else None
        if fresh and tmo is not None and 0 < tmo < 100000 and r.random() < 0.6:
            pre = r.choice([tmo - 1, tmo - 1, tmo, tmo + 1, tmo // 2, 0])
        else:
            pre = None
        # chunking
        w = r.random()
        if w < 0.55 or len(bs) < 2:
            chunks = [bs]
        elif w < 0.85:
            k = r.randrange(1, len(bs))
            chunks = [bs[:k], bs[k:]]
        else:
            k1 = r.randrange(1, len(bs))
            k2 = r.randrange(k1, len(bs) + 1)
            chunks = [c for c in (bs[:k1], bs[k1:k2], bs[k2:]) if c]
        if pre is not None and len(chunks) > 1 and pre > 0 and r.random() < 0.5:
            # first part before the wait, the rest around the deadline
            steps.append("X" + hexs(chunks[0]))
            chunks = chunks[1:]
        if pre is not None and pre > 0:
            steps.append("A%d" % pre)
        for i, c in enumerate(chunks):
            steps.append("X" + hexs(c))
            if i + 1 < len(chunks) and r.random() < 0.3:
                steps.append("A%d" % r.choice([0, 1, 2, 5]))
        return steps

    def choose(self):
        r = self.rnd
        if self.plan:
            return self.plan.pop(0)
        if self.killed:
            ops = ["sub"] * 4 + ["cmd", "N", "V", "A", "H"]
        elif self.inflight is not None and r.random() < 0.62:
            ops = ["reply"] * 7 + ["A_dead"] * 2 + ["Xe", "Xf", "sub", "sub", "cmd"]
        else:
            ops = (["sub"] * 9 + ["N"] * 4 + ["V", "F", "F"] + ["cmd"] * 4 + ["A"] * 4 + ["H"] * 2
                   + ["Xjunk", "Xe", "Xf", "W", "K"])
            if not self.steps:
                ops += ["N"] * 12 + ["V"] * 3 + ["F"] * 2
        op = r.choice(ops)
        if op == "sub":
            return self.submit_step()
        if op == "reply":
            st = self.reply_steps()
            self.plan = st[1:]
            return st[0]
        if op == "A_dead":
            q = self.inflight[0]
            t = q.timeout if q and q.timeout < 100000 else 10
            return "A%d" % r.choice([t, t, max(0, t - 1), t + 1, 2 * t, 1])
        if op == "N":
            self.have_io = True
            return "N"
        if op == "V":
            return "V"
        if op == "F":
            return "F%d" % r.choice([1, 5, 10, 100, 100, 1000] if r.random() < 0.93 else [0])
        if op == "cmd":
            c = r.choice("EEEDDSL")
            h = self.live_handle()
            alive = h < len(self.handles) and self.handles[h]
            if c == "L":
                if self.handles[0] and not self.killed:
                    self.enq.append(None)
                return "Ld%d%d%d" % (r.randrange(4), r.randrange(3), r.randrange(3))
            if c == "S":
                if self.mode != "blocked" and self.occ >= self.q:
                    return None
                if alive and not self.killed:
                    self.enq.append(None)
                return "S%d" % h if h or r.random() < 0.5 else "S"
            if alive and not self.killed:
                self.enq.append(None)  # over-approximation if the queue was full
            return "%s%d" % (c, h) if h or r.random() < 0.5 else c
        if op == "A":
            ms = r.choice([0, 1, 1, 4, 5, 9, 10, 49, 50, 51, 99, 100, 101, 1000, 3000])
            return "A%d" % ms
        if op == "H":
            if r.random() < 0.45:
                self.handles.append(any(self.handles))
                return "H+"
            i = r.randrange(len(self.handles) + 1)
            if i < len(self.handles):
                self.handles[i] = False
            return "H-%d" % i
        if op == "Xjunk":
            n = r.choice([1, 2, 6, 7, 8, 12])
            if r.random() < 0.5:
                bs = frame(self.framing, r.randrange(4), 1, [1, 1, r.randrange(256)])
            else:
                bs = [r.choice([0, 0, 0, 1, 255]) for _ in range(n)]
            return "X" + hexs(bs)
        if op == "Xe":
            return "Xe"
        if op == "Xf":
            return "Xf" if r.random() < 0.7 else "X-"
        if op == "W":
            return "W"
        if op == "K":
            if r.random() < 0.5 or self.mode == "blocked":
                return None
            self.killed = True
            return "K"
        return None

    def extend(self):
        for _ in range(20):
            st = self.choose()
            if st is not None:
                self.steps.append(st)
                if st.startswith("A"):
                    self.now += int(st[1:])
                return


def main():
    ap = argparse.ArgumentParser()
    ap.add_argument("--n", type=int, default=2000)
    ap.add_argument("--steps", type=int, default=26)
    ap.add_argument("--seed", type=int, default=1)
    ap.add_argument("--framing", default="t")
    ap.add_argument("--mode", default="normal")
    ap.add_argument("--out", default="/tmp/clfuzz")
    ap.add_argument("--reruns", type=int, default=5)
    ap.add_argument("--maxcoins", type=int, default=10)
    a = ap.parse_args()
    os.makedirs(a.out, exist_ok=True)
    rnd = random.Random(a.seed)
    pop = [Script(random.Random(rnd.randrange(1 << 60)), a.framing, a.mode) for _ in range(a.n)]
    for s in pop:
        s.digest("- | fin.alive")
    for rd in range(a.steps):
        for s in pop:
            if len(s.steps) <= rd or s.plan:
                s.extend()
        outs = run([HARNESS], [s.line() for s in pop])
        for s, o in zip(pop, outs):
            s.digest(o)
    # let pending plans finish
    for _ in range(6):
        for s in pop:
            if s.plan:
                s.extend()
    cases = [s.line() for s in pop]
    with open(os.path.join(a.out, "cases.txt"), "w") as f:
        f.write("\n".join(cases) + "\n")
    impl = run([HARNESS], cases)
    model = run([MODEL, "--coins"], cases)
    kinds = collections.Counter()
    for c in cases:
        sc = c.split()[5]
        if sc != "-":
            for st in sc.split(","):
                k = st[0]
                if k == "X":
                    k = st[:2] if st[1:] in ("e", "f", "-") else "X"
                if k == "H":
                    k = st[:2]
                kinds[k] += 1
    results = collections.Counter()
    for e in impl:
        for g in e.split(" | "):
            for x in g.split(";"):
                p = x.split(".")
                if p[0] == "done":
                    results["done." + (p[2] if p[2] in ("ok", "exc", "timeout", "noconn", "shutdown", "badresp", "internal") else ".".join(p[2:4]))] += 1
                elif p[0] == "end":
                    results["end." + ".".join(p[1:-1])] += 1
                elif p[0] in ("sub", "cmd"):
                    results[".".join([p[0]] + p[2:])] += 1
    det_ok = det_bad = 0
    amb = []
    bad = []
    waited_cases = 0
    w_ok = w_bad = 0
    outside = []

    def canon(line, waited):
        """cases with senders waiting for capacity: the order of `done` entries inside a group is
        a scheduling artefact outside the model; compare the groups as multisets"""
        if not waited:
            return line
        return " | ".join(";".join(sorted(g.split(";"))) for g in line.split(" | "))

    wflag = {}
    for i, (c, im, mo) in enumerate(zip(cases, impl, model)):
        n, w, mo = mo.split("\t", 2)
        wflag[i] = int(w) > 0
        waited_cases += wflag[i]
        if int(n) == 0:
            if canon(im, wflag[i]) == canon(mo, wflag[i]):
                det_ok += 1
                w_ok += wflag[i]
            elif wflag[i]:
                det_ok += 1  # counted below as outside the model
                w_bad += 1
                outside.append((c, im, mo, "waiting sender"))
            else:
                det_bad += 1
                bad.append((c, im, mo, "deterministic"))
        else:
            amb.append((i, int(n)))
    # ambiguous cases: enumerate coins
    amb_ok = amb_bad = amb_skipped = 0
    hit_alt = 0
    if amb:
        sets = collections.defaultdict(set)
        over = collections.defaultdict(int)
        anyw = collections.defaultdict(bool)
        todo = {i: min(n + 1, a.maxcoins) for i, n in amb}
        while todo:
            lines = []
            index = []
            for i, L in todo.items():
                sets[i] = set()
                for k in range(1 << L):
                    coins = "".join("1" if (k >> j) & 1 else "0" for j in range(L))
                    lines.append(cases[i] + " o" + coins)
                    index.append(i)
            outs = run([MODEL, "--coins"], lines)
            for i, o in zip(index, outs):
                n, w, o = o.split("\t", 2)
                anyw[i] = anyw[i] or int(w) > 0
                sets[i].add(o)
                over[i] = max(over[i], int(n))
            # a trajectory that consumed more coins than were enumerated: enumerate longer lists
            todo = {i: over[i] for i, L in todo.items() if over[i] > L and over[i] <= a.maxcoins}
        for i in sets:
            if anyw[i]:
                waited_cases += not wflag[i]
                sets[i] = {canon(o, True) for o in sets[i]}
        reruns = [impl] + [run([HARNESS], [cases[i] for i, _ in amb]) for _ in range(a.reruns)]
        for k, (i, n) in enumerate(amb):
            seen = {reruns[0][i]} | {r[k] for r in reruns[1:]}
            if anyw[i]:
                seen = {canon(o, True) for o in seen}
            if over[i] > a.maxcoins:
                amb_skipped += 1
                continue
            if seen <= sets[i]:
                amb_ok += 1
                w_ok += anyw[i]
                if len(seen) > 1:
                    hit_alt += 1
            elif anyw[i]:
                amb_ok += 1
                w_bad += 1
                outside.append((cases[i], " || ".join(sorted(seen - sets[i])), " || ".join(sorted(sets[i]))[:3000], "waiting sender"))
            else:
                amb_bad += 1
                for o in seen - sets[i]:
                    bad.append((cases[i], o, " || ".join(sorted(sets[i]))[:3000], "ambiguous(%d coins)" % n))
    with open(os.path.join(a.out, "bad.txt"), "w") as f:
        for c, im, mo, why in bad:
            f.write("CASE  %s\nIMPL  %s\nMODEL %s\nWHY   %s\n\n" % (c, im, mo, why))
    print("cases %d  deterministic: agree %d differ %d   select-order dependent: agree %d (of which %d showed >1 impl outcome) differ %d skipped %d"
          % (len(cases), det_ok, det_bad, amb_ok, hit_alt, amb_bad, amb_skipped))
    with open(os.path.join(a.out, "outside.txt"), "w") as f:
        for c, im, mo, why in outside:
            f.write("CASE  %s\nIMPL  %s\nMODEL %s\nWHY   %s\n\n" % (c, im, mo, why))
    print("of these, cases with a sender waiting for capacity (outside the model; compared per group as multisets): %d, agree %d, differ %d"
          % (waited_cases, w_ok, w_bad))
    print("steps:", dict(sorted(kinds.items())))
    print("observed:", dict(sorted(results.items())))
    return 1 if bad else 0


if __name__ == "__main__":
    sys.exit(main())
