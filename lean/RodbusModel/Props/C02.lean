import RodbusModel.Props.C01
/-
  C02  Handlers see only valid, correctly decoded requests, and each exactly once.

  Quantifiers as in C01: every PDU, every handler, every unit map, TCP and RTU, with or without an
  authorization handler.  "Handler call" = a `Call` with `isAuth = false` (the eight
  `RequestHandler` callbacks); the authorization questions are the subject of C08.

  Vocabulary (Lemmas/ServerCases.lean, Lemmas/ServerServe.lean):
    `requestOf f = some req`   the PDU is a known function code + valid body, `req` its decoding
    `writeCalls req u`         the one handler call a write request is on unit `u`
    `readCall fc u a`          the read callback of function `fc` for address `a` of unit `u`
    `mkRead fc r`              the read request of function `fc` for range `r`
    `req.InLimits`, `req.FitsU16`   protocol limits / u16 ranges of a decoded request
-/
namespace Rodbus.C02
open Rodbus Rodbus.Spec.Server

/-! ## 1. Only valid requests reach a handler -/

/-- Every handler call made while handling a frame is justified: the frame is a valid request
    (`C01.request_of_frame`: known function code, valid body, `req` its decoding), the
    authorization handler (if any) allowed it, and
    * either it was addressed to a configured unit, and the call is the write it denotes for that
      unit, or a read of an address inside the requested range of that unit,
    * or it was an RTU broadcast of a write, and the call is that write for a configured unit. -/
theorem calls_justified {σ : Type} (cfg : ServerCfg σ) (hs : List (Nat × σ)) (f : Frame) (c : Call)
    (hc : c ∈ (handleFrame cfg hs f).calls) (hna : c.isAuth = false) :
    ∃ req, requestOf f = some req ∧ cfg.allows f.dest req = true ∧
      ((isBroadcast cfg f = false ∧ f.dest ∈ hs.map Prod.fst ∧
          ((isWrite req = true ∧ c ∈ writeCalls req f.dest) ∨
           (∃ fc r a, fc.isRead = true ∧ req = mkRead fc r ∧ c = readCall fc f.dest a
              ∧ r.start ≤ a ∧ a < r.start + r.count)))
       ∨ (isBroadcast cfg f = true ∧ isWrite req = true
            ∧ ∃ u ∈ hs.map Prod.fst, c ∈ writeCalls req u)) := by
  cases hreq : requestOf f with
  | none => rw [(handleFrame_no_request cfg hs f hreq).1] at hc; simp at hc
  | some req =>
    have hq : c ∉ cfg.question f.dest req := fun h => by
      have := question_isAuth cfg f.dest req c h; rw [hna] at this; simp at this
    rw [handleFrame_request cfg hs f hreq] at hc
    refine ⟨req, rfl, ?_⟩
    split at hc
    · exact absurd hc hq
    · rename_i ha
      have ha : cfg.allows f.dest req = true := by simpa using ha
      refine ⟨ha, ?_⟩
      split at hc
      · rename_i hb
        split at hc
        · rename_i hw
          right
          simp only [applyToAll_write cfg.H req hw, List.mem_append, List.mem_flatMap] at hc
          rcases hc with hc | ⟨p, hp, hc⟩
          · exact absurd hc hq
          · exact ⟨hb, hw, p.1, List.mem_map_of_mem hp, hc⟩
        · exact absurd hc hq
      · rename_i hb
        have hb : isBroadcast cfg f = false := by simpa using hb
        split at hc
        · exact absurd hc hq
        · rename_i s hl
          left
          refine ⟨hb, (lookupUnit_isSome_iff hs f.dest).1 (by simp [hl]), ?_⟩
          simp only [List.mem_append] at hc
          rcases hc with hc | hc
          · exact absurd hc hq
          · cases hw : isWrite req with
            | true =>
              left; rw [serve_write _ _ _ _ hw] at hc; exact ⟨rfl, hc⟩
            | false =>
              right
              obtain ⟨r, hr, hfc⟩ := read_eq_mkRead req hw
              rw [hr] at hc
              obtain ⟨a, rfl, h1, h2⟩ := serve_read_calls_mem _ _ _ _ _ hfc c hc
              exact ⟨req.fc, r, a, hfc, hr, rfl, h1, h2⟩

/-- a decoded request respects the protocol: quantity within 1..2000 / 125 / 1968 / 123, no
    address beyond 65535, as many values as the quantity -/
theorem decoded_request_in_limits (f : Frame) (req : Request) (h : requestOf f = some req) :
    req.InLimits :=
  requestOf_inLimits h

/-- …and, the PDU being bytes, every single-write address and every register value is a u16 -/
theorem decoded_request_fits_u16 (f : Frame) (req : Request) (h : requestOf f = some req)
    (hw : Bytes.WF f.pdu) : req.FitsU16 :=
  requestOf_fitsU16 h hw

/-- the frame is not a request (hence reaches no handler) iff it is empty, its function code is
    unknown, or its body invalid -/
theorem not_a_request_iff (f : Frame) :
    requestOf f = none ↔
      f.pdu = [] ∨ ∃ b body, f.pdu = b :: body ∧
        (Fc.ofByte b = none ∨ ∃ fc, Fc.ofByte b = some fc ∧ validBody fc body = false) :=
  requestOf_none_iff f

/-! ## 2. Writes: exactly once, with exactly the decoded items -/

/-- a valid, permitted write to a configured unit: the calls are the authorization question (if
    any) followed by exactly one handler call, the write for that unit -/
theorem write_once {σ : Type} (cfg : ServerCfg σ) (hs : List (Nat × σ)) (f : Frame) (req : Request)
    (s : σ) (hreq : requestOf f = some req) (hw : isWrite req = true)
    (hb : isBroadcast cfg f = false) (hl : lookupUnit hs f.dest = some s)
    (ha : cfg.allows f.dest req = true) :
    (handleFrame cfg hs f).calls = cfg.question f.dest req ++ writeCalls req f.dest
      ∧ (writeCalls req f.dest).length = 1 := by
  rw [C01.served cfg hs f req s hreq hb hl ha, serve_write _ _ _ _ hw]
  refine ⟨rfl, ?_⟩
  cases req <;> first | rfl | simp [isWrite] at hw

/-- a valid, permitted RTU broadcast write: exactly one write call per configured unit, in the
    order of the unit map (ascending unit id for the `BTreeMap` of the implementation) -/
theorem write_once_broadcast {σ : Type} (cfg : ServerCfg σ) (hs : List (Nat × σ)) (f : Frame)
    (req : Request) (hreq : requestOf f = some req) (hw : isWrite req = true)
    (hb : isBroadcast cfg f = true) (ha : cfg.allows f.dest req = true) :
    (handleFrame cfg hs f).calls
      = cfg.question f.dest req ++ (hs.map Prod.fst).flatMap (writeCalls req) := by
  rw [handleFrame_request cfg hs f hreq]
  simp only [ha, hb, hw, Bool.true_eq_false, if_false, if_true, applyToAll_write cfg.H req hw]
  rw [List.flatMap_map]

/-- what is handed over: single writes carry the decoded address and value; multiple writes the
    decoded range and the items `(start + i, vᵢ)` -/
theorem write_call_shape (u i : Nat) (b : Bool) (v : Nat) (r : Range) (bs : List Bool)
    (vs : List Nat) :
    writeCalls (.writeSingleCoil i b) u = [.writeSingleCoil u i b]
    ∧ writeCalls (.writeSingleRegister i v) u = [.writeSingleRegister u i v]
    ∧ writeCalls (.writeMultipleCoils r bs) u = [.writeMultipleCoils u r (indexed r.start bs)]
    ∧ writeCalls (.writeMultipleRegisters r vs) u = [.writeMultipleRegisters u r (indexed r.start vs)] :=
  ⟨rfl, rfl, rfl, rfl⟩

/-- `indexed start vs` is `(start + i, vᵢ)` for `i < vs.length`, nothing else -/
theorem write_items {α : Type} (start : Nat) (vs : List α) :
    (indexed start vs).length = vs.length ∧
      ∀ i (h : i < vs.length),
        (indexed start vs)[i]'(by rw [indexed_length]; exact h) = (start + i, vs[i]) :=
  ⟨indexed_length start vs, indexed_getElem start vs⟩

/-- the values of a decoded multiple write, by position in the PDU: coil `i` is bit `i % 8` of
    payload byte `i / 8`, register `i` the big-endian word at body offset `5 + 2i`; there are
    exactly `quantity` of them -/
theorem write_multiple_decoding (body : Bytes) :
    decode .writeMultipleCoils body
      = .writeMultipleCoils ⟨u16At body 0, u16At body 2⟩
          ((List.range (u16At body 2)).map fun i => bitOf (body.drop 5) i)
    ∧ decode .writeMultipleRegisters body
      = .writeMultipleRegisters ⟨u16At body 0, u16At body 2⟩
          ((List.range (u16At body 2)).map fun i => u16At body (5 + 2 * i)) :=
  ⟨rfl, rfl⟩

/-! ## 3. Reads: ascending addresses up to the first failure, each once -/

/-- A valid, permitted read of a configured unit queries `start, start + 1, …`: the whole range if
    every address is readable, otherwise up to and including the first address that raises — and
    nothing after it. -/
theorem reads_ascending_prefix {σ : Type} (cfg : ServerCfg σ) (hs : List (Nat × σ)) (f : Frame)
    (fc : Fc) (r : Range) (s : σ) (hr : fc.isRead = true)
    (hreq : requestOf f = some (mkRead fc r)) (hb : isBroadcast cfg f = false)
    (hl : lookupUnit hs f.dest = some s) (ha : cfg.allows f.dest (mkRead fc r) = true) :
    ((∀ i < r.count, cfg.H.readErr fc s (r.start + i) = none) ∧
      (handleFrame cfg hs f).calls = cfg.question f.dest (mkRead fc r) ++
        (List.range r.count).map fun i => readCall fc f.dest (r.start + i))
    ∨ ∃ k e, k < r.count ∧ cfg.H.readErr fc s (r.start + k) = some e
        ∧ (∀ i < k, cfg.H.readErr fc s (r.start + i) = none)
        ∧ (handleFrame cfg hs f).calls = cfg.question f.dest (mkRead fc r) ++
            (List.range (k + 1)).map fun i => readCall fc f.dest (r.start + i) := by
  rw [C01.served cfg hs f _ s hreq hb hl ha]
  rcases first_err_cases (fun i => cfg.H.readErr fc s (r.start + i)) r.count with h | ⟨k, e, hk, he, hbf⟩
  · left; refine ⟨h, ?_⟩
    simp only [serve_read_ok_calls _ _ _ _ _ hr h]
  · right; refine ⟨k, e, hk, he, hbf, ?_⟩
    simp only [serve_read_fail _ _ _ _ _ hr hk he hbf]

/-- the queried addresses are pairwise distinct: no address is asked twice -/
theorem read_addresses_distinct (start m : Nat) : ((List.range m).map (start + ·)).Nodup :=
  range_map_add_nodup start m

/-- distinct addresses give distinct calls -/
theorem readCall_injective (fc : Fc) (u a a' : Nat) (h : readCall fc u a = readCall fc u a') :
    a = a' := by
  cases fc <;> simp only [readCall] at h <;> injection h

/-! ## 4. No effect of anything else -/

/-- An empty / unknown-function / invalid frame, a frame for an unconfigured unit, and a denied
    request cause no handler call (at most the authorization question) and change no state. -/
theorem invalid_no_effect {σ : Type} (cfg : ServerCfg σ) (hs : List (Nat × σ)) (f : Frame)
    (h : requestOf f = none
      ∨ (isBroadcast cfg f = false ∧ lookupUnit hs f.dest = none)
      ∨ (∃ req, requestOf f = some req ∧ cfg.allows f.dest req = false)) :
    (∀ c ∈ (handleFrame cfg hs f).calls, c.isAuth = true) ∧ (handleFrame cfg hs f).states = hs := by
  cases hreq : requestOf f with
  | none =>
    obtain ⟨h1, h2, _⟩ := handleFrame_no_request cfg hs f hreq
    exact ⟨by simp [h1], h2⟩
  | some req =>
    rw [handleFrame_request cfg hs f hreq]
    rcases h with h | ⟨hb, hl⟩ | ⟨req', hreq', hd⟩
    · rw [hreq] at h; simp at h
    · cases cfg.allows f.dest req <;>
        simp [hb, hl] <;> exact question_isAuth cfg f.dest req
    · rw [hreq] at hreq'; injection hreq' with e; subst e
      simp [hd]; exact question_isAuth cfg f.dest req

/-- read requests never change any handler state (unit ids being unique, as in a `BTreeMap`) -/
theorem reads_no_state_change {σ : Type} (cfg : ServerCfg σ) (hs : List (Nat × σ)) (f : Frame)
    (req : Request) (hreq : requestOf f = some req) (hr : isWrite req = false)
    (hnd : (hs.map Prod.fst).Nodup) : (handleFrame cfg hs f).states = hs := by
  rw [handleFrame_request cfg hs f hreq]
  simp only [hr, Bool.false_eq_true, if_false]
  split
  · rfl
  · split
    · rfl
    · split
      · rfl
      · rename_i s hl
        simp only [serve_read_state _ _ _ _ hr]
        exact setUnit_lookup hs f.dest s hnd hl

/-- without the uniqueness assumption: no unit's state, as seen through the map, changes -/
theorem reads_no_state_change_lookup {σ : Type} (cfg : ServerCfg σ) (hs : List (Nat × σ))
    (f : Frame) (req : Request) (hreq : requestOf f = some req) (hr : isWrite req = false)
    (u : Nat) : lookupUnit (handleFrame cfg hs f).states u = lookupUnit hs u := by
  rw [handleFrame_request cfg hs f hreq]
  simp only [hr, Bool.false_eq_true, if_false]
  split
  · rfl
  · split
    · rfl
    · split
      · rfl
      · rename_i s hl
        simp only [serve_read_state _ _ _ _ hr, lookupUnit_setUnit]
        split
        · rename_i hu; subst hu; simp [hl]
        · rfl

/-! ## Non-vacuity -/

open Demo

/-- the hypotheses of `write_once` hold for a single-coil write to unit 1 … -/
example : requestOf ⟨some 3, 1, writeCoil⟩ = some (.writeSingleCoil 1 true)
    ∧ isWrite (.writeSingleCoil 1 true) = true ∧ isBroadcast tcp ⟨some 3, 1, writeCoil⟩ = false
    ∧ lookupUnit units 1 = some db1 ∧ tcp.allows 1 (.writeSingleCoil 1 true) = true := by decide

/-- … and the handler is called exactly once with the decoded address and value -/
example : (handleFrame tcp units ⟨some 3, 1, writeCoil⟩).calls = [.writeSingleCoil 1 1 true] := by
  rw [C01.handleFrame_eq_spec]; decide

/-- a multiple-register write hands over `(0, 0x0102), (1, 0x0304)` -/
example : (handleFrame tcp units ⟨some 3, 1, writeRegs⟩).calls
    = [.writeMultipleRegisters 1 ⟨0, 2⟩ [(0, 0x0102), (1, 0x0304)]] := by
  rw [C01.handleFrame_eq_spec]; decide

/-- RTU broadcast of the same write: one call per unit, ascending -/
example : (handleFrame rtu units ⟨none, 0, writeCoil⟩).calls
    = [.writeSingleCoil 1 1 true, .writeSingleCoil 2 1 true]
    ∧ (handleFrame rtu units ⟨none, 0, writeCoil⟩).reply = none := by
  rw [C01.handleFrame_eq_spec]; decide

/-- a read stops at the first failing address (register 3 of unit 1 does not exist) -/
example : (handleFrame tcp units ⟨some 3, 1, readRegsFail⟩).calls
    = [.readHoldingRegister 1 2, .readHoldingRegister 1 3] := by
  rw [C01.handleFrame_eq_spec]; decide

/-- an invalid request (quantity 0) reaches no handler -/
example : requestOf ⟨some 3, 1, readZero⟩ = none
    ∧ (handleFrame tcp units ⟨some 3, 1, readZero⟩).calls = [] := by
  rw [C01.handleFrame_eq_spec]; decide

example : (units.map Prod.fst).Nodup := by decide

/-- the byte well-formedness hypothesis of `decoded_request_fits_u16` is satisfiable -/
example : Bytes.WF (⟨some 3, 1, writeRegs⟩ : Frame).pdu := by decide

end Rodbus.C02
