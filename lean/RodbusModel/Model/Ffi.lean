import RodbusModel.Model.Server
import RodbusModel.Model.Filter
/-
  M12: the C ABI (`ffi/rodbus-ffi`).

  * the enums that cross the boundary and the hand-written EXPECTED mapping tables ("each error,
    exception, decode level and connection state is reported as its same-named counterpart");
    the tables extracted from the sources live in `Gen/FfiTables.lean` and are compared with these
    by the theorems of `Props/C18.lean`;
  * `WriteResult` and `convert_to_result`, the four write callbacks of `RequestHandlerWrapper`;
  * the point database `Db` (four maps as association lists), database operations, transactions;
  * the `RequestHandler` built from a `Db` (absent point ⇒ exception 02) used with the server
    model `Rodbus.getReply`;
  * what a submission through the C ABI does with the completion callback;
  * construction of address filters from strings (`parse_address_filter`, `address_filter_add`)
    and which filter each server constructor has to forward;
  * the lock model used for transaction atomicity.
-/
namespace Rodbus.Ffi

/-! ## Errors -/

/-- `ffi::RequestError` (schema `request_error`), in discriminant order -/
inductive FfiRequestError
  | ok | shutdown | noConnection | responseTimeout | badRequest | badResponse | ioError
  | badFraming | internalError | badArgument
  | mxIllegalFunction | mxIllegalDataAddress | mxIllegalDataValue | mxServerDeviceFailure
  | mxAcknowledge | mxServerDeviceBusy | mxMemoryParityError | mxGatewayPathUnavailable
  | mxGatewayTargetDeviceFailedToRespond | mxUnknown
deriving DecidableEq, Repr

def FfiRequestError.all : List FfiRequestError :=
  [.ok, .shutdown, .noConnection, .responseTimeout, .badRequest, .badResponse, .ioError,
   .badFraming, .internalError, .badArgument, .mxIllegalFunction, .mxIllegalDataAddress,
   .mxIllegalDataValue, .mxServerDeviceFailure, .mxAcknowledge, .mxServerDeviceBusy,
   .mxMemoryParityError, .mxGatewayPathUnavailable, .mxGatewayTargetDeviceFailedToRespond,
   .mxUnknown]

/-- the variant's name in the generated Rust enum (what `{:?}` prints) -/
def FfiRequestError.name : FfiRequestError → String
  | .ok => "Ok" | .shutdown => "Shutdown" | .noConnection => "NoConnection"
  | .responseTimeout => "ResponseTimeout" | .badRequest => "BadRequest"
  | .badResponse => "BadResponse" | .ioError => "IoError" | .badFraming => "BadFraming"
  | .internalError => "InternalError" | .badArgument => "BadArgument"
  | .mxIllegalFunction => "ModbusExceptionIllegalFunction"
  | .mxIllegalDataAddress => "ModbusExceptionIllegalDataAddress"
  | .mxIllegalDataValue => "ModbusExceptionIllegalDataValue"
  | .mxServerDeviceFailure => "ModbusExceptionServerDeviceFailure"
  | .mxAcknowledge => "ModbusExceptionAcknowledge"
  | .mxServerDeviceBusy => "ModbusExceptionServerDeviceBusy"
  | .mxMemoryParityError => "ModbusExceptionMemoryParityError"
  | .mxGatewayPathUnavailable => "ModbusExceptionGatewayPathUnavailable"
  | .mxGatewayTargetDeviceFailedToRespond => "ModbusExceptionGatewayTargetDeviceFailedToRespond"
  | .mxUnknown => "ModbusExceptionUnknown"

/-- the C integer -/
def FfiRequestError.toInt (e : FfiRequestError) : Nat := (FfiRequestError.all.idxOf e)

def FfiRequestError.ofInt (n : Nat) : Option FfiRequestError := FfiRequestError.all[n]?

/-- the name of an `ExceptionCode` variant -/
def exName : ExCode → String
  | .illegalFunction => "IllegalFunction" | .illegalDataAddress => "IllegalDataAddress"
  | .illegalDataValue => "IllegalDataValue" | .serverDeviceFailure => "ServerDeviceFailure"
  | .acknowledge => "Acknowledge" | .serverDeviceBusy => "ServerDeviceBusy"
  | .memoryParityError => "MemoryParityError" | .gatewayPathUnavailable => "GatewayPathUnavailable"
  | .gatewayTargetDeviceFailedToRespond => "GatewayTargetDeviceFailedToRespond"
  | .unknown _ => "Unknown"

/-- the nine named exception codes -/
def namedExCodes : List ExCode :=
  [.illegalFunction, .illegalDataAddress, .illegalDataValue, .serverDeviceFailure, .acknowledge,
   .serverDeviceBusy, .memoryParityError, .gatewayPathUnavailable,
   .gatewayTargetDeviceFailedToRespond]

/-- EXPECTED `impl From<rodbus::ExceptionCode> for ffi::RequestError` -/
def excErrOf : ExCode → FfiRequestError
  | .illegalFunction => .mxIllegalFunction | .illegalDataAddress => .mxIllegalDataAddress
  | .illegalDataValue => .mxIllegalDataValue | .serverDeviceFailure => .mxServerDeviceFailure
  | .acknowledge => .mxAcknowledge | .serverDeviceBusy => .mxServerDeviceBusy
  | .memoryParityError => .mxMemoryParityError
  | .gatewayPathUnavailable => .mxGatewayPathUnavailable
  | .gatewayTargetDeviceFailedToRespond => .mxGatewayTargetDeviceFailedToRespond
  | .unknown _ => .mxUnknown

/-- `rodbus::RequestError` up to the payload of the variants (the payload never crosses the
    boundary), except for the exception code -/
inductive RustErr
  | io | exception (e : ExCode) | badRequest | badFrame | badResponse | internal
  | responseTimeout | noConnection | shutdown
deriving DecidableEq, Repr

/-- the variants other than `Exception` -/
inductive RustErrTag
  | io | badRequest | badFrame | badResponse | internal | responseTimeout | noConnection
  | shutdown
deriving DecidableEq, Repr

def RustErrTag.all : List RustErrTag :=
  [.io, .badRequest, .badFrame, .badResponse, .internal, .responseTimeout, .noConnection,
   .shutdown]

def RustErrTag.name : RustErrTag → String
  | .io => "Io" | .badRequest => "BadRequest" | .badFrame => "BadFrame"
  | .badResponse => "BadResponse" | .internal => "Internal"
  | .responseTimeout => "ResponseTimeout" | .noConnection => "NoConnection"
  | .shutdown => "Shutdown"

def RustErrTag.toErr : RustErrTag → RustErr
  | .io => .io | .badRequest => .badRequest | .badFrame => .badFrame
  | .badResponse => .badResponse | .internal => .internal
  | .responseTimeout => .responseTimeout | .noConnection => .noConnection
  | .shutdown => .shutdown

/-- EXPECTED `impl From<rodbus::RequestError> for ffi::RequestError` -/
def reqErrOf : RustErr → FfiRequestError
  | .io => .ioError
  | .exception e => excErrOf e
  | .badRequest => .badRequest
  | .badFrame => .badFraming
  | .badResponse => .badResponse
  | .internal => .internalError
  | .responseTimeout => .responseTimeout
  | .noConnection => .noConnection
  | .shutdown => .shutdown

/-- canonical text of a `rodbus::RequestError` in the harness output -/
def RustErr.text : RustErr → String
  | .io => "io" | .exception e => s!"exc.{e.toByte}" | .badRequest => "badreq"
  | .badFrame => "badframe" | .badResponse => "badresp" | .internal => "internal"
  | .responseTimeout => "timeout" | .noConnection => "noconn" | .shutdown => "shutdown"

/-- `ffi::ParamError` names in discriminant order -/
def paramErrorNames : List String :=
  ["Ok", "NoSupport", "NullParameter", "LoggingAlreadyConfigured", "RuntimeCreationFailure",
   "RuntimeDestroyed", "RuntimeCannotBlockWithinAsync", "InvalidIpAddress", "InvalidRange",
   "InvalidRequest", "InvalidIndex", "ServerBindError", "InvalidUnitId",
   "InvalidPeerCertificate", "InvalidLocalCertificate", "InvalidPrivateKey", "InvalidDnsName",
   "BadTlsConfig", "Shutdown", "InvalidUtf8", "TooManyRequests"]

/-- EXPECTED conversions into `ffi::ParamError`: (source type, source variant, ParamError) -/
def expectedParamErrors : List (String × String × String) :=
  [("InvalidRange", "_", "InvalidRange"),
   ("InvalidRequest", "_", "InvalidRequest"),
   ("AddrParseError", "_", "InvalidIpAddress"),
   ("BadIpv4Wildcard", "_", "InvalidIpAddress"),
   ("Utf8Error", "_", "InvalidUtf8"),
   ("Shutdown", "_", "Shutdown"),
   ("TlsError", "InvalidDnsName", "InvalidDnsName"),
   ("TlsError", "InvalidPeerCertificate", "InvalidPeerCertificate"),
   ("TlsError", "InvalidLocalCertificate", "InvalidLocalCertificate"),
   ("TlsError", "InvalidPrivateKey", "InvalidPrivateKey"),
   ("TlsError", "BadConfig", "BadTlsConfig"),
   ("FfiChannelError", "ChannelFull", "TooManyRequests"),
   ("FfiChannelError", "ChannelClosed", "Shutdown"),
   ("FfiChannelError", "BadRange", "InvalidRange"),
   ("RuntimeError", "RuntimeDestroyed", "RuntimeDestroyed"),
   ("RuntimeError", "CannotBlockWithinAsync", "RuntimeCannotBlockWithinAsync"),
   ("RuntimeError", "FailedToCreateRuntime", "RuntimeCreationFailure")]

/-! ## Small enums crossing the boundary

  A row is (C integer, name of the C-ABI variant, name of the Rust variant).  These are the
  hand-written expectations; the arms found in the sources are in `Gen/FfiTables.lean`. -/

abbrev EnumTable := List (Nat × String × String)

def EnumTable.names (t : EnumTable) : List (String × String) := t.map (·.2)

/-- C integer ↦ name of the Rust variant it has to become -/
def EnumTable.rustOfInt (t : EnumTable) (n : Nat) : Option String :=
  (t.find? (·.1 = n)).map (·.2.2)

def EnumTable.ffiOfInt (t : EnumTable) (n : Nat) : Option String :=
  (t.find? (·.1 = n)).map (·.2.1)

/-- Rust variant name ↦ name of the C-ABI variant (for enums travelling Rust → C) -/
def EnumTable.ffiOfRust (t : EnumTable) (r : String) : Option String :=
  (t.find? (·.2.2 = r)).map (·.2.1)

def appDecodeLevels : EnumTable :=
  [(0, "Nothing", "Nothing"), (1, "FunctionCode", "FunctionCode"),
   (2, "DataHeaders", "DataHeaders"), (3, "DataValues", "DataValues")]
def frameDecodeLevels : EnumTable :=
  [(0, "Nothing", "Nothing"), (1, "Header", "Header"), (2, "Payload", "Payload")]
def physDecodeLevels : EnumTable :=
  [(0, "Nothing", "Nothing"), (1, "Length", "Length"), (2, "Data", "Data")]
def dataBits : EnumTable :=
  [(0, "Five", "Five"), (1, "Six", "Six"), (2, "Seven", "Seven"), (3, "Eight", "Eight")]
def flowControl : EnumTable := [(0, "None", "None"), (1, "Software", "Software"), (2, "Hardware", "Hardware")]
def parity : EnumTable := [(0, "None", "None"), (1, "Odd", "Odd"), (2, "Even", "Even")]
def stopBits : EnumTable := [(0, "One", "One"), (1, "Two", "Two")]
/-- the schema spells the versions `V12`/`V13`, the library `V1_2`/`V1_3` -/
def minTlsVersion : EnumTable := [(0, "V12", "V1_2"), (1, "V13", "V1_3")]
def certificateMode : EnumTable :=
  [(0, "AuthorityBased", "AuthorityBased"), (1, "SelfSigned", "SelfSigned")]
def authorization : EnumTable := [(0, "Allow", "Allow"), (1, "Deny", "Deny")]
/-- Rust → C -/
def clientState : EnumTable :=
  [(0, "Disabled", "Disabled"), (1, "Connecting", "Connecting"), (2, "Connected", "Connected"),
   (3, "WaitAfterFailedConnect", "WaitAfterFailedConnect"),
   (4, "WaitAfterDisconnect", "WaitAfterDisconnect"), (5, "Shutdown", "Shutdown")]
/-- Rust → C -/
def portState : EnumTable :=
  [(0, "Disabled", "Disabled"), (1, "Wait", "Wait"), (2, "Open", "Open"), (3, "Shutdown", "Shutdown")]

/-- the naming rule behind "same-named": identical, or one of the two documented spelling
    differences between the schema and the library -/
def sameNamed (ffi rust : String) : Bool :=
  ffi == rust || (ffi == "V12" && rust == "V1_2") || (ffi == "V13" && rust == "V1_3")

/-! ## `WriteResult` -/

/-- `ffi::ModbusException` -/
inductive MxCode
  | illegalFunction | illegalDataAddress | illegalDataValue | serverDeviceFailure
  | acknowledge | serverDeviceBusy | memoryParityError | gatewayPathUnavailable
  | gatewayTargetDeviceFailedToRespond | unknown
deriving DecidableEq, Repr

def MxCode.all : List MxCode :=
  [.illegalFunction, .illegalDataAddress, .illegalDataValue, .serverDeviceFailure, .acknowledge,
   .serverDeviceBusy, .memoryParityError, .gatewayPathUnavailable,
   .gatewayTargetDeviceFailedToRespond, .unknown]

def MxCode.name : MxCode → String
  | .illegalFunction => "IllegalFunction" | .illegalDataAddress => "IllegalDataAddress"
  | .illegalDataValue => "IllegalDataValue" | .serverDeviceFailure => "ServerDeviceFailure"
  | .acknowledge => "Acknowledge" | .serverDeviceBusy => "ServerDeviceBusy"
  | .memoryParityError => "MemoryParityError" | .gatewayPathUnavailable => "GatewayPathUnavailable"
  | .gatewayTargetDeviceFailedToRespond => "GatewayTargetDeviceFailedToRespond"
  | .unknown => "Unknown"

/-- the C integer of a `ModbusException` -/
def MxCode.toInt : MxCode → Nat
  | .illegalFunction => 1 | .illegalDataAddress => 2 | .illegalDataValue => 3
  | .serverDeviceFailure => 4 | .acknowledge => 5 | .serverDeviceBusy => 6
  | .memoryParityError => 8 | .gatewayPathUnavailable => 10
  | .gatewayTargetDeviceFailedToRespond => 11 | .unknown => 255

def MxCode.ofInt (n : Nat) : Option MxCode := MxCode.all.find? (·.toInt = n)

/-- the `ExceptionCode` a named `ModbusException` stands for (`unknown` carries the raw byte) -/
def MxCode.toEx (raw : Nat) : MxCode → ExCode
  | .illegalFunction => .illegalFunction | .illegalDataAddress => .illegalDataAddress
  | .illegalDataValue => .illegalDataValue | .serverDeviceFailure => .serverDeviceFailure
  | .acknowledge => .acknowledge | .serverDeviceBusy => .serverDeviceBusy
  | .memoryParityError => .memoryParityError
  | .gatewayPathUnavailable => .gatewayPathUnavailable
  | .gatewayTargetDeviceFailedToRespond => .gatewayTargetDeviceFailedToRespond
  | .unknown => .unknown raw

/-- `ffi::WriteResult` -/
structure WriteResult where
  success : Bool
  exception : MxCode
  raw : Nat
deriving DecidableEq, Repr

/-- `WriteResult::success_init()` -/
def WriteResult.successInit : WriteResult := ⟨true, .unknown, 0⟩
/-- `WriteResult::exception_init(e)` -/
def WriteResult.exceptionInit (e : MxCode) : WriteResult := ⟨false, e, 0⟩
/-- `WriteResult::raw_exception_init(b)` -/
def WriteResult.rawExceptionInit (b : Nat) : WriteResult := ⟨false, .unknown, b⟩

/-- EXPECTED `WriteResult::convert_to_result` -/
def convertToResult (w : WriteResult) : Except ExCode Unit :=
  if w.success then .ok () else .error (w.exception.toEx w.raw)

/-- what the server puts on the wire for a handler result -/
def toWire : Except ExCode Unit → Except Nat Unit
  | .ok () => .ok ()
  | .error e => .error e.toByte

/-! ## The point database (`database.rs`) -/

inductive Table | coils | discrete | holding | input
deriving DecidableEq, Repr

def Table.ofIdx : Nat → Table
  | 0 => .coils | 1 => .discrete | 2 => .holding | _ => .input

def Table.idx : Table → Nat
  | .coils => 0 | .discrete => 1 | .holding => 2 | .input => 3

def Table.isBit : Table → Bool
  | .coils | .discrete => true
  | _ => false

/-- association-list map `u16 → value` (bits are stored as 0/1) -/
abbrev PMap := List (Nat × Nat)

def PMap.find (m : PMap) (k : Nat) : Option Nat :=
  match m with
  | [] => none
  | (k', v) :: rest => if k' = k then some v else PMap.find rest k

def PMap.replace (m : PMap) (k v : Nat) : PMap :=
  m.map (fun (k', v') => if k' = k then (k', v) else (k', v'))

def PMap.erase (m : PMap) (k : Nat) : PMap := m.filter (fun (k', _) => k' ≠ k)

/-- `struct Database`: one map per point type -/
structure Db where
  coils : PMap := []
  discrete : PMap := []
  holding : PMap := []
  input : PMap := []
deriving DecidableEq, Repr

def Db.tbl (db : Db) : Table → PMap
  | .coils => db.coils | .discrete => db.discrete | .holding => db.holding | .input => db.input

def Db.setTbl (db : Db) (t : Table) (m : PMap) : Db :=
  match t with
  | .coils => { db with coils := m } | .discrete => { db with discrete := m }
  | .holding => { db with holding := m } | .input => { db with input := m }

def Db.find (db : Db) (t : Table) (i : Nat) : Option Nat := (db.tbl t).find i

inductive DbOp
  | add (t : Table) (i v : Nat)
  | update (t : Table) (i v : Nat)
  | delete (t : Table) (i : Nat)
  | get (t : Table) (i : Nat)
deriving DecidableEq, Repr

inductive DbRes
  | flag (b : Bool)     -- add / update / delete
  | val (v : Nat)       -- successful get
  | err                 -- `ParamError::InvalidIndex`
deriving DecidableEq, Repr

/-- one `rodbus_database_*` call (`add_entry`, `update_entry`, `remove`, `get_entry`) -/
def Db.step (db : Db) : DbOp → Db × DbRes
  | .add t i v =>
    match db.find t i with
    | none => (db.setTbl t ((i, v) :: db.tbl t), .flag true)
    | some _ => (db, .flag false)
  | .update t i v =>
    match db.find t i with
    | some _ => (db.setTbl t ((db.tbl t).replace i v), .flag true)
    | none => (db, .flag false)
  | .delete t i =>
    match db.find t i with
    | some _ => (db.setTbl t ((db.tbl t).erase i), .flag true)
    | none => (db, .flag false)
  | .get t i =>
    match db.find t i with
    | some v => (db, .val v)
    | none => (db, .err)

/-- a transaction: the calls made by one `DatabaseCallback` -/
def Db.run (db : Db) : List DbOp → Db × List DbRes
  | [] => (db, [])
  | op :: ops =>
    let x := db.step op
    let y := Db.run x.1 ops
    (y.1, x.2 :: y.2)

/-- successive transactions made through one server handle (each list = the calls of one
    `DatabaseCallback`): the database persists from one to the next -/
def Db.runAll (db : Db) : List (List DbOp) → Db × List DbRes
  | [] => (db, [])
  | tx :: rest =>
    let x := db.run tx
    let y := Db.runAll x.1 rest
    (y.1, x.2 ++ y.2)

/-! ## The request handler built from the database (`RequestHandlerWrapper`) -/

/-- the application's `WriteHandler`: `none` = the C callback pointer is null.  A callback sees
    the database and may change it (it is handed `&mut Database`). -/
structure WriteApp where
  single_coil : Option (Db → Nat → Bool → WriteResult × Db)
  single_register : Option (Db → Nat → Nat → WriteResult × Db)
  multiple_coils : Option (Db → Nat → List (Nat × Bool) → WriteResult × Db)
  multiple_registers : Option (Db → Nat → List (Nat × Nat) → WriteResult × Db)

/-- EXPECTED body of each of the four write callbacks: `Some(x) => x.convert_to_result()`,
    `None => Err(IllegalFunction)` -/
def wrapWrite (r : Option (WriteResult × Db)) (db : Db) : Except Nat Unit × Db :=
  match r with
  | some (w, db') => (toWire (convertToResult w), db')
  | none => (.error ExCode.illegalFunction.toByte, db)

def readPoint (db : Db) (t : Table) (a : Nat) : Except Nat Nat :=
  match db.find t a with
  | some v => .ok v
  | none => .error ExCode.illegalDataAddress.toByte

/-- bits are stored as 0 / 1 -/
def bitOfNat (v : Nat) : Bool := v != 0

/-- `impl RequestHandler for RequestHandlerWrapper` -/
def dbHandler (app : WriteApp) : Handler Db where
  readCoil db a := (readPoint db .coils a).map bitOfNat
  readDiscreteInput db a := (readPoint db .discrete a).map bitOfNat
  readHoldingRegister db a := readPoint db .holding a
  readInputRegister db a := readPoint db .input a
  writeSingleCoil db i v := wrapWrite (app.single_coil.map (· db i v)) db
  writeSingleRegister db i v := wrapWrite (app.single_register.map (· db i v)) db
  writeMultipleCoils db r items := wrapWrite (app.multiple_coils.map (· db r.start items)) db
  writeMultipleRegisters db r items := wrapWrite (app.multiple_registers.map (· db r.start items)) db

/-- an application without write callbacks -/
def noWrites : WriteApp := ⟨none, none, none, none⟩

/-- the read request of a table -/
def readReq (t : Table) (r : Range) : Request :=
  match t with
  | .coils => .readCoils r | .discrete => .readDiscreteInputs r
  | .holding => .readHoldingRegisters r | .input => .readInputRegisters r

def readCall (t : Table) (u a : Nat) : Call :=
  match t with
  | .coils => .readCoil u a | .discrete => .readDiscreteInput u a
  | .holding => .readHoldingRegister u a | .input => .readInputRegister u a

/-- reply PDU of the server for a read of table `t` against the database -/
def readReply (app : WriteApp) (u : Nat) (db : Db) (t : Table) (r : Range) : Bytes :=
  (getReply (dbHandler app) u db (readReq t r)).1

/-! ## Submitting a request through the C ABI -/

/-- how a `rodbus_client_channel_<op>` call can end before the request reaches the task -/
inductive Submit
  | accepted                 -- queued; the task will complete the promise
  | nullArgument             -- null channel / null list pointer
  | invalidRange             -- `AddressRange::try_from` or the per-type count limit failed
  | invalidRequest           -- `WriteMultiple::from` failed
  | queueFull                -- `try_send` on a full queue
  | channelClosed            -- `try_send` on a closed queue (the task has ended)
deriving DecidableEq, Repr

def Submit.all : List Submit :=
  [.accepted, .nullArgument, .invalidRange, .invalidRequest, .queueFull, .channelClosed]

/-- the `ParamError` returned by the call -/
def Submit.returnCode : Submit → String
  | .accepted => "Ok" | .nullArgument => "NullParameter" | .invalidRange => "InvalidRange"
  | .invalidRequest => "InvalidRequest" | .queueFull => "TooManyRequests"
  | .channelClosed => "Shutdown"

/-- what the completion callback is completed with when the call itself fails (EXPECTED: the
    counterpart of what the Rust API reports for the same mistake; a queue-full condition has no
    `RequestError` counterpart at all, hence the name of the return code) -/
def Submit.callbackError : Submit → Option String
  | .accepted => none
  | .nullArgument => some FfiRequestError.badArgument.name
  | .invalidRange => some FfiRequestError.badRequest.name
  | .invalidRequest => some FfiRequestError.badRequest.name
  | .queueFull => some "TooManyRequests"
  | .channelClosed => some FfiRequestError.shutdown.name

/-- invocations of the three function pointers of a callback struct -/
structure Fired where
  complete : Nat := 0
  failure : Nat := 0
  destroy : Nat := 0
  result : List String := []
deriving DecidableEq, Repr

/-- what the task does with an accepted request -/
inductive TaskEnd
  | success (value : String)
  | error (e : RustErr)
  | dropped                  -- the promise is dropped un-completed (task / runtime gone)
deriving DecidableEq, Repr

/-- `sfio_promise::Promise` around the callback struct: completed at most once, completed with
    `Shutdown` when dropped, the struct (and with it `on_destroy`) dropped afterwards -/
def fire (s : Submit) (t : TaskEnd) : Fired :=
  match s.callbackError with
  | some e => { failure := 1, destroy := 1, result := [e] }
  | none =>
    match t with
    | .success v => { complete := 1, destroy := 1, result := [v] }
    | .error e => { failure := 1, destroy := 1, result := [(reqErrOf e).name] }
    | .dropped => { failure := 1, destroy := 1, result := [FfiRequestError.shutdown.name] }

def Fired.text (f : Fired) : String :=
  let r := if f.result.isEmpty then "none" else "+".intercalate f.result
  s!"{r} c{f.complete} f{f.failure} d{f.destroy}"

/-! ## Address filters built through the C ABI (`parse_address_filter`, `address_filter_add`) -/

open Rodbus.Filter in
/-- one decimal field of `Ipv4Addr::from_str`: 1–3 digits, no leading zero unless the field is
    `0`, value ≤ 255 -/
def ipv4Field (s : List Char) : Option Nat :=
  if s = [] ∨ s.length > 3 then none
  else if s.length > 1 ∧ s.head? = some '0' then none
  else match digitsVal 0 s with
    | some v => if v ≤ 255 then some v else none
    | none => none

open Rodbus.Filter in
/-- `Ipv4Addr::from_str` -/
def parseIpv4 (s : List Char) : Option (Nat × Nat × Nat × Nat) :=
  match splitDots s with
  | [a, b, c, d] =>
    match ipv4Field a, ipv4Field b, ipv4Field c, ipv4Field d with
    | some a, some b, some c, some d => some (a, b, c, d)
    | _, _, _, _ => none
  | _ => none

def hexVal? (c : Char) : Option Nat :=
  if '0' ≤ c ∧ c ≤ '9' then some (c.toNat - 48)
  else if 'a' ≤ c ∧ c ≤ 'f' then some (c.toNat - 87)
  else if 'A' ≤ c ∧ c ≤ 'F' then some (c.toNat - 55)
  else none

/-- `read_number(16, Some(4), true)`: one to four hex digits, greedy; returns value and rest -/
def readHex4 (s : List Char) : Option (Nat × List Char) :=
  let rec go (n : Nat) (acc : Nat) (cnt : Nat) (s : List Char) : Option (Nat × List Char) :=
    match n, s with
    | 0, _ => if cnt = 0 then none else some (acc, s)
    | n + 1, c :: rest =>
      match hexVal? c with
      | some d => go n (acc * 16 + d) (cnt + 1) rest
      | none => if cnt = 0 then none else some (acc, c :: rest)
    | _ + 1, [] => if cnt = 0 then none else some (acc, [])
  -- a fifth hex digit makes `read_number` fail (max_digits exceeded)
  match go 4 0 0 s with
  | some (v, c :: rest) => if (hexVal? c).isSome then none else some (v, c :: rest)
  | r => r

/-- `read_number(10, Some(3), false)` for an IPv4 field inside an IPv6 literal -/
def readDec3 (s : List Char) : Option (Nat × List Char) :=
  let ds := s.takeWhile (fun c => '0' ≤ c ∧ c ≤ '9')
  match ipv4Field ds with
  | some v => some (v, s.drop ds.length)
  | none => none

/-- `read_ipv4_addr` as a prefix parser -/
def readIpv4 (s : List Char) : Option ((Nat × Nat × Nat × Nat) × List Char) :=
  match readDec3 s with
  | some (a, '.' :: s1) =>
    match readDec3 s1 with
    | some (b, '.' :: s2) =>
      match readDec3 s2 with
      | some (c, '.' :: s3) =>
        match readDec3 s3 with
        | some (d, s4) => some ((a, b, c, d), s4)
        | none => none
      | _ => none
    | _ => none
  | _ => none

/-- `read_groups`: up to `limit` 16-bit groups separated by `:`; an embedded IPv4 address may
    close the sequence when at least two groups are left.  Returns the groups read, whether an
    IPv4 part closed them, and the rest of the input. -/
def readGroups (limit : Nat) (s : List Char) : List Nat × Bool × List Char :=
  let rec go (fuel i : Nat) (acc : List Nat) (s : List Char) : List Nat × Bool × List Char :=
    match fuel with
    | 0 => (acc, false, s)
    | fuel + 1 =>
      if i ≥ limit then (acc, false, s)
      else
        -- `read_separator(':', i, inner)`
        let afterSep : Option (List Char) :=
          if i = 0 then some s else match s with | ':' :: r => some r | _ => none
        match afterSep with
        | none => (acc, false, s)
        | some s' =>
          let v4 := if i + 1 < limit then readIpv4 s' else none
          match v4 with
          | some ((a, b, c, d), rest) => (acc ++ [a * 256 + b, c * 256 + d], true, rest)
          | none =>
            match readHex4 s' with
            | some (g, rest) => go fuel (i + 1) (acc ++ [g]) rest
            | none => (acc, false, s)
  go (limit + 1) 0 [] s

/-- `Ipv6Addr::from_str`: the eight groups -/
def parseIpv6 (s : List Char) : Option (List Nat) :=
  let (head, headV4, rest) := readGroups 8 s
  if head.length = 8 then (if rest = [] then some head else none)
  else if headV4 then none
  else match rest with
    | ':' :: ':' :: rest' =>
      let limit := 8 - (head.length + 1)
      let (tail, _, rest'') := readGroups limit rest'
      if rest'' = [] then
        some (head ++ List.replicate (8 - head.length - tail.length) 0 ++ tail)
      else none
    | _ => none

open Rodbus.Filter in
/-- `IpAddr::from_str` -/
def parseIp (s : List Char) : Option Addr :=
  match parseIpv4 s with
  | some (a, b, c, d) => some (.v4 a b c d)
  | none => (parseIpv6 s).map .v6

open Rodbus.Filter in
/-- the C ABI's filter object (`pub enum AddressFilter` of rodbus-ffi) converted for the server -/
def parseAddressFilter (s : List Char) : Option AddressFilter :=
  match parseIp s with
  | some a => some (.anyOf [a])
  | none => (parseWildcard s).map .wildcard

open Rodbus.Filter in
/-- `address_filter_add`: only a set can grow; returns success and the filter afterwards -/
def addressFilterAdd (f : AddressFilter) (s : List Char) : Bool × AddressFilter :=
  match parseIp s with
  | none => (false, f)
  | some a =>
    match f with
    | .anyOf set => (true, .anyOf (if set.contains a then set else set ++ [a]))
    | other => (false, other)

/-- the three TCP/TLS server constructors of the C ABI -/
inductive ServerCtor | tcp | tls | tlsWithAuthz
deriving DecidableEq, Repr

def ServerCtor.all : List ServerCtor := [.tcp, .tls, .tlsWithAuthz]

def ServerCtor.fnName : ServerCtor → String
  | .tcp => "server_create_tcp" | .tls => "server_create_tls"
  | .tlsWithAuthz => "server_create_tls_with_authz"

/-- EXPECTED: every constructor hands the caller's filter to the library -/
def forwardedFilter (_ : ServerCtor) (callers : Filter.AddressFilter) : Filter.AddressFilter := callers

/-- is a peer served by a server created through constructor `c` with filter `f`? -/
def served (c : ServerCtor) (f : Filter.AddressFilter) (peer : Filter.Addr) : Bool :=
  (forwardedFilter c f).matches peer

/-! ## Caller-owned objects handed to several calls

  A C caller owns the lists, filters and maps it creates until it destroys them, and it may hand
  the same object to any number of calls.  A call therefore depends on the VALUE of each argument
  object only, and (with one documented exception) leaves the object as it found it.  The
  functions below return, next to what the call uses, the object as the call leaves it; the
  correspondence runs of `ffi reuse …` thread the objects through them. -/

/-- a `BitList` / `RegisterList` of the caller: its current contents -/
structure ListObj (α : Type) where
  items : List α
deriving DecidableEq, Repr

/-- EXPECTED `rodbus_client_channel_write_multiple_{coils,registers}`: the values are COPIED into
    the request (`items.inner.clone()`); returns the values of the request and the caller's list
    afterwards -/
def ListObj.submit {α : Type} (l : ListObj α) : List α × ListObj α := (l.items, l)

/-- successive submissions of ONE list object to the given start addresses: the
    `(start, values)` of each request in order, and the object afterwards -/
def ListObj.submitAll {α : Type} (l : ListObj α) : List Nat → List (Nat × List α) × ListObj α
  | [] => ([], l)
  | s :: rest =>
    let x := l.submit
    let y := x.2.submitAll rest
    ((s, x.1) :: y.1, y.2)

/-- the invocations seen by ONE callback context that was handed (by value, as part of equal
    callback structs) to several calls: each call fires on its own -/
def Fired.merge (a b : Fired) : Fired :=
  { complete := a.complete + b.complete, failure := a.failure + b.failure,
    destroy := a.destroy + b.destroy, result := a.result ++ b.result }

def fireAll (calls : List (Submit × TaskEnd)) : Fired :=
  calls.foldl (fun acc c => acc.merge (fire c.1 c.2)) {}

/-- EXPECTED server constructors: the filter object is CONVERTED (`filter.into()` clones the
    set), so a server keeps the value the object had when the constructor ran; returns the
    server's filter and the caller's object afterwards -/
def snapshotFilter (c : ServerCtor) (f : Filter.AddressFilter) : Filter.AddressFilter × Filter.AddressFilter :=
  (forwardedFilter c f, f)

/-- a `DeviceMap` of the caller: unit ids in registration order, each with the database its
    configuration callback produced -/
structure DeviceMap where
  units : List (Nat × Db) := []
deriving DecidableEq, Repr

/-- `rodbus_device_map_add_endpoint`: a unit id that is taken is refused, the configuration
    callback of a refused registration does not run (its database is never built); returns the
    flag, how often the configuration callback ran, and the map afterwards -/
def DeviceMap.addEndpoint (m : DeviceMap) (u : Nat) (configure : Db → Db) : Bool × Nat × DeviceMap :=
  if m.units.any (·.1 = u) then (false, 0, m) else (true, 1, ⟨m.units ++ [(u, configure {})]⟩)

/-- EXPECTED (documented: "map of endpoints which is emptied upon passing to this function"):
    a server constructor MOVES the endpoints into the server; returns the server's units and the
    caller's map afterwards -/
def DeviceMap.createServer (m : DeviceMap) : DeviceMap × DeviceMap := (m, ⟨[]⟩)

def DeviceMap.lookup (m : DeviceMap) (u : Nat) : Option Db := (m.units.find? (·.1 = u)).map (·.2)

/-- the object a control call (`enable`, `disable`, `set_decode_level`, `update_database`, …) is
    made on -/
inductive CtlTarget
  | live          -- a valid object whose task runs
  | null          -- a null pointer
  | closed        -- a channel whose task has ended (runtime destroyed)
  | withinAsync   -- a blocking call made from inside an asynchronous context
deriving DecidableEq, Repr

/-- the source error of a control call, as a row key of `expectedParamErrors` (`none` = success;
    a null pointer is reported before anything is converted) -/
def CtlTarget.source : CtlTarget → Option (String × String)
  | .live => none
  | .null => none
  | .closed => some ("FfiChannelError", "ChannelClosed")
  | .withinAsync => some ("RuntimeError", "CannotBlockWithinAsync")

/-- EXPECTED `ParamError` of a control call; the decode level (or any other setting) handed to
    it plays no part -/
def CtlTarget.returnCode (t : CtlTarget) : String :=
  match t with
  | .null => Submit.nullArgument.returnCode
  | t =>
    match t.source with
    | none => Submit.accepted.returnCode
    | some (ty, v) => ((expectedParamErrors.find? fun r => r.1 = ty ∧ r.2.1 = v).map (·.2.2)).getD "?"

/-- `rodbus_server_update_database`: the unit must exist, else the callback is not invoked; the
    callback struct is dropped (its `on_destroy` runs) exactly once either way.
    Returns (ParamError, invocations, destructions). -/
def updateDatabase (server : CtlTarget) (unitExists : Bool) : String × Nat × Nat :=
  match server with
  | .null => (Submit.nullArgument.returnCode, 0, 1)
  | _ => if unitExists then ("Ok", 1, 1) else ("InvalidUnitId", 0, 1)

/-- what the C iterator handed to a read completion yields on successive `next` calls: the items
    in order, then null for ever (`none`) -/
def iterNext {α : Type} (items : List α) (k : Nat) : Option α := items[k]?

/-- the first `take` results of `next` -/
def iterTake {α : Type} (items : List α) (take : Nat) : List (Option α) :=
  (List.range take).map (iterNext items)

/-! ## Lock model for transactions and client requests

  MODELLING HYPOTHESIS (lock scope): `server_update_database` holds the handler mutex from before
  the first to after the last call of the transaction callback, and the server session holds the
  same mutex while it builds the whole reply of one request.  In the model an actor therefore
  (1) acquires the lock, (2) performs all its micro-steps, (3) releases; a step attempted by
  another actor while the lock is held has no effect (the thread is parked on the mutex).  The
  scheduler is arbitrary: a schedule is any list of actor ids. -/

/-- what an actor does while it holds the lock -/
inductive Prog
  | tx (ops : List DbOp)                  -- a transaction
  | read (t : Table) (addrs : List Nat)   -- one client read request (ascending addresses)
deriving DecidableEq, Repr

/-- result of a client read: the values, or the exception raised by the first failing point -/
inductive RdOut
  | ok (vs : List Nat)
  | error (e : Nat)
deriving DecidableEq, Repr

def RdOut.ofExcept : Except Nat (List Nat) → RdOut
  | .ok vs => .ok vs
  | .error e => .error e

inductive Outcome
  | tx (results : List DbRes)
  | read (r : RdOut)
deriving DecidableEq, Repr

/-- the lock holder: identity, its whole program (kept for the statement of the theorems only),
    the micro-steps still to do and what has been gathered so far -/
inductive Running
  | tx (id : Nat) (prog : Prog) (todo : List DbOp) (acc : List DbRes)
  | read (id : Nat) (prog : Prog) (t : Table) (todo : List Nat) (acc : List Nat) (failed : Option Nat)
deriving DecidableEq, Repr

def Running.id : Running → Nat
  | .tx id _ _ _ => id
  | .read id _ _ _ _ _ => id

def Running.prog : Running → Prog
  | .tx _ p _ _ => p
  | .read _ p _ _ _ _ => p

/-- the state of an actor that has just acquired the lock -/
def Running.start (id : Nat) (p : Prog) : Running :=
  match p with
  | .tx ops => .tx id p ops []
  | .read t addrs => .read id p t addrs [] none

structure LState where
  db : Db
  pending : List (Nat × Prog)            -- actors that have not yet acquired the lock
  holder : Option Running := none
  log : List (Nat × Prog × Outcome) := [] -- completed actors in order of release
deriving DecidableEq, Repr

/-- executing a whole program at once (what "atomic" means) -/
def Prog.atomic (db : Db) : Prog → Db × Outcome
  | .tx ops => let r := db.run ops; (r.1, .tx r.2)
  | .read t addrs => (db, .read (RdOut.ofExcept (readSeq (readPoint db t) addrs).2))

def Running.isDone : Running → Bool
  | .tx _ _ todo _ => todo.isEmpty
  | .read _ _ _ todo _ failed => todo.isEmpty || failed.isSome

def Running.outcome : Running → Outcome
  | .tx _ _ _ acc => .tx acc
  | .read _ _ _ _ acc failed =>
    match failed with
    | some e => .read (.error e)
    | none => .read (.ok acc)

/-- one micro-step of the lock holder: one database call of a transaction, or one point lookup
    of a read (the first absent point ends the read with its exception) -/
def Running.micro (r : Running) (db : Db) : Running × Db :=
  match r with
  | .tx id p (op :: ops) acc =>
    let x := db.step op
    (.tx id p ops (acc ++ [x.2]), x.1)
  | .read id p t (a :: as) acc none =>
    match readPoint db t a with
    | .ok v => (.read id p t as (acc ++ [v]) none, db)
    | .error e => (.read id p t as acc (some e), db)
  | r => (r, db)

/-- the scheduler lets actor `a` run one step -/
def LState.sched (s : LState) (a : Nat) : LState :=
  match s.holder with
  | some r =>
    if r.id ≠ a then s                                   -- parked on the mutex
    else if r.isDone then
      { s with holder := none, log := s.log ++ [(r.id, r.prog, r.outcome)] }   -- release
    else
      { s with holder := some (r.micro s.db).1, db := (r.micro s.db).2 }
  | none =>
    match s.pending.find? (·.1 = a) with
    | some (_, p) =>                                     -- acquire
      { s with holder := some (Running.start a p),
               pending := s.pending.filter (·.1 ≠ a) }
    | none => s

def LState.init (db : Db) (actors : List (Nat × Prog)) : LState := { db := db, pending := actors }

def LState.run (s : LState) (schedule : List Nat) : LState := schedule.foldl LState.sched s

/-- the serial execution of programs, one after the other -/
def serial (db : Db) : List Prog → Db × List Outcome
  | [] => (db, [])
  | p :: ps =>
    let x := p.atomic db
    let y := serial x.1 ps
    (y.1, x.2 :: y.2)

/-- the same scheduler WITHOUT the mutex (every actor may step at any time; used only to show that
    the lock-scope hypothesis is what makes reads atomic) -/
def unlockedRead (db : Db) (t : Table) (a1 a2 : Nat) (between : List DbOp) : RdOut :=
  match readPoint db t a1 with
  | .error e => .error e
  | .ok v1 =>
    match readPoint (db.run between).1 t a2 with
    | .error e => .error e
    | .ok v2 => .ok [v1, v2]

/-! ## Disjoint writers (`ffi atomic … w`)

  Besides the whole-block transactions every transaction thread increments a counter register of
  its own inside its transactions (get, then update to value + 1), and a client writes yet another
  register through the write handler.  Under the lock-scope hypothesis every one of these writers
  is a lock holder, so the final database is that of a serial execution in which each transaction
  is applied exactly once: nothing an acknowledged writer did is undone by another one. -/

/-- the point an operation touches -/
def DbOp.point : DbOp → Table × Nat
  | .add t i _ | .update t i _ | .delete t i | .get t i => (t, i)

/-- the calls of one increment of the counter register `i` as made on database `db`: get, then
    update to the value read + 1 (16-bit wrap-around) -/
def incrOps (db : Db) (i : Nat) : List DbOp :=
  match db.find .holding i with
  | some v => [.get .holding i, .update .holding i ((v + 1) % 65536)]
  | none => [.get .holding i]

/-- one increment transaction -/
def Db.incr (db : Db) (i : Nat) : Db := (db.run (incrOps db i)).1

/-- EXPECTED result line of `ffi atomic`: every read is whole (`uniform`); a case with flags also
    reports the number of torn reads and of lost updates (counter increments and acknowledged
    client writes that are not reflected), both 0, and that every actor did some work -/
def atomicExpected (flags : Option String) : String :=
  match flags with
  | none => "uniform"
  | some _ => "uniform torn=0 lost=0 work=ok"

end Rodbus.Ffi
