import RodbusModel.Model.Client
/-
  Lemmas about the client task model (Model/Client.lean).

  The machine is abstracted once: `core` projects a state onto the fields the properties talk
  about, and `Eff c c'` enumerates what one tick of the outer task, one script step or one clock
  movement can do to them (`tick_eff`, `applyStep_eff`, `moveClock_eff`).  Every state the model
  can reach is `Reach`able through `Eff` (`runState_reach`); the invariants are proved once on
  `Reach`.
-/
namespace Rodbus.Client

/-! ## the abstract view -/

structure Core where
  log : List LogEntry
  queue : List Cmd
  pos : Pos
  accepted : List Rid
  tx : Nat
  dequeued : List (Rid × Nat)
  sent : List (Rid × Nat × Bytes)
  nto : Nat
  alive : Bool
  now : Nat
  maxTo : Nat

def core {σ : Type} (s : State σ) : Core :=
  ⟨s.log, s.queue, s.pos, s.accepted, s.tx, s.dequeued, s.sent, s.nto, s.alive, s.now, s.maxTo⟩

def inflightIds : Pos → List Rid
  | .inflight _ r _ _ => [r.rid]
  | _ => []

def inflightReqsOf : Pos → List Req
  | .inflight _ r _ _ => [r]
  | _ => []

def doneIds : List LogEntry → List Rid
  | [] => []
  | .done rid _ _ _ :: es => rid :: doneIds es
  | _ :: es => doneIds es

def queueIds (q : List Cmd) : List Rid := (reqsOf q).map (·.rid)

def LogEntry.isDone : LogEntry → Bool
  | .done .. => true
  | _ => false

def Cmd.isReq : Cmd → Bool
  | .req _ => true
  | _ => false

def doneEntry (c : Core) (r : Req) (res : Res) : LogEntry := .done r.rid r.style res c.now

/-- `afterRequest` on the abstract view -/
def afterCore (c : Core) (m : Nat) (res : Res) : Core :=
  match res.sessionEnd with
  | some k => { c with log := .fin k c.now :: c.log, pos := .noPhase }
  | none =>
    if res = .timeout then
      if c.maxTo = 0 then { c with pos := .idle m }
      else if c.nto + 1 ≥ c.maxTo then
        { c with nto := c.nto + 1, log := .fin (.maxTo c.maxTo) c.now :: c.log, pos := .noPhase }
      else { c with nto := c.nto + 1, pos := .idle m }
    else { c with nto := 0, pos := .idle m }

/-- the deadline of the timer the task sleeps on -/
def Core.timer (c : Core) : Option Nat :=
  if !c.alive then none
  else match c.pos with
    | .inflight _ _ _ dl => some dl
    | .failFor dl _ => some dl
    | _ => none

/-- the completions logged when the task is dropped: the request in flight, then the queue -/
def shutdownEntries (c : Core) (rs : List Req) : List LogEntry :=
  (rs.map fun r => doneEntry c r .shutdown).reverse

/-- what the outer task (one tick) or the clock can do to the abstract view -/
inductive TEff : Core → Core → Prop
  /-- reader progress, a dropped or skipped frame, scheduler bookkeeping, handles, transports,
      queued phases -/
  | quiet (c : Core) : TEff c c
  | commit (c : Core) (dl : Nat) : c.alive = true → c.pos = .failFor dl false →
      TEff c { c with pos := .failFor dl true }
  | startSession (c : Core) (m : Nat) : c.alive = true → c.pos = .noPhase →
      TEff c { c with pos := .idle m, nto := 0 }
  | startWait (c : Core) : c.alive = true → c.pos = .noPhase → TEff c { c with pos := .waitEnabled }
  | startFail (c : Core) (ms : Nat) : c.alive = true → c.pos = .noPhase →
      TEff c { c with pos := .failFor (c.now + ms) false }
  /-- a phase ends without a command having been taken -/
  | phaseEnd (c : Core) (k : EndKind) : c.alive = true → inflightIds c.pos = [] →
      c.pos ≠ .noPhase → TEff c { c with pos := .noPhase, log := .fin k c.now :: c.log }
  /-- a phase ends on a setting or the shutdown command -/
  | phaseEndCmd (c : Core) (k : EndKind) (x : Cmd) (q : List Cmd) : c.alive = true →
      inflightIds c.pos = [] → c.pos ≠ .noPhase → c.queue = x :: q → x.isReq = false →
      TEff c { c with pos := .noPhase, log := .fin k c.now :: c.log, queue := q }
  | setting (c : Core) (x : Cmd) (q : List Cmd) : c.alive = true → inflightIds c.pos = [] →
      c.pos ≠ .noPhase → c.queue = x :: q → x.isReq = false → TEff c { c with queue := q }
  /-- `fail_next_request` -/
  | noConn (c : Core) (r : Req) (q : List Cmd) : c.alive = true →
      (c.pos = .waitEnabled ∨ ∃ dl b, c.pos = .failFor dl b) → c.queue = .req r :: q →
      TEff c { c with queue := q, log := doneEntry c r .noConn :: c.log }
  /-- a request is taken from the queue and written -/
  | send (c : Core) (m : Nat) (r : Req) (q : List Cmd) (bytes : Bytes) (logged : Bool) :
      c.alive = true → c.pos = .idle m → c.queue = .req r :: q →
      TEff c { c with queue := q, tx := nextTx c.tx, dequeued := (r.rid, c.tx) :: c.dequeued,
                      sent := (r.rid, c.tx, bytes) :: c.sent,
                      pos := .inflight m r c.tx (c.now + r.timeout),
                      log := if logged then .tx bytes :: c.log else c.log }
  /-- a request is taken from the queue but cannot be encoded, the bytes buffered before it are
      malformed, or it cannot be written -/
  | dequeueFail (c : Core) (m : Nat) (r : Req) (q : List Cmd) (res : Res) :
      c.alive = true → c.pos = .idle m → c.queue = .req r :: q →
      ((∃ e, res = .badReq e) ∨ res = .io .pipe ∨ (∃ e, res = frameErrRes e)) →
      TEff c (afterCore { c with queue := q, tx := nextTx c.tx,
                                 dequeued := (r.rid, c.tx) :: c.dequeued,
                                 log := doneEntry c r res :: c.log } m res)
  /-- the request in flight completes -/
  | finish (c : Core) (m : Nat) (r : Req) (tx dl : Nat) (res : Res) :
      c.alive = true → c.pos = .inflight m r tx dl → (res = .timeout → dl ≤ c.now) →
      res ≠ .noConn → res ≠ .shutdown →
      TEff c (afterCore { c with log := doneEntry c r res :: c.log } m res)
  /-- the clock moves, not past a timer -/
  | time (c : Core) (t : Nat) : c.now ≤ t → (∀ dl, c.timer = some dl → c.now ≤ dl → t ≤ dl) →
      TEff c { c with now := t }

/-- what a script step does to the abstract view before the tasks run -/
inductive UEff : Core → Core → Prop
  | quiet (c : Core) : UEff c c
  /-- something that is not a completion is logged -/
  | note (c : Core) (e : LogEntry) : e.isDone = false → UEff c { c with log := e :: c.log }
  /-- a submission is accepted and completed at once (possibly followed by a `sub` entry) -/
  | acceptDone (c : Core) (r : Req) (res : Res) (extra : List LogEntry) :
      (∀ e ∈ extra, e.isDone = false) →
      (res = .shutdown ∨ ∃ e, res = .badReq e) →
      UEff c { c with accepted := r.rid :: c.accepted,
                      log := extra ++ doneEntry c r res :: c.log }
  | acceptQueue (c : Core) (r : Req) : c.alive = true →
      UEff c { c with accepted := r.rid :: c.accepted, queue := c.queue ++ [.req r] }
  | enqueueCmd (c : Core) (x : Cmd) : c.alive = true → x.isReq = false →
      UEff c { c with queue := c.queue ++ [x] }
  /-- the outer task is dropped -/
  | abort (c : Core) : c.alive = true →
      UEff c { c with alive := false, queue := [], pos := .noPhase,
                      log := shutdownEntries c (inflightReqsOf c.pos ++ reqsOf c.queue) ++ c.log }

/-- everything that can happen to the abstract view -/
def Eff (c c' : Core) : Prop := TEff c c' ∨ UEff c c'

/-- reflexive-transitive closure -/
inductive Star (R : Core → Core → Prop) : Core → Core → Prop
  | refl (c : Core) : Star R c c
  | tail {a b c : Core} : Star R a b → R b c → Star R a c

theorem Star.single {R : Core → Core → Prop} {a b : Core} (h : R a b) : Star R a b :=
  .tail (.refl a) h

theorem Star.trans {R : Core → Core → Prop} {a b c : Core} (h1 : Star R a b) (h2 : Star R b c) :
    Star R a c := by
  induction h2 with
  | refl => exact h1
  | tail _ e ih => exact .tail ih e

theorem Star.mono {R S : Core → Core → Prop} (h : ∀ a b, R a b → S a b) {a b : Core}
    (hs : Star R a b) : Star S a b := by
  induction hs with
  | refl => exact .refl _
  | tail _ e ih => exact .tail ih (h _ _ e)

/-- finitely many effects -/
abbrev Steps := Star Eff

/-- finitely many effects of the task and the clock -/
abbrev TSteps := Star TEff

theorem TSteps.steps {a b : Core} (h : TSteps a b) : Steps a b := Star.mono (fun _ _ e => Or.inl e) h

/-- the abstract view of a freshly created client -/
def Core.init (maxTo : Nat) : Core := ⟨[], [], .noPhase, [], 0, [], [], 0, true, 0, maxTo⟩

/-- reachable abstract states -/
def Reach (c : Core) : Prop := ∃ maxTo, Steps (Core.init maxTo) c


/-! ## the machine refines `Eff` -/

section
variable {σ : Type}

theorem inflightReqs_eq (s : State σ) : inflightReqs s = inflightReqsOf s.pos := by
  unfold inflightReqs inflightReqsOf; cases s.pos <;> rfl

@[simp] theorem core_emit (s : State σ) (e : LogEntry) :
    core (emit s e) = { core s with log := e :: s.log } := rfl

@[simp] theorem core_complete (s : State σ) (r : Req) (res : Res) :
    core (complete s r res) = { core s with log := doneEntry (core s) r res :: s.log } := rfl

@[simp] theorem core_endPhase (s : State σ) (k : EndKind) :
    core (endPhase s k) = { core s with log := .fin k s.now :: s.log, pos := .noPhase } := rfl

@[simp] theorem core_accept (s : State σ) (rid : Rid) :
    core (accept s rid) = { core s with accepted := rid :: s.accepted } := rfl

@[simp] theorem core_enqueue (s : State σ) (c : Cmd) :
    core (enqueue s c) = { core s with queue := s.queue ++ [c] } := rfl

@[simp] theorem core_applySetting (s : State σ) (c : Cmd) : core (applySetting s c) = core s := by
  cases c <;> rfl

@[simp] theorem core_flip (s : State σ) : core (flip s).2 = core s := by
  unfold flip; cases s.coins <;> rfl

@[simp] theorem core_setMock (s : State σ) (m : Nat) (k : Mock) : core (setMock s m k) = core s :=
  rfl

@[simp] theorem core_pollReader (F : Framing σ) (s : State σ) (m : Nat) :
    core (pollReader F s m).2 = core s := rfl

theorem core_afterRequest (s : State σ) (m : Nat) (res : Res) :
    core (afterRequest s m res) = afterCore (core s) m res := by
  unfold afterRequest afterCore
  cases res.sessionEnd with
  | some k => rfl
  | none =>
    by_cases h1 : res = .timeout <;> by_cases h2 : s.maxTo = 0 <;>
      by_cases h3 : s.nto + 1 ≥ s.maxTo <;> simp [core, h1, h2, h3, endPhase, emit]

theorem core_finish (s : State σ) (m : Nat) (r : Req) (res : Res) :
    core (finish s m r res)
      = afterCore { core s with log := doneEntry (core s) r res :: s.log } m res := by
  unfold finish; rw [core_afterRequest, core_complete]

theorem startPhase_eff (F : Framing σ) (s s' : State σ) (ha : s.alive = true)
    (hp : s.pos = .noPhase) (h : startPhase F s = some s') : TEff (core s) (core s') := by
  unfold startPhase at h
  split at h
  · cases h
  · cases h; exact TEff.startSession (core s) _ ha hp
  · cases h; exact TEff.startWait (core s) ha hp
  · cases h; exact TEff.startFail (core s) _ ha hp

theorem discardBuffered_err (F : Framing σ) (fuel : Nat) (st : σ) (rb : RB) (res : Res)
    (x : σ × RB) (h : discardBuffered F fuel st rb = (some res, x)) : ∃ e, res = frameErrRes e := by
  induction fuel generalizing st rb with
  | zero => simp [discardBuffered] at h
  | succ n ih =>
    unfold discardBuffered at h
    split at h
    · exact ih _ _ h
    · simp at h
    · rename_i e _ _ _
      simp at h
      exact ⟨e, h.1.symm⟩

theorem startRequest_eff (F : Framing σ) (s : State σ) (m : Nat) (r : Req) (q : List Cmd)
    (ha : s.alive = true) (hp : s.pos = .idle m) (hq : s.queue = .req r :: q) :
    TEff (core s) (core (startRequest F { s with queue := q } m r)) := by
  unfold startRequest
  simp only []
  split
  · rename_i e _
    rw [core_finish]
    exact TEff.dequeueFail (core s) m r q (.badReq e) ha hp hq (Or.inl ⟨e, rfl⟩)
  · rename_i pdu _
    split
    · rename_i res st' rb' hd
      rw [core_finish]
      exact TEff.dequeueFail (core s) m r q res ha hp hq
        (Or.inr (Or.inr (discardBuffered_err F _ _ _ res _ hd)))
    · split
      · rw [core_finish]
        exact TEff.dequeueFail (core s) m r q (.io .pipe) ha hp hq (Or.inr (Or.inl rfl))
      · rename_i hw
        generalize hb : isLatest _ m = b
        cases b
        · exact TEff.send (core s) m r q _ false ha hp hq
        · exact TEff.send (core s) m r q _ true ha hp hq

theorem inflightIds_idle (m : Nat) : inflightIds (.idle m) = [] := rfl

theorem sessionRecv_eff (F : Framing σ) (s t : State σ) (m : Nat) (ha : s.alive = true)
    (hp : s.pos = .idle m) (h : sessionRecv F s m = some t) : TEff (core s) (core t) := by
  have hi : inflightIds (core s).pos = [] := by simp [core, hp, inflightIds]
  have hn : (core s).pos ≠ .noPhase := by simp [core, hp]
  unfold sessionRecv at h
  split at h
  · rename_i c q hq
    cases h
    cases c with
    | req r => exact startRequest_eff F s m r q ha hp hq
    | shutdown => exact TEff.phaseEndCmd (core s) .shutdown .shutdown q ha hi hn hq rfl
    | enable =>
      simp only [runCmd]; split
      · exact TEff.setting (core s) .enable q ha hi hn hq rfl
      · exact TEff.phaseEndCmd (core s) .disabled .enable q ha hi hn hq rfl
    | disable =>
      simp only [runCmd]; split
      · exact TEff.setting (core s) .disable q ha hi hn hq rfl
      · exact TEff.phaseEndCmd (core s) .disabled .disable q ha hi hn hq rfl
    | setDecode d =>
      simp only [runCmd]; split
      · exact TEff.setting (core s) (.setDecode d) q ha hi hn hq rfl
      · exact TEff.phaseEndCmd (core s) .disabled (.setDecode d) q ha hi hn hq rfl
  · split at h
    · cases h; exact TEff.phaseEnd (core s) .shutdown ha hi hn
    · cases h

theorem idleReader_eff (s : State σ) (r : ReadRes) (m : Nat) (ha : s.alive = true)
    (hp : s.pos = .idle m) : TEff (core s) (core (idleReader s r)) := by
  have hi : inflightIds (core s).pos = [] := by simp [core, hp, inflightIds]
  have hn : (core s).pos ≠ .noPhase := by simp [core, hp]
  unfold idleReader
  split
  · split
    · exact TEff.phaseEnd (core s) _ ha hi hn
    · exact TEff.quiet _
  · exact TEff.quiet _

theorem tickIdle_eff (F : Framing σ) (s t : State σ) (m : Nat) (ha : s.alive = true)
    (hp : s.pos = .idle m) (h : tickIdle F s m = some t) : TEff (core s) (core t) := by
  unfold tickIdle at h
  simp only [] at h
  generalize hpr : pollReader F s m = pr at h
  obtain ⟨r, s'⟩ := pr
  have hc : core s' = core s := by have := core_pollReader F s m; rw [hpr] at this; exact this
  have ha' : s'.alive = true := by have := congrArg Core.alive hc; simpa [core, ha] using this
  have hp' : s'.pos = .idle m := by have := congrArg Core.pos hc; simpa [core, hp] using this
  generalize hf : flip s = fl at h
  obtain ⟨c, s0⟩ := fl
  have hc0 : core s0 = core s := by have := core_flip s; rw [hf] at this; exact this
  have ha0 : s0.alive = true := by have := congrArg Core.alive hc0; simpa [core, ha] using this
  have hp0 : s0.pos = .idle m := by have := congrArg Core.pos hc0; simpa [core, hp] using this
  simp only [] at h
  split at h
  · -- blocked
    split at h
    · rename_i t' ht
      cases h
      rw [← hc]; exact sessionRecv_eff F s' t m ha' hp' ht
    · split at h
      · cases h; rw [hc]; exact TEff.quiet _
      · cases h
  · split at h
    · split at h
      · cases h
        have := idleReader_eff { s' with coins := s0.coins } r m ha' hp'
        rw [← hc]; exact this
      · rw [← hc0]; exact sessionRecv_eff F s0 t m ha0 hp0 h
    · cases h
      rw [← hc]; exact idleReader_eff s' r m ha' hp'

theorem frameErrRes_ne (e : FrameErr) : frameErrRes e ≠ .noConn ∧ frameErrRes e ≠ .shutdown
    ∧ frameErrRes e ≠ .timeout := by
  cases e <;> simp [frameErrRes]

theorem respResult_ne (req : ClientReq) (pdu : Bytes) :
    respResult req pdu ≠ .noConn ∧ respResult req pdu ≠ .shutdown
      ∧ respResult req pdu ≠ .timeout := by
  unfold respResult
  repeat' split
  all_goals simp

/-- what the reader can report -/
def ReaderRes (res : Res) : Prop := res ≠ .noConn ∧ res ≠ .shutdown ∧ res ≠ .timeout

theorem readerPoll_fail (F : Framing σ) (fuel : Nat) (st : σ) (rb : RB) (rx : List Rx)
    (res : Res) (x : σ × RB × List Rx)
    (h : readerPoll F fuel st rb rx = (.fail res, x)) : ReaderRes res := by
  induction fuel generalizing st rb rx with
  | zero => simp [readerPoll] at h
  | succ n ih =>
    unfold readerPoll at h
    split at h
    · simp at h
    · rename_i e _ _ _
      simp at h
      obtain ⟨h1, _⟩ := h
      subst h1
      exact frameErrRes_ne e
    · split at h
      · simp at h
      · simp at h; obtain ⟨h1, _⟩ := h; subst h1; simp [ReaderRes]
      · simp at h; obtain ⟨h1, _⟩ := h; subst h1; simp [ReaderRes]
      · split at h
        · simp at h; obtain ⟨h1, _⟩ := h; subst h1; simp [ReaderRes]
        · split at h
          · simp at h; obtain ⟨h1, _⟩ := h; subst h1; simp [ReaderRes]
          · exact ih _ _ _ h

theorem pollReader_fail (F : Framing σ) (s s' : State σ) (m : Nat) (res : Res)
    (h : pollReader F s m = (.fail res, s')) : ReaderRes res := by
  unfold pollReader at h
  simp only [] at h
  generalize hr : readerPoll F _ s.pst s.rb _ = rr at h
  obtain ⟨r, st', rb', rx'⟩ := rr
  simp at h
  obtain ⟨h1, _⟩ := h
  subst h1
  exact readerPoll_fail F _ _ _ _ _ _ hr

theorem inflightReader_eff (s : State σ) (m : Nat) (q : Req) (tx dl : Nat) (r : ReadRes)
    (ha : s.alive = true) (hp : s.pos = .inflight m q tx dl)
    (hr : ∀ res, r = .fail res → ReaderRes res) :
    TEff (core s) (core (inflightReader s m q tx r)) := by
  unfold inflightReader
  split
  · split
    · rw [core_finish]
      have := respResult_ne q.req ‹Frame›.pdu
      exact TEff.finish (core s) m q tx dl _ ha hp (fun h => absurd h this.2.2) this.1 this.2.1
    · exact TEff.quiet _
  · rename_i res
    have := hr res rfl
    rw [core_finish]
    exact TEff.finish (core s) m q tx dl _ ha hp (fun h => absurd h this.2.2) this.1 this.2.1
  · exact TEff.quiet _

theorem tickInflight_eff (F : Framing σ) (s t : State σ) (m : Nat) (q : Req) (tx dl : Nat)
    (ha : s.alive = true) (hp : s.pos = .inflight m q tx dl)
    (h : tickInflight F s m q tx dl = some t) : TEff (core s) (core t) := by
  unfold tickInflight at h
  simp only [] at h
  generalize hpr : pollReader F s m = pr at h
  obtain ⟨r, s'⟩ := pr
  have hc : core s' = core s := by have := core_pollReader F s m; rw [hpr] at this; exact this
  have ha' : s'.alive = true := by have := congrArg Core.alive hc; simpa [core, ha] using this
  have hp' : s'.pos = .inflight m q tx dl := by
    have := congrArg Core.pos hc; simpa [core, hp] using this
  have hnow : s'.now = s.now := congrArg Core.now hc
  have hrr : ∀ res, r = .fail res → ReaderRes res := by
    intro res hres; subst hres; exact pollReader_fail F s s' m res hpr
  generalize hf : flip s = fl at h
  obtain ⟨c, s0⟩ := fl
  have hc0 : core s0 = core s := by have := core_flip s; rw [hf] at this; exact this
  have ha0 : s0.alive = true := by have := congrArg Core.alive hc0; simpa [core, ha] using this
  have hp0 : s0.pos = .inflight m q tx dl := by
    have := congrArg Core.pos hc0; simpa [core, hp] using this
  have hnow0 : s0.now = s.now := congrArg Core.now hc0
  simp only [] at h
  split at h
  · -- blocked
    split at h
    · rename_i hexp
      cases h
      rw [core_finish, ← hc]
      refine TEff.finish (core s') m q tx dl .timeout ha' hp' (fun _ => ?_) (by simp) (by simp)
      have : dl ≤ s.now := by simpa using hexp
      simpa [core, hnow] using this
    · split at h
      · cases h; rw [hc]; exact TEff.quiet _
      · cases h
  · split at h
    · rename_i hexp
      split at h
      · cases h
        rw [core_finish, ← hc0]
        refine TEff.finish (core s0) m q tx dl .timeout ha0 hp0 (fun _ => ?_) (by simp) (by simp)
        have : dl ≤ s.now := by simpa using hexp
        simpa [core, hnow0] using this
      · cases h
        have := inflightReader_eff { s' with coins := s0.coins } m q tx dl r ha' hp' hrr
        rw [← hc]; exact this
    · cases h
      rw [← hc]; exact inflightReader_eff s' m q tx dl r ha' hp' hrr

theorem tickWait_eff (s t : State σ) (ha : s.alive = true) (hp : s.pos = .waitEnabled)
    (h : tickWait s = some t) : TEff (core s) (core t) := by
  have hi : inflightIds (core s).pos = [] := by simp [core, hp, inflightIds]
  have hn : (core s).pos ≠ .noPhase := by simp [core, hp]
  unfold tickWait at h
  split at h
  · cases h; exact TEff.phaseEnd (core s) .enabled ha hi hn
  · split at h
    · rename_i c q hq
      cases h
      cases c with
      | req r => exact TEff.noConn (core s) r q ha (Or.inl hp) hq
      | shutdown => exact TEff.phaseEndCmd (core s) .shutdown .shutdown q ha hi hn hq rfl
      | enable => exact TEff.setting (core s) .enable q ha hi hn hq rfl
      | disable => exact TEff.setting (core s) .disable q ha hi hn hq rfl
      | setDecode d => exact TEff.setting (core s) (.setDecode d) q ha hi hn hq rfl
    · split at h
      · cases h; exact TEff.phaseEnd (core s) .shutdown ha hi hn
      · cases h

theorem failCmd_eff (s : State σ) (dl : Nat) (b : Bool) (c : Cmd) (q : List Cmd)
    (ha : s.alive = true) (hp : s.pos = .failFor dl b) (hq : s.queue = c :: q) :
    TEff (core s) (core (failCmd { s with queue := q } c)) := by
  have hi : inflightIds (core s).pos = [] := by simp [core, hp, inflightIds]
  have hn : (core s).pos ≠ .noPhase := by simp [core, hp]
  cases c with
  | req r => exact TEff.noConn (core s) r q ha (Or.inr ⟨dl, b, hp⟩) hq
  | shutdown => exact TEff.phaseEndCmd (core s) .shutdown .shutdown q ha hi hn hq rfl
  | enable =>
    simp only [failCmd]; split
    · exact TEff.setting (core s) .enable q ha hi hn hq rfl
    · exact TEff.phaseEndCmd (core s) .disabled .enable q ha hi hn hq rfl
  | disable =>
    simp only [failCmd]; split
    · exact TEff.setting (core s) .disable q ha hi hn hq rfl
    · exact TEff.phaseEndCmd (core s) .disabled .disable q ha hi hn hq rfl
  | setDecode d =>
    simp only [failCmd]; split
    · exact TEff.setting (core s) (.setDecode d) q ha hi hn hq rfl
    · exact TEff.phaseEndCmd (core s) .disabled (.setDecode d) q ha hi hn hq rfl

theorem tickFail_eff (s t : State σ) (dl : Nat) (b : Bool) (ha : s.alive = true)
    (hp : s.pos = .failFor dl b) (h : tickFail s dl b = some t) : TEff (core s) (core t) := by
  have hi : inflightIds (core s).pos = [] := by simp [core, hp, inflightIds]
  have hn : (core s).pos ≠ .noPhase := by simp [core, hp]
  unfold tickFail at h
  simp only [] at h
  generalize hf : flip s = fl at h
  obtain ⟨c, s0⟩ := fl
  have hc0 : core s0 = core s := by have := core_flip s; rw [hf] at this; exact this
  simp only [] at h
  split at h
  · rename_i hcond
    have hb : b = false := by
      cases b
      · rfl
      · simp at hcond
    subst hb
    split at h
    · split at h
      · cases h
        have : core (endPhase s0 .elapsed)
            = { core s with pos := .noPhase, log := .fin .elapsed (core s).now :: (core s).log } := by
          rw [core_endPhase, hc0]
          have := congrArg Core.now hc0
          have h2 := congrArg Core.log hc0
          simp [core] at this h2 ⊢
          simp [this, h2]
        rw [this]; exact TEff.phaseEnd (core s) .elapsed ha hi hn
      · cases h
        have : core { s0 with pos := Pos.failFor dl true }
            = { core s with pos := .failFor dl true } := by
          show { core s0 with pos := Pos.failFor dl true } = _
          rw [hc0]
        rw [this]; exact TEff.commit (core s) dl ha hp
    · cases h; exact TEff.phaseEnd (core s) .elapsed ha hi hn
  · split at h
    · rename_i c' q hq
      cases h; exact failCmd_eff s dl b c' q ha hp hq
    · split at h
      · cases h; exact TEff.phaseEnd (core s) .shutdown ha hi hn
      · split at h
        · cases h; exact TEff.phaseEnd (core s) .elapsed ha hi hn
        · cases h

/-- one tick of the outer task is one abstract effect -/
theorem tick_eff (F : Framing σ) (s t : State σ) (h : tick F s = some t) :
    TEff (core s) (core t) := by
  unfold tick at h
  split at h
  · cases h
  · rename_i hal
    have ha : s.alive = true := by simpa using hal
    split at h
    · rename_i hp; exact startPhase_eff F s t ha hp h
    · rename_i m hp; exact tickIdle_eff F s t m ha hp h
    · rename_i m q tx dl hp; exact tickInflight_eff F s t m q tx dl ha hp h
    · rename_i hp; exact tickWait_eff s t ha hp h
    · rename_i dl c hp; exact tickFail_eff s t dl c ha hp h

theorem settle_steps (F : Framing σ) (fuel : Nat) (s : State σ) :
    TSteps (core s) (core (settle F fuel s)) := by
  induction fuel generalizing s with
  | zero => exact .refl _
  | succ n ih =>
    unfold settle
    split
    · split
      · exact .refl _
      · exact ih { s with held := 0 }
    · rename_i t ht
      exact (Star.single (tick_eff F s t ht)).trans (ih t)

theorem settled_steps (F : Framing σ) (s : State σ) : TSteps (core s) (core (settled F s)) :=
  settle_steps F _ s

theorem nextTimer_core (s : State σ) : nextTimer s = (core s).timer := by
  unfold nextTimer Core.timer; rfl

theorem moveClock_eff (s : State σ) (target : Nat) : TEff (core s) (core (moveClock s target)) := by
  unfold moveClock
  simp only []
  refine TEff.time (core s) _ (Nat.le_max_left _ _) ?_
  intro dl hdl hle
  rw [nextTimer_core, hdl]
  simp only [core] at hle ⊢
  omega

theorem advance_steps (F : Framing σ) (fuel target : Nat) (s : State σ) :
    TSteps (core s) (core (advance F fuel target s)) := by
  induction fuel generalizing s with
  | zero => exact .single (moveClock_eff s target)
  | succ n ih =>
    unfold advance
    split
    · split
      · exact ((Star.single (moveClock_eff s _)).trans (settled_steps F _)).trans (ih _)
      · exact .single (moveClock_eff s target)
    · exact .single (moveClock_eff s target)

theorem core_completeAll (s : State σ) (res : Res) (rs : List Req) :
    core (completeAll s res rs)
      = { core s with log := (rs.map fun r => doneEntry (core s) r res).reverse ++ s.log } := by
  induction rs generalizing s with
  | nil => rfl
  | cons r rs ih =>
    unfold completeAll
    rw [ih, core_complete]
    simp [doneEntry, core, complete, emit]

theorem core_addPhase (s : State σ) (p : Phase) : core (addPhase s p) = core s := by
  unfold addPhase; split <;> rfl

theorem core_pushRx (s : State σ) (x : Rx) : core (pushRx s x) = core s := by
  unfold pushRx; split <;> rfl

theorem trySetting_eff (s : State σ) (op : CmdOp) (c : Cmd) (hc : c.isReq = false) :
    UEff (core s) (core (trySetting s op c)) := by
  unfold trySetting
  split
  · exact UEff.note (core s) _ rfl
  · rename_i h
    have ha : s.alive = true := by
      cases hs : s.alive
      · simp [hs] at h
      · rfl
    exact UEff.enqueueCmd (core s) c ha hc

theorem submit_eff (s : State σ) (op : SubmitOp) (r : Req) :
    UEff (core s) (core (submit s op r)) := by
  unfold submit
  split
  · exact UEff.note (core s) _ rfl
  · rename_i e bits _
    split
    · exact UEff.acceptDone (core s) r (.badReq (.badRange e)) [.sub r.rid (.badReq (.badRange e))]
        (by simp [LogEntry.isDone]) (Or.inr ⟨_, rfl⟩)
    · exact UEff.acceptDone (core s) r (.badReq (.badRange e)) [] (by simp) (Or.inr ⟨_, rfl⟩)
  · simp only []
    split
    · split
      · exact UEff.acceptDone (core s) r .shutdown [.sub r.rid .closed]
          (by simp [LogEntry.isDone]) (Or.inl rfl)
      · split
        · exact UEff.acceptDone (core s) r .shutdown [.sub r.rid .full]
            (by simp [LogEntry.isDone]) (Or.inl rfl)
        · rename_i h _
          have ha : s.alive = true := by
            cases hs : s.alive
            · simp [accept, hs] at h
            · rfl
          exact UEff.acceptQueue (core s) r ha
    · split
      · exact UEff.acceptDone (core s) r .shutdown [] (by simp) (Or.inl rfl)
      · rename_i h
        have ha : s.alive = true := by
          cases hs : s.alive
          · simp [accept, hs] at h
          · rfl
        exact UEff.acceptQueue (core s) r ha

theorem abort_eff (s : State σ) : UEff (core s) (core (abort s)) := by
  unfold abort
  split
  · exact UEff.quiet _
  · rename_i h
    have ha : s.alive = true := by
      cases hs : s.alive
      · simp [hs] at h
      · rfl
    have := UEff.abort (core s) ha
    simp only [] 
    rw [inflightReqs_eq]
    show UEff (core s) { core (completeAll s Res.shutdown (inflightReqsOf s.pos ++ reqsOf s.queue)) with
      alive := false, queue := [], pos := .noPhase }
    rw [core_completeAll]
    exact this

theorem applyStep_eff (s : State σ) (st : Step) : UEff (core s) (core (applyStep s st)) := by
  cases st with
  | newSession => simp only [applyStep]; rw [core_addPhase]; exact UEff.quiet _
  | waitEnabled => simp only [applyStep]; rw [core_addPhase]; exact UEff.quiet _
  | failFor ms => simp only [applyStep]; rw [core_addPhase]; exact UEff.quiet _
  | enable h =>
    simp only [applyStep]; split
    · exact trySetting_eff s _ _ rfl
    · exact UEff.quiet _
  | disable h =>
    simp only [applyStep]; split
    · exact trySetting_eff s _ _ rfl
    · exact UEff.quiet _
  | setDecode d =>
    simp only [applyStep]; split
    · exact trySetting_eff s _ _ rfl
    · exact UEff.quiet _
  | shutdown h =>
    simp only [applyStep]; split
    · rename_i hh
      have ha : s.alive = true := by simp at hh; exact hh.2
      exact UEff.enqueueCmd (core s) .shutdown ha rfl
    · exact UEff.quiet _
  | cloneHandle => exact UEff.quiet _
  | dropHandle i => exact UEff.quiet _
  | submit op h r =>
    simp only [applyStep]; split
    · exact submit_eff s op r
    · exact UEff.note (core s) _ rfl
  | rx x => simp only [applyStep]; rw [core_pushRx]; exact UEff.quiet _
  | failWrite => simp only [applyStep]; split <;> exact UEff.quiet _
  | advance ms => exact UEff.quiet _
  | abort => exact abort_eff s

/-- a script step: the clock and the task run, or one user effect followed by the task -/
theorem stepState_cases (F : Framing σ) (s : State σ) (st : Step) :
    ((∃ ms, st = .advance ms) ∧ TSteps (core s) (core (stepState F s st)))
      ∨ ((∀ ms, st ≠ .advance ms) ∧ UEff (core s) (core (applyStep s st))
          ∧ TSteps (core (applyStep s st)) (core (stepState F s st))) := by
  cases st with
  | advance ms => exact Or.inl ⟨⟨ms, rfl⟩, advance_steps F _ _ s⟩
  | _ => exact Or.inr ⟨by simp, applyStep_eff s _, settled_steps F _⟩

theorem stepState_steps (F : Framing σ) (s : State σ) (st : Step) :
    Steps (core s) (core (stepState F s st)) := by
  rcases stepState_cases F s st with ⟨_, h⟩ | ⟨_, h1, h2⟩
  · exact h.steps
  · exact (Star.single (Or.inr h1)).trans h2.steps

theorem runState_steps (F : Framing σ) (s : State σ) (steps : List Step) :
    Steps (core s) (core (runState F s steps)) := by
  induction steps generalizing s with
  | nil => exact .refl _
  | cons st rest ih =>
    exact (stepState_steps F s st).trans (ih _)

theorem core_init (F : Framing σ) (cap maxTo : Nat) (d : Decode) (coins : List Bool) :
    core (State.init F cap maxTo d coins) = Core.init maxTo := rfl

/-- every state of every script is abstractly reachable -/
theorem runState_reach (F : Framing σ) (cap maxTo : Nat) (d : Decode) (coins : List Bool)
    (steps : List Step) : Reach (core (runState F (State.init F cap maxTo d coins) steps)) :=
  ⟨maxTo, by rw [← core_init F cap maxTo d coins]; exact runState_steps F _ steps⟩

end

end Rodbus.Client
