import RodbusModel.Props.C11
/-
  C12  A request fails with a timeout exactly when its own timeout has elapsed since transmission
  without a complete valid reply; it succeeds if the reply completes any time strictly before that.
  A timed-out request leaves the connection usable.  N consecutive timeouts drop the connection,
  any other outcome restarts the count; without a limit never.

  Model and abstraction as in Props/C10.  Time is the virtual clock of the model (`now`, in ms);
  `TEff.time` / `moveClock` never move it past the deadline of the timer the task sleeps on, and
  the script is lock-step: every delivery of the peer is processed before the clock moves again.
-/
namespace Rodbus.Client

/-- The deadline of the request in flight is fixed when the request has been written
    (`write completion time + its own timeout`) and never changes afterwards. -/
theorem deadline_is_write_time_plus_timeout {c c' : Core} (t : TEff c c') (m : Nat) (r : Req)
    (tx dl : Nat) (h : c'.pos = .inflight m r tx dl) :
    c.pos = .inflight m r tx dl
      ∨ (c.pos = .idle m ∧ dl = c.now + r.timeout ∧ tx = c.tx
          ∧ ∃ bytes, c'.sent = (r.rid, tx, bytes) :: c.sent) :=
  teff_deadline c c' t m r tx dl h

/-- The clock never passes the deadline of the request in flight: in every reachable state
    `now ≤ deadline`. -/
theorem clock_stops_at_deadline {σ : Type} (F : Framing σ) (cap maxTo : Nat) (d : Decode)
    (coins : List Bool) (steps : List Step) (s : State σ)
    (hs : s = runState F (State.init F cap maxTo d coins) steps) (m : Nat) (r : Req) (tx dl : Nat)
    (h : s.pos = .inflight m r tx dl) : s.now ≤ dl := by
  subst hs
  exact (tidy_reach _ (runState_reach F cap maxTo d coins steps)).2 m r tx dl h

/-- `timeout_iff`, first half: a timeout completion is logged only for the request in flight and
    only at the instant `write time + timeout` (its `@time` is the deadline). -/
theorem timeout_only_at_deadline {c c' : Core} (hr : Reach c) (t : TEff c c') (rid : Rid)
    (st : Style) (time : Nat) (h : LogEntry.done rid st .timeout time ∈ c'.log) :
    LogEntry.done rid st .timeout time ∈ c.log
      ∨ ∃ m r tx dl, c.pos = .inflight m r tx dl ∧ r.rid = rid ∧ c.now = dl ∧ time = dl :=
  error_meaning_timeout hr t rid st time h

/-- `timeout_iff`, second half (strictly before the deadline).  What the response loop does with
    what the reader delivers:
    * a complete frame with the right tx id (any frame on RTU): the request completes now with the
      result of `Request::handle_response` on that frame — success if it is a valid reply;
    * a read or framing error: the request fails now with that error;
    * a frame with another tx id: skipped;
    * nothing complete yet: nothing happens (no completion, in particular no timeout). -/
theorem before_deadline {σ : Type} (F : Framing σ) (s s' : State σ) (m : Nat) (q : Req)
    (tx dl : Nat) (r : ReadRes) (hr : pollReader F s m = (r, s')) (hnow : s.now < dl) :
    (∀ f, r = .frame f → txMatches f tx = true →
        tickInflight F s m q tx dl = some (finish s' m q (respResult q.req f.pdu)))
      ∧ (∀ res, r = .fail res → tickInflight F s m q tx dl = some (finish s' m q res))
      ∧ (∀ f, r = .frame f → txMatches f tx = false → tickInflight F s m q tx dl = some s')
      ∧ (r = .blocked → ∀ t, tickInflight F s m q tx dl = some t → t = s') := by
  have h := tickInflight_before F s s' m q tx dl r hr hnow
  refine ⟨?_, ?_, ?_, ?_⟩
  · intro f hf hm; subst hf; rw [h]; simp [inflightReader, hm]
  · intro res hf; subst hf; rw [h]; simp [inflightReader]
  · intro f hf hm; subst hf; rw [h]; simp [inflightReader, hm]
  · intro hb t ht; subst hb; rw [h] at ht
    simp only [] at ht
    split at ht
    · cases ht; rfl
    · cases ht

/-- a completion by a frame carries the time of the delivery, is never a timeout, resets the
    timeout count and leaves the session running -/
theorem reply_completes_at_delivery_time {σ : Type} (s : State σ) (m : Nat) (q : Req)
    (pdu : Bytes) :
    (finish s m q (respResult q.req pdu)).log
        = LogEntry.done q.rid q.style (respResult q.req pdu) s.now :: s.log
      ∧ (finish s m q (respResult q.req pdu)).pos = .idle m
      ∧ (finish s m q (respResult q.req pdu)).nto = 0
      ∧ respResult q.req pdu ≠ .timeout := by
  have h1 : (respResult q.req pdu).sessionEnd = none := by
    unfold respResult
    repeat' split
    all_goals rfl
  have h2 := (respResult_ne q.req pdu).2.2
  unfold finish afterRequest
  rw [h1]
  simp [h2, complete, emit]

/-- `timeout_iff`, at the deadline: with nothing complete to read the request times out. -/
theorem at_deadline_timeout {σ : Type} (F : Framing σ) (s s' : State σ) (m : Nat) (q : Req)
    (tx dl : Nat) (hr : pollReader F s m = (.blocked, s')) (hnow : dl ≤ s.now) :
    tickInflight F s m q tx dl = some (finish s' m q .timeout) :=
  tickInflight_expired_blocked F s s' m q tx dl hr hnow

/-- At the deadline instant with a complete frame or error readable at the same instant
    (only possible with a zero timeout, the script being lock-step) the polling order of
    `tokio::select!` decides; both outcomes are possible in the implementation. -/
theorem at_deadline_race {σ : Type} (F : Framing σ) (s s' : State σ) (m : Nat) (q : Req)
    (tx dl : Nat) (r : ReadRes) (hr : pollReader F s m = (r, s')) (hb : r ≠ .blocked)
    (hnow : dl ≤ s.now) :
    tickInflight F s m q tx dl =
      if (flip s).1 then some (finish (flip s).2 m q .timeout)
      else some (inflightReader { s' with coins := (flip s).2.coins } m q tx r) :=
  tickInflight_expired_ready F s s' m q tx dl r hr hb hnow

/-- `timeout_iff`, the two directions together.
    (⇒) Whenever a step of the task logs a timeout completion in a reachable state, that request is
    the one in flight and the clock shows exactly its deadline (`write time + timeout`, by
    `deadline_is_write_time_plus_timeout`); strictly before the deadline the response loop
    completes the request only with what the reader delivers, never with a timeout.
    (⇐) When the clock reaches the deadline and no complete matching frame or error has been
    delivered, the request completes with a timeout at that instant. -/
theorem timeout_iff {σ : Type} (F : Framing σ) :
    (∀ (c c' : Core), Reach c → TEff c c' → ∀ rid st time,
        LogEntry.done rid st .timeout time ∈ c'.log →
        LogEntry.done rid st .timeout time ∈ c.log
          ∨ ∃ m r tx dl, c.pos = .inflight m r tx dl ∧ r.rid = rid ∧ c.now = dl ∧ time = dl)
    ∧ (∀ (s s' : State σ) m q tx dl r, pollReader F s m = (r, s') → s.now < dl →
        (∀ t, tickInflight F s m q tx dl = some t →
          t = s' ∨ (∃ f, r = .frame f ∧ t = finish s' m q (respResult q.req f.pdu))
            ∨ ∃ res, r = .fail res ∧ res ≠ .timeout ∧ t = finish s' m q res))
    ∧ (∀ (s s' : State σ) m q tx dl, pollReader F s m = (.blocked, s') → dl ≤ s.now →
        tickInflight F s m q tx dl = some (finish s' m q .timeout)) := by
  refine ⟨fun c c' hr t rid st time h => error_meaning_timeout hr t rid st time h, ?_,
    fun s s' m q tx dl hr hnow => tickInflight_expired_blocked F s s' m q tx dl hr hnow⟩
  intro s s' m q tx dl r hr hnow t ht
  obtain ⟨h1, h2, h3, h4⟩ := before_deadline F s s' m q tx dl r hr hnow
  cases r with
  | blocked => exact Or.inl (h4 rfl t ht)
  | frame f =>
    cases hm : txMatches f tx with
    | true => rw [h1 f rfl hm] at ht; cases ht; exact Or.inr (Or.inl ⟨f, rfl, rfl⟩)
    | false => rw [h3 f rfl hm] at ht; cases ht; exact Or.inl rfl
  | fail res =>
    rw [h2 res rfl] at ht; cases ht
    exact Or.inr (Or.inr ⟨res, rfl, (pollReader_fail F s s' m res hr).2.2, rfl⟩)

/-- `timeout_keeps_connection`.  A timeout below the limit leaves the session running on the same
    transport, with the read buffer, the parser state and the queue as they were: the next request
    is sent on the same connection. -/
theorem timeout_keeps_connection {σ : Type} (s : State σ) (m : Nat) (q : Req)
    (h : s.maxTo = 0 ∨ s.nto + 1 < s.maxTo) :
    (finish s m q .timeout).pos = .idle m
      ∧ (finish s m q .timeout).pst = s.pst ∧ (finish s m q .timeout).rb = s.rb
      ∧ (finish s m q .timeout).mocks = s.mocks ∧ (finish s m q .timeout).queue = s.queue :=
  ⟨finish_timeout_pos s m q h, finish_reader s m q .timeout⟩

/-- the N-th consecutive timeout ends the session with `MaxTimeouts(N)` -/
theorem timeout_limit_ends_session {σ : Type} (s : State σ) (m : Nat) (q : Req)
    (h0 : s.maxTo ≠ 0) (h : s.maxTo ≤ s.nto + 1) :
    (finish s m q .timeout).pos = .noPhase
      ∧ (finish s m q .timeout).log
          = .fin (.maxTo s.maxTo) s.now :: .done q.rid q.style .timeout s.now :: s.log :=
  finish_timeout_limit s m q h0 h

/-- the machine's bookkeeping after a request is `afterCore` -/
theorem counter_is_afterCore {σ : Type} (s : State σ) (m : Nat) (res : Res) :
    core (afterRequest s m res) = afterCore (core s) m res :=
  core_afterRequest s m res

/-- a new session starts counting from zero -/
theorem counter_restarts_per_session {σ : Type} (F : Framing σ) (s t : State σ) (m : Nat)
    (ps : List Phase) (hp : s.phases = .session m :: ps) (h : startPhase F s = some t) :
    t.nto = 0 ∧ t.pos = .idle m := by
  unfold startPhase at h
  rw [hp] at h
  cases h
  exact ⟨rfl, rfl⟩

/-- `counter_exact`.  Feed the outcomes `rs` of the consecutive requests of a session (outcomes
    that are not themselves session-ending I/O or framing errors) to the bookkeeping of
    `run_one_request`, starting at the beginning of the session, with limit `N ≥ 1`.  The session
    is over after these outcomes if and only if for some `j ≤ |rs|` the last `N` of the first `j`
    outcomes were all timeouts.  Applied to the prefixes of `rs`: the session ends exactly at the
    first point where the last `N` outcomes are timeouts — not earlier, not later, and any other
    outcome restarts the count. -/
theorem counter_exact (m N : Nat) (hN : 1 ≤ N) (c : Core) (hp : c.pos = .idle m)
    (hn : c.nto = 0) (hm : c.maxTo = N) (rs : List Res) (hrs : ∀ r ∈ rs, r.sessionEnd = none) :
    (feed m c rs).pos = .noPhase ↔ ∃ j, j ≤ rs.length ∧ N ≤ trailing (rs.take j) := by
  obtain ⟨h1, h2, _⟩ := feed_spec m N hN c hp hn hm rs hrs
  constructor
  · intro hend
    apply Classical.byContradiction
    intro hno
    have := (h2 hno).1
    rw [this] at hend
    cases hend
  · exact h1

/-- while the limit has not been hit the counter equals the number of timeouts at the end of the
    outcome sequence -/
theorem counter_value (m N : Nat) (hN : 1 ≤ N) (c : Core) (hp : c.pos = .idle m)
    (hn : c.nto = 0) (hm : c.maxTo = N) (rs : List Res) (hrs : ∀ r ∈ rs, r.sessionEnd = none)
    (h : ¬ ∃ j, j ≤ rs.length ∧ N ≤ trailing (rs.take j)) :
    (feed m c rs).pos = .idle m ∧ (feed m c rs).nto = trailing rs :=
  (feed_spec m N hN c hp hn hm rs hrs).2.1 h

/-- `N = none`: without a limit timeouts never end the session -/
theorem counter_no_limit (m : Nat) (c : Core) (hp : c.pos = .idle m) (hm : c.maxTo = 0)
    (rs : List Res) (hrs : ∀ r ∈ rs, r.sessionEnd = none) : (feed m c rs).pos = .idle m :=
  feed_no_limit m c hp hm rs hrs

/-! ### non-vacuity -/

namespace Example

def reply : List Nat := [0, 0, 0, 0, 0, 4, 1, 1, 1, 0x55]

/-- reply 1 ms before the deadline: success at 999 -/
example :
    doneIds (runState mbap s16
      [.newSession, .submit .R 0 (rc "a" .future 1000), .advance 999, .rx (.data reply)]).log
      = ["a"]
    ∧ (runState mbap s16
      [.newSession, .submit .R 0 (rc "a" .future 1000), .advance 999, .rx (.data reply)]).log.head?
      = some (.done "a" .future (.ok (.bits [(0, true), (1, false), (2, true), (3, false),
          (4, true), (5, false), (6, true), (7, false)])) 999) := by decide

/-- reply delivered at the deadline instant (in a later step): the timer has already won -/
example :
    (runState mbap s16
      [.newSession, .submit .R 0 (rc "a" .future 1000), .advance 1000, .rx (.data reply)]).log
      = [.done "a" .future .timeout 1000, .tx [0, 0, 0, 0, 0, 6, 1, 1, 0, 0, 0, 8]] := by decide

/-- a reply split over two deliveries with the clock moving in between, complete before the
    deadline -/
example :
    (runState mbap s16
      [.newSession, .submit .R 0 (rc "a" .future 10), .rx (.data [0, 0, 0, 0, 0, 4]),
       .advance 9, .rx (.data [1, 1, 1, 0x55])]).log.head?
      = some (.done "a" .future (.ok (.bits [(0, true), (1, false), (2, true), (3, false),
          (4, true), (5, false), (6, true), (7, false)])) 9) := by decide

/-- limit 2: timeout, exception (restarts the count), timeout, timeout ⇒ `maxto2` at the fourth
    outcome; a fifth request stays queued -/
example :
    (runState mbap (State.init mbap 16 2 ⟨0, 0, 0⟩ [])
      [.newSession, .submit .R 0 (rc "a" .future 10), .submit .R 0 (rc "b" .future 10),
       .submit .R 0 (rc "c" .future 10), .submit .R 0 (rc "d" .future 10),
       .submit .R 0 (rc "e" .future 10),
       .advance 10, .rx (.data [0, 1, 0, 0, 0, 3, 1, 0x81, 2]), .advance 20]).log.filter
        (fun e => !(match e with | .tx _ => true | _ => false))
      = [.fin (.maxTo 2) 30, .done "d" .future .timeout 30, .done "c" .future .timeout 20,
         .done "b" .future (.exc 2) 10, .done "a" .future .timeout 10] := by decide

/-- the abstract counter on a concrete outcome sequence -/
example :
    (feed 0 (Core.init 2 |> fun c => { c with pos := .idle 0 })
      [.timeout, .exc 2, .timeout, .timeout, .timeout]).pos = .noPhase
    ∧ (feed 0 (Core.init 2 |> fun c => { c with pos := .idle 0 })
      [.timeout, .exc 2, .timeout]).pos = .idle 0 := by decide

end Example

end Rodbus.Client
