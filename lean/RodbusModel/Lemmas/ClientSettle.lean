import RodbusModel.Lemmas.ClientDrain
import RodbusModel.Lemmas.Mbap
import RodbusModel.Lemmas.Rtu
/-
  A termination measure for the client task (C10 `drain_completes`).

  `Consuming F`: the parser of the framing consumes or blocks (a frame strictly consumes buffered
  input or parser state, `Ok(None)` and an error do not produce any, and the internal
  short-read error is not reported).  Proved for `mbap` and `rtu`.

  Under this hypothesis `mu` strictly decreases with every tick of the outer task and with every
  release of held clones (`tick_mu`), so `settle` with fuel `n` either reaches a state in which the
  task is blocked or has lowered `mu` by `n` (`settle_progress`).  It is NOT shown (and not needed)
  that the fuel `settleFuel` of the model always suffices: a state whose tasks have not run to the
  end is pushed on by one more script step (`kick`).

  `drains_all`: from every state in which the task exists, finitely many clock movements and
  `fail_requests_for(1 ms)` phases leave nothing queued and nothing in flight.  Induction on the
  number of pending requests (`pend`), then on `mu`:
  * blocked between phases, none scheduled: `drain_idle` (Lemmas/ClientDrain);
  * blocked in a session / `wait_for_enabled` / `fail_requests_for`: the queue is empty;
  * blocked on the reply to the request in flight: the clock moves to its deadline, the request
    times out, `pend` drops (`inflight_advance`);
  * not blocked: `kick`; `pend` does not grow and the result is blocked or has a smaller `mu`.
-/
namespace Rodbus.Client

section
variable {σ : Type}

/-! ## the hypothesis on the framing -/

/-- `w` weighs the parser state; together with the number of buffered bytes it bounds the number
    of frames the parser can still produce without reading -/
structure ParseMeasure (F : Framing σ) (w : σ → Nat) : Prop where
  init : w F.init = 0
  frame : ∀ st rb f st' rb', F.parse st rb = (.frame f, st', rb') →
    w st' + rb'.data.length < w st + rb.data.length
  none : ∀ st rb st' rb', F.parse st rb = (.none, st', rb') →
    w st' + rb'.data.length ≤ w st + rb.data.length
  err : ∀ st rb e st' rb', F.parse st rb = (.err e, st', rb') →
    rb'.data.length ≤ w st + rb.data.length ∧ e ≠ .internalShortRead

/-- the parser consumes or blocks -/
def Consuming (F : Framing σ) : Prop := ∃ w : σ → Nat, ParseMeasure F w

end

/-! ### MBAP -/

def mbapW : Mbap.PState → Nat
  | .begin => 0
  | .header _ _ => 1

@[simp] theorem mbapW_begin : mbapW .begin = 0 := rfl
@[simp] theorem mbapW_header (h : Mbap.Header) (a : Nat) : mbapW (.header h a) = 1 := rfl

theorem mbap_parseBody_cases (h : Mbap.Header) (adu : Nat) (rb : RB) :
    Mbap.parseBody h adu rb = (.none, .header h adu, rb)
      ∨ ∃ f, Mbap.parseBody h adu rb = (.frame f, .begin, rb.consume adu) := by
  unfold Mbap.parseBody
  split
  · exact Or.inl rfl
  · exact Or.inr ⟨_, rfl⟩

theorem consume_length_le (rb : RB) (n : Nat) : (rb.consume n).data.length ≤ rb.data.length := by
  simp [RB.consume]

theorem mbap_measure : ParseMeasure mbap mbapW := by
  have body : ∀ (h : Mbap.Header) (adu : Nat) (rb : RB) (r : PResult) (st' : Mbap.PState) (rb' : RB),
      Mbap.parseBody h adu rb = (r, st', rb') →
        (r = .none ∧ mbapW st' + rb'.data.length = 1 + rb.data.length)
          ∨ ((∃ f, r = .frame f) ∧ mbapW st' + rb'.data.length ≤ rb.data.length) := by
    intro h adu rb r st' rb' hp
    rcases mbap_parseBody_cases h adu rb with hc | ⟨f, hc⟩
    · rw [hc] at hp; cases hp; exact Or.inl ⟨rfl, by rw [mbapW_header]⟩
    · rw [hc] at hp; cases hp
      exact Or.inr ⟨⟨f, rfl⟩, by rw [mbapW_begin]; have := consume_length_le rb adu; omega⟩
  have all : ∀ (st : Mbap.PState) (rb : RB) (r : PResult) (st' : Mbap.PState) (rb' : RB),
      Mbap.parse st rb = (r, st', rb') →
        (r = .none ∧ mbapW st' + rb'.data.length ≤ mbapW st + rb.data.length)
          ∨ ((∃ f, r = .frame f) ∧ mbapW st' + rb'.data.length < mbapW st + rb.data.length)
          ∨ (∃ e, r = .err e ∧ e ≠ .internalShortRead ∧ rb'.data.length ≤ rb.data.length) := by
    intro st rb r st' rb' hp
    cases st with
    | header h adu =>
      simp only [Mbap.parse] at hp
      rcases body h adu rb r st' rb' hp with ⟨h1, h2⟩ | ⟨h1, h2⟩
      · exact Or.inl ⟨h1, by rw [mbapW_header]; omega⟩
      · exact Or.inr (Or.inl ⟨h1, by rw [mbapW_header]; omega⟩)
    | begin =>
      simp only [Mbap.parse] at hp
      split at hp
      · cases hp; exact Or.inl ⟨rfl, Nat.le_refl _⟩
      · rename_i hl
        have hc : (rb.consume 7).data.length + 7 = rb.data.length := by
          simp [RB.consume]; omega
        split at hp
        · rename_i e hph
          cases hp
          refine Or.inr (Or.inr ⟨e, rfl, ?_, by omega⟩)
          exact (Mbap.parseHeader_err_kind _ (by simp; omega) _ hph).ne_internal
        · rename_i hd adu hph
          rcases body hd adu (rb.consume 7) r st' rb' hp with ⟨h1, h2⟩ | ⟨h1, h2⟩
          · exact Or.inl ⟨h1, by rw [mbapW_begin]; omega⟩
          · exact Or.inr (Or.inl ⟨h1, by rw [mbapW_begin]; omega⟩)
  refine ⟨rfl, ?_, ?_, ?_⟩
  · intro st rb f st' rb' hp
    rcases all st rb _ st' rb' hp with ⟨h, _⟩ | ⟨_, h⟩ | ⟨e, h, _⟩
    · cases h
    · exact h
    · cases h
  · intro st rb st' rb' hp
    rcases all st rb _ st' rb' hp with ⟨_, h⟩ | ⟨⟨f, h⟩, _⟩ | ⟨e, h, _⟩
    · exact h
    · cases h
    · cases h
  · intro st rb e st' rb' hp
    rcases all st rb _ st' rb' hp with ⟨h, _⟩ | ⟨⟨f, h⟩, _⟩ | ⟨e', h, h1, h2⟩
    · cases h
    · cases h
    · cases h; exact ⟨by omega, h1⟩

theorem mbap_consuming : Consuming mbap := ⟨mbapW, mbap_measure⟩

/-! ### RTU -/

theorem rtu_fullBody_len (dest len : Nat) (rb : RB) (r : PResult) (st' : Rtu.PState) (rb' : RB)
    (h : Rtu.parseFullBody dest len rb = (r, st', rb')) :
    rb'.data.length ≤ rb.data.length ∧ ∀ f, r = .frame f → rb'.data.length < rb.data.length := by
  by_cases h1 : len + 1 > 253
  · rw [Rtu.parseFullBody_tooBig _ _ _ h1] at h; cases h
    exact ⟨Nat.le_refl _, fun f hf => by cases hf⟩
  · by_cases h2 : rb.data.length < len + 3
    · rw [Rtu.parseFullBody_short _ _ _ h1 h2] at h; cases h
      exact ⟨Nat.le_refl _, fun f hf => by cases hf⟩
    · rw [Rtu.parseFullBody_ready _ _ _ h1 h2] at h
      have hc : (rb.consume (len + 3)).data.length < rb.data.length := by
        simp [RB.consume]; omega
      split at h
      · cases h; exact ⟨by omega, fun f hf => by cases hf⟩
      · cases h; exact ⟨by omega, fun _ _ => hc⟩

theorem rtu_toOffset_len (dest off : Nat) (rb : RB) (r : PResult) (st' : Rtu.PState) (rb' : RB)
    (h : Rtu.parseToOffset dest off rb = (r, st', rb')) :
    rb'.data.length ≤ rb.data.length ∧ ∀ f, r = .frame f → rb'.data.length < rb.data.length := by
  by_cases h1 : rb.data.length < 1 + off
  · rw [Rtu.parseToOffset_short _ _ _ h1] at h; cases h
    exact ⟨Nat.le_refl _, fun f hf => by cases hf⟩
  · rw [Rtu.parseToOffset_ready _ _ _ h1] at h
    exact rtu_fullBody_len _ _ _ _ _ _ h

theorem rtu_start_len (d : Rtu.Dir) (rb : RB) (r : PResult) (st' : Rtu.PState) (rb' : RB)
    (h : Rtu.parseStart d rb = (r, st', rb')) :
    rb'.data.length ≤ rb.data.length ∧ ∀ f, r = .frame f → rb'.data.length < rb.data.length := by
  by_cases h1 : rb.data.length < 2
  · rw [Rtu.parseStart_short _ _ h1] at h; cases h
    exact ⟨Nat.le_refl _, fun f hf => by cases hf⟩
  · rw [Rtu.parseStart_ready _ _ h1] at h
    have hc : (rb.consume 1).data.length < rb.data.length := by
      simp [RB.consume]; omega
    split at h
    · obtain ⟨a, b⟩ := rtu_fullBody_len _ _ _ _ _ _ h
      exact ⟨by omega, fun f hf => by have := b f hf; omega⟩
    · obtain ⟨a, b⟩ := rtu_toOffset_len _ _ _ _ _ _ h
      exact ⟨by omega, fun f hf => by have := b f hf; omega⟩
    · cases h; exact ⟨by omega, fun f hf => by cases hf⟩

theorem rtu_parse_len (d : Rtu.Dir) (st : Rtu.PState) (rb : RB) (r : PResult) (st' : Rtu.PState)
    (rb' : RB) (h : Rtu.parse d st rb = (r, st', rb')) :
    rb'.data.length ≤ rb.data.length ∧ ∀ f, r = .frame f → rb'.data.length < rb.data.length := by
  cases st with
  | start => exact rtu_start_len d rb r st' rb' h
  | toOffset dest off => exact rtu_toOffset_len dest off rb r st' rb' h
  | fullBody dest len => exact rtu_fullBody_len dest len rb r st' rb' h

theorem rtu_measure : ParseMeasure rtu (fun _ => 0) := by
  refine ⟨rfl, ?_, ?_, ?_⟩
  · intro st rb f st' rb' hp
    have := (rtu_parse_len .response st rb _ st' rb' hp).2 f rfl
    omega
  · intro st rb st' rb' hp
    have := (rtu_parse_len .response st rb _ st' rb' hp).1
    omega
  · intro st rb e st' rb' hp
    have := (rtu_parse_len .response st rb _ st' rb' hp).1
    refine ⟨by omega, ?_⟩
    rcases Rtu.parse_err .response st rb e st' rb' hp with ⟨_, h⟩ | ⟨_, h⟩ | ⟨_, _, _, h⟩ <;>
      rw [h] <;> simp

theorem rtu_consuming : Consuming rtu := ⟨fun _ => 0, rtu_measure⟩

/-! ## the reader -/

section
variable {σ : Type}

theorem readSome_len (rb : RB) (bs : Bytes) (rb' : RB) (rem : Bytes) (hne : bs ≠ [])
    (h : readSome rb bs = some (rb', rem)) :
    rem.length < bs.length ∧ rb'.data.length + rem.length = rb.data.length + bs.length := by
  unfold readSome at h
  have hnd := Rtu.normalize_data rb
  simp only at h
  split at h
  · simp at h
  · rename_i hsp
    simp only [Option.some.injEq, Prod.mk.injEq] at h
    obtain ⟨h1, h2⟩ := h
    subst h1; subst h2
    have hpl : 0 < bs.length := List.length_pos_iff.mpr hne
    rw [hnd] at hsp ⊢
    constructor
    · simp [List.length_drop]; omega
    · simp [List.length_take, List.length_drop]; omega

/-- the measure of the reader: unread input counts twice (a byte moved into the buffer still has
    to be parsed) -/
def rdM (w : σ → Nat) (st : σ) (rb : RB) (rx : List Rx) : Nat :=
  2 * rxSize rx + (w st + rb.data.length)

theorem frameErrRes_sessionEnd (e : FrameErr) (h : e ≠ .internalShortRead) :
    (frameErrRes e).sessionEnd ≠ none := by
  cases e <;> simp_all [frameErrRes, Res.sessionEnd]

theorem rxSize_rem (rem : Bytes) (rest : List Rx) :
    rxSize (if rem = [] then rest else .data rem :: rest) ≤ rem.length + 1 + rxSize rest
      ∧ (rem = [] → rxSize (if rem = [] then rest else .data rem :: rest) = rxSize rest) := by
  by_cases h : rem = []
  · simp [h]
  · simp [h, rxSize]

theorem readerPoll_measure (F : Framing σ) (w : σ → Nat) (hw : ParseMeasure F w) :
    ∀ (fuel : Nat) (st : σ) (rb : RB) (rx : List Rx) (r : ReadRes) (st' : σ) (rb' : RB)
      (rx' : List Rx), readerPoll F fuel st rb rx = (r, st', rb', rx') →
      rdM w st' rb' rx' ≤ rdM w st rb rx
        ∧ (∀ f, r = .frame f → rdM w st' rb' rx' < rdM w st rb rx)
        ∧ (r = .blocked → rx ≠ [] → fuel ≠ 0 → rdM w st' rb' rx' < rdM w st rb rx)
        ∧ (∀ res, r = .fail res → res.sessionEnd ≠ none) := by
  intro fuel
  induction fuel with
  | zero =>
    intro st rb rx r st' rb' rx' h
    simp only [readerPoll, Prod.mk.injEq] at h
    obtain ⟨h1, h2, h3, h4⟩ := h
    subst h1; subst h2; subst h3; subst h4
    exact ⟨Nat.le_refl _, fun f hf => (by cases hf), fun _ _ h0 => absurd rfl h0,
      fun res hr => by cases hr⟩
  | succ n ih =>
    intro st rb rx r st' rb' rx' h
    unfold readerPoll at h
    split at h
    · rename_i f st1 rb1 hp
      simp only [Prod.mk.injEq] at h
      obtain ⟨h1, h2, h3, h4⟩ := h
      subst h1; subst h2; subst h3; subst h4
      have := hw.frame _ _ _ _ _ hp
      refine ⟨?_, fun _ _ => ?_, fun hb => (by cases hb), fun res hr => by cases hr⟩ <;>
        simp only [rdM] <;> omega
    · rename_i e st1 rb1 hp
      simp only [Prod.mk.injEq] at h
      obtain ⟨h1, h2, h3, h4⟩ := h
      subst h1; subst h2; subst h3; subst h4
      obtain ⟨h5, h6⟩ := hw.err _ _ _ _ _ hp
      have hi := hw.init
      refine ⟨?_, fun f hf => (by cases hf), fun hb => (by cases hb), fun res hr => ?_⟩
      · simp only [rdM]; omega
      · cases hr; exact frameErrRes_sessionEnd e h6
    · rename_i st1 rb1 hp
      have hn := hw.none _ _ _ _ hp
      split at h
      · simp only [Prod.mk.injEq] at h
        obtain ⟨h1, h2, h3, h4⟩ := h
        subst h1; subst h2; subst h3; subst h4
        refine ⟨?_, fun f hf => (by cases hf), fun _ hne => absurd rfl hne,
          fun res hr => by cases hr⟩
        simp only [rdM]; omega
      · rename_i rest
        simp only [Prod.mk.injEq] at h
        obtain ⟨h1, h2, h3, h4⟩ := h
        subst h1; subst h2; subst h3; subst h4
        refine ⟨?_, fun f hf => (by cases hf), fun hb => (by cases hb), fun res hr => ?_⟩
        · simp only [rdM, rxSize]; omega
        · cases hr; simp [Res.sessionEnd]
      · rename_i rest
        simp only [Prod.mk.injEq] at h
        obtain ⟨h1, h2, h3, h4⟩ := h
        subst h1; subst h2; subst h3; subst h4
        refine ⟨?_, fun f hf => (by cases hf), fun hb => (by cases hb), fun res hr => ?_⟩
        · simp only [rdM]; omega
        · cases hr; simp [Res.sessionEnd]
      · rename_i bs rest
        split at h
        · simp only [Prod.mk.injEq] at h
          obtain ⟨h1, h2, h3, h4⟩ := h
          subst h1; subst h2; subst h3; subst h4
          refine ⟨?_, fun f hf => (by cases hf), fun hb => (by cases hb), fun res hr => ?_⟩
          · simp only [rdM, rxSize]; omega
          · cases hr; simp [Res.sessionEnd]
        · rename_i hbs
          split at h
          · simp only [Prod.mk.injEq] at h
            obtain ⟨h1, h2, h3, h4⟩ := h
            subst h1; subst h2; subst h3; subst h4
            refine ⟨?_, fun f hf => (by cases hf), fun hb => (by cases hb), fun res hr => ?_⟩
            · simp only [rdM]; omega
            · cases hr; simp [Res.sessionEnd]
          · rename_i rb2 rem hrs
            obtain ⟨a1, a2⟩ := readSome_len _ _ _ _ hbs hrs
            obtain ⟨b1, b2, _, b4⟩ := ih _ _ _ _ _ _ _ h
            obtain ⟨c1, c2⟩ := rxSize_rem rem rest
            have hlt : rdM w st' rb' rx' < rdM w st rb (Rx.data bs :: rest) := by
              have hmid : rdM w st1 rb2 (if rem = [] then rest else Rx.data rem :: rest)
                  < rdM w st rb (Rx.data bs :: rest) := by
                simp only [rdM, rxSize] at *
                by_cases hr : rem = []
                · have := c2 hr; subst hr; simp at a2; omega
                · omega
              omega
            exact ⟨by omega, fun _ _ => hlt, fun _ _ _ => hlt, b4⟩

end

/-! ## the measure of the task -/

section
variable {σ : Type}

theorem mocksSize_set (mocks : List Mock) (m : Nat) (k : Mock) (h : m < mocks.length) :
    mocksSize (mocks.set m k) + rxSize (mocks.getD m {}).rx = mocksSize mocks + rxSize k.rx := by
  induction mocks generalizing m with
  | nil => simp at h
  | cons a as ih =>
    cases m with
    | zero => simp [mocksSize]; omega
    | succ m' =>
      have := ih m' (by simpa using h)
      simp only [List.set_cons_succ, mocksSize, List.getD_cons_succ] at this ⊢
      omega

theorem mocksSize_set_ge (mocks : List Mock) (m : Nat) (k : Mock) (h : mocks.length ≤ m) :
    mocks.set m k = mocks ∧ (mocks.getD m {}).rx = [] := by
  constructor
  · exact List.set_eq_of_length_le h
  · simp [List.getD, List.getElem?_eq_none h]

/-- reader part of the measure -/
def rho (w : σ → Nat) (s : State σ) : Nat :=
  2 * mocksSize s.mocks + (w s.pst + s.rb.data.length)

def posW : Pos → Nat
  | .noPhase => 0
  | .idle _ => 1
  | .inflight _ _ _ _ => 3
  | .waitEnabled => 1
  | .failFor _ false => 2
  | .failFor _ true => 1

def heldW (h : Nat) : Nat := if h = 0 then 0 else 1

/-- control part of the measure -/
def ctl (s : State σ) : Nat :=
  4 * s.queue.length + 4 * s.phases.length + posW s.pos + heldW s.held

/-- the termination measure of the task: every tick and every release of held clones lowers it -/
def mu (w : σ → Nat) (s : State σ) : Nat := ctl s + rho w s

/-- the reader changes nothing but its own state and the transport -/
theorem pollReader_spec (F : Framing σ) (w : σ → Nat) (hw : ParseMeasure F w) (s : State σ)
    (m : Nat) (r : ReadRes) (s' : State σ) (h : pollReader F s m = (r, s')) :
    (∃ st' rb' mocks', s' = { s with pst := st', rb := rb', mocks := mocks' })
      ∧ rho w s' ≤ rho w s
      ∧ (∀ f, r = .frame f → rho w s' < rho w s)
      ∧ (r = .blocked → (getMock s m).rx ≠ [] → rho w s' < rho w s)
      ∧ (∀ res, r = .fail res → res.sessionEnd ≠ none) := by
  unfold pollReader at h
  simp only [] at h
  generalize hr : readerPoll F _ s.pst s.rb _ = rr at h
  obtain ⟨r0, st', rb', rx'⟩ := rr
  simp only [Prod.mk.injEq] at h
  obtain ⟨h1, h2⟩ := h
  subst h1; subst h2
  obtain ⟨a1, a2, a3, a4⟩ := readerPoll_measure F w hw _ _ _ _ _ _ _ _ hr
  refine ⟨⟨st', rb', _, rfl⟩, ?_⟩
  have hfuel : readerFuel (getMock s m).rx ≠ 0 := by simp [readerFuel]
  have key : ∀ k' : Mock, k'.rx = rx' →
      (rho w (setMock { s with pst := st', rb := rb' } m k') ≤ rho w s)
      ∧ (∀ f, r0 = .frame f → rho w (setMock { s with pst := st', rb := rb' } m k') < rho w s)
      ∧ (r0 = .blocked → (getMock s m).rx ≠ [] →
          rho w (setMock { s with pst := st', rb := rb' } m k') < rho w s) := by
    intro k' hk'
    have e1 : rho w (setMock { s with pst := st', rb := rb' } m k')
        = 2 * mocksSize (s.mocks.set m k') + (w st' + rb'.data.length) := rfl
    have e2 : rho w s = 2 * mocksSize s.mocks + (w s.pst + s.rb.data.length) := rfl
    rw [e1, e2]
    by_cases hm : m < s.mocks.length
    · have hs : mocksSize (s.mocks.set m k') + rxSize (getMock s m).rx
          = mocksSize s.mocks + rxSize k'.rx := mocksSize_set s.mocks m k' hm
      rw [hk'] at hs
      simp only [rdM] at a1 a2 a3
      refine ⟨by omega, fun f hf => ?_, fun hb hne => ?_⟩
      · have := a2 f hf; omega
      · have := a3 hb hne hfuel; omega
    · obtain ⟨b1, b2⟩ := mocksSize_set_ge s.mocks m k' (by omega)
      have hg : (getMock s m).rx = [] := b2
      rw [hg] at a1 a2 a3
      simp only [rdM, rxSize] at a1 a2 a3
      rw [b1]
      refine ⟨by omega, fun f hf => ?_, fun hb hne => absurd hg hne⟩
      have := a2 f hf; omega
  obtain ⟨k1, k2, k3⟩ := key { getMock s m with rx := rx' } rfl
  exact ⟨k1, k2, k3, a4⟩

theorem heldW_le (h : Nat) : heldW h ≤ 1 := by unfold heldW; split <;> omega

theorem mu_endPhase (w : σ → Nat) (s : State σ) (k : EndKind) :
    mu w (endPhase s k) + posW s.pos = mu w s := by
  simp only [mu, ctl, rho, endPhase, emit, posW]; omega

theorem mu_complete (w : σ → Nat) (s : State σ) (r : Req) (res : Res) :
    mu w (complete s r res) ≤ mu w s + 1 := by
  have h1 := heldW_le (complete s r res).held
  simp only [mu, ctl, rho, complete, emit] at h1 ⊢; omega

theorem mu_afterRequest (w : σ → Nat) (s : State σ) (m : Nat) (res : Res) :
    mu w (afterRequest s m res) + posW s.pos ≤ mu w s + 1 := by
  unfold afterRequest
  split
  · have := mu_endPhase w s ‹EndKind›; omega
  · split
    · split
      · simp only [mu, ctl, rho, posW]; omega
      · split
        · have := mu_endPhase w { s with nto := s.nto + 1 } (.maxTo s.maxTo)
          simp only [mu, ctl, rho, posW] at this ⊢; omega
        · simp only [mu, ctl, rho, posW]; omega
    · simp only [mu, ctl, rho, posW]; omega

theorem mu_finish (w : σ → Nat) (s : State σ) (m : Nat) (r : Req) (res : Res) :
    mu w (finish s m r res) + posW s.pos ≤ mu w s + 2 := by
  unfold finish
  have h1 := mu_afterRequest w (complete s r res) m res
  have h2 := mu_complete w s r res
  have h3 : (complete s r res).pos = s.pos := rfl
  rw [h3] at h1
  omega

theorem discardBuffered_measure (F : Framing σ) (w : σ → Nat) (hw : ParseMeasure F w) :
    ∀ (fuel : Nat) (st : σ) (rb : RB) (o : Option Res) (st' : σ) (rb' : RB),
      discardBuffered F fuel st rb = (o, st', rb') →
      w st' + rb'.data.length ≤ w st + rb.data.length := by
  intro fuel
  induction fuel with
  | zero =>
    intro st rb o st' rb' h
    simp only [discardBuffered, Prod.mk.injEq] at h
    obtain ⟨_, h2, h3⟩ := h
    subst h2; subst h3; exact Nat.le_refl _
  | succ n ih =>
    intro st rb o st' rb' h
    unfold discardBuffered at h
    split at h
    · rename_i f st1 rb1 hp
      have := hw.frame _ _ _ _ _ hp
      have := ih _ _ _ _ _ h
      omega
    · rename_i st1 rb1 hp
      have := hw.none _ _ _ _ hp
      simp only [Prod.mk.injEq] at h
      obtain ⟨_, h2, h3⟩ := h
      subst h2; subst h3; omega
    · rename_i e st1 rb1 hp
      have := (hw.err _ _ _ _ _ hp).1
      have hi := hw.init
      simp only [Prod.mk.injEq] at h
      obtain ⟨_, h2, h3⟩ := h
      subst h2; subst h3; omega

theorem mu_setMock_same (w : σ → Nat) (s : State σ) (m : Nat) (k : Mock)
    (hk : k.rx = (getMock s m).rx) : mu w (setMock s m k) = mu w s := by
  have : mocksSize (s.mocks.set m k) = mocksSize s.mocks := by
    by_cases hm : m < s.mocks.length
    · have h1 : mocksSize (s.mocks.set m k) + rxSize (getMock s m).rx
          = mocksSize s.mocks + rxSize k.rx := mocksSize_set s.mocks m k hm
      rw [hk] at h1; omega
    · rw [(mocksSize_set_ge s.mocks m _ (by omega)).1]
  simp only [mu, ctl, rho, setMock, this]

theorem mu_finish_idle (w : σ → Nat) (s : State σ) (m m' : Nat) (r : Req) (res : Res)
    (hp : s.pos = .idle m') : mu w (finish s m r res) ≤ mu w s + 1 := by
  have := mu_finish w s m r res
  rw [hp] at this
  simp only [posW] at this
  omega

theorem startRequest_mu (F : Framing σ) (w : σ → Nat) (hw : ParseMeasure F w) (s : State σ)
    (m : Nat) (r : Req) (hp : s.pos = .idle m) : mu w (startRequest F s m r) ≤ mu w s + 2 := by
  unfold startRequest
  simp only []
  split
  · refine Nat.le_trans (mu_finish_idle w _ m m r _ hp) ?_
    simp only [mu, ctl, rho]; omega
  · split
    · rename_i res st' rb' hd
      have := discardBuffered_measure F w hw _ _ _ _ _ _ hd
      refine Nat.le_trans (mu_finish_idle w _ m m r _ hp) ?_
      simp only [mu, ctl, rho]; omega
    · rename_i st' rb' hd
      have := discardBuffered_measure F w hw _ _ _ _ _ _ hd
      split
      · refine Nat.le_trans (mu_finish_idle w _ m m r _ hp) ?_
        refine Nat.le_trans (Nat.add_le_add_right (Nat.le_of_eq (mu_setMock_same w _ m _ ?_)) 1) ?_
        · rfl
        · simp only [mu, ctl, rho]; omega
      · split <;> simp only [mu, ctl, rho, hp, posW, emit] <;> omega

theorem mu_applySetting (w : σ → Nat) (s : State σ) (c : Cmd) :
    mu w (applySetting s c) = mu w s ∧ (applySetting s c).pos = s.pos := by
  cases c <;> exact ⟨rfl, rfl⟩

theorem runCmd_mu (F : Framing σ) (w : σ → Nat) (hw : ParseMeasure F w) (s : State σ)
    (m : Nat) (c : Cmd) (hp : s.pos = .idle m) : mu w (runCmd F s m c) ≤ mu w s + 2 := by
  have other : ∀ c', mu w (if (applySetting s c').enabled then applySetting s c'
      else endPhase (applySetting s c') .disabled) ≤ mu w s + 2 := by
    intro c'
    obtain ⟨h1, h2⟩ := mu_applySetting w s c'
    split
    · omega
    · have := mu_endPhase w (applySetting s c') .disabled; omega
  cases c with
  | req r => exact startRequest_mu F w hw s m r hp
  | shutdown => have := mu_endPhase w s .shutdown; simp only [runCmd]; omega
  | enable => exact other .enable
  | disable => exact other .disable
  | setDecode d => exact other (.setDecode d)

theorem sessionRecv_mu (F : Framing σ) (w : σ → Nat) (hw : ParseMeasure F w) (s t : State σ)
    (m : Nat) (hp : s.pos = .idle m) (h : sessionRecv F s m = some t) : mu w t < mu w s := by
  unfold sessionRecv at h
  split at h
  · rename_i c q hq
    cases h
    have := runCmd_mu F w hw { s with queue := q } m c hp
    have e : mu w s = mu w ({ s with queue := q } : State σ) + 4 := by
      simp only [mu, ctl, rho, hq, List.length_cons]; omega
    omega
  · split at h
    · cases h
      have := mu_endPhase w s .shutdown
      rw [hp] at this; simp only [posW] at this; omega
    · cases h

theorem sessionRecv_queue (F : Framing σ) (s : State σ) (m : Nat)
    (h : sessionRecv F s m = none) : s.queue = [] := by
  unfold sessionRecv at h
  split at h
  · cases h
  · assumption

theorem idleReader_mu (w : σ → Nat) (s : State σ) (r : ReadRes) (m : Nat) (hp : s.pos = .idle m) :
    mu w (idleReader s r) ≤ mu w s
      ∧ (∀ res, r = .fail res → res.sessionEnd ≠ none → mu w (idleReader s r) < mu w s) := by
  unfold idleReader
  split
  · rename_i res
    split
    · have := mu_endPhase w s ‹EndKind›
      rw [hp] at this; simp only [posW] at this
      exact ⟨by omega, fun _ _ _ => by omega⟩
    · rename_i hn
      refine ⟨Nat.le_refl _, fun res' hr hne => ?_⟩
      cases hr; exact absurd hn hne
  · rename_i hnf
    exact ⟨Nat.le_refl _, fun res hr => absurd hr (hnf res)⟩

theorem mu_flip (w : σ → Nat) (s : State σ) :
    mu w (flip s).2 = mu w s ∧ (flip s).2.pos = s.pos ∧ (flip s).2.queue = s.queue := by
  unfold flip; cases s.coins <;> exact ⟨rfl, rfl, rfl⟩

theorem idleReader_step (w : σ → Nat) (s s2 : State σ) (r : ReadRes) (m : Nat)
    (hp : s2.pos = .idle m) (hc : mu w s2 + rho w s = mu w s + rho w s2)
    (h1 : rho w s2 ≤ rho w s) (h2 : ∀ f, r = .frame f → rho w s2 < rho w s)
    (h4 : ∀ res, r = .fail res → res.sessionEnd ≠ none) (hnb : r ≠ .blocked) :
    mu w (idleReader s2 r) < mu w s := by
  obtain ⟨a1, a2⟩ := idleReader_mu w s2 r m hp
  cases r with
  | blocked => exact absurd rfl hnb
  | frame f => have := h2 f rfl; omega
  | fail res => have := a2 res rfl (h4 res rfl); omega

theorem tickIdle_mu (F : Framing σ) (w : σ → Nat) (hw : ParseMeasure F w) (s t : State σ)
    (m : Nat) (hp : s.pos = .idle m) (h : tickIdle F s m = some t) : mu w t < mu w s := by
  unfold tickIdle at h
  simp only [] at h
  generalize hpr : pollReader F s m = pr at h
  obtain ⟨r, s'⟩ := pr
  obtain ⟨⟨st', rb', mk', hs'⟩, p1, p2, p3, p4⟩ := pollReader_spec F w hw s m r s' hpr
  have hctl : mu w s' + rho w s = mu w s + rho w s' := by
    subst hs'; simp only [mu, ctl]; omega
  have hp' : s'.pos = .idle m := by subst hs'; exact hp
  generalize hf : flip s = fl at h
  obtain ⟨c, s0⟩ := fl
  have hs0 : s0 = (flip s).2 := by rw [hf]
  obtain ⟨f1, f2, _⟩ := mu_flip w s
  rw [← hs0] at f1 f2
  have hp0 : s0.pos = .idle m := by rw [f2]; exact hp
  simp only [] at h
  split at h
  · -- blocked
    split at h
    · rename_i t' ht
      cases h
      have := sessionRecv_mu F w hw s' t m hp' ht
      omega
    · split at h
      · rename_i hrx
        cases h
        have hne : (getMock s m).rx ≠ [] := by
          intro he; rw [he] at hrx; simp at hrx
        have := p3 rfl hne
        omega
      · cases h
  · rename_i hnb
    have hnb' : r ≠ .blocked := fun he => hnb he
    split at h
    · split at h
      · cases h
        exact idleReader_step w s { s' with coins := s0.coins } r m hp' hctl p1 p2 p4 hnb'
      · have := sessionRecv_mu F w hw s0 t m hp0 h
        omega
    · cases h
      exact idleReader_step w s s' r m hp' hctl p1 p2 p4 hnb'

theorem mu_finish_inflight (w : σ → Nat) (s : State σ) (m m' : Nat) (q r : Req) (tx dl : Nat)
    (res : Res) (hp : s.pos = .inflight m' q tx dl) : mu w (finish s m r res) < mu w s := by
  have := mu_finish w s m r res
  rw [hp] at this
  simp only [posW] at this
  omega

theorem inflightReader_step (w : σ → Nat) (s s2 : State σ) (r : ReadRes) (m : Nat) (q : Req)
    (tx dl : Nat) (hp : s2.pos = .inflight m q tx dl)
    (hc : mu w s2 + rho w s = mu w s + rho w s2)
    (h1 : rho w s2 ≤ rho w s) (h2 : ∀ f, r = .frame f → rho w s2 < rho w s)
    (hnb : r ≠ .blocked) :
    mu w (inflightReader s2 m q tx r) < mu w s := by
  unfold inflightReader
  split
  · rename_i f
    have := h2 f rfl
    split
    · have := mu_finish_inflight w s2 m m q q tx dl (respResult q.req f.pdu) hp; omega
    · omega
  · rename_i res
    have := mu_finish_inflight w s2 m m q q tx dl res hp; omega
  · exact absurd rfl hnb

theorem tickInflight_mu (F : Framing σ) (w : σ → Nat) (hw : ParseMeasure F w) (s t : State σ)
    (m : Nat) (q : Req) (tx dl : Nat) (hp : s.pos = .inflight m q tx dl)
    (h : tickInflight F s m q tx dl = some t) : mu w t < mu w s := by
  unfold tickInflight at h
  simp only [] at h
  generalize hpr : pollReader F s m = pr at h
  obtain ⟨r, s'⟩ := pr
  obtain ⟨⟨st', rb', mk', hs'⟩, p1, p2, p3, p4⟩ := pollReader_spec F w hw s m r s' hpr
  have hctl : mu w s' + rho w s = mu w s + rho w s' := by
    subst hs'; simp only [mu, ctl]; omega
  have hp' : s'.pos = .inflight m q tx dl := by subst hs'; exact hp
  generalize hf : flip s = fl at h
  obtain ⟨c, s0⟩ := fl
  have hs0 : s0 = (flip s).2 := by rw [hf]
  obtain ⟨f1, f2, _⟩ := mu_flip w s
  rw [← hs0] at f1 f2
  have hp0 : s0.pos = .inflight m q tx dl := by rw [f2]; exact hp
  simp only [] at h
  split at h
  · -- blocked
    split at h
    · cases h
      have := mu_finish_inflight w s' m m q q tx dl .timeout hp'
      omega
    · split at h
      · rename_i hrx
        cases h
        have hne : (getMock s m).rx ≠ [] := by
          intro he; rw [he] at hrx; simp at hrx
        have := p3 rfl hne
        omega
      · cases h
  · rename_i hnb
    have hnb' : r ≠ .blocked := fun he => hnb he
    split at h
    · split at h
      · cases h
        have := mu_finish_inflight w s0 m m q q tx dl .timeout hp0
        omega
      · cases h
        exact inflightReader_step w s { s' with coins := s0.coins } r m q tx dl hp' hctl p1 p2 hnb'
    · cases h
      exact inflightReader_step w s s' r m q tx dl hp' hctl p1 p2 hnb'

theorem waitCmd_mu (w : σ → Nat) (s : State σ) (c : Cmd) :
    mu w (waitCmd s c) ≤ mu w s + 1 := by
  cases c with
  | req r => exact mu_complete w s r .noConn
  | shutdown => have := mu_endPhase w s .shutdown; simp only [waitCmd]; omega
  | enable => have e : mu w (waitCmd s .enable) = mu w s := rfl; omega
  | disable => have e : mu w (waitCmd s .disable) = mu w s := rfl; omega
  | setDecode d => have e : mu w (waitCmd s (.setDecode d)) = mu w s := rfl; omega

theorem tickWait_mu (w : σ → Nat) (s t : State σ) (hp : s.pos = .waitEnabled)
    (h : tickWait s = some t) : mu w t < mu w s := by
  have hend : ∀ k, mu w (endPhase s k) < mu w s := by
    intro k
    have := mu_endPhase w s k
    rw [hp] at this; simp only [posW] at this; omega
  unfold tickWait at h
  split at h
  · cases h; exact hend _
  · split at h
    · rename_i c q hq
      cases h
      have := waitCmd_mu w { s with queue := q } c
      have e : mu w s = mu w ({ s with queue := q } : State σ) + 4 := by
        simp only [mu, ctl, rho, hq, List.length_cons]; omega
      omega
    · split at h
      · cases h; exact hend _
      · cases h

theorem failCmd_mu (w : σ → Nat) (s : State σ) (c : Cmd) :
    mu w (failCmd s c) ≤ mu w s + 1 := by
  have other : ∀ c', mu w (if (applySetting s c').enabled then applySetting s c'
      else endPhase (applySetting s c') .disabled) ≤ mu w s + 1 := by
    intro c'
    obtain ⟨h1, h2⟩ := mu_applySetting w s c'
    split
    · omega
    · have := mu_endPhase w (applySetting s c') .disabled; omega
  cases c with
  | req r => exact mu_complete w s r .noConn
  | shutdown => have := mu_endPhase w s .shutdown; simp only [failCmd]; omega
  | enable => exact other .enable
  | disable => exact other .disable
  | setDecode d => exact other (.setDecode d)

theorem tickFail_mu (w : σ → Nat) (s t : State σ) (dl : Nat) (b : Bool)
    (hp : s.pos = .failFor dl b) (h : tickFail s dl b = some t) : mu w t < mu w s := by
  have hpos : 1 ≤ posW s.pos := by rw [hp]; cases b <;> simp [posW]
  have hend : ∀ k, mu w (endPhase s k) < mu w s := by
    intro k
    have := mu_endPhase w s k
    omega
  unfold tickFail at h
  simp only [] at h
  generalize hf : flip s = fl at h
  obtain ⟨c, s0⟩ := fl
  have hs0 : s0 = (flip s).2 := by rw [hf]
  obtain ⟨f1, f2, _⟩ := mu_flip w s
  rw [← hs0] at f1 f2
  simp only [] at h
  split at h
  · rename_i hcond
    have hb : b = false := by
      cases b
      · rfl
      · simp at hcond
    subst hb
    split at h
    · split at h
      · cases h
        have := mu_endPhase w s0 .elapsed
        rw [f2] at this
        omega
      · cases h
        have e : mu w ({ s0 with pos := .failFor dl true } : State σ) + posW s0.pos
            = mu w s0 + 1 := by
          simp only [mu, ctl, rho, posW]; omega
        rw [f2, hp] at e
        simp only [posW] at e
        omega
    · cases h; exact hend _
  · split at h
    · rename_i c' q hq
      cases h
      have := failCmd_mu w { s with queue := q } c'
      have e : mu w s = mu w ({ s with queue := q } : State σ) + 4 := by
        simp only [mu, ctl, rho, hq, List.length_cons]; omega
      omega
    · split at h
      · cases h; exact hend _
      · split at h
        · cases h; exact hend _
        · cases h

theorem startPhase_mu (F : Framing σ) (w : σ → Nat) (hw : ParseMeasure F w) (s t : State σ)
    (hp : s.pos = .noPhase) (h : startPhase F s = some t) : mu w t < mu w s := by
  have hi := hw.init
  unfold startPhase at h
  split at h
  · cases h
  · rename_i m ps hph
    cases h
    simp only [mu, ctl, rho, hp, hph, posW, List.length_cons, RB.empty, List.length_nil]; omega
  · rename_i ps hph
    cases h
    simp only [mu, ctl, rho, hp, hph, posW, List.length_cons]; omega
  · rename_i ms ps hph
    cases h
    simp only [mu, ctl, rho, hp, hph, posW, List.length_cons]; omega

/-- every tick of the outer task lowers the measure -/
theorem tick_mu (F : Framing σ) (w : σ → Nat) (hw : ParseMeasure F w) (s t : State σ)
    (h : tick F s = some t) : mu w t < mu w s := by
  unfold tick at h
  split at h
  · cases h
  · split at h
    · rename_i hp; exact startPhase_mu F w hw s t hp h
    · rename_i m hp; exact tickIdle_mu F w hw s t m hp h
    · rename_i m q tx dl hp; exact tickInflight_mu F w hw s t m q tx dl hp h
    · rename_i hp; exact tickWait_mu w s t hp h
    · rename_i dl c hp; exact tickFail_mu w s t dl c hp h


end

/-! ## pending requests -/

/-- the number of requests that are queued or in flight -/
def pend (c : Core) : Nat := (reqsOf c.queue).length + (inflightIds c.pos).length

theorem reqsOf_cons_other (x : Cmd) (q : List Cmd) (h : x.isReq = false) :
    reqsOf (x :: q) = reqsOf q := by
  cases x <;> first | rfl | simp [Cmd.isReq] at h

theorem teff_pend (c c' : Core) (e : TEff c c') : pend c' ≤ pend c ∧ c'.alive = c.alive := by
  cases e with
  | quiet => exact ⟨Nat.le_refl _, rfl⟩
  | commit dl ha hp => simp [pend, hp, inflightIds]
  | startSession m ha hp => simp [pend, hp, inflightIds]
  | startWait ha hp => simp [pend, hp, inflightIds]
  | startFail ms ha hp => simp [pend, hp, inflightIds]
  | phaseEnd k ha hi hn => simp [pend, inflightIds]
  | phaseEndCmd k x q ha hi hn hq hx => simp [pend, hq, inflightIds, reqsOf_cons_other x q hx]
  | setting x q ha hi hn hq hx => simp [pend, hq, reqsOf_cons_other x q hx]
  | noConn r q ha hp hq => simp [pend, hq, reqsOf]
  | send m r q bytes logged ha hp hq => simp [pend, hp, hq, reqsOf, inflightIds]
  | dequeueFail m r q res ha hp hq hres =>
    obtain ⟨_, h2, h3, _, _, _, _, h8, _⟩ := afterCore_parts
      { c with queue := q, tx := nextTx c.tx, dequeued := (r.rid, c.tx) :: c.dequeued,
               log := doneEntry c r res :: c.log } m res
    refine ⟨?_, h8⟩
    simp only [pend, h2, h3, hq, reqsOf, List.length_cons, List.length_nil]; omega
  | finish m r tx dl res ha hp ht h3 h4 =>
    obtain ⟨_, h2, h3, _, _, _, _, h8, _⟩ := afterCore_parts
      { c with log := doneEntry c r res :: c.log } m res
    refine ⟨?_, h8⟩
    simp only [pend, h2, h3, List.length_nil]; omega
  | time t ht1 ht2 => exact ⟨Nat.le_refl _, rfl⟩

theorem tsteps_pend {c c' : Core} (h : TSteps c c') : pend c' ≤ pend c ∧ c'.alive = c.alive := by
  induction h with
  | refl => exact ⟨Nat.le_refl _, rfl⟩
  | tail _ e ih =>
    obtain ⟨h1, h2⟩ := teff_pend _ _ e
    exact ⟨by omega, by rw [h2, ih.2]⟩

section
variable {σ : Type}

/-! ## blocked states -/

/-- the outer task is blocked and no completed future still holds a clone: `settle` stops here -/
def Blocked (F : Framing σ) (s : State σ) : Prop := tick F s = none ∧ s.held = 0

/-- `settle` with fuel `n` runs the task until it blocks, or lowers the measure by `n` -/
theorem settle_progress (F : Framing σ) (w : σ → Nat) (hw : ParseMeasure F w) :
    ∀ (n : Nat) (s : State σ), Blocked F (settle F n s) ∨ mu w (settle F n s) + n ≤ mu w s := by
  intro n
  induction n with
  | zero => intro s; right; simp [settle]
  | succ n ih =>
    intro s
    cases ht : tick F s with
    | none =>
      rw [settle_succ_none F n s ht]
      by_cases hh : s.held = 0
      · rw [if_pos hh]; exact Or.inl ⟨ht, hh⟩
      · rw [if_neg hh]
        have e : mu w ({ s with held := 0 } : State σ) + 1 = mu w s := by
          simp only [mu, ctl, rho, heldW, hh, if_false, if_true]; omega
        rcases ih { s with held := 0 } with h | h
        · exact Or.inl h
        · right; omega
    | some t =>
      rw [settle_succ_some F n s t ht]
      have := tick_mu F w hw s t ht
      rcases ih t with h | h
      · exact Or.inl h
      · right; omega

theorem tickIdle_none_queue (F : Framing σ) (s : State σ) (m : Nat)
    (h : tickIdle F s m = none) : s.queue = [] := by
  unfold tickIdle at h
  simp only [] at h
  generalize hpr : pollReader F s m = pr at h
  obtain ⟨r, s'⟩ := pr
  have hc : core s' = core s := by have := core_pollReader F s m; rw [hpr] at this; exact this
  have hq' : s'.queue = s.queue := congrArg Core.queue hc
  generalize hf : flip s = fl at h
  obtain ⟨c, s0⟩ := fl
  have hc0 : core s0 = core s := by have := core_flip s; rw [hf] at this; exact this
  have hq0 : s0.queue = s.queue := congrArg Core.queue hc0
  simp only [] at h
  split at h
  · split at h
    · cases h
    · rename_i hn
      rw [← hq']; exact sessionRecv_queue F s' m hn
  · split at h
    · split at h
      · cases h
      · rw [← hq0]; exact sessionRecv_queue F s0 m h
    · cases h

theorem tickWait_none_queue (s : State σ) (h : tickWait s = none) : s.queue = [] := by
  unfold tickWait at h
  split at h
  · cases h
  · split at h
    · cases h
    · assumption

theorem tickFail_none_queue (s : State σ) (dl : Nat) (b : Bool) (h : tickFail s dl b = none) :
    s.queue = [] := by
  unfold tickFail at h
  simp only [] at h
  split at h
  · split at h
    · split at h <;> cases h
    · cases h
  · split at h
    · cases h
    · assumption

/-- a blocked task is between phases with nothing scheduled, or has nothing queued and nothing in
    flight, or waits for the reply to the request in flight -/
theorem blocked_cases (F : Framing σ) (s : State σ) (ha : s.alive = true) (h : tick F s = none) :
    Idle s ∨ pend (core s) = 0
      ∨ ∃ m q tx dl, s.pos = .inflight m q tx dl ∧ tickInflight F s m q tx dl = none := by
  unfold tick at h
  rw [ha] at h
  simp only [Bool.not_true, Bool.false_eq_true, if_false] at h
  have zero : s.queue = [] → inflightIds s.pos = [] → pend (core s) = 0 := by
    intro h1 h2
    show (reqsOf s.queue).length + (inflightIds s.pos).length = 0
    rw [h1, h2]; rfl
  split at h
  · rename_i hp
    left
    refine ⟨ha, hp, ?_⟩
    unfold startPhase at h
    split at h
    · assumption
    · cases h
    · cases h
    · cases h
  · rename_i m hp
    exact Or.inr (Or.inl (zero (tickIdle_none_queue F s m h) (by rw [hp]; rfl)))
  · rename_i m q tx dl hp
    exact Or.inr (Or.inr ⟨m, q, tx, dl, hp, h⟩)
  · rename_i hp
    exact Or.inr (Or.inl (zero (tickWait_none_queue s h) (by rw [hp]; rfl)))
  · rename_i dl c hp
    exact Or.inr (Or.inl (zero (tickFail_none_queue s dl c h) (by rw [hp]; rfl)))

end

section
variable {σ : Type}

theorem pollReader_now (F : Framing σ) (s : State σ) (m t : Nat) :
    pollReader F { s with now := t } m
      = ((pollReader F s m).1, { (pollReader F s m).2 with now := t }) := by
  rfl

end

section
variable {σ : Type}

theorem tickInflight_none (F : Framing σ) (s : State σ) (m : Nat) (q : Req) (tx dl : Nat)
    (h : tickInflight F s m q tx dl = none) :
    (pollReader F s m).1 = .blocked ∧ s.now < dl := by
  unfold tickInflight at h
  simp only [] at h
  generalize hpr : pollReader F s m = pr at h
  obtain ⟨r, s'⟩ := pr
  generalize hf : flip s = fl at h
  obtain ⟨c, s0⟩ := fl
  simp only [] at h
  split at h
  · split at h
    · cases h
    · rename_i hexp
      refine ⟨rfl, ?_⟩
      simpa using hexp
  · split at h
    · split at h <;> cases h
    · cases h

theorem pend_finish (s : State σ) (m : Nat) (q : Req) (res : Res) :
    pend (core (finish s m q res)) = (reqsOf s.queue).length
      ∧ (finish s m q res).alive = s.alive := by
  rw [core_finish]
  obtain ⟨_, h2, h3, _, _, _, _, h8, _⟩ := afterCore_parts
    { core s with log := doneEntry (core s) q res :: s.log } m res
  refine ⟨?_, ?_⟩
  · simp only [pend, h2, h3, List.length_nil]; rfl
  · have e := congrArg Core.alive (core_finish s m q res)
    exact e.trans h8

/-- the clock reaches the deadline of the request in flight while the reader has nothing: the
    request times out, the number of pending requests drops -/
theorem inflight_advance (F : Framing σ) (s : State σ) (m : Nat) (q : Req) (tx dl : Nat)
    (ha : s.alive = true) (hp : s.pos = .inflight m q tx dl)
    (hb : tickInflight F s m q tx dl = none) :
    pend (core (stepState F s (.advance (dl - s.now)))) < pend (core s)
      ∧ (stepState F s (.advance (dl - s.now))).alive = true := by
  obtain ⟨hblk, hnow⟩ := tickInflight_none F s m q tx dl hb
  have hnt : nextTimer s = some dl := by simp [nextTimer, ha, hp]
  have hfu : advanceFuel s = (s.queue.length + s.phases.length + 1) + 1 := by
    simp [advanceFuel]
  have htarget : s.now + (dl - s.now) = dl := by omega
  show pend (core (advance F (advanceFuel s) (s.now + (dl - s.now)) s)) < _ ∧
    (advance F (advanceFuel s) (s.now + (dl - s.now)) s).alive = true
  rw [hfu, htarget]
  unfold advance
  rw [hnt]
  simp only [Nat.le_refl, if_true]
  -- the state at the deadline
  have hmc : moveClock s dl = { s with now := dl } := by
    unfold moveClock
    rw [hnt]
    simp only [Nat.min_self]
    have : max s.now dl = dl := by omega
    rw [this]
  rw [hmc]
  generalize hsm : ({ s with now := dl } : State σ) = sm
  have hsma : sm.alive = true := by rw [← hsm]; exact ha
  have hsmp : sm.pos = .inflight m q tx dl := by rw [← hsm]; exact hp
  have hpr : pollReader F sm m = (.blocked, { (pollReader F s m).2 with now := dl }) := by
    rw [← hsm, pollReader_now, hblk]
  have htick : tick F sm = some (finish { (pollReader F s m).2 with now := dl } m q .timeout) := by
    unfold tick
    simp only [hsma, Bool.not_true, Bool.false_eq_true, if_false, hsmp]
    exact tickInflight_expired_blocked F sm _ m q tx dl hpr (by rw [← hsm]; exact Nat.le_refl _)
  have hfuel : settleFuel sm = (settleFuel sm - 1) + 1 := by simp [settleFuel]
  have hst : settled F sm
      = settle F (settleFuel sm - 1) (finish { (pollReader F s m).2 with now := dl } m q .timeout) := by
    unfold settled
    rw [hfuel, settle_succ_some F _ sm _ htick]
    simp
  rw [hst]
  generalize hfin : finish { (pollReader F s m).2 with now := dl } m q .timeout = fin
  obtain ⟨f1, f2⟩ := pend_finish ({ (pollReader F s m).2 with now := dl } : State σ) m q .timeout
  rw [hfin] at f1 f2
  have hq : (pollReader F s m).2.queue = s.queue := congrArg Core.queue (core_pollReader F s m)
  have hal : (pollReader F s m).2.alive = s.alive := congrArg Core.alive (core_pollReader F s m)
  obtain ⟨g1, g2⟩ := tsteps_pend (settle_steps F (settleFuel sm - 1) fin)
  obtain ⟨k1, k2⟩ := tsteps_pend (advance_steps F (s.queue.length + s.phases.length + 1) dl
    (settle F (settleFuel sm - 1) fin))
  have hps : pend (core s) = (reqsOf s.queue).length + 1 := by
    show (reqsOf s.queue).length + (inflightIds s.pos).length = _
    rw [hp]; rfl
  refine ⟨?_, ?_⟩
  · have f1' : pend (core fin) = (reqsOf s.queue).length := by rw [f1]; exact congrArg _ (congrArg _ hq)
    omega
  · have : (core (advance F (s.queue.length + s.phases.length + 1) dl
        (settle F (settleFuel sm - 1) fin))).alive = true := by
      rw [k2, g2]
      show fin.alive = true
      rw [f2]
      show (pollReader F s m).2.alive = true
      rw [hal]; exact ha
    exact this

end

section
variable {σ : Type}

/-! ## the continuation -/

/-- the steps of the continuation: the clock moves, or the channel task fails requests for 1 ms -/
def DrainStep (st : Step) : Prop := (∃ n, st = .advance n) ∨ st = .failFor 1

/-- some continuation of clock movements and `fail_requests_for` phases leaves nothing queued and
    nothing in flight, without anything new having been accepted -/
def Drains (F : Framing σ) (s : State σ) : Prop :=
  ∃ more : List Step, (∀ st ∈ more, DrainStep st)
    ∧ queueIds (runState F s more).queue = [] ∧ inflightIds (runState F s more).pos = []
    ∧ (runState F s more).accepted = s.accepted

theorem drains_step (F : Framing σ) (s : State σ) (st : Step) (hst : DrainStep st)
    (h : Drains F (stepState F s st)) : Drains F s := by
  obtain ⟨more, h1, h2, h3, h4⟩ := h
  refine ⟨st :: more, ?_, h2, h3, ?_⟩
  · intro x hx
    rcases List.mem_cons.mp hx with hx | hx
    · rw [hx]; exact hst
    · exact h1 x hx
  · show (runState F (stepState F s st) more).accepted = s.accepted
    rw [h4]
    rcases hst with ⟨n, rfl⟩ | rfl
    · exact stepState_advance_accepted F s n
    · exact stepState_failFor_accepted F s 1

theorem drains_zero (F : Framing σ) (s : State σ) (h : pend (core s) = 0) : Drains F s := by
  have h' : (reqsOf s.queue).length + (inflightIds s.pos).length = 0 := h
  refine ⟨[], by simp, ?_, ?_, rfl⟩
  · show (reqsOf s.queue).map (·.rid) = []
    have : reqsOf s.queue = [] := List.eq_nil_of_length_eq_zero (by omega)
    rw [this]; rfl
  · show inflightIds s.pos = []
    exact List.eq_nil_of_length_eq_zero (by omega)

theorem drains_idle (F : Framing σ) (s : State σ) (h : Idle s) : Drains F s := by
  obtain ⟨⟨_, hp, _⟩, hq⟩ := drain_idle F s.queue.length s h (Nat.le_refl _)
  refine ⟨drainSteps s.queue.length, ?_, ?_, ?_, drain_accepted F _ s⟩
  · intro st hst
    rcases drainSteps_kind _ st hst with h | h
    · exact Or.inr h
    · exact Or.inl ⟨1, h⟩
  · rw [hq]; rfl
  · rw [hp]; rfl

/-- one more `fail_requests_for` phase is scheduled and the tasks run: the task blocks, or the
    measure has dropped -/
theorem kick (F : Framing σ) (w : σ → Nat) (hw : ParseMeasure F w) (s : State σ)
    (ha : s.alive = true) :
    (stepState F s (.failFor 1)).alive = true
      ∧ pend (core (stepState F s (.failFor 1))) ≤ pend (core s)
      ∧ (Blocked F (stepState F s (.failFor 1)) ∨ mu w (stepState F s (.failFor 1)) < mu w s) := by
  have h1 : applyStep s (.failFor 1) = { s with phases := s.phases ++ [.failFor 1] } := by
    simp [applyStep, addPhase, ha]
  have hst : stepState F s (.failFor 1) = settled F { s with phases := s.phases ++ [.failFor 1] } := by
    show settled F (applyStep s (.failFor 1)) = _
    rw [h1]
  rw [hst]
  generalize hsa : ({ s with phases := s.phases ++ [.failFor 1] } : State σ) = sa
  have hc : core sa = core s := by rw [← hsa]; rfl
  have hmu : mu w sa = mu w s + 4 := by
    rw [← hsa]; simp only [mu, ctl, rho, List.length_append, List.length_cons, List.length_nil]; omega
  obtain ⟨g1, g2⟩ := tsteps_pend (settled_steps F sa)
  rw [hc] at g1 g2
  refine ⟨?_, g1, ?_⟩
  · show (core (settled F sa)).alive = true
    rw [g2]; exact ha
  · have hfu : 16 ≤ settleFuel sa := by simp [settleFuel]
    rcases settle_progress F w hw (settleFuel sa) sa with h | h
    · exact Or.inl h
    · right
      show mu w (settle F (settleFuel sa) sa) < mu w s
      omega

/-- from every state in which the task exists, a continuation of clock movements and
    `fail_requests_for` phases completes everything that is pending -/
theorem drains_all (F : Framing σ) (hF : Consuming F) (s : State σ) (ha : s.alive = true) :
    Drains F s := by
  obtain ⟨w, hw⟩ := hF
  have main : ∀ (r k : Nat) (s : State σ), s.alive = true → pend (core s) = r → mu w s = k →
      Drains F s := by
    intro r
    induction r using Nat.strongRecOn with
    | ind r ihr =>
      -- a blocked state
      have blk : ∀ s : State σ, s.alive = true → pend (core s) = r → tick F s = none →
          Drains F s := by
        intro s ha hr hb
        rcases blocked_cases F s ha hb with h | h | ⟨m, q, tx, dl, hp, hn⟩
        · exact drains_idle F s h
        · exact drains_zero F s h
        · obtain ⟨h1, h2⟩ := inflight_advance F s m q tx dl ha hp hn
          exact drains_step F s _ (Or.inl ⟨_, rfl⟩)
            (ihr _ (by omega) _ _ h2 rfl rfl)
      intro k
      induction k using Nat.strongRecOn with
      | ind k ihk =>
        intro s ha hr hk
        by_cases hb : tick F s = none
        · exact blk s ha hr hb
        · obtain ⟨a1, p1, h⟩ := kick F w hw s ha
          apply drains_step F s _ (Or.inr rfl)
          by_cases hlt : pend (core (stepState F s (.failFor 1))) < r
          · exact ihr _ hlt _ _ a1 rfl rfl
          · have heq : pend (core (stepState F s (.failFor 1))) = r := by omega
            rcases h with h | h
            · exact blk _ a1 heq h.1
            · exact ihk _ (by omega) _ a1 heq rfl
  exact main _ _ s ha rfl rfl

end


end Rodbus.Client
