import RodbusModel.Lemmas.Ffi
import RodbusModel.Gen.FfiTables
/-
  C19 — The C-ABI point database behaves as one map per point type; a client read touching an
  absent point is answered with exception 02; a transaction's changes become visible to clients
  atomically.

  Model: `Model/Ffi.lean` (`Db`, `dbHandler`, the lock model `LState`); reference: the abstract
  map `Spec.AMap`.  The tie to the Rust sources is (a) the generated tables below (which helper
  and which map every `rodbus_database_*` function uses, the four read callbacks, the lock around
  the transaction callback) and (b) the `ffi db` / `ffi atomic` correspondence runs.
-/
namespace Rodbus.C19
open Rodbus.Ffi Rodbus.Ffi.Spec

/-- **db_refines_map**: for every sequence of add / update / delete / get over the four point
    types the results are those of the abstract `Table → Index → Option Value` map (add succeeds
    iff absent, update and delete iff present, get fails iff absent — `AMap.step`), and the
    database afterwards still represents the abstract map afterwards.  The four maps are
    independent because `AMap.set t i` changes the function at table `t` only. -/
theorem db_refines_map (db : Db) (ops : List DbOp) :
    (db.run ops).2 = (db.abs.run ops).2 ∧ (db.run ops).1.abs = (db.abs.run ops).1 :=
  Db.run_refines db ops

/-- the abstract semantics spelled out per operation -/
theorem add_succeeds_iff_absent (m : AMap) (t : Table) (i v : Nat) :
    ((m.step (.add t i v)).2 = .flag true ↔ m t i = none) ∧
    ((m.step (.add t i v)).2 = .flag true → (m.step (.add t i v)).1 t i = some v) := by
  cases h : m t i <;> simp [AMap.step, AMap.set, h]

theorem update_succeeds_iff_present (m : AMap) (t : Table) (i v : Nat) :
    ((m.step (.update t i v)).2 = .flag true ↔ (m t i).isSome) ∧
    ((m.step (.update t i v)).2 = .flag true → (m.step (.update t i v)).1 t i = some v) := by
  cases h : m t i <;> simp [AMap.step, AMap.set, h]

theorem delete_succeeds_iff_present (m : AMap) (t : Table) (i : Nat) :
    ((m.step (.delete t i)).2 = .flag true ↔ (m t i).isSome) ∧
    ((m.step (.delete t i)).1 t i = none) := by
  cases h : m t i <;> simp [AMap.step, AMap.set, h]

theorem get_fails_iff_absent (m : AMap) (t : Table) (i : Nat) :
    ((m.step (.get t i)).2 = .err ↔ m t i = none) ∧ (m.step (.get t i)).1 = m := by
  cases h : m t i <;> simp [AMap.step, h]

/-- an operation on one table (or one index) never changes another table (or index) -/
theorem tables_independent (m : AMap) (op : DbOp) (t' : Table) (i' : Nat)
    (h : match op with
      | .add t i _ | .update t i _ | .delete t i | .get t i => ¬ (t' = t ∧ i' = i)) :
    (m.step op).1 t' i' = m t' i' := by
  cases op <;> simp only [AMap.step] <;> (try split) <;> simp_all [AMap.set]

/-- the same, for the concrete database and whole sequences -/
theorem db_tables_independent (db : Db) (ops : List DbOp) (t' : Table)
    (h : ∀ op ∈ ops, match op with
      | .add t _ _ | .update t _ _ | .delete t _ | .get t _ => t ≠ t') (i' : Nat) :
    (db.run ops).1.find t' i' = db.find t' i' := by
  have key : ∀ (m : AMap), (m.run ops).1 t' i' = m t' i' := by
    induction ops with
    | nil => intro m; rfl
    | cons op ops ih =>
      intro m
      simp only [AMap.run]
      rw [ih (fun o ho => h o (List.mem_cons_of_mem _ ho))]
      apply tables_independent
      have := h op (List.mem_cons_self ..)
      cases op <;> simp_all <;> intro h1 <;> exact absurd h1.symm this
  have := (Db.run_refines db ops).2
  have h2 : (db.run ops).1.abs t' i' = db.abs t' i' := by rw [this]; exact key db.abs
  exact h2

/-- **absent_point_exception_02**: the server model with the handler built from the database
    answers a read that touches an absent point with exception 02, leaves the database alone, and
    has queried exactly the ascending prefix of the range up to and including the first absent
    point (C02) -/
theorem absent_point_exception_02 (app : WriteApp) (u : Nat) (db : Db) (t : Table) (r : Range)
    (a : Nat) (ha : a ∈ r.addresses) (habs : db.find t a = none) :
    ∃ pre y post,
      r.addresses = pre ++ y :: post ∧ (∀ z ∈ pre, (db.find t z).isSome) ∧ db.find t y = none ∧
      getReply (dbHandler app) u db (readReq t r) =
        (exceptionPdu (readReq t r).fc.toByte 2, (pre ++ [y]).map (readCall t u), db) := by
  have hfail : readPoint db t a = .error 2 := by simp [readPoint, habs, ExCode.toByte]
  obtain ⟨pre, y, post, e', h1, h2, h3, h4⟩ :=
    readSeq_first_error (readPoint db t) r.addresses a ha 2 hfail
  have he : e' = 2 ∧ db.find t y = none := by
    unfold readPoint at h3
    cases hf : db.find t y with
    | some v => simp [hf] at h3
    | none => simp [hf, ExCode.toByte] at h3; exact ⟨h3.symm, rfl⟩
  obtain ⟨he', hy⟩ := he
  subst he'
  refine ⟨pre, y, post, h1, ?_, hy, ?_⟩
  · intro z hz
    obtain ⟨v, hv⟩ := h2 z hz
    unfold readPoint at hv
    cases hf : db.find t z with
    | some x => simp
    | none => simp [hf] at hv
  · cases t with
    | coils =>
      have key : readSeq ((dbHandler app).readCoil db) r.addresses = (pre ++ [y], .error 2) := by
        have := readSeq_map bitOfNat (readPoint db .coils) r.addresses
        rw [h4] at this
        exact this
      simp only [getReply, readReq, key]
      simp [readCall, Request.fc]
    | discrete =>
      have key : readSeq ((dbHandler app).readDiscreteInput db) r.addresses = (pre ++ [y], .error 2) := by
        have := readSeq_map bitOfNat (readPoint db .discrete) r.addresses
        rw [h4] at this
        exact this
      simp only [getReply, readReq, key]
      simp [readCall, Request.fc]
    | holding =>
      have key : readSeq ((dbHandler app).readHoldingRegister db) r.addresses = (pre ++ [y], .error 2) := h4
      simp only [getReply, readReq, key]
      simp [readCall, Request.fc]
    | input =>
      have key : readSeq ((dbHandler app).readInputRegister db) r.addresses = (pre ++ [y], .error 2) := h4
      simp only [getReply, readReq, key]
      simp [readCall, Request.fc]

/-- the reply of the server to a read is a function of the outcome of the atomic read program -/
def replyOfRead (t : Table) (r : Range) : RdOut → Bytes
  | .error e => exceptionPdu (readReq t r).fc.toByte e
  | .ok vs =>
    if t.isBit then (readReq t r).fc.toByte :: numBytesForBits r.count :: packBits (vs.map bitOfNat)
    else (readReq t r).fc.toByte :: (2 * r.count) :: packRegs vs

theorem readReply_eq_atomic (app : WriteApp) (u : Nat) (db : Db) (t : Table) (r : Range) :
    readReply app u db t r =
      replyOfRead t r (RdOut.ofExcept (readSeq (readPoint db t) r.addresses).2) := by
  cases t with
  | coils =>
    have key : readSeq ((dbHandler app).readCoil db) r.addresses = _ :=
      readSeq_map bitOfNat (readPoint db .coils) r.addresses
    simp only [readReply, getReply, readReq, key]
    cases (readSeq (readPoint db .coils) r.addresses).2 <;>
      simp [replyOfRead, RdOut.ofExcept, Except.map, readReq, Request.fc, Table.isBit]
  | discrete =>
    have key : readSeq ((dbHandler app).readDiscreteInput db) r.addresses = _ :=
      readSeq_map bitOfNat (readPoint db .discrete) r.addresses
    simp only [readReply, getReply, readReq, key]
    cases (readSeq (readPoint db .discrete) r.addresses).2 <;>
      simp [replyOfRead, RdOut.ofExcept, Except.map, readReq, Request.fc, Table.isBit]
  | holding =>
    have key : readSeq ((dbHandler app).readHoldingRegister db) r.addresses =
        readSeq (readPoint db .holding) r.addresses := rfl
    simp only [readReply, getReply, readReq, key]
    cases (readSeq (readPoint db .holding) r.addresses).2 <;>
      simp [replyOfRead, RdOut.ofExcept, readReq, Request.fc, Table.isBit]
  | input =>
    have key : readSeq ((dbHandler app).readInputRegister db) r.addresses =
        readSeq (readPoint db .input) r.addresses := rfl
    simp only [readReply, getReply, readReq, key]
    cases (readSeq (readPoint db .input) r.addresses).2 <;>
      simp [replyOfRead, RdOut.ofExcept, readReq, Request.fc, Table.isBit]

/-- **transaction_atomic** (serialisability of the two-lock-holder model).
    MODELLING HYPOTHESIS — lock scope: a transaction (all calls made by one `DatabaseCallback`)
    and a client request (all point lookups of one reply) are each executed between one acquire
    and one release of the handler mutex; this is what `LState.sched` encodes (a step of a
    non-holder has no effect while the lock is held).  That the Rust code has these lock scopes
    is a fact about `server_update_database` / `SessionTask` which is extracted textually
    (`transaction_under_lock` below) for the former and sampled by the `ffi atomic` stress run.

    For EVERY schedule (any list of actor ids, of any length) the completed actors, in order of
    release, are a serial execution from the initial database: each logged outcome is the outcome
    of running that actor's whole program on the database left by the ones logged before it; when
    nobody holds the lock the database is the result of that serial execution; and only the given
    actors with their own programs appear in the log. -/
theorem transaction_atomic (db0 : Db) (actors : List (Nat × Prog)) (schedule : List Nat) :
    let s := (LState.init db0 actors).run schedule
    ∃ base,
      serial db0 (s.log.map (·.2.1)) = (base, s.log.map (·.2.2)) ∧
      (s.holder = none → s.db = base) ∧
      (∀ e ∈ s.log, (e.1, e.2.1) ∈ actors) := by
  obtain ⟨base, inv⟩ := (LInv.init db0 actors).run schedule
  exact ⟨base, inv.serial_log, inv.idle, inv.log_from⟩

/-- consequence: no client request observes part of a transaction — every completed read saw the
    database produced by a whole number of transactions (those released before it), and its reply
    is the server's reply on that database -/
theorem read_sees_whole_transactions (db0 : Db) (actors : List (Nat × Prog)) (schedule : List Nat)
    (pre : List (Nat × Prog × Outcome)) (id : Nat) (t : Table) (r : Range) (out : Outcome)
    (post : List (Nat × Prog × Outcome))
    (hlog : ((LState.init db0 actors).run schedule).log = pre ++ (id, .read t r.addresses, out) :: post) :
    let txs := (pre.map (·.2.1)).filter fun p => match p with | .tx _ => true | .read _ _ => false
    let seen := (serial db0 txs).1
    out = .read (RdOut.ofExcept (readSeq (readPoint seen t) r.addresses).2) ∧
    ∀ app u, ∃ o, out = .read o ∧ readReply app u seen t r = replyOfRead t r o := by
  obtain ⟨base, h, _, _⟩ := transaction_atomic db0 actors schedule
  simp only [hlog, List.map_append, List.map_cons] at h
  have h2 := congrArg Prod.snd h
  simp only [serial_split] at h2
  have h3 := List.append_inj_right h2 (by
    have : ∀ (db : Db) (ps : List Prog), (serial db ps).2.length = ps.length := by
      intro db ps; induction ps generalizing db with
      | nil => rfl
      | cons p ps ih => simp [serial, ih]
    simp [this])
  simp only [List.cons.injEq] at h3
  have hout := h3.1
  simp only [Prog.atomic] at hout
  rw [serial_db_reads] at hout
  refine ⟨hout.symm, ?_⟩
  intro app u
  exact ⟨_, hout.symm, readReply_eq_atomic app u _ t r⟩

/-! ### tables extracted from the sources -/

/-- the sixteen `rodbus_database_*` functions: each uses the helper of its name on the map of
    its point type (rows: function, helper, map) -/
def expectedDatabaseFns : List (String × String × String) :=
  [("add", "add_entry"), ("get", "get_entry"), ("update", "update_entry"), ("delete", "remove")].flatMap
    fun (op, helper) =>
      [("coil", "coils"), ("discrete_input", "discrete_input"),
       ("holding_register", "holding_registers"), ("input_register", "input_registers")].map
        fun (ty, field) => (op ++ "_" ++ ty, helper, field)

/-- **database_tables**: every database function is wired to the right helper and map, the four
    read callbacks look the address up in the map of their type and answer an absent point with
    `IllegalDataAddress`, and `server_update_database` runs the transaction callback under the
    handler lock -/
theorem database_tables :
    sameRows Gen.Ffi.databaseFns expectedDatabaseFns = true ∧
    sameRows Gen.Ffi.readCallbackArms
      [("read_coil", "coils", "Ok(*x)", "Err(ExceptionCode::IllegalDataAddress)"),
       ("read_discrete_input", "discrete_input", "Ok(*x)", "Err(ExceptionCode::IllegalDataAddress)"),
       ("read_holding_register", "holding_registers", "Ok(*x)", "Err(ExceptionCode::IllegalDataAddress)"),
       ("read_input_register", "input_registers", "Ok(*x)", "Err(ExceptionCode::IllegalDataAddress)")] = true ∧
    Gen.Ffi.transactionUnderLock = true := by
  decide

/-- the model's handler answers an absent point with the byte of `IllegalDataAddress` = 2 -/
theorem absent_is_exception_2 (db : Db) (t : Table) (a : Nat) (h : db.find t a = none) :
    readPoint db t a = .error 2 := by
  simp [readPoint, h, ExCode.toByte]

/-! ### non-vacuity: concrete instances of the statements above -/

/-- a database with two registers; a read of three touches an absent point -/
example :
    getReply (dbHandler noWrites) 1 ({ holding := [(5, 77), (6, 78)] } : Db) (readReq .holding ⟨5, 3⟩) =
      ([0x83, 2], [.readHoldingRegister 1 5, .readHoldingRegister 1 6, .readHoldingRegister 1 7],
       { holding := [(5, 77), (6, 78)] }) := by
  decide

/-- add / add again / update / delete / delete again / get, with the results the property names -/
example :
    (({} : Db).run [.add .coils 1 1, .add .coils 1 0, .get .coils 1, .update .coils 1 0,
        .get .coils 1, .delete .coils 1, .delete .coils 1, .get .coils 1, .update .coils 1 1]).2 =
      [.flag true, .flag false, .val 1, .flag true, .val 0, .flag true, .flag false, .err,
       .flag false] := by
  decide

/-- a schedule that tries to interleave a two-register transaction with a two-register read: the
    reader is parked while the transaction holds the lock and sees both new values -/
example :
    let db0 : Db := { holding := [(0, 1), (1, 1)] }
    let actors := [(10, Prog.tx [.update .holding 0 2, .update .holding 1 2]), (20, Prog.read .holding [0, 1])]
    ((LState.init db0 actors).run [10, 10, 20, 10, 20, 10, 20, 20, 20, 20]).log.map (·.2.2) =
      [.tx [.flag true, .flag true], .read (.ok [2, 2])] := by
  decide

/-- without the mutex the same interleaving tears the read (old value, new value): the lock-scope
    hypothesis is what the atomicity rests on -/
example :
    unlockedRead ({ holding := [(0, 1), (1, 1)] } : Db) .holding 0 1
      [.update .holding 0 2, .update .holding 1 2] = .ok [1, 2] := by
  decide

/-! ### one database, successive transactions -/

/-- **transactions_compose**: the database handle handed to a transaction callback stands for
    the unit's one database: what a transaction leaves is what the next one finds, so two
    successive transactions give exactly the results (and the final contents) of the single
    transaction that makes all the calls -/
theorem transactions_compose (db : Db) (a b : List DbOp) :
    db.run (a ++ b) = (((db.run a).1.run b).1, (db.run a).2 ++ ((db.run a).1.run b).2) := by
  induction a generalizing db with
  | nil => simp [Db.run]
  | cons op ops ih => simp [Db.run, ih]

/-- **transaction_boundaries_invisible**: for any number of successive transactions through one
    server handle, where the boundaries fall changes nothing -/
theorem transaction_boundaries_invisible (db : Db) (txs : List (List DbOp)) :
    db.runAll txs = db.run txs.flatten := by
  induction txs generalizing db with
  | nil => rfl
  | cons tx rest ih =>
    simp only [Db.runAll, List.flatten_cons, transactions_compose, ih]

/-- the abstract map agrees: successive transactions refine the map run over all the calls -/
theorem successive_transactions_refine_map (db : Db) (txs : List (List DbOp)) :
    (db.runAll txs).2 = (db.abs.run txs.flatten).2 ∧ (db.runAll txs).1.abs = (db.abs.run txs.flatten).1 := by
  rw [transaction_boundaries_invisible]
  exact Db.run_refines db _

/-- an add in one transaction, a get / update in the next -/
example :
    (({} : Db).runAll [[.add .holding 1 7], [.update .holding 1 9, .get .holding 1], [], [.delete .holding 1]]).2 =
      [.flag true, .flag true, .val 9, .flag true] := by
  decide

/-! ### disjoint writers (`ffi atomic … w`)

  Transactions (and client writes, which run under the same lock) that touch disjoint points
  commute: applied in either order they leave the same map and each one returns the results it
  would return alone — nothing one of them did is undone by the other.  Together with
  `transaction_atomic` (every schedule is a serial execution in which each completed actor appears
  exactly once) this is what the `lost=0` field of `ffi atomic` stands for: the counter of thread t
  ends at the number of its transactions and every acknowledged client write is still there. -/

theorem step_other (m : AMap) (p : DbOp) (t' : Table) (i' : Nat) (h : (t', i') ≠ p.point) :
    (m.step p).1 t' i' = m t' i' := by
  apply tables_independent
  cases p <;> simp_all [DbOp.point]

theorem step_local (m m' : AMap) (p : DbOp) (h : m p.point.1 p.point.2 = m' p.point.1 p.point.2) :
    (m.step p).2 = (m'.step p).2 ∧
    (m.step p).1 p.point.1 p.point.2 = (m'.step p).1 p.point.1 p.point.2 := by
  cases p <;> simp only [DbOp.point] at h <;> simp only [AMap.step, DbOp.point, h] <;>
    split <;> simp_all [AMap.set]

theorem disjoint_ops_commute (m : AMap) (p q : DbOp) (h : p.point ≠ q.point) :
    ((m.step p).1.step q).1 = ((m.step q).1.step p).1 ∧
    ((m.step p).1.step q).2 = (m.step q).2 ∧ ((m.step q).1.step p).2 = (m.step p).2 := by
  have hq : (m.step p).1 q.point.1 q.point.2 = m q.point.1 q.point.2 :=
    step_other m p _ _ (fun e => h e.symm)
  have hp : (m.step q).1 p.point.1 p.point.2 = m p.point.1 p.point.2 :=
    step_other m q _ _ h
  refine ⟨?_, (step_local _ _ q hq).1, (step_local _ _ p hp).1⟩
  funext t i
  by_cases h1 : (t, i) = p.point
  · have e1 : t = p.point.1 := congrArg Prod.fst h1
    have e2 : i = p.point.2 := congrArg Prod.snd h1
    subst e1 e2
    rw [step_other _ q _ _ (by rw [h1]; exact h), (step_local _ _ p hp).2]
  · by_cases h2 : (t, i) = q.point
    · have e1 : t = q.point.1 := congrArg Prod.fst h2
      have e2 : i = q.point.2 := congrArg Prod.snd h2
      subst e1 e2
      rw [step_other _ p _ _ h1, ← (step_local _ _ q hq).2]
    · rw [step_other _ q _ _ h2, step_other _ p _ _ h1, step_other _ p _ _ h1, step_other _ q _ _ h2]

theorem step_run_commute (m : AMap) (p : DbOp) (b : List DbOp) (h : ∀ q ∈ b, p.point ≠ q.point) :
    ((m.step p).1.run b).1 = ((m.run b).1.step p).1 ∧
    ((m.step p).1.run b).2 = (m.run b).2 ∧ ((m.run b).1.step p).2 = (m.step p).2 := by
  induction b generalizing m with
  | nil => simp [AMap.run]
  | cons q qs ih =>
    obtain ⟨c1, c2, c3⟩ := disjoint_ops_commute m p q (h q (List.mem_cons_self ..))
    obtain ⟨i1, i2, i3⟩ := ih (m.step q).1 (fun x hx => h x (List.mem_cons_of_mem _ hx))
    simp only [AMap.run]
    rw [c1, c2, i1, i2, i3, c3]
    exact ⟨rfl, rfl, rfl⟩

theorem disjoint_writers_commute (m : AMap) (a b : List DbOp)
    (h : ∀ p ∈ a, ∀ q ∈ b, p.point ≠ q.point) :
    ((m.run a).1.run b).1 = ((m.run b).1.run a).1 ∧
    ((m.run a).1.run b).2 = (m.run b).2 ∧ ((m.run b).1.run a).2 = (m.run a).2 := by
  induction a generalizing m with
  | nil => simp [AMap.run]
  | cons p ps ih =>
    obtain ⟨c1, c2, c3⟩ := step_run_commute m p b (h p (List.mem_cons_self ..))
    obtain ⟨i1, i2, i3⟩ := ih (m.step p).1 (fun x hx => h x (List.mem_cons_of_mem _ hx))
    simp only [AMap.run]
    rw [i1, i2, c2, ← c1, i3, c3]
    exact ⟨rfl, rfl, rfl⟩

theorem db_disjoint_writers_commute (db : Db) (a b : List DbOp)
    (h : ∀ p ∈ a, ∀ q ∈ b, p.point ≠ q.point) (t : Table) (i : Nat) :
    ((db.run a).1.run b).1.find t i = ((db.run b).1.run a).1.find t i ∧
    ((db.run a).1.run b).2 = (db.run b).2 ∧ ((db.run b).1.run a).2 = (db.run a).2 := by
  have ra := Db.run_refines db a
  have rb := Db.run_refines db b
  have rab := Db.run_refines (db.run a).1 b
  have rba := Db.run_refines (db.run b).1 a
  obtain ⟨c1, c2, c3⟩ := disjoint_writers_commute db.abs a b h
  refine ⟨?_, ?_, ?_⟩
  · have e1 : ((db.run a).1.run b).1.abs t i = ((db.run b).1.run a).1.abs t i := by
      rw [rab.2, rba.2, ra.2, rb.2, c1]
    exact e1
  · rw [rab.1, ra.2, c2, rb.1]
  · rw [rba.1, rb.2, c3, ra.1]

theorem incr_applied_once (db : Db) (i v : Nat) (h : db.find .holding i = some v) :
    (db.incr i).find .holding i = some ((v + 1) % 65536) ∧
    ∀ t' i', ¬ (t' = .holding ∧ i' = i) → (db.incr i).find t' i' = db.find t' i' := by
  have r := (Db.run_refines db (incrOps db i)).2
  have ha : db.abs .holding i = some v := h
  have key : ∀ t' i', (db.incr i).find t' i' = (db.abs.run (incrOps db i)).1 t' i' := by
    intro t' i'
    show (db.run (incrOps db i)).1.abs t' i' = _
    rw [r]
  refine ⟨?_, ?_⟩
  · rw [key]; simp [incrOps, h, AMap.run, AMap.step, ha, AMap.set]
  · intro t' i' hne
    rw [key]; simp [incrOps, h, AMap.run, AMap.step, ha, AMap.set, hne]
    rfl
/-- two counters, two increments each, interleaved in two different orders: same database -/
example :
    let db : Db := { holding := [(200, 0), (201, 65535)] }
    (((db.incr 200).incr 201).incr 200).incr 201 = (((db.incr 201).incr 201).incr 200).incr 200 ∧
    ((((db.incr 200).incr 201).incr 200).incr 201).find .holding 200 = some 2 ∧
    ((((db.incr 200).incr 201).incr 200).incr 201).find .holding 201 = some 1 := by
  decide

end Rodbus.C19
