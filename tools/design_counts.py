#!/usr/bin/env python3
"""rewrites the theorem counts in the per-property headings of DESIGN.md §5 from evidence/*.json"""
import json, os, re
V = os.path.normpath(os.path.join(os.path.dirname(os.path.abspath(__file__)), ".."))
p = os.path.join(V, "DESIGN.md")
s = open(p).read()
for i in range(1, 21):
    pid = f"C{i:02d}"
    ev = json.load(open(os.path.join(V, "evidence", pid + ".json")))
    n = ev["coverage"]["obligations"]
    s, k = re.subn(r"(\*\*%s [^(\n]*)\([^)]*\)\.\*\*" % pid, lambda m: f"{m.group(1)}({n} audited theorems).**", s, count=1)
    if k != 1:
        print("heading not found for", pid)
open(p, "w").write(s)
