import RodbusModel.Model.ServerNet
import RodbusModel.Lemmas.ServerNet
import RodbusModel.Props.C15
/-
  C15 / C16, connection level: theorems over the accept-loop model `ServerNet`
  (filter at accept, eviction, isolation between sessions, shutdown, bound on open connections).
-/
namespace Rodbus.C15Net
open Rodbus.ServerNet Rodbus.Filter

/-- the state in which `ServerTask::run` starts -/
def init (m : Nat) (f : AddressFilter) (tls : Bool) : Net :=
  { tracker := Tracker.new m, filter := f, tls := tls }

/-! ### the three outcomes of a `connect` step -/

theorem step_connect_refused (n : Net) (k : Nat) (src : Addr) (h : n.listening = false) :
    ServerNet.step n (.connect k src) = (n, [.conn k "refused"]) := by
  simp [ServerNet.step, h]

theorem step_connect_accept (n : Net) (k : Nat) (src : Addr) (h : n.listening = true)
    (hm : n.filter.matches src = true) :
    ServerNet.step n (.connect k src) =
      (sweep (setConn { n with tracker := (Tracker.add n.tracker).2 } k (some n.tracker.next)),
       [.conn k "open"]) := by
  simp [ServerNet.step, h, hm]; rfl

theorem step_connect_reject (n : Net) (k : Nat) (src : Addr) (h : n.listening = true)
    (hm : n.filter.matches src = false) :
    ServerNet.step n (.connect k src) = (setConn n k none, [.conn k "closed"]) := by
  simp [ServerNet.step, h, hm]

/-! ### C16: only peers matching the filter reach a session (or a TLS handshake) -/

/-- **accept_iff_matches**: while the server is listening, a connection is given a session iff
    the peer address matches the filter — in every variant (the model is the same for TCP, TLS
    and TLS with authorization: the filter is consulted before the connection handler) -/
theorem accept_iff_matches (n : Net) (k : Nat) (src : Addr) (h : n.listening = true) :
    (ServerNet.step n (.connect k src)).2 = [.conn k "open"] ↔ n.filter.matches src = true := by
  cases hm : n.filter.matches src with
  | true => rw [step_connect_accept n k src h hm]; simp
  | false => rw [step_connect_reject n k src h hm]; simp

/-- … and the accepted connection is open afterwards, with the fresh session id -/
theorem accepted_is_open (n : Net) (k : Nat) (src : Addr) (h : n.listening = true)
    (hm : n.filter.matches src = true) :
    lookup (ServerNet.step n (.connect k src)).1 k = some (some n.tracker.next) := by
  rw [step_connect_accept n k src h hm]
  simp only [lookup_sweep, lookup_setConn_self, Option.map_some, sweepVal]
  have : n.tracker.next ∈ (setConn { n with tracker := (Tracker.add n.tracker).2 } k
      (some n.tracker.next)).tracker.ids := by
    show n.tracker.next ∈ (Tracker.add n.tracker).2.ids
    rw [C15.add_ids]; simp
  simp [Option.filter, this]

/-- a rejected peer leaves no trace: no session id is consumed, nobody is evicted, every other
    connection keeps its table entry; the rejected connection itself is closed -/
theorem rejected_no_effect (n : Net) (k : Nat) (src : Addr) (h : n.listening = true)
    (hm : n.filter.matches src = false) :
    (ServerNet.step n (.connect k src)).1.tracker = n.tracker ∧
    (ServerNet.step n (.connect k src)).2 = [.conn k "closed"] ∧
    isOpen (ServerNet.step n (.connect k src)).1 k = false ∧
    ∀ a, a ≠ k → lookup (ServerNet.step n (.connect k src)).1 a = lookup n a := by
  rw [step_connect_reject n k src h hm]
  refine ⟨rfl, rfl, ?_, fun a ha => lookup_setConn_ne n a k none ha⟩
  simp [isOpen, lookup_setConn_self]

/-! ### C15: isolation -/

theorem lookup_endSession_ne (n : Net) (a b : Nat) (h : a ≠ b) :
    lookup (endSession n b) a = lookup n a := by
  unfold endSession
  split
  · rw [lookup_setConn_ne _ _ _ _ h]; rfl
  · rfl

theorem isOpen_congr {n n' : Net} {a : Nat} (h : lookup n' a = lookup n a) :
    isOpen n' a = isOpen n a := by
  simp only [isOpen, h]

/-- **isolation**: whatever happens on connection `b` — a request, garbage, the peer closing,
    a probe — the table entry (hence the open/closed status) of every other connection `a` is
    unchanged -/
theorem isolation_lookup (n : Net) (a b : Nat) (h : a ≠ b) :
    lookup (ServerNet.step n (.request b)).1 a = lookup n a ∧
    lookup (ServerNet.step n (.garbage b)).1 a = lookup n a ∧
    lookup (ServerNet.step n (.close b)).1 a = lookup n a ∧
    lookup (ServerNet.step n (.probe b)).1 a = lookup n a := by
  refine ⟨?_, ?_, ?_, ?_⟩
  · simp only [ServerNet.step]; cases lookup n b <;> rfl
  · simp only [ServerNet.step]
    cases lookup n b with
    | none => rfl
    | some _ => exact lookup_endSession_ne n a b h
  · simp only [ServerNet.step]
    rw [lookup_remove_ne _ _ _ h, lookup_endSession_ne n a b h]
  · simp only [ServerNet.step]; cases lookup n b <;> rfl

theorem isolation (n : Net) (a b : Nat) (h : a ≠ b) :
    isOpen (ServerNet.step n (.request b)).1 a = isOpen n a ∧
    isOpen (ServerNet.step n (.garbage b)).1 a = isOpen n a ∧
    isOpen (ServerNet.step n (.close b)).1 a = isOpen n a ∧
    isOpen (ServerNet.step n (.probe b)).1 a = isOpen n a := by
  obtain ⟨h1, h2, h3, h4⟩ := isolation_lookup n a b h
  exact ⟨isOpen_congr h1, isOpen_congr h2, isOpen_congr h3, isOpen_congr h4⟩

/-- a request on an open plain-TCP connection is answered regardless of what the other
    connections did before (its answer depends only on its own status) -/
theorem request_answer (n : Net) (k : Nat) (h : isOpen n k = true) (ht : n.tls = false) :
    (ServerNet.step n (.request k)).2 = [.req k "ok.982"] := by
  simp only [ServerNet.step]
  cases hl : lookup n k with
  | none => simp [isOpen, hl] at h
  | some v => simp [h, ht]

/-! ### C15: shutdown -/

def AllClosed (n : Net) : Prop := ∀ k, isOpen n k = false

theorem isOpen_closeAll (n : Net) (l : Bool) (hd : Bool) (t : Tracker.Tracker) (k : Nat) :
    isOpen { n with listening := l, handle := hd,
                    conns := n.conns.map fun (k, _) => (k, none), tracker := t } k = false := by
  simp only [isOpen, lookup]
  rw [lookup_closeAll]
  cases n.conns.find? (·.1 = k) <;> rfl

/-- **shutdown_closes_all**: a shutdown command (through a live handle) or dropping the handle
    stops listening and closes every session -/
theorem shutdown_closes_all (n : Net) :
    (n.handle = true →
      AllClosed (ServerNet.step n .shutdown).1 ∧ (ServerNet.step n .shutdown).1.listening = false) ∧
    (AllClosed (ServerNet.step n .dropHandle).1 ∧
      (ServerNet.step n .dropHandle).1.listening = false) := by
  constructor
  · intro hh
    simp only [ServerNet.step, hh, if_true]
    exact ⟨fun k => isOpen_closeAll n false n.handle { n.tracker with ids := [] } k, trivial⟩
  · simp only [ServerNet.step]
    exact ⟨fun k => isOpen_closeAll n false false _ k, trivial⟩

/-- once the server is not listening every new connection is refused -/
theorem refused_after_shutdown (n : Net) (k : Nat) (src : Addr) (h : n.listening = false) :
    ServerNet.step n (.connect k src) = (n, [.conn k "refused"]) :=
  step_connect_refused n k src h

theorem endSession_listening (n : Net) (k : Nat) : (endSession n k).listening = n.listening := by
  unfold endSession; split <;> rfl

/-- … and it never listens again -/
theorem listening_monotone (n : Net) (s : Step) (h : n.listening = false) :
    (ServerNet.step n s).1.listening = false := by
  cases s with
  | connect k src => rw [step_connect_refused n k src h]; exact h
  | request k => simp only [ServerNet.step]; cases lookup n k <;> exact h
  | pipeline k cnt => simp only [ServerNet.step]; cases lookup n k <;> exact h
  | garbage k =>
    simp only [ServerNet.step]
    cases lookup n k with
    | none => exact h
    | some _ => rw [endSession_listening]; exact h
  | close k => simp only [ServerNet.step]; rw [endSession_listening]; exact h
  | probe k => simp only [ServerNet.step]; cases lookup n k <;> exact h
  | setDecode => simp only [ServerNet.step]; split <;> exact h
  | shutdown => simp only [ServerNet.step]; split <;> first | rfl | exact h
  | dropHandle => rfl

theorem listening_monotone_run (steps : List Step) (n : Net) (h : n.listening = false) :
    (ServerNet.run n steps).1.listening = false := by
  induction steps generalizing n with
  | nil => exact h
  | cons s rest ih => exact ih _ (listening_monotone n s h)

/-! ### C15: the number of live sessions is bounded (through the tracker) -/

theorem closed_tracker_inv {t : Tracker.Tracker} (h : C15.Inv t) :
    C15.Inv { t with ids := [] } :=
  ⟨h.1, Nat.zero_le _, List.Pairwise.nil, fun _ hi => nomatch hi⟩

theorem endSession_tracker_inv (n : Net) (k : Nat) (h : C15.Inv n.tracker) :
    C15.Inv (endSession n k).tracker := by
  unfold endSession
  split
  · exact C15.remove_inv _ _ h
  · exact h

theorem endSession_tracker_max (n : Net) (k : Nat) :
    (endSession n k).tracker.max = n.tracker.max := by
  unfold endSession; split <;> rfl

/-- the tracker inside the accept loop keeps its invariant (and hence its bound) under every
    step -/
theorem tracker_inv_step (n : Net) (s : Step) (h : C15.Inv n.tracker) :
    C15.Inv (ServerNet.step n s).1.tracker := by
  cases s with
  | connect k src =>
    cases hl : n.listening with
    | false => rw [step_connect_refused n k src hl]; exact h
    | true =>
      cases hm : n.filter.matches src with
      | true => rw [step_connect_accept n k src hl hm]; exact C15.add_inv _ h
      | false => rw [step_connect_reject n k src hl hm]; exact h
  | request k => simp only [ServerNet.step]; cases lookup n k <;> exact h
  | pipeline k cnt => simp only [ServerNet.step]; cases lookup n k <;> exact h
  | garbage k =>
    simp only [ServerNet.step]
    cases lookup n k with
    | none => exact h
    | some v => exact endSession_tracker_inv n k h
  | close k => exact endSession_tracker_inv n k h
  | probe k => simp only [ServerNet.step]; cases lookup n k <;> exact h
  | setDecode => simp only [ServerNet.step]; split <;> exact h
  | shutdown =>
    simp only [ServerNet.step]
    split
    · exact closed_tracker_inv h
    · exact h
  | dropHandle => exact closed_tracker_inv h

/-- `max_sessions` never changes -/
theorem tracker_max_step (n : Net) (s : Step) :
    (ServerNet.step n s).1.tracker.max = n.tracker.max := by
  cases s with
  | connect k src =>
    cases hl : n.listening with
    | false => rw [step_connect_refused n k src hl]
    | true =>
      cases hm : n.filter.matches src with
      | true => rw [step_connect_accept n k src hl hm]; rfl
      | false => rw [step_connect_reject n k src hl hm]; rfl
  | request k => simp only [ServerNet.step]; cases lookup n k <;> rfl
  | pipeline k cnt => simp only [ServerNet.step]; cases lookup n k <;> rfl
  | garbage k =>
    simp only [ServerNet.step]
    cases lookup n k with
    | none => rfl
    | some v => exact endSession_tracker_max n k
  | close k => exact endSession_tracker_max n k
  | probe k => simp only [ServerNet.step]; cases lookup n k <;> rfl
  | setDecode => simp only [ServerNet.step]; split <;> rfl
  | shutdown => simp only [ServerNet.step]; split <;> rfl
  | dropHandle => rfl

theorem run_cons (n : Net) (s : Step) (rest : List Step) :
    (ServerNet.run n (s :: rest)).1 = (ServerNet.run (ServerNet.step n s).1 rest).1 := rfl

theorem tracker_max_run (steps : List Step) (n : Net) :
    (ServerNet.run n steps).1.tracker.max = n.tracker.max := by
  induction steps generalizing n with
  | nil => rfl
  | cons s rest ih => rw [run_cons, ih, tracker_max_step]

theorem tracker_inv_run (steps : List Step) (n : Net) (h : C15.Inv n.tracker) :
    C15.Inv (ServerNet.run n steps).1.tracker := by
  induction steps generalizing n with
  | nil => exact h
  | cons s rest ih => rw [run_cons]; exact ih _ (tracker_inv_step n s h)

theorem new_max (m : Nat) : (Tracker.new m).max = max 1 m := by
  simp only [Tracker.new]; split <;> omega

/-- **session_bound**: in every reachable state of the accept loop at most `max(1, max_sessions)`
    session ids are live -/
theorem session_bound (m : Nat) (f : AddressFilter) (tls : Bool) (steps : List Step) :
    (ServerNet.run (init m f tls) steps).1.tracker.ids.length ≤ max 1 m := by
  have h := (tracker_inv_run steps (init m f tls) (C15.new_inv m)).2.1
  rw [tracker_max_run] at h
  exact (new_max m) ▸ h

/-! ### C15: every open connection holds a tracked, unique session id -/

/-- two table entries are compatible: different labels and, if both are open, different ids -/
def Compat (c d : Nat × Option Nat) : Prop :=
  c.1 ≠ d.1 ∧ ∀ i, c.2 = some i → d.2 ≠ some i

theorem Compat.symm {c d : Nat × Option Nat} (h : Compat c d) : Compat d c :=
  ⟨fun e => h.1 e.symm, fun i hd hc => h.2 i hc hd⟩

theorem pairwise_mem {l : List (Nat × Option Nat)} (h : l.Pairwise Compat)
    {x y : Nat × Option Nat} (hx : x ∈ l) (hy : y ∈ l) (hne : x ≠ y) : Compat x y := by
  induction l with
  | nil => cases hx
  | cons a l ih =>
    rw [List.pairwise_cons] at h
    rcases List.mem_cons.mp hx with rfl | hx' <;> rcases List.mem_cons.mp hy with rfl | hy'
    · exact absurd rfl hne
    · exact h.1 _ hy'
    · exact (h.1 _ hx').symm
    · exact ih h.2 hx' hy'

/-- the well-formedness invariant of the accept loop: the tracker invariant, distinct labels
    and distinct ids in the connection table, every open connection's id is tracked -/
structure WF (n : Net) : Prop where
  inv : C15.Inv n.tracker
  compat : n.conns.Pairwise Compat
  tracked : ∀ c ∈ n.conns, ∀ id, c.2 = some id → id ∈ n.tracker.ids

/-- the invariant in terms of `lookup`: what `sweep` establishes -/
def OpenTracked (n : Net) : Prop := ∀ k id, lookup n k = some (some id) → id ∈ n.tracker.ids

theorem WF.openTracked {n : Net} (h : WF n) : OpenTracked n :=
  fun _ id hl => h.tracked _ (mem_of_lookup hl) id rfl

theorem WF.distinct {n : Net} (h : WF n) {a b i j : Nat} (hab : a ≠ b)
    (ha : lookup n a = some (some i)) (hb : lookup n b = some (some j)) : i ≠ j := by
  have := pairwise_mem h.compat (mem_of_lookup ha) (mem_of_lookup hb)
    (fun e => hab (congrArg Prod.fst e))
  intro e
  exact this.2 i rfl (by rw [e])

theorem wf_init (m : Nat) (f : AddressFilter) (tls : Bool) : WF (init m f tls) :=
  ⟨C15.new_inv m, List.Pairwise.nil, fun _ hc => nomatch hc⟩

theorem compat_setConn {l : List (Nat × Option Nat)} (h : l.Pairwise Compat) (k : Nat)
    (v : Option Nat) (hv : ∀ c ∈ l, c.1 ≠ k → ∀ i, c.2 = some i → v ≠ some i) :
    (l.filter (·.1 ≠ k) ++ [(k, v)]).Pairwise Compat := by
  rw [List.pairwise_append]
  refine ⟨h.filter _, List.pairwise_singleton _ _, ?_⟩
  intro c hc d hd
  rw [List.mem_singleton] at hd
  subst hd
  obtain ⟨hc1, hc2⟩ := List.mem_filter.mp hc
  have hk : c.1 ≠ k := by simpa using hc2
  exact ⟨hk, hv c hc1 hk⟩

theorem wf_setConn_none {n : Net} (h : WF n) (k : Nat) : WF (setConn n k none) := by
  refine ⟨h.inv, compat_setConn h.compat k none (fun _ _ _ _ _ e => nomatch e), ?_⟩
  intro c hc id hid
  rcases List.mem_append.mp hc with hc | hc
  · exact h.tracked c (List.mem_filter.mp hc).1 id hid
  · rw [List.mem_singleton] at hc; subst hc; cases hid

theorem wf_endSession {n : Net} (h : WF n) (k : Nat) : WF (endSession n k) := by
  unfold endSession
  split
  · rename_i id hl
    refine ⟨C15.remove_inv _ _ h.inv,
      compat_setConn h.compat k none (fun _ _ _ _ _ e => nomatch e), ?_⟩
    intro c hc i hi
    rcases List.mem_append.mp hc with hc | hc
    · obtain ⟨hc1, hc2⟩ := List.mem_filter.mp hc
      have hk : c.1 ≠ k := by simpa using hc2
      have hcomp := pairwise_mem h.compat hc1 (mem_of_lookup hl) (fun e => hk (congrArg Prod.fst e))
      have hne : i ≠ id := fun e => hcomp.2 i hi (by rw [e])
      show i ∈ (Tracker.remove n.tracker id).ids
      exact List.mem_filter.mpr ⟨h.tracked c hc1 i hi, by simpa using hne⟩
    · rw [List.mem_singleton] at hc; subst hc; cases hi
  · exact h

theorem wf_remove {n : Net} (h : WF n) (k : Nat) :
    WF { n with conns := n.conns.filter (·.1 ≠ k) } :=
  ⟨h.inv, h.compat.filter _, fun c hc => h.tracked c (List.mem_filter.mp hc).1⟩

theorem wf_closeAll {n : Net} (h : WF n) (l hd : Bool) :
    WF { n with listening := l, handle := hd, conns := n.conns.map fun (k, _) => (k, none),
                tracker := { n.tracker with ids := [] } } := by
  refine ⟨closed_tracker_inv h.inv, ?_, ?_⟩
  · refine List.Pairwise.map _ ?_ h.compat
    intro a b hab
    exact ⟨hab.1, fun _ e => nomatch e⟩
  · intro c hc id hid
    obtain ⟨x, _, rfl⟩ := List.mem_map.mp hc
    cases hid

theorem sweepVal_eq_some {t : Tracker.Tracker} {v : Option Nat} {i : Nat}
    (h : sweepVal t v = some i) : v = some i ∧ i ∈ t.ids := by
  unfold sweepVal at h
  obtain ⟨h1, h2⟩ := Option.filter_eq_some_iff.mp h
  exact ⟨h1, List.contains_iff_mem.mp h2⟩

theorem wf_accept {n : Net} (h : WF n) (k : Nat) :
    WF (sweep (setConn { n with tracker := (Tracker.add n.tracker).2 } k (some n.tracker.next))) := by
  refine ⟨C15.add_inv _ h.inv, ?_, ?_⟩
  · rw [sweep_conns]
    refine List.Pairwise.map _ ?_ (compat_setConn h.compat k (some n.tracker.next) ?_)
    · intro a b hab
      refine ⟨hab.1, fun i ha hb => ?_⟩
      exact hab.2 i (sweepVal_eq_some ha).1 (sweepVal_eq_some hb).1
    · intro c hc _ i hi e
      have := h.inv.2.2.2 i (h.tracked c hc i hi)
      cases e
      exact Nat.lt_irrefl _ this
  · intro c hc id hid
    rw [sweep_conns] at hc
    obtain ⟨x, _, rfl⟩ := List.mem_map.mp hc
    exact (sweepVal_eq_some hid).2

/-- **open_conns_tracked** (inductive step): every step of the accept loop preserves the
    invariant -/
theorem wf_step (n : Net) (s : Step) (h : WF n) : WF (ServerNet.step n s).1 := by
  cases s with
  | connect k src =>
    cases hl : n.listening with
    | false => rw [step_connect_refused n k src hl]; exact h
    | true =>
      cases hm : n.filter.matches src with
      | true => rw [step_connect_accept n k src hl hm]; exact wf_accept h k
      | false => rw [step_connect_reject n k src hl hm]; exact wf_setConn_none h k
  | request k => simp only [ServerNet.step]; cases lookup n k <;> exact h
  | pipeline k cnt => simp only [ServerNet.step]; cases lookup n k <;> exact h
  | garbage k =>
    simp only [ServerNet.step]
    cases lookup n k with
    | none => exact h
    | some v => exact wf_endSession h k
  | close k => exact wf_remove (wf_endSession h k) k
  | probe k => simp only [ServerNet.step]; cases lookup n k <;> exact h
  | setDecode => simp only [ServerNet.step]; split <;> exact h
  | shutdown =>
    simp only [ServerNet.step]
    split
    · exact wf_closeAll h false n.handle
    · exact h
  | dropHandle => exact wf_closeAll h false false

theorem wf_run (steps : List Step) (n : Net) (h : WF n) : WF (ServerNet.run n steps).1 := by
  induction steps generalizing n with
  | nil => exact h
  | cons s rest ih => rw [run_cons]; exact ih _ (wf_step n s h)

/-- `OpenTracked` is preserved by every step from a well-formed state … -/
theorem open_conns_tracked_step (n : Net) (s : Step) (h : WF n) :
    OpenTracked (ServerNet.step n s).1 := (wf_step n s h).openTracked

/-- **open_conns_tracked**: in every reachable state, every open connection carries a session
    id that is still in the tracker (a connection whose id was evicted or removed is closed) -/
theorem open_conns_tracked (m : Nat) (f : AddressFilter) (tls : Bool) (steps : List Step) :
    OpenTracked (ServerNet.run (init m f tls) steps).1 :=
  (wf_run steps _ (wf_init m f tls)).openTracked

/-- **open_ids_distinct**: in every reachable state two different open connections carry
    different session ids -/
theorem open_ids_distinct (m : Nat) (f : AddressFilter) (tls : Bool) (steps : List Step)
    (a b i j : Nat) (hab : a ≠ b)
    (ha : lookup (ServerNet.run (init m f tls) steps).1 a = some (some i))
    (hb : lookup (ServerNet.run (init m f tls) steps).1 b = some (some j)) : i ≠ j :=
  (wf_run steps _ (wf_init m f tls)).distinct hab ha hb

theorem open_count_le (l : List (Nat × Option Nat)) (ids : List Nat) (hc : l.Pairwise Compat)
    (ht : ∀ c ∈ l, ∀ id, c.2 = some id → id ∈ ids) :
    (l.filter (fun c => c.2.isSome)).length ≤ ids.length := by
  induction l generalizing ids with
  | nil => exact Nat.zero_le _
  | cons x l ih =>
    rw [List.pairwise_cons] at hc
    obtain ⟨k, v⟩ := x
    cases v with
    | none =>
      simp only [List.filter_cons, Option.isSome_none, Bool.false_eq_true, if_false]
      exact ih ids hc.2 (fun c hm => ht c (List.mem_cons_of_mem _ hm))
    | some i =>
      have hi : i ∈ ids := ht (k, some i) (List.mem_cons_self) i rfl
      have := ih (ids.erase i) hc.2 (fun c hm id hid => by
        have hne : id ≠ i := fun e => (hc.1 c hm).2 i rfl (by rw [hid, e])
        exact (List.mem_erase_of_ne hne).mpr (ht c (List.mem_cons_of_mem _ hm) id hid))
      rw [List.length_erase_of_mem hi] at this
      have hpos : 0 < ids.length := List.length_pos_of_mem hi
      simp only [List.filter_cons, Option.isSome_some, if_true, List.length_cons]
      omega

/-- in a well-formed state there are at most as many open connections as tracked ids -/
theorem WF.open_le_tracked {n : Net} (h : WF n) :
    (n.conns.filter (fun c => c.2.isSome)).length ≤ n.tracker.ids.length :=
  open_count_le _ _ h.compat h.tracked

/-- **open_bound**: in every reachable state of the accept loop — for every list of steps, no
    side condition on the connection labels is needed — at most `max(1, max_sessions)`
    connections are open -/
theorem open_bound (m : Nat) (f : AddressFilter) (tls : Bool) (steps : List Step) :
    ((ServerNet.run (init m f tls) steps).1.conns.filter (fun c => c.2.isSome)).length
      ≤ max 1 m :=
  Nat.le_trans (wf_run steps _ (wf_init m f tls)).open_le_tracked (session_bound m f tls steps)

/-! ### C15: the evicted connection is the oldest one -/

theorem sweepVal_some (t : Tracker.Tracker) (id : Nat) :
    sweepVal t (some id) = if id ∈ t.ids then some id else none := by
  simp [sweepVal, Option.filter]

/-- the table entry of every other connection after an accepted `connect`: swept against the
    new tracker -/
theorem lookup_accept_ne (n : Net) (k : Nat) (src : Addr) (hl : n.listening = true)
    (hm : n.filter.matches src = true) (a : Nat) (ha : a ≠ k) :
    lookup (ServerNet.step n (.connect k src)).1 a
      = (lookup n a).map (sweepVal (Tracker.add n.tracker).2) := by
  rw [step_connect_accept n k src hl hm]
  simp only [lookup_sweep]
  rw [lookup_setConn_ne _ _ _ _ ha]
  rfl

/-- **evicted_is_oldest**: when a `connect` is accepted while the tracker is full, the tracker's
    smallest id `oldest` (= the earliest accepted live session) is evicted: the table entry of
    every other connection is unchanged, except that the connection carrying `oldest` (there is
    at most one) becomes closed. The new connection itself is open (`accepted_is_open`). -/
theorem evicted_is_oldest (n : Net) (hw : WF n) (k : Nat) (src : Addr)
    (hl : n.listening = true) (hm : n.filter.matches src = true)
    (hfull : n.tracker.ids.length ≥ n.tracker.max) :
    ∃ oldest, n.tracker.ids.head? = some oldest ∧ (∀ i ∈ n.tracker.ids, oldest ≤ i) ∧
      (∀ a b, lookup n a = some (some oldest) → lookup n b = some (some oldest) → a = b) ∧
      ∀ a, a ≠ k →
        lookup (ServerNet.step n (.connect k src)).1 a
          = (lookup n a).map (fun v => if v = some oldest then none else v) := by
  obtain ⟨h1, h2, h3, h4⟩ := hw.inv
  cases hids : n.tracker.ids with
  | nil => rw [hids] at hfull; simp at hfull; omega
  | cons o r =>
    rw [hids] at h3
    unfold C15.Sorted at h3
    rw [List.pairwise_cons] at h3
    refine ⟨o, rfl, ?_, ?_, ?_⟩
    · intro i hi
      rcases List.mem_cons.mp hi with rfl | hi
      · exact Nat.le_refl _
      · exact Nat.le_of_lt (h3.1 i hi)
    · intro a b ha hb
      apply Classical.byContradiction
      intro hab
      exact hw.distinct hab ha hb rfl
    · intro a ha
      rw [lookup_accept_ne n k src hl hm a ha]
      have hadd : (Tracker.add n.tracker).2.ids = r ++ [n.tracker.next] := by
        rw [C15.add_ids, if_pos hfull, hids]; rfl
      cases hla : lookup n a with
      | none => rfl
      | some v =>
        cases v with
        | none => rfl
        | some id =>
          have hid : id ∈ o :: r := hids ▸ hw.openTracked a id hla
          simp only [Option.map_some, sweepVal_some, hadd]
          by_cases hio : id = o
          · subst hio
            have hnr : id ∉ r := fun hm => Nat.lt_irrefl _ (h3.1 id hm)
            have hnn : id ≠ n.tracker.next :=
              Nat.ne_of_lt (h4 id (hids ▸ List.mem_cons_self))
            simp [hnr, hnn]
          · have hr : id ∈ r := by
              rcases List.mem_cons.mp hid with e | hr
              · exact absurd e hio
              · exact hr
            simp [hr, hio]

/-- the same in terms of `isOpen`: after the eviction exactly the connections that were open
    with an id other than `oldest` are open (besides the new one) -/
theorem evicted_is_oldest_isOpen (n : Net) (hw : WF n) (k : Nat) (src : Addr)
    (hl : n.listening = true) (hm : n.filter.matches src = true)
    (hfull : n.tracker.ids.length ≥ n.tracker.max) :
    ∃ oldest, n.tracker.ids.head? = some oldest ∧
      ∀ a, a ≠ k →
        (isOpen (ServerNet.step n (.connect k src)).1 a = true
          ↔ ∃ id, lookup n a = some (some id) ∧ id ≠ oldest) := by
  obtain ⟨o, ho, _, _, h⟩ := evicted_is_oldest n hw k src hl hm hfull
  refine ⟨o, ho, fun a ha => ?_⟩
  rw [isOpen_iff, h a ha]
  cases lookup n a with
  | none => simp
  | some v =>
    cases v with
    | none => simp
    | some id => by_cases e : id = o <;> simp [e]

/-- when the tracker is not full an accepted `connect` evicts nobody -/
theorem accept_no_eviction (n : Net) (hw : WF n) (k : Nat) (src : Addr)
    (hl : n.listening = true) (hm : n.filter.matches src = true)
    (hroom : n.tracker.ids.length < n.tracker.max) :
    ∀ a, a ≠ k → lookup (ServerNet.step n (.connect k src)).1 a = lookup n a := by
  intro a ha
  rw [lookup_accept_ne n k src hl hm a ha]
  have hadd : (Tracker.add n.tracker).2.ids = n.tracker.ids ++ [n.tracker.next] := by
    rw [C15.add_ids, if_neg (by omega)]
  cases hla : lookup n a with
  | none => rfl
  | some v =>
    cases v with
    | none => rfl
    | some id =>
      have hid := hw.openTracked a id hla
      simp [sweepVal_some, hadd, hid]

/-! ### with fresh connection labels every tracked id belongs to an open connection

  The model overwrites the table entry of label `k` on `connect k …`. If `k` is still open at
  that moment its old id stays in the tracker without an owner (in the harness, re-using a label
  drops the old socket instead). The loopback scripts always use fresh labels; under that side
  condition the tracker and the table agree exactly. -/

/-- every tracked id is held by an open connection -/
def Owned (n : Net) : Prop := ∀ id ∈ n.tracker.ids, ∃ k, lookup n k = some (some id)

/-- no `connect` step of the list re-uses a label that is open at that moment -/
def Fresh : Net → List Step → Prop
  | _, [] => True
  | n, s :: rest =>
    (∀ k src, s = .connect k src → isOpen n k = false) ∧ Fresh (ServerNet.step n s).1 rest

/-- the labels used by the `connect` steps -/
def connectLabels : List Step → List Nat
  | [] => []
  | .connect k _ :: rest => k :: connectLabels rest
  | _ :: rest => connectLabels rest

theorem lookup_closeAll_net (n : Net) (l hd : Bool) (t : Tracker.Tracker) (a : Nat) :
    lookup { n with listening := l, handle := hd,
                    conns := n.conns.map fun (k, _) => (k, none), tracker := t } a
      = (lookup n a).map (fun _ => none) := by
  simp only [lookup]
  rw [lookup_closeAll]

/-- a label that is not in the table stays out of it unless it is connected -/
theorem lookup_none_step (n : Net) (s : Step) (a : Nat) (h : lookup n a = none)
    (hs : ∀ src, s ≠ .connect a src) : lookup (ServerNet.step n s).1 a = none := by
  cases s with
  | connect k src =>
    have hak : a ≠ k := fun e => hs src (by rw [e])
    cases hl : n.listening with
    | false => rw [step_connect_refused n k src hl]; exact h
    | true =>
      cases hm : n.filter.matches src with
      | true => rw [lookup_accept_ne n k src hl hm a hak, h]; rfl
      | false => rw [step_connect_reject n k src hl hm]; exact (lookup_setConn_ne n a k none hak).trans h
  | request k => simp only [ServerNet.step]; cases lookup n k <;> exact h
  | pipeline k cnt => simp only [ServerNet.step]; cases lookup n k <;> exact h
  | garbage k =>
    by_cases hak : a = k
    · subst hak; simp only [ServerNet.step, h]
    · rw [(isolation_lookup n a k hak).2.1]; exact h
  | close k =>
    by_cases hak : a = k
    · subst hak; exact lookup_remove_self _ a
    · rw [(isolation_lookup n a k hak).2.2.1]; exact h
  | probe k => simp only [ServerNet.step]; cases lookup n k <;> exact h
  | setDecode => simp only [ServerNet.step]; split <;> exact h
  | shutdown =>
    simp only [ServerNet.step]
    split
    · rw [lookup_closeAll_net, h]; rfl
    · exact h
  | dropHandle =>
    simp only [ServerNet.step]
    rw [lookup_closeAll_net, h]; rfl

/-- pairwise distinct labels that are not yet in the table are fresh -/
theorem fresh_of_nodup (steps : List Step) (n : Net)
    (hnew : ∀ k ∈ connectLabels steps, lookup n k = none) (hnd : (connectLabels steps).Nodup) :
    Fresh n steps := by
  induction steps generalizing n with
  | nil => trivial
  | cons s rest ih =>
    constructor
    · intro k src e
      subst e
      have := hnew k List.mem_cons_self
      simp [isOpen, this]
    · cases s with
      | connect k src =>
        simp only [connectLabels, List.nodup_cons] at hnd
        refine ih _ (fun a ha => lookup_none_step n _ a (hnew a (List.mem_cons_of_mem _ ha)) ?_) hnd.2
        intro src' e
        cases e
        exact hnd.1 ha
      | _ =>
        exact ih _ (fun a ha => lookup_none_step n _ a (hnew a ha) (fun _ e => nomatch e)) hnd

theorem owned_endSession {n : Net} (h : Owned n) (k : Nat) : Owned (endSession n k) := by
  unfold endSession
  split
  · rename_i id hl
    intro i hi
    obtain ⟨hi1, hi2⟩ := List.mem_filter.mp hi
    have hne : i ≠ id := by simpa using hi2
    obtain ⟨a, ha⟩ := h i hi1
    have hak : a ≠ k := fun e => hne (by rw [e, hl] at ha; cases ha; rfl)
    exact ⟨a, (lookup_setConn_ne _ a k none hak).trans ha⟩
  · exact h

theorem owned_remove {n : Net} (h : Owned n) (k : Nat) (hk : isOpen n k = false) :
    Owned { n with conns := n.conns.filter (·.1 ≠ k) } := by
  intro i hi
  obtain ⟨a, ha⟩ := h i hi
  have hak : a ≠ k := fun e => by rw [e] at ha; simp [isOpen, ha] at hk
  exact ⟨a, (lookup_remove_ne n a k hak).trans ha⟩

theorem isOpen_endSession_self (n : Net) (k : Nat) : isOpen (endSession n k) k = false := by
  unfold endSession
  split
  · simp [isOpen, lookup_setConn_self]
  · rename_i hne
    unfold isOpen
    split
    · rename_i id hl; exact absurd hl (hne id)
    · rfl

/-- a step that does not re-use an open label keeps every tracked id owned -/
theorem owned_step (n : Net) (s : Step) (h : Owned n)
    (hf : ∀ k src, s = .connect k src → isOpen n k = false) : Owned (ServerNet.step n s).1 := by
  cases s with
  | connect k src =>
    have hk := hf k src rfl
    cases hl : n.listening with
    | false => rw [step_connect_refused n k src hl]; exact h
    | true =>
      cases hm : n.filter.matches src with
      | true =>
        intro i hi
        have hi' : i ∈ (Tracker.add n.tracker).2.ids := by
          rw [step_connect_accept n k src hl hm] at hi; exact hi
        by_cases hin : i = n.tracker.next
        · exact ⟨k, hin ▸ accepted_is_open n k src hl hm⟩
        · have hold : i ∈ n.tracker.ids := by
            rw [C15.add_ids, List.mem_append] at hi'
            rcases hi' with hi' | hi'
            · split at hi'
              · exact List.mem_of_mem_drop hi'
              · exact hi'
            · exact absurd (List.mem_singleton.mp hi') hin
          obtain ⟨a, ha⟩ := h i hold
          have hak : a ≠ k := fun e => by rw [e] at ha; simp [isOpen, ha] at hk
          refine ⟨a, ?_⟩
          rw [lookup_accept_ne n k src hl hm a hak, ha]
          simp [sweepVal_some, hi']
      | false =>
        rw [step_connect_reject n k src hl hm]
        intro i hi
        obtain ⟨a, ha⟩ := h i hi
        have hak : a ≠ k := fun e => by rw [e] at ha; simp [isOpen, ha] at hk
        exact ⟨a, (lookup_setConn_ne n a k none hak).trans ha⟩
  | request k => simp only [ServerNet.step]; cases lookup n k <;> exact h
  | pipeline k cnt => simp only [ServerNet.step]; cases lookup n k <;> exact h
  | garbage k =>
    simp only [ServerNet.step]
    cases lookup n k with
    | none => exact h
    | some v => exact owned_endSession h k
  | close k => exact owned_remove (owned_endSession h k) k (isOpen_endSession_self n k)
  | probe k => simp only [ServerNet.step]; cases lookup n k <;> exact h
  | setDecode => simp only [ServerNet.step]; split <;> exact h
  | shutdown =>
    simp only [ServerNet.step]
    split
    · exact fun _ hi => nomatch hi
    · exact h
  | dropHandle => exact fun _ hi => nomatch hi

theorem owned_run (steps : List Step) (n : Net) (h : Owned n) (hf : Fresh n steps) :
    Owned (ServerNet.run n steps).1 := by
  induction steps generalizing n with
  | nil => exact h
  | cons s rest ih =>
    rw [run_cons]
    exact ih _ (owned_step n s h hf.1) hf.2

/-- **tracked_ids_open**: if the `connect` steps use pairwise distinct labels, then in every
    reachable state every tracked session id belongs to an open connection (together with
    `open_conns_tracked` / `open_ids_distinct`: open connections and tracked ids correspond
    one to one) -/
theorem tracked_ids_open (m : Nat) (f : AddressFilter) (tls : Bool) (steps : List Step)
    (hnd : (connectLabels steps).Nodup) : Owned (ServerNet.run (init m f tls) steps).1 :=
  owned_run steps _ (fun _ hi => nomatch hi)
    (fresh_of_nodup steps _ (fun _ _ => rfl) hnd)

/-- **evicted_is_oldest**, exact form: in a well-formed state in which every tracked id is owned
    (e.g. any state reached with distinct labels), an accepted `connect k` on a label that is not
    open, with a full tracker, closes exactly one connection `a` — the one holding the smallest
    tracked id — and leaves the table entry of every other connection unchanged -/
theorem evicted_is_oldest_exact (n : Net) (hw : WF n) (ho : Owned n) (k : Nat) (src : Addr)
    (hl : n.listening = true) (hm : n.filter.matches src = true) (hk : isOpen n k = false)
    (hfull : n.tracker.ids.length ≥ n.tracker.max) :
    ∃ oldest a, n.tracker.ids.head? = some oldest ∧ (∀ i ∈ n.tracker.ids, oldest ≤ i) ∧
      a ≠ k ∧ lookup n a = some (some oldest) ∧
      lookup (ServerNet.step n (.connect k src)).1 a = some none ∧
      ∀ b, b ≠ k → b ≠ a → lookup (ServerNet.step n (.connect k src)).1 b = lookup n b := by
  obtain ⟨o, h1, h2, h3, h4⟩ := evicted_is_oldest n hw k src hl hm hfull
  have hmem : o ∈ n.tracker.ids := List.mem_of_mem_head? (by rw [h1]; rfl)
  obtain ⟨a, ha⟩ := ho o hmem
  have hak : a ≠ k := fun e => by rw [e] at ha; simp [isOpen, ha] at hk
  refine ⟨o, a, h1, h2, hak, ha, ?_, ?_⟩
  · rw [h4 a hak, ha]; simp
  · intro b hbk hba
    rw [h4 b hbk]
    cases hlb : lookup n b with
    | none => rfl
    | some v =>
      have : v ≠ some o := fun e => hba (h3 b a (by rw [hlb, e]) ha)
      simp [this]

/-! ### pipelined requests, bursts of session ends, churn -/

/-- the tail-recursive runner used by the driver is `run` -/
theorem runAux_eq (steps : List Step) (n : Net) (acc : List Obs) :
    ServerNet.runAux n steps acc
      = ((ServerNet.run n steps).1, acc.reverse ++ (ServerNet.run n steps).2) := by
  induction steps generalizing n acc with
  | nil => simp [ServerNet.runAux, ServerNet.run]
  | cons s rest ih =>
    simp only [ServerNet.runAux, ServerNet.run]
    rw [ih]
    simp [List.reverse_append, List.append_assoc]

theorem runTR_eq_run (n : Net) (steps : List Step) : ServerNet.runTR n steps = ServerNet.run n steps := by
  simp [ServerNet.runTR, runAux_eq]

/-- **pipeline_answer**: `cnt` requests written back to back on an open plain-TCP connection are
    all answered (one reply per request: `cnt` replies), however late the peer starts to read
    them and whatever the other connections did before; the step changes nothing in the server -/
theorem pipeline_answer (n : Net) (k cnt : Nat) (h : isOpen n k = true) (ht : n.tls = false) :
    ServerNet.step n (.pipeline k cnt) = (n, [.pipe k "ok" cnt]) := by
  simp only [ServerNet.step]
  cases hl : lookup n k with
  | none => simp [isOpen, hl] at h
  | some v => simp [h, ht]

/-- a pipelined step never changes the state: no other connection can be disturbed by it -/
theorem pipeline_state (n : Net) (k cnt : Nat) : (ServerNet.step n (.pipeline k cnt)).1 = n := by
  simp only [ServerNet.step]; cases lookup n k <;> rfl

theorem isolation_pipeline (n : Net) (a b cnt : Nat) :
    lookup (ServerNet.step n (.pipeline b cnt)).1 a = lookup n a ∧
    isOpen (ServerNet.step n (.pipeline b cnt)).1 a = isOpen n a := by
  rw [pipeline_state]; exact ⟨rfl, rfl⟩

theorem tracker_close (n : Net) (k : Nat) :
    (ServerNet.step n (.close k)).1.tracker = (endSession n k).tracker := rfl

theorem endSession_of_not_open (n : Net) (k : Nat) (h : isOpen n k = false) : endSession n k = n := by
  unfold endSession
  split
  · rename_i id hl; simp [isOpen, hl] at h
  · rfl

theorem filter_ne_of_lt (l : List Nat) (x : Nat) (h : ∀ i ∈ l, i < x) :
    (l ++ [x]).filter (· ≠ x) = l := by
  rw [List.filter_append]
  have h1 : l.filter (· ≠ x) = l :=
    List.filter_eq_self.mpr (fun i hi => by have := h i hi; simp; omega)
  rw [h1]
  simp

/-- one churn peer (connect, then close at once) below the session limit: nothing is left of it
    — no table entry, no tracked id — and no other connection is touched -/
theorem churn_one (n : Net) (hw : WF n) (l : Nat) (src : Addr) (hl : lookup n l = none)
    (hroom : n.tracker.ids.length < n.tracker.max) :
    WF (ServerNet.run n [.connect l src, .close l]).1 ∧
    lookup (ServerNet.run n [.connect l src, .close l]).1 l = none ∧
    (ServerNet.run n [.connect l src, .close l]).1.tracker.ids = n.tracker.ids ∧
    (ServerNet.run n [.connect l src, .close l]).1.tracker.max = n.tracker.max ∧
    ∀ a, a ≠ l → lookup (ServerNet.run n [.connect l src, .close l]).1 a = lookup n a := by
  have hrun : (ServerNet.run n [.connect l src, .close l]).1
      = (ServerNet.step (ServerNet.step n (.connect l src)).1 (.close l)).1 := rfl
  rw [hrun]
  have hnotopen : isOpen n l = false := by simp [isOpen, hl]
  refine ⟨wf_step _ _ (wf_step _ _ hw), lookup_remove_self _ l, ?_, ?_, ?_⟩
  · rw [tracker_close]
    cases hlis : n.listening with
    | false =>
      rw [step_connect_refused n l src hlis, endSession_of_not_open n l hnotopen]
    | true =>
      cases hm : n.filter.matches src with
      | false =>
        rw [step_connect_reject n l src hlis hm, endSession_of_not_open]
        · rfl
        · simp [isOpen, lookup_setConn_self]
      | true =>
        have hopen := accepted_is_open n l src hlis hm
        unfold endSession
        rw [hopen]
        show (Tracker.remove (ServerNet.step n (.connect l src)).1.tracker n.tracker.next).ids = _
        rw [step_connect_accept n l src hlis hm]
        show ((Tracker.add n.tracker).2.ids.filter (· ≠ n.tracker.next)) = _
        rw [C15.add_ids, if_neg (by omega)]
        exact filter_ne_of_lt _ _ hw.inv.2.2.2
  · rw [tracker_close, endSession_tracker_max, tracker_max_step]
  · intro a ha
    rw [(isolation_lookup _ a l ha).2.2.1]
    cases hlis : n.listening with
    | false => rw [step_connect_refused n l src hlis]
    | true =>
      cases hm : n.filter.matches src with
      | false => rw [step_connect_reject n l src hlis hm]; exact lookup_setConn_ne n a l none ha
      | true => exact accept_no_eviction n hw l src hlis hm hroom a ha

theorem churnSteps_succ (l : Nat) (src : Addr) (cnt : Nat) :
    churnSteps l src (cnt + 1) = .connect l src :: .close l :: churnSteps l src cnt := by
  simp [churnSteps, List.replicate_succ]

/-- **churn_keeps_sessions**: while the server is below its session limit, any number of peers
    that connect and leave (there is no bound on `cnt`: session ids are never re-used, they do
    not wrap) leaves every other connection exactly as it was, and leaves nothing behind in the
    tracker: the sessions that were live stay live, and the limit is as far away as before -/
theorem churn_keeps_sessions (cnt : Nat) (n : Net) (hw : WF n) (l : Nat) (src : Addr)
    (hl : lookup n l = none) (hroom : n.tracker.ids.length < n.tracker.max) :
    WF (ServerNet.run n (churnSteps l src cnt)).1 ∧
    lookup (ServerNet.run n (churnSteps l src cnt)).1 l = none ∧
    (ServerNet.run n (churnSteps l src cnt)).1.tracker.ids = n.tracker.ids ∧
    (ServerNet.run n (churnSteps l src cnt)).1.tracker.max = n.tracker.max ∧
    ∀ a, a ≠ l → lookup (ServerNet.run n (churnSteps l src cnt)).1 a = lookup n a := by
  induction cnt generalizing n with
  | zero => exact ⟨hw, hl, rfl, rfl, fun _ _ => rfl⟩
  | succ c ih =>
    rw [churnSteps_succ]
    have hrun : (ServerNet.run n (.connect l src :: .close l :: churnSteps l src c)).1
        = (ServerNet.run (ServerNet.run n [.connect l src, .close l]).1 (churnSteps l src c)).1 := rfl
    rw [hrun]
    obtain ⟨h1, h2, h3, h4, h5⟩ := churn_one n hw l src hl hroom
    obtain ⟨i1, i2, i3, i4, i5⟩ := ih _ h1 h2 (by rw [h3, h4]; exact hroom)
    exact ⟨i1, i2, i3.trans h3, i4.trans h4, fun a ha => (i5 a ha).trans (h5 a ha)⟩

/-- the same for the open/closed status -/
theorem churn_keeps_open (cnt : Nat) (n : Net) (hw : WF n) (l : Nat) (src : Addr)
    (hl : lookup n l = none) (hroom : n.tracker.ids.length < n.tracker.max) (a : Nat) (ha : a ≠ l) :
    isOpen (ServerNet.run n (churnSteps l src cnt)).1 a = isOpen n a :=
  isOpen_congr ((churn_keeps_sessions cnt n hw l src hl hroom).2.2.2.2 a ha)

/-- what the end of a session whose table entry is `v` does to the tracker -/
def closeTracker (t : Tracker.Tracker) : Option (Option Nat) → Tracker.Tracker
  | some (some id) => Tracker.remove t id
  | _ => t

theorem endSession_tracker (m : Net) (k : Nat) :
    (endSession m k).tracker = closeTracker m.tracker (lookup m k) := by
  unfold endSession
  split
  · rename_i id heq; rw [heq]; rfl
  · rename_i hne
    cases hl : lookup m k with
    | none => rfl
    | some v =>
      cases v with
      | none => rfl
      | some id => exact absurd hl (hne id)

theorem remove_comm (t : Tracker.Tracker) (i j : Nat) :
    Tracker.remove (Tracker.remove t i) j = Tracker.remove (Tracker.remove t j) i := by
  simp only [Tracker.remove, List.filter_filter]
  congr 1
  apply List.filter_congr
  intro x _
  exact Bool.and_comm _ _

/-- **burst_order_irrelevant**: when two sessions end, the order in which the server learns of
    it is immaterial — same tracker, same table entries (a burst of simultaneous session ends is
    any of its serialisations) -/
theorem burst_order_irrelevant (n : Net) (a b : Nat) (hab : a ≠ b) :
    (ServerNet.run n [.close a, .close b]).1.tracker = (ServerNet.run n [.close b, .close a]).1.tracker ∧
    ∀ c, lookup (ServerNet.run n [.close a, .close b]).1 c = lookup (ServerNet.run n [.close b, .close a]).1 c := by
  have hrun (x y : Nat) : (ServerNet.run n [.close x, .close y]).1
      = (ServerNet.step (ServerNet.step n (.close x)).1 (.close y)).1 := rfl
  rw [hrun a b, hrun b a]
  have hba : b ≠ a := fun e => hab e.symm
  constructor
  · have e1 : lookup (ServerNet.step n (.close a)).1 b = lookup n b := (isolation_lookup n b a hba).2.2.1
    have e2 : lookup (ServerNet.step n (.close b)).1 a = lookup n a := (isolation_lookup n a b hab).2.2.1
    rw [tracker_close, tracker_close, endSession_tracker, endSession_tracker, e1, e2,
      tracker_close, tracker_close, endSession_tracker, endSession_tracker]
    cases lookup n a with
    | none => rfl
    | some va =>
      cases va with
      | none => rfl
      | some i =>
        cases lookup n b with
        | none => rfl
        | some vb =>
          cases vb with
          | none => rfl
          | some j => exact remove_comm _ _ _
  · intro c
    by_cases hca : c = a
    · subst hca
      rw [(isolation_lookup _ c b hab).2.2.1]
      show lookup { (endSession n c) with conns := (endSession n c).conns.filter (·.1 ≠ c) } c = _
      rw [lookup_remove_self]
      exact (lookup_remove_self _ c).symm
    · by_cases hcb : c = b
      · subst hcb
        show lookup { (endSession _ c) with conns := (endSession _ c).conns.filter (·.1 ≠ c) } c = _
        rw [lookup_remove_self, (isolation_lookup _ c a hca).2.2.1]
        exact (lookup_remove_self _ c).symm
      · rw [(isolation_lookup _ c b hcb).2.2.1, (isolation_lookup _ c a hca).2.2.1,
          (isolation_lookup _ c a hca).2.2.1, (isolation_lookup _ c b hcb).2.2.1]

/-! ### non-vacuity -/

/-- max 2, three peers: the oldest is evicted, the others keep being served -/
example :
    (ServerNet.run (init 2 .any false)
      [.connect 1 (.v4 127 0 0 1), .connect 2 (.v4 127 0 0 1), .connect 3 (.v4 127 0 0 1),
       .probe 1, .request 2, .request 3, .shutdown, .probe 3, .connect 4 (.v4 127 0 0 1)]).2 =
    [.conn 1 "open", .conn 2 "open", .conn 3 "open", .prob 1 "closed", .req 2 "ok.982",
     .req 3 "ok.982", .cmd "S" "ok", .prob 3 "closed", .conn 4 "refused"] := by decide

/-- the bound is attained: max 2, after three accepted peers exactly two connections are open -/
example :
    ((ServerNet.run (init 2 .any false)
      [.connect 1 (.v4 127 0 0 1), .connect 2 (.v4 127 0 0 1), .connect 3 (.v4 127 0 0 1)]).1.conns
        = [(1, none), (2, some 1), (3, some 2)]) := by decide

/-- a filtered-out peer consumes no id and evicts nobody; `max_sessions = 0` behaves as 1 -/
example :
    let r := ServerNet.run (init 0 (.exact (.v4 10 0 0 1)) true)
      [.connect 1 (.v4 10 0 0 1), .connect 2 (.v4 10 0 0 2), .probe 1, .connect 3 (.v4 10 0 0 1),
       .probe 1, .garbage 3, .probe 3, .dropHandle, .shutdown]
    r.1.tracker = ⟨1, 2, []⟩ ∧ r.1.conns = [(1, none), (2, none), (3, none)] ∧
    r.1.listening = false ∧ r.1.handle = false ∧
    r.2 = [.conn 1 "open", .conn 2 "closed", .prob 1 "open", .conn 3 "open", .prob 1 "closed",
      .garb 3 "data", .prob 3 "closed"] := by decide

/-- the hypotheses of `evicted_is_oldest` are satisfiable (state after two accepted peers) -/
example : ∃ n : Net, WF n ∧ n.listening = true ∧ n.tracker.ids.length ≥ n.tracker.max ∧
    isOpen n 1 = true ∧ isOpen n 2 = true :=
  ⟨(ServerNet.run (init 2 .any false) [.connect 1 (.v4 127 0 0 1), .connect 2 (.v4 127 0 0 1)]).1,
   wf_run _ _ (wf_init _ _ _), by decide, by decide, by decide, by decide⟩

/-- the side condition of `tracked_ids_open` is needed: re-using the open label 2 leaves id 1 in
    the tracker without an owner, and the next `connect` then evicts connection 1 although only
    three connections are open (the harness would have dropped the old socket of label 2, ending
    session 1; the generated scripts never re-use a label) -/
example :
    let r := ServerNet.run (init 3 .any false)
      [.connect 1 (.v4 127 0 0 1), .connect 2 (.v4 127 0 0 1), .connect 2 (.v4 127 0 0 1),
       .connect 3 (.v4 127 0 0 1), .probe 1]
    r.1.tracker.ids = [1, 2, 3] ∧ r.1.conns = [(1, none), (2, some 2), (3, some 3)] ∧
    r.2 = [.conn 1 "open", .conn 2 "open", .conn 2 "open", .conn 3 "open", .prob 1 "closed"] := by
  decide

/-- pipelined requests: all answered on an open plain-TCP connection, none on an evicted one;
    the other connections are not disturbed -/
example :
    (ServerNet.run (init 2 .any false)
      [.connect 1 (.v4 127 0 0 1), .pipeline 1 20000, .connect 2 (.v4 127 0 0 1), .pipeline 2 3,
       .connect 3 (.v4 127 0 0 1), .pipeline 1 5, .pipeline 2 7, .pipeline 9 1, .request 3]).2 =
    [.conn 1 "open", .pipe 1 "ok" 20000, .conn 2 "open", .pipe 2 "ok" 3, .conn 3 "open",
     .pipe 1 "closed" 0, .pipe 2 "ok" 7, .pipe 9 "noconn" 0, .req 3 "ok.982"] := by decide

/-- churn below the limit (max 2: one live session + the churn peer): the live session stays,
    the next real peer does not evict it either, the one after that does -/
example :
    let a : Addr := .v4 127 0 0 1
    let r := ServerNet.run (init 2 .any false)
      ([.connect 1 a] ++ churnSteps 0 a 5 ++ [.probe 1, .connect 2 a, .probe 1, .connect 3 a, .probe 1])
    r.1.tracker = ⟨2, 8, [6, 7]⟩ ∧
    r.2.filter (fun o => match o with | .conn 0 _ => false | _ => true) =
      [.conn 1 "open", .prob 1 "open", .conn 2 "open", .prob 1 "open", .conn 3 "open", .prob 1 "closed"] := by
  decide

/-- at the limit every churn peer evicts the oldest session, like any other peer -/
example :
    let a : Addr := .v4 127 0 0 1
    (ServerNet.run (init 1 .any false) ([.connect 1 a] ++ churnSteps 0 a 1 ++ [.probe 1])).2 =
      [.conn 1 "open", .conn 0 "open", .prob 1 "closed"] := by decide

/-- a burst: three of four sessions end, the survivor is the oldest and stays when the slots
    are taken again -/
example :
    let a : Addr := .v4 127 0 0 1
    (ServerNet.run (init 4 .any false)
      [.connect 1 a, .connect 2 a, .connect 3 a, .connect 4 a, .close 2, .close 3, .close 4,
       .connect 5 a, .connect 6 a, .connect 7 a, .probe 1, .connect 8 a, .probe 1]).2 =
      [.conn 1 "open", .conn 2 "open", .conn 3 "open", .conn 4 "open", .conn 5 "open", .conn 6 "open",
       .conn 7 "open", .prob 1 "open", .conn 8 "open", .prob 1 "closed"] := by decide

end Rodbus.C15Net
