//! Instrumented application handler: a small deterministic point database shared (by
//! definition, not by code) with the Lean driver (`Driver/Points.lean`).
use rodbus::server::*;
use rodbus::*;
use std::sync::{Arc, Mutex};

#[derive(Clone, Debug, Default)]
pub struct Points {
    pub segs: Vec<(u8, u32, u32, u32)>,  // table, start, len, seed
    pub rexc: Vec<(u8, u32, u8)>,        // table, addr, code
    pub wexc: Vec<(u8, u32, u8)>,        // table, addr, code
    pub ov: Vec<((u8, u32), u32)>,       // overrides in insertion order
    pub dflt: bool,                      // item `D`: the provided methods of `RequestHandler` answer
}

pub fn bit_val(seed: u32, addr: u32) -> u32 {
    if (addr * 7 + seed * 13 + addr / 8) % 3 == 0 {
        1
    } else {
        0
    }
}

pub fn reg_val(seed: u32, addr: u32) -> u32 {
    (addr * 31 + seed * 977 + 5) % 65536
}

impl Points {
    pub fn parse(items: &str) -> Points {
        let mut p = Points::default();
        for item in items.split(',') {
            if item.is_empty() {
                continue;
            }
            let kind = &item[0..1];
            if kind == "D" {
                p.dflt = true;
                continue;
            }
            let nums: Vec<u32> = item[1..].split('.').map(|x| x.parse().unwrap()).collect();
            match kind {
                "s" => p.segs.push((nums[0] as u8, nums[1], nums[2], nums[3])),
                "x" => p.rexc.push((nums[0] as u8, nums[1], nums[2] as u8)),
                "w" => p.wexc.push((nums[0] as u8, nums[1], nums[2] as u8)),
                _ => panic!("bad point item {item}"),
            }
        }
        p
    }

    pub fn lookup(&self, table: u8, addr: u32) -> Option<u32> {
        if let Some((_, v)) = self.ov.iter().find(|(k, _)| *k == (table, addr)) {
            return Some(*v);
        }
        for (t, start, len, seed) in &self.segs {
            if *t == table && addr >= *start && addr < *start + *len {
                return Some(if table < 2 {
                    bit_val(*seed, addr)
                } else {
                    reg_val(*seed, addr)
                });
            }
        }
        None
    }

    pub fn read(&self, table: u8, addr: u32) -> Result<u32, u8> {
        if let Some((_, _, code)) = self.rexc.iter().find(|(t, a, _)| *t == table && *a == addr) {
            return Err(*code);
        }
        // the library's helper for "absent point" (Option<&T> -> IllegalDataAddress)
        self.lookup(table, addr)
            .as_ref()
            .to_result()
            .map_err(u8::from)
    }

    pub fn write(&mut self, table: u8, addr: u32, value: u32) -> Result<(), u8> {
        if let Some((_, _, code)) = self.wexc.iter().find(|(t, a, _)| *t == table && *a == addr) {
            return Err(*code);
        }
        if self.lookup(table, addr).is_none() {
            return Err(2);
        }
        if let Some(e) = self.ov.iter_mut().find(|(k, _)| *k == (table, addr)) {
            e.1 = value;
        } else {
            self.ov.push(((table, addr), value));
        }
        Ok(())
    }

    pub fn state_string(&self) -> String {
        let mut v = self.ov.clone();
        v.sort();
        v.iter()
            .map(|((t, a), val)| format!("{t}@{a}={val}"))
            .collect::<Vec<_>>()
            .join("/")
    }
}

pub type Log = Arc<Mutex<Vec<String>>>;

/// overrides nothing: every method is the one `RequestHandler` provides
struct Defaults;
impl RequestHandler for Defaults {}

pub struct TestHandler {
    pub unit: u8,
    pub points: Points,
    pub log: Log,
}

fn ex(code: u8) -> ExceptionCode {
    ExceptionCode::from(code)
}

impl TestHandler {
    fn rd(&self, tag: &str, table: u8, addr: u16) -> Result<u32, ExceptionCode> {
        self.log
            .lock()
            .unwrap()
            .push(format!("{tag}.{}.{}", self.unit, addr));
        if self.points.dflt {
            return match table {
                0 => Defaults.read_coil(addr).map(u32::from),
                1 => Defaults.read_discrete_input(addr).map(u32::from),
                2 => Defaults.read_holding_register(addr).map(u32::from),
                _ => Defaults.read_input_register(addr).map(u32::from),
            };
        }
        self.points.read(table, addr as u32).map_err(ex)
    }
}

impl RequestHandler for TestHandler {
    fn read_coil(&self, address: u16) -> Result<bool, ExceptionCode> {
        self.rd("rc", 0, address).map(|v| v != 0)
    }
    fn read_discrete_input(&self, address: u16) -> Result<bool, ExceptionCode> {
        self.rd("rd", 1, address).map(|v| v != 0)
    }
    fn read_holding_register(&self, address: u16) -> Result<u16, ExceptionCode> {
        self.rd("rh", 2, address).map(|v| v as u16)
    }
    fn read_input_register(&self, address: u16) -> Result<u16, ExceptionCode> {
        self.rd("ri", 3, address).map(|v| v as u16)
    }
    fn write_single_coil(&mut self, value: Indexed<bool>) -> Result<(), ExceptionCode> {
        self.log.lock().unwrap().push(format!(
            "wc.{}.{}.{}",
            self.unit, value.index, value.value as u8
        ));
        if self.points.dflt {
            return Defaults.write_single_coil(value);
        }
        self.points
            .write(0, value.index as u32, value.value as u32)
            .map_err(ex)
    }
    fn write_single_register(&mut self, value: Indexed<u16>) -> Result<(), ExceptionCode> {
        self.log
            .lock()
            .unwrap()
            .push(format!("wr.{}.{}.{}", self.unit, value.index, value.value));
        if self.points.dflt {
            return Defaults.write_single_register(value);
        }
        self.points
            .write(2, value.index as u32, value.value as u32)
            .map_err(ex)
    }
    fn write_multiple_coils(&mut self, values: WriteCoils) -> Result<(), ExceptionCode> {
        let items: Vec<Indexed<bool>> = values.iterator.collect();
        self.log.lock().unwrap().push(format!(
            "wC.{}.{}+{}.{}",
            self.unit,
            values.range.start,
            values.range.count,
            items
                .iter()
                .map(|x| format!("{}:{}", x.index, x.value as u8))
                .collect::<Vec<_>>()
                .join("/")
        ));
        if self.points.dflt {
            return Defaults.write_multiple_coils(values);
        }
        for x in items {
            self.points
                .write(0, x.index as u32, x.value as u32)
                .map_err(ex)?;
        }
        Ok(())
    }
    fn write_multiple_registers(&mut self, values: WriteRegisters) -> Result<(), ExceptionCode> {
        let items: Vec<Indexed<u16>> = values.iterator.collect();
        self.log.lock().unwrap().push(format!(
            "wR.{}.{}+{}.{}",
            self.unit,
            values.range.start,
            values.range.count,
            items
                .iter()
                .map(|x| format!("{}:{}", x.index, x.value))
                .collect::<Vec<_>>()
                .join("/")
        ));
        if self.points.dflt {
            return Defaults.write_multiple_registers(values);
        }
        for x in items {
            self.points
                .write(2, x.index as u32, x.value as u32)
                .map_err(ex)?;
        }
        Ok(())
    }
}

/// authorization policies shared with the Lean driver
pub enum Policy {
    Allow,
    Deny,
    ReadOnly(Arc<dyn AuthorizationHandler>),
    Hash(u32),
}

/// relies on the provided methods of `AuthorizationHandler` only
pub struct DefaultAuth;
impl AuthorizationHandler for DefaultAuth {}

pub struct TestAuth {
    pub policy: Policy,
    pub log: Log,
}

pub fn role_hex(role: &str) -> String {
    let mut s = String::from("r");
    for b in role.as_bytes() {
        s.push_str(&format!("{b:02x}"));
    }
    s
}

impl TestAuth {
    fn decide(&self, fc: u8, unit: UnitId, a: u32, b: u32, is_range: bool, role: &str) -> Authorization {
        let arg = if is_range {
            format!("r{a}+{b}")
        } else {
            format!("i{a}")
        };
        self.log
            .lock()
            .unwrap()
            .push(format!("A{fc}.{}.{arg}.{}", unit.value, role_hex(role)));
        let allow = match &self.policy {
            Policy::Allow => true,
            Policy::Deny => false,
            Policy::ReadOnly(_) => unreachable!(),
            Policy::Hash(seed) => {
                let rolesum: u32 = role.as_bytes().iter().map(|x| *x as u32).sum();
                (seed + (fc as u32) * 3 + (unit.value as u32) * 5 + a * 7 + b * 11 + rolesum) % 4 != 0
            }
        };
        if allow {
            Authorization::Allow
        } else {
            Authorization::Deny
        }
    }
    fn ro(&self) -> Option<&Arc<dyn AuthorizationHandler>> {
        match &self.policy {
            Policy::ReadOnly(x) => Some(x),
            _ => None,
        }
    }
    fn log_only(&self, fc: u8, unit: UnitId, arg: String, role: &str) {
        self.log
            .lock()
            .unwrap()
            .push(format!("A{fc}.{}.{arg}.{}", unit.value, role_hex(role)));
    }
}

impl AuthorizationHandler for TestAuth {
    fn read_coils(&self, unit_id: UnitId, range: AddressRange, role: &str) -> Authorization {
        if let Some(ro) = self.ro() {
            self.log_only(1, unit_id, format!("r{}+{}", range.start, range.count), role);
            return ro.read_coils(unit_id, range, role);
        }
        self.decide(1, unit_id, range.start as u32, range.count as u32, true, role)
    }
    fn read_discrete_inputs(&self, unit_id: UnitId, range: AddressRange, role: &str) -> Authorization {
        if let Some(ro) = self.ro() {
            self.log_only(2, unit_id, format!("r{}+{}", range.start, range.count), role);
            return ro.read_discrete_inputs(unit_id, range, role);
        }
        self.decide(2, unit_id, range.start as u32, range.count as u32, true, role)
    }
    fn read_holding_registers(&self, unit_id: UnitId, range: AddressRange, role: &str) -> Authorization {
        if let Some(ro) = self.ro() {
            self.log_only(3, unit_id, format!("r{}+{}", range.start, range.count), role);
            return ro.read_holding_registers(unit_id, range, role);
        }
        self.decide(3, unit_id, range.start as u32, range.count as u32, true, role)
    }
    fn read_input_registers(&self, unit_id: UnitId, range: AddressRange, role: &str) -> Authorization {
        if let Some(ro) = self.ro() {
            self.log_only(4, unit_id, format!("r{}+{}", range.start, range.count), role);
            return ro.read_input_registers(unit_id, range, role);
        }
        self.decide(4, unit_id, range.start as u32, range.count as u32, true, role)
    }
    fn write_single_coil(&self, unit_id: UnitId, idx: u16, role: &str) -> Authorization {
        if let Some(ro) = self.ro() {
            self.log_only(5, unit_id, format!("i{idx}"), role);
            return ro.write_single_coil(unit_id, idx, role);
        }
        self.decide(5, unit_id, idx as u32, 65536, false, role)
    }
    fn write_single_register(&self, unit_id: UnitId, idx: u16, role: &str) -> Authorization {
        if let Some(ro) = self.ro() {
            self.log_only(6, unit_id, format!("i{idx}"), role);
            return ro.write_single_register(unit_id, idx, role);
        }
        self.decide(6, unit_id, idx as u32, 65536, false, role)
    }
    fn write_multiple_coils(&self, unit_id: UnitId, range: AddressRange, role: &str) -> Authorization {
        if let Some(ro) = self.ro() {
            self.log_only(15, unit_id, format!("r{}+{}", range.start, range.count), role);
            return ro.write_multiple_coils(unit_id, range, role);
        }
        self.decide(15, unit_id, range.start as u32, range.count as u32, true, role)
    }
    fn write_multiple_registers(&self, unit_id: UnitId, range: AddressRange, role: &str) -> Authorization {
        if let Some(ro) = self.ro() {
            self.log_only(16, unit_id, format!("r{}+{}", range.start, range.count), role);
            return ro.write_multiple_registers(unit_id, range, role);
        }
        self.decide(16, unit_id, range.start as u32, range.count as u32, true, role)
    }
}
