import RodbusModel.Lemmas.ClientCause
/-
  The timeout counter along whole runs (C12 `counter_exact` for sessions of `runState`).

  * `tick_noMax`: a tick never logs a bare `.fin (.maxTo n)`: phases that end for another reason
    end with another kind (`TEff.phaseEnd` leaves the kind open; the concrete machine does not).
  * `taskLog F s steps`: the part of the log that the TASK wrote while the script ran (everything
    logged while the tasks run: `settle` / `advance`), without what the script steps log
    themselves (refused submissions, immediate completions, the completions of `abort`).
  * `phasesOf L`: a task log split at its `.fin` entries: the outcomes of the phase that is still
    running and the finished phases, each with its end kind, end time and outcomes (oldest first).
  * `SessInv N c L`: the invariant that ties the counter `nto` of the abstract state `c` to the
    task log `L`; `runState_sessInv`: it holds along every run.
-/
namespace Rodbus.Client

/-! ### a tick never logs a bare `MaxTimeouts` -/

/-- `new` is not `old` with just a `.fin (.maxTo _)` pushed on it -/
def NoMax (old new : List LogEntry) : Prop := ∀ n tm, new ≠ .fin (.maxTo n) tm :: old

theorem noMax_refl (l : List LogEntry) : NoMax l l := by
  intro n tm h
  have := congrArg List.length h
  simp at this

theorem noMax_fin (l : List LogEntry) (k : EndKind) (t : Nat) (hk : ∀ n, k ≠ .maxTo n) :
    NoMax l (.fin k t :: l) := by
  intro n tm h
  simp only [List.cons.injEq, LogEntry.fin.injEq] at h
  exact hk n h.1.1

theorem noMax_two (l : List LogEntry) (a b : LogEntry) : NoMax l (a :: b :: l) := by
  intro n tm h
  have := congrArg List.length h
  simp at this

theorem noMax_done (l : List LogEntry) (rid : Rid) (st : Style) (res : Res) (t : Nat) :
    NoMax l (.done rid st res t :: l) := by
  intro n tm h
  simp at h

theorem noMax_tx (l : List LogEntry) (b : Bytes) : NoMax l (.tx b :: l) := by
  intro n tm h
  simp at h

theorem sessionEnd_ne_maxTo {res : Res} {k : EndKind} (h : res.sessionEnd = some k) :
    ∀ n, k ≠ .maxTo n := by
  intro n hk
  subst hk
  cases res <;> simp [Res.sessionEnd] at h

section
variable {σ : Type}

theorem finish_log_cases (s : State σ) (m : Nat) (q : Req) (res : Res) :
    (finish s m q res).log = .done q.rid q.style res s.now :: s.log
      ∨ ∃ k, (finish s m q res).log = .fin k s.now :: .done q.rid q.style res s.now :: s.log := by
  unfold finish afterRequest
  split
  · exact Or.inr ⟨_, rfl⟩
  · split
    · split
      · exact Or.inl rfl
      · split
        · exact Or.inr ⟨_, rfl⟩
        · exact Or.inl rfl
    · exact Or.inl rfl

theorem finish_noMax (s s1 : State σ) (m : Nat) (q : Req) (res : Res) (h : s1.log = s.log) :
    NoMax s.log (finish s1 m q res).log := by
  rcases finish_log_cases s1 m q res with h1 | ⟨k, h1⟩ <;> rw [h1, h]
  · exact noMax_done _ _ _ _ _
  · exact noMax_two _ _ _

@[simp] theorem log_applySetting (s : State σ) (c : Cmd) : (applySetting s c).log = s.log := by
  cases c <;> rfl

@[simp] theorem log_flip (s : State σ) : (flip s).2.log = s.log := by
  unfold flip; cases s.coins <;> rfl

@[simp] theorem now_flip (s : State σ) : (flip s).2.now = s.now := by
  unfold flip; cases s.coins <;> rfl

theorem startRequest_noMax (F : Framing σ) (s s1 : State σ) (m : Nat) (r : Req)
    (h : s1.log = s.log) : NoMax s.log (startRequest F s1 m r).log := by
  unfold startRequest
  simp only []
  split
  · exact finish_noMax s _ m r _ h
  · split
    · exact finish_noMax s _ m r _ h
    · split
      · exact finish_noMax s _ m r _ h
      · generalize isLatest _ m = b
        cases b
        · show NoMax s.log s1.log
          rw [h]; exact noMax_refl _
        · show NoMax s.log (.tx _ :: s1.log)
          rw [h]; exact noMax_tx _ _

theorem runCmd_noMax (F : Framing σ) (s s1 : State σ) (m : Nat) (c : Cmd) (h : s1.log = s.log) :
    NoMax s.log (runCmd F s1 m c).log := by
  unfold runCmd
  split
  · exact startRequest_noMax F s s1 m _ h
  · show NoMax s.log (.fin .shutdown s1.now :: s1.log)
    rw [h]; exact noMax_fin _ _ _ (by intro n hk; cases hk)
  · simp only []
    split
    · rw [log_applySetting, h]; exact noMax_refl _
    · show NoMax s.log (.fin .disabled _ :: (applySetting s1 _).log)
      rw [log_applySetting, h]; exact noMax_fin _ _ _ (by intro n hk; cases hk)

theorem sessionRecv_noMax (F : Framing σ) (s s1 t : State σ) (m : Nat) (h : s1.log = s.log)
    (ht : sessionRecv F s1 m = some t) : NoMax s.log t.log := by
  unfold sessionRecv at ht
  split at ht
  · cases ht; exact runCmd_noMax F s _ m _ h
  · split at ht
    · cases ht
      show NoMax s.log (.fin .shutdown s1.now :: s1.log)
      rw [h]; exact noMax_fin _ _ _ (by intro n hk; cases hk)
    · cases ht

theorem idleReader_noMax (s s1 : State σ) (r : ReadRes) (h : s1.log = s.log) :
    NoMax s.log (idleReader s1 r).log := by
  unfold idleReader
  split
  · split
    · rename_i k hk
      show NoMax s.log (.fin k s1.now :: s1.log)
      rw [h]; exact noMax_fin _ _ _ (sessionEnd_ne_maxTo hk)
    · rw [h]; exact noMax_refl _
  · rw [h]; exact noMax_refl _

theorem tickIdle_noMax (F : Framing σ) (s t : State σ) (m : Nat)
    (ht : tickIdle F s m = some t) : NoMax s.log t.log := by
  unfold tickIdle at ht
  have hl : (pollReader F s m).2.log = s.log := rfl
  generalize pollReader F s m = pr at hl ht
  obtain ⟨r, s'⟩ := pr
  simp only [] at hl ht
  split at ht
  · split at ht
    · rename_i t' hs
      cases ht
      exact sessionRecv_noMax F s s' _ m hl hs
    · split at ht
      · cases ht; rw [hl]; exact noMax_refl _
      · cases ht
  · split at ht
    · split at ht
      · cases ht; exact idleReader_noMax s _ r hl
      · exact sessionRecv_noMax F s _ _ m (log_flip s) ht
    · cases ht; exact idleReader_noMax s s' r hl

theorem tickInflight_noMax (F : Framing σ) (s t : State σ) (m : Nat) (q : Req) (tx dl : Nat)
    (ht : tickInflight F s m q tx dl = some t) : NoMax s.log t.log := by
  cases tickInflight_fine F s t m q tx dl ht with
  | quiet hc =>
    have : t.log = s.log := congrArg Core.log hc
    rw [this]; exact noMax_refl _
  | timeout s1 hc _ h => rw [h]; exact finish_noMax s s1 m q _ (congrArg Core.log hc)
  | frame f s' s1 _ _ hc h => rw [h]; exact finish_noMax s s1 m q _ (congrArg Core.log hc)
  | readErr res s' s1 _ hc h => rw [h]; exact finish_noMax s s1 m q _ (congrArg Core.log hc)

theorem waitCmd_noMax (s s1 : State σ) (c : Cmd) (h : s1.log = s.log) :
    NoMax s.log (waitCmd s1 c).log := by
  unfold waitCmd
  split
  · show NoMax s.log (.done _ _ _ _ :: s1.log)
    rw [h]; exact noMax_done _ _ _ _ _
  · show NoMax s.log (.fin .shutdown s1.now :: s1.log)
    rw [h]; exact noMax_fin _ _ _ (by intro n hk; cases hk)
  · rw [log_applySetting, h]; exact noMax_refl _

theorem tickWait_noMax (s t : State σ) (ht : tickWait s = some t) : NoMax s.log t.log := by
  unfold tickWait at ht
  split at ht
  · cases ht; exact noMax_fin _ _ _ (by intro n hk; cases hk)
  · split at ht
    · cases ht; exact waitCmd_noMax s _ _ rfl
    · split at ht
      · cases ht; exact noMax_fin _ _ _ (by intro n hk; cases hk)
      · cases ht

theorem failCmd_noMax (s s1 : State σ) (c : Cmd) (h : s1.log = s.log) :
    NoMax s.log (failCmd s1 c).log := by
  unfold failCmd
  split
  · show NoMax s.log (.done _ _ _ _ :: s1.log)
    rw [h]; exact noMax_done _ _ _ _ _
  · show NoMax s.log (.fin .shutdown s1.now :: s1.log)
    rw [h]; exact noMax_fin _ _ _ (by intro n hk; cases hk)
  · simp only []
    split
    · rw [log_applySetting, h]; exact noMax_refl _
    · show NoMax s.log (.fin .disabled _ :: (applySetting s1 _).log)
      rw [log_applySetting, h]; exact noMax_fin _ _ _ (by intro n hk; cases hk)

theorem tickFail_noMax (s t : State σ) (dl : Nat) (b : Bool) (ht : tickFail s dl b = some t) :
    NoMax s.log t.log := by
  unfold tickFail at ht
  simp only [] at ht
  split at ht
  · split at ht
    · split at ht
      · cases ht
        show NoMax s.log (.fin .elapsed _ :: (flip s).2.log)
        rw [log_flip]; exact noMax_fin _ _ _ (by intro n hk; cases hk)
      · cases ht
        show NoMax s.log (flip s).2.log
        rw [log_flip]; exact noMax_refl _
    · cases ht; exact noMax_fin _ _ _ (by intro n hk; cases hk)
  · split at ht
    · cases ht; exact failCmd_noMax s _ _ rfl
    · split at ht
      · cases ht; exact noMax_fin _ _ _ (by intro n hk; cases hk)
      · split at ht
        · cases ht; exact noMax_fin _ _ _ (by intro n hk; cases hk)
        · cases ht

theorem startPhase_noMax (F : Framing σ) (s t : State σ) (ht : startPhase F s = some t) :
    NoMax s.log t.log := by
  unfold startPhase at ht
  split at ht
  · cases ht
  · cases ht; exact noMax_refl _
  · cases ht; exact noMax_refl _
  · cases ht; exact noMax_refl _

/-- a tick never just pushes `.fin (.maxTo _)` on the log: `MaxTimeouts` is only logged together
    with the timeout completion that reaches the limit -/
theorem tick_noMax (F : Framing σ) (s t : State σ) (ht : tick F s = some t) :
    NoMax s.log t.log := by
  unfold tick at ht
  split at ht
  · cases ht
  · split at ht
    · exact startPhase_noMax F s t ht
    · exact tickIdle_noMax F s t _ ht
    · exact tickInflight_noMax F s t _ _ _ _ ht
    · exact tickWait_noMax s t ht
    · exact tickFail_noMax s t _ _ ht

end

/-! ### the finer effect relation and its closure -/

/-- `TEff` together with the fact about `MaxTimeouts` that `TEff.phaseEnd` leaves open -/
def TEffS (c c' : Core) : Prop := TEff c c' ∧ NoMax c.log c'.log

abbrev TStepsS := Star TEffS

section
variable {σ : Type}

theorem tick_effS (F : Framing σ) (s t : State σ) (h : tick F s = some t) :
    TEffS (core s) (core t) := ⟨tick_eff F s t h, tick_noMax F s t h⟩

theorem moveClock_effS (s : State σ) (target : Nat) : TEffS (core s) (core (moveClock s target)) :=
  ⟨moveClock_eff s target, noMax_refl _⟩

theorem settle_stepsS (F : Framing σ) (fuel : Nat) (s : State σ) :
    TStepsS (core s) (core (settle F fuel s)) := by
  induction fuel generalizing s with
  | zero => exact .refl _
  | succ n ih =>
    unfold settle
    split
    · split
      · exact .refl _
      · exact ih { s with held := 0 }
    · rename_i t ht
      exact (Star.single (tick_effS F s t ht)).trans (ih t)

theorem advance_stepsS (F : Framing σ) (fuel target : Nat) (s : State σ) :
    TStepsS (core s) (core (advance F fuel target s)) := by
  induction fuel generalizing s with
  | zero => exact .single (moveClock_effS s target)
  | succ n ih =>
    unfold advance
    split
    · split
      · exact ((Star.single (moveClock_effS s _)).trans (settle_stepsS F _ _)).trans (ih _)
      · exact .single (moveClock_effS s target)
    · exact .single (moveClock_effS s target)

end

/-! ### the log only grows -/

theorem afterCore_cases (c : Core) (m : Nat) (res : Res) :
    (∃ k, res.sessionEnd = some k
        ∧ afterCore c m res = { c with log := .fin k c.now :: c.log, pos := .noPhase })
      ∨ (res = .timeout ∧ c.maxTo = 0 ∧ afterCore c m res = { c with pos := .idle m })
      ∨ (res = .timeout ∧ c.maxTo ≠ 0 ∧ c.maxTo ≤ c.nto + 1
          ∧ afterCore c m res = { c with nto := c.nto + 1,
                                         log := .fin (.maxTo c.maxTo) c.now :: c.log,
                                         pos := .noPhase })
      ∨ (res = .timeout ∧ c.maxTo ≠ 0 ∧ c.nto + 1 < c.maxTo
          ∧ afterCore c m res = { c with nto := c.nto + 1, pos := .idle m })
      ∨ (res.sessionEnd = none ∧ res ≠ .timeout
          ∧ afterCore c m res = { c with nto := 0, pos := .idle m }) := by
  unfold afterCore
  split
  · rename_i k hk; exact Or.inl ⟨k, hk, rfl⟩
  · rename_i hk
    split
    · rename_i ht
      split
      · rename_i h0; exact Or.inr (Or.inl ⟨ht, h0, rfl⟩)
      · rename_i h0
        split
        · rename_i h1; exact Or.inr (Or.inr (Or.inl ⟨ht, h0, h1, rfl⟩))
        · rename_i h1
          exact Or.inr (Or.inr (Or.inr (Or.inl ⟨ht, h0, by omega, rfl⟩)))
    · rename_i ht
      exact Or.inr (Or.inr (Or.inr (Or.inr ⟨hk, ht, rfl⟩)))

theorem afterCore_log_ext (c : Core) (m : Nat) (res : Res) :
    ∃ new, (afterCore c m res).log = new ++ c.log := by
  rcases afterCore_log c m res with ⟨h, _⟩ | ⟨k, h, _⟩
  · exact ⟨[], by rw [h]; rfl⟩
  · exact ⟨[.fin k c.now], by rw [h]; rfl⟩

theorem teff_log_ext {c c' : Core} (t : TEff c c') : ∃ new, c'.log = new ++ c.log := by
  cases t with
  | phaseEnd k ha hi hn => exact ⟨[_], rfl⟩
  | phaseEndCmd k x q ha hi hn hq hx => exact ⟨[_], rfl⟩
  | noConn r q ha hp hq => exact ⟨[_], rfl⟩
  | send m r q bytes logged ha hp hq =>
    cases logged
    · exact ⟨[], rfl⟩
    · exact ⟨[_], rfl⟩
  | dequeueFail m r q res ha hp hq hres =>
    obtain ⟨new, h⟩ := afterCore_log_ext
      { c with queue := q, tx := nextTx c.tx, dequeued := (r.rid, c.tx) :: c.dequeued,
               log := doneEntry c r res :: c.log } m res
    exact ⟨new ++ [doneEntry c r res], by rw [h]; simp⟩
  | finish m r tx dl res ha hp ht h3 h4 =>
    obtain ⟨new, h⟩ := afterCore_log_ext { c with log := doneEntry c r res :: c.log } m res
    exact ⟨new ++ [doneEntry c r res], by rw [h]; simp⟩
  | _ => exact ⟨[], rfl⟩

theorem tsteps_log_ext {c c' : Core} (h : TSteps c c') : ∃ new, c'.log = new ++ c.log := by
  induction h with
  | refl => exact ⟨[], rfl⟩
  | tail _ e ih =>
    obtain ⟨n1, h1⟩ := ih
    obtain ⟨n2, h2⟩ := teff_log_ext e
    exact ⟨n2 ++ n1, by rw [h2, h1]; simp⟩

/-- the entries of `new` that are not in its suffix `old` (newest first) -/
def logSince (old new : List LogEntry) : List LogEntry := new.take (new.length - old.length)

theorem logSince_append (new old : List LogEntry) : logSince old (new ++ old) = new := by
  unfold logSince
  simp

/-! ### phases of a task log -/

/-- a task log (newest entry first) split at its `.fin` entries: the outcomes of the completions
    of the phase that is still running (oldest first), and the finished phases (newest first),
    each with its end kind, its end time and its outcomes (oldest first) -/
def phasesOf : List LogEntry → List Res × List (EndKind × Nat × List Res)
  | [] => ([], [])
  | .done _ _ res _ :: L => ((phasesOf L).1 ++ [res], (phasesOf L).2)
  | .fin k t :: L => ([], (k, t, (phasesOf L).1) :: (phasesOf L).2)
  | .sub _ _ :: L => phasesOf L
  | .cmdErr _ :: L => phasesOf L
  | .tx _ :: L => phasesOf L

@[simp] theorem phasesOf_done (rid : Rid) (st : Style) (res : Res) (t : Nat) (L : List LogEntry) :
    phasesOf (.done rid st res t :: L) = ((phasesOf L).1 ++ [res], (phasesOf L).2) := rfl

@[simp] theorem phasesOf_fin (k : EndKind) (t : Nat) (L : List LogEntry) :
    phasesOf (.fin k t :: L) = ([], (k, t, (phasesOf L).1) :: (phasesOf L).2) := rfl

@[simp] theorem phasesOf_tx (b : Bytes) (L : List LogEntry) : phasesOf (.tx b :: L) = phasesOf L :=
  rfl

/-- the phase that ends with the entry `.fin k t` of a log is listed with the outcomes logged
    between the previous `.fin` (or the beginning) and that entry -/
theorem phasesOf_split (post older : List LogEntry) (k : EndKind) (t : Nat) :
    (k, t, (phasesOf older).1) ∈ (phasesOf (post ++ .fin k t :: older)).2 := by
  induction post with
  | nil => simp
  | cons e post ih =>
    cases e <;> simp [phasesOf, ih]

/-- how a phase may end, given the outcomes `outs` of its requests and the limit `N`
    (`0` = no limit): it ends with `MaxTimeouts` iff the last `N ≥ 1` outcomes are timeouts, the
    number reported is `N`, and at no earlier point of the phase were the last `N` outcomes
    timeouts -/
def FinOK (N : Nat) (k : EndKind) (outs : List Res) : Prop :=
  ((∃ n, k = .maxTo n) ↔ (1 ≤ N ∧ N ≤ trailing outs))
    ∧ (∀ n, k = .maxTo n → n = N)
    ∧ (1 ≤ N → ∀ j, j < outs.length → trailing (outs.take j) < N)

theorem hit_of_trailing {N : Nat} {rs : List Res} (h : N ≤ trailing rs) : Hit N rs :=
  ⟨rs.length, Nat.le_refl _, by rwa [List.take_length]⟩

theorem close_ok {N : Nat} {k : EndKind} {outs : List Res} (hk : ∀ n, k ≠ .maxTo n)
    (hno : 1 ≤ N → ¬ Hit N outs) : FinOK N k outs := by
  refine ⟨⟨fun ⟨n, h⟩ => absurd h (hk n), fun ⟨h1, h2⟩ => absurd (hit_of_trailing h2) (hno h1)⟩,
    fun n h => absurd h (hk n), ?_⟩
  intro h1 j hj
  apply Nat.lt_of_not_le
  intro hle
  exact hno h1 ⟨j, by omega, hle⟩

theorem close_max {N : Nat} {cur : List Res} (hN : 1 ≤ N) (hno : ¬ Hit N cur)
    (hnto : N ≤ trailing cur + 1) : FinOK N (.maxTo N) (cur ++ [.timeout]) := by
  refine ⟨⟨fun _ => ⟨hN, by rw [trailing_snoc]; simpa using hnto⟩, fun _ => ⟨N, rfl⟩⟩, ?_, ?_⟩
  · intro n h; cases h; rfl
  · intro _ j hj
    have hj' : j ≤ cur.length := by simp at hj; omega
    rw [List.take_append_of_le_length hj']
    apply Nat.lt_of_not_le
    intro hle
    exact hno ⟨j, hj', hle⟩

theorem nohit_snoc_other {N : Nat} {cur : List Res} {res : Res} (hN : 1 ≤ N)
    (hr : res ≠ .timeout) (hno : ¬ Hit N cur) : ¬ Hit N (cur ++ [res]) := by
  rw [hit_snoc, trailing_snoc, if_neg hr]
  rintro (h | h)
  · exact hno h
  · omega

theorem nohit_snoc_timeout {N : Nat} {cur : List Res} (hno : ¬ Hit N cur)
    (hlt : trailing cur + 1 < N) : ¬ Hit N (cur ++ [.timeout]) := by
  rw [hit_snoc, trailing_snoc, if_pos rfl]
  rintro (h | h)
  · exact hno h
  · omega

theorem nohit_nil {N : Nat} (hN : 1 ≤ N) : ¬ Hit N [] := by
  rintro ⟨j, hj, h⟩
  simp at hj; subst hj
  simp [trailing_nil] at h; omega

/-! ### the invariant -/

/-- what the position of the task says about the outcomes of the running phase -/
def PosOK (N : Nat) (p : Pos) (nto : Nat) (cur : List Res) : Prop :=
  match p with
  | .noPhase => cur = []
  | .idle _ => 1 ≤ N → nto = trailing cur
  | .inflight _ _ _ _ => 1 ≤ N → nto = trailing cur
  | .waitEnabled => True
  | .failFor _ _ => True

/-- the counter of the abstract state `c` and the task log `L` -/
structure SessInv (N : Nat) (c : Core) (L : List LogEntry) : Prop where
  maxTo : c.maxTo = N
  closed : ∀ x ∈ (phasesOf L).2, FinOK N x.1 x.2.2
  noHit : 1 ≤ N → ¬ Hit N (phasesOf L).1
  pos : c.alive = true → PosOK N c.pos c.nto (phasesOf L).1

theorem sessInv_init (N : Nat) : SessInv N (Core.init N) [] :=
  ⟨rfl, by simp [phasesOf], fun h => nohit_nil h, fun _ => rfl⟩

/-- the request taken from the queue, or in flight, has finished with `res`: the bookkeeping of
    `afterCore` keeps the invariant; `c0` is the state with the completion logged -/
theorem sessInv_after (N : Nat) (c0 : Core) (L : List LogEntry) (m : Nat) (rid : Rid) (st : Style)
    (res : Res) (tm : Nat) (hm : c0.maxTo = N)
    (hcl : ∀ x ∈ (phasesOf L).2, FinOK N x.1 x.2.2) (hno : 1 ≤ N → ¬ Hit N (phasesOf L).1)
    (hnto : 1 ≤ N → c0.nto = trailing (phasesOf L).1) :
    ∃ new, (afterCore c0 m res).log = new ++ c0.log
      ∧ SessInv N (afterCore c0 m res) (new ++ .done rid st res tm :: L) := by
  rcases afterCore_cases c0 m res with ⟨k, hk, he⟩ | ⟨ht, h0, he⟩ | ⟨ht, h0, h1, he⟩
      | ⟨ht, h0, h1, he⟩ | ⟨hk, ht, he⟩
  · -- a session-ending error
    have hnt : res ≠ .timeout := by intro h; subst h; cases hk
    refine ⟨[.fin k c0.now], by rw [he]; rfl, ?_⟩
    rw [he]
    refine ⟨hm, ?_, fun h => by simpa using nohit_nil h, fun _ => by simp [PosOK]⟩
    intro x hx
    simp only [List.cons_append, List.nil_append, phasesOf_fin, phasesOf_done, List.mem_cons] at hx
    rcases hx with rfl | hx
    · exact close_ok (sessionEnd_ne_maxTo hk) (fun h => nohit_snoc_other h hnt (hno h))
    · exact hcl x hx
  · -- a timeout without limit
    subst ht
    refine ⟨[], by rw [he]; rfl, ?_⟩
    rw [he]
    have hN : ¬ 1 ≤ N := by omega
    refine ⟨hm, by simpa using hcl, fun h => absurd h hN, fun _ => ?_⟩
    simp only [PosOK]
    intro h; exact absurd h hN
  · -- the timeout that reaches the limit
    subst ht
    have hN : 1 ≤ N := by omega
    refine ⟨[.fin (.maxTo c0.maxTo) c0.now], by rw [he]; rfl, ?_⟩
    rw [he]
    refine ⟨hm, ?_, fun h => by simpa using nohit_nil h, fun _ => by simp [PosOK]⟩
    intro x hx
    simp only [List.cons_append, List.nil_append, phasesOf_fin, phasesOf_done, List.mem_cons] at hx
    rcases hx with rfl | hx
    · show FinOK N (.maxTo c0.maxTo) _
      rw [hm]
      exact close_max hN (hno hN) (by have := hnto hN; omega)
    · exact hcl x hx
  · -- a timeout below the limit
    subst ht
    have hN : 1 ≤ N := by omega
    refine ⟨[], by rw [he]; rfl, ?_⟩
    rw [he]
    have hn := hnto hN
    refine ⟨hm, by simpa using hcl, fun _ => ?_, fun _ => ?_⟩
    · simp only [List.nil_append, phasesOf_done]
      exact nohit_snoc_timeout (hno hN) (by omega)
    · simp only [PosOK, List.nil_append, phasesOf_done]
      intro _
      rw [trailing_snoc, if_pos rfl]; omega
  · -- any other outcome restarts the count
    refine ⟨[], by rw [he]; rfl, ?_⟩
    rw [he]
    refine ⟨hm, by simpa using hcl, fun h => ?_, fun _ => ?_⟩
    · simp only [List.nil_append, phasesOf_done]
      exact nohit_snoc_other h ht (hno h)
    · simp only [PosOK, List.nil_append, phasesOf_done]
      intro _
      rw [trailing_snoc, if_neg ht]

theorem sessInv_teffS (N : Nat) (c c' : Core) (L : List LogEntry) (h : SessInv N c L)
    (e : TEffS c c') : ∃ new, c'.log = new ++ c.log ∧ SessInv N c' (new ++ L) := by
  obtain ⟨hm, hcl, hno, hpos⟩ := h
  obtain ⟨t, hmax⟩ := e
  -- a phase ends without a completion
  have phaseEnd : ∀ (k : EndKind) (q : List Cmd), (∀ n, k ≠ .maxTo n) → c.alive = true →
      SessInv N { c with pos := .noPhase, log := .fin k c.now :: c.log, queue := q }
        ([.fin k c.now] ++ L) := by
    intro k q hk ha
    refine ⟨hm, ?_, fun h => by simpa using nohit_nil h, fun _ => by simp [PosOK]⟩
    intro x hx
    simp only [List.cons_append, List.nil_append, phasesOf_fin, List.mem_cons] at hx
    rcases hx with rfl | hx
    · exact close_ok hk hno
    · exact hcl x hx
  cases t with
  | quiet => exact ⟨[], rfl, hm, hcl, hno, hpos⟩
  | commit dl ha hp => exact ⟨[], rfl, hm, hcl, hno, fun _ => by simp [PosOK]⟩
  | startSession m ha hp =>
    have hcur := hpos ha
    rw [hp] at hcur
    simp only [PosOK] at hcur
    refine ⟨[], rfl, hm, hcl, hno, fun _ => ?_⟩
    simp only [PosOK, List.nil_append, hcur, trailing_nil]
    intro _; trivial
  | startWait ha hp => exact ⟨[], rfl, hm, hcl, hno, fun _ => by simp [PosOK]⟩
  | startFail ms ha hp => exact ⟨[], rfl, hm, hcl, hno, fun _ => by simp [PosOK]⟩
  | phaseEnd k ha hi hn =>
    refine ⟨[.fin k c.now], rfl, phaseEnd k c.queue ?_ ha⟩
    intro n hk; subst hk; exact hmax n c.now rfl
  | phaseEndCmd k x q ha hi hn hq hx =>
    refine ⟨[.fin k c.now], rfl, phaseEnd k q ?_ ha⟩
    intro n hk; subst hk; exact hmax n c.now rfl
  | setting x q ha hi hn hq hx => exact ⟨[], rfl, hm, hcl, hno, hpos⟩
  | noConn r q ha hp hq =>
    refine ⟨[doneEntry c r .noConn], rfl, hm, by simpa [doneEntry] using hcl, fun h => ?_, fun _ => ?_⟩
    · simp only [doneEntry, List.cons_append, List.nil_append, phasesOf_done]
      exact nohit_snoc_other h (by simp) (hno h)
    · rcases hp with hp | ⟨dl, b, hp⟩ <;> simp [PosOK, hp]
  | send m r q bytes logged ha hp hq =>
    have hcur := hpos ha
    rw [hp] at hcur
    cases logged
    · exact ⟨[], rfl, hm, hcl, hno, fun _ => hcur⟩
    · exact ⟨[.tx bytes], rfl, hm, by simpa using hcl, by simpa using hno,
        fun _ => by simpa [PosOK] using hcur⟩
  | dequeueFail m r q res ha hp hq hres =>
    have hcur := hpos ha
    rw [hp] at hcur
    obtain ⟨new, h1, h2⟩ := sessInv_after N
      { c with queue := q, tx := nextTx c.tx, dequeued := (r.rid, c.tx) :: c.dequeued,
               log := doneEntry c r res :: c.log } L m r.rid r.style res c.now hm hcl hno hcur
    exact ⟨new ++ [doneEntry c r res], by rw [h1]; simp, by simpa [doneEntry] using h2⟩
  | finish m r tx dl res ha hp ht h3 h4 =>
    have hcur := hpos ha
    rw [hp] at hcur
    obtain ⟨new, h1, h2⟩ := sessInv_after N { c with log := doneEntry c r res :: c.log } L m
      r.rid r.style res c.now hm hcl hno hcur
    exact ⟨new ++ [doneEntry c r res], by rw [h1]; simp, by simpa [doneEntry] using h2⟩
  | time t ht1 ht2 => exact ⟨[], rfl, hm, hcl, hno, hpos⟩

theorem sessInv_tstepsS (N : Nat) (c c' : Core) (L : List LogEntry) (h : SessInv N c L)
    (e : TStepsS c c') : ∃ new, c'.log = new ++ c.log ∧ SessInv N c' (new ++ L) := by
  induction e with
  | refl => exact ⟨[], rfl, h⟩
  | tail _ e ih =>
    obtain ⟨n1, h1, i1⟩ := ih
    obtain ⟨n2, h2, i2⟩ := sessInv_teffS N _ _ _ i1 e
    exact ⟨n2 ++ n1, by rw [h2, h1]; simp, by simpa using i2⟩

theorem sessInv_ueff (N : Nat) (c c' : Core) (L : List LogEntry) (h : SessInv N c L)
    (e : UEff c c') : SessInv N c' L := by
  obtain ⟨hm, hcl, hno, hpos⟩ := h
  cases e with
  | abort ha => exact ⟨hm, hcl, hno, fun h => by simp at h⟩
  | _ => exact ⟨hm, hcl, hno, hpos⟩

/-! ### the task log of a run -/

section
variable {σ : Type}

/-- the state from which the tasks run in a script step: the step's own effect has been applied -/
def stepBase (s : State σ) : Step → State σ
  | .advance _ => s
  | st => applyStep s st

/-- what the TASK logged while the script `steps` ran from `s` (newest first): per step, the
    entries added to the log while the tasks ran (`settle` / `advance`), i.e. after the step's own
    effect (`applyStep`: refused submissions, immediate completions, the completions of `abort`) -/
def taskLog (F : Framing σ) (s : State σ) : List Step → List LogEntry
  | [] => []
  | st :: rest =>
    taskLog F (stepState F s st) rest ++ logSince (stepBase s st).log (stepState F s st).log

theorem settled_sessInv (F : Framing σ) (N : Nat) (x : State σ) (L : List LogEntry)
    (h : SessInv N (core x) L) :
    SessInv N (core (settled F x)) (logSince x.log (settled F x).log ++ L) := by
  obtain ⟨new, h1, h2⟩ := sessInv_tstepsS N _ _ L h (settle_stepsS F (settleFuel x) x)
  have h1' : (settled F x).log = new ++ x.log := h1
  rw [h1', logSince_append]; exact h2

theorem stepState_sessInv (F : Framing σ) (N : Nat) (s : State σ) (st : Step) (L : List LogEntry)
    (h : SessInv N (core s) L) :
    SessInv N (core (stepState F s st)) (logSince (stepBase s st).log (stepState F s st).log ++ L) := by
  cases st with
  | advance ms =>
    obtain ⟨new, h1, h2⟩ := sessInv_tstepsS N _ _ L h (advance_stepsS F (advanceFuel s) (s.now + ms) s)
    have h1' : (stepState F s (.advance ms)).log = new ++ s.log := h1
    show SessInv N _ (logSince s.log _ ++ L)
    rw [h1', logSince_append]; exact h2
  | _ =>
    all_goals
      exact settled_sessInv F N _ L (sessInv_ueff N _ _ L h (applyStep_eff s _))

theorem runState_sessInv (F : Framing σ) (N : Nat) (s : State σ) (steps : List Step)
    (L : List LogEntry) (h : SessInv N (core s) L) :
    SessInv N (core (runState F s steps)) (taskLog F s steps ++ L) := by
  induction steps generalizing s L with
  | nil => exact h
  | cons st rest ih =>
    have := ih (stepState F s st) _ (stepState_sessInv F N s st L h)
    simpa [taskLog, runState] using this

end

end Rodbus.Client
