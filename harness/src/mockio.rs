//! Scripted in-memory transport: the harness decides what each `read` sees.
use std::collections::VecDeque;
use std::io::ErrorKind;
use std::pin::Pin;
use std::sync::{Arc, Mutex};
use std::task::{Context, Poll, Waker};
use tokio::io::{AsyncRead, AsyncWrite, ReadBuf};

pub enum Rx {
    Data(Vec<u8>),
    Err(ErrorKind),
    Eof,
}

#[derive(Default)]
pub struct Shared {
    rx: VecDeque<Rx>,
    rx_waker: Option<Waker>,
    /// every successful write, in order
    pub writes: Vec<Vec<u8>>,
    /// if set, the next write fails with this error (once)
    pub write_err: Option<ErrorKind>,
    /// if set: the number of writes still accepted; the one after them fails (once) with BrokenPipe
    pub writes_left: Option<usize>,
    /// kind of the error of `writes_left` (default BrokenPipe)
    pub writes_left_kind: Option<ErrorKind>,
    /// number of read polls that found nothing (task is parked on read)
    pub parked: bool,
    pub dropped: bool,
}

pub struct MockIo(Arc<Mutex<Shared>>);

#[derive(Clone)]
pub struct Handle(Arc<Mutex<Shared>>);

pub fn mock() -> (MockIo, Handle) {
    let s = Arc::new(Mutex::new(Shared::default()));
    (MockIo(s.clone()), Handle(s))
}

impl Drop for MockIo {
    fn drop(&mut self) {
        self.0.lock().unwrap().dropped = true;
    }
}

impl Handle {
    pub fn push(&self, item: Rx) {
        let mut s = self.0.lock().unwrap();
        s.rx.push_back(item);
        s.parked = false;
        if let Some(w) = s.rx_waker.take() {
            w.wake();
        }
    }
    pub fn fail_next_write(&self, kind: ErrorKind) {
        self.0.lock().unwrap().write_err = Some(kind);
    }
    /// the transport accepts `n` more writes and fails the next one with BrokenPipe
    pub fn fail_write_after(&self, n: usize, kind: ErrorKind) {
        let mut s = self.0.lock().unwrap();
        s.writes_left = Some(n);
        s.writes_left_kind = Some(kind);
    }
    /// true when the consumer has drained the queue and is parked on a read
    pub fn idle(&self) -> bool {
        let s = self.0.lock().unwrap();
        s.rx.is_empty() && s.parked
    }
    pub fn pending_rx(&self) -> bool {
        !self.0.lock().unwrap().rx.is_empty()
    }
    /// bytes pushed but not yet read by the consumer
    pub fn pending_bytes(&self) -> usize {
        self.0.lock().unwrap().rx.iter().map(|x| if let Rx::Data(v) = x { v.len() } else { 0 }).sum()
    }
    pub fn take_writes(&self) -> Vec<Vec<u8>> {
        std::mem::take(&mut self.0.lock().unwrap().writes)
    }
    pub fn dropped(&self) -> bool {
        self.0.lock().unwrap().dropped
    }
}

impl AsyncRead for MockIo {
    fn poll_read(
        self: Pin<&mut Self>,
        cx: &mut Context<'_>,
        buf: &mut ReadBuf<'_>,
    ) -> Poll<std::io::Result<()>> {
        let mut s = self.0.lock().unwrap();
        match s.rx.pop_front() {
            None => {
                s.rx_waker = Some(cx.waker().clone());
                s.parked = true;
                Poll::Pending
            }
            Some(Rx::Data(mut v)) => {
                let n = std::cmp::min(buf.remaining(), v.len());
                buf.put_slice(&v[..n]);
                if n < v.len() {
                    let rest = v.split_off(n);
                    s.rx.push_front(Rx::Data(rest));
                }
                Poll::Ready(Ok(()))
            }
            Some(Rx::Err(k)) => Poll::Ready(Err(std::io::Error::from(k))),
            Some(Rx::Eof) => {
                s.rx.push_front(Rx::Eof);
                Poll::Ready(Ok(()))
            }
        }
    }
}

impl AsyncWrite for MockIo {
    fn poll_write(
        self: Pin<&mut Self>,
        _cx: &mut Context<'_>,
        data: &[u8],
    ) -> Poll<std::io::Result<usize>> {
        let mut s = self.0.lock().unwrap();
        if let Some(k) = s.write_err.take() {
            return Poll::Ready(Err(std::io::Error::from(k)));
        }
        match s.writes_left {
            Some(0) => {
                s.writes_left = None;
                let kind = s.writes_left_kind.take().unwrap_or(ErrorKind::BrokenPipe);
                return Poll::Ready(Err(std::io::Error::from(kind)));
            }
            Some(n) => s.writes_left = Some(n - 1),
            None => {}
        }
        s.writes.push(data.to_vec());
        Poll::Ready(Ok(data.len()))
    }
    fn poll_flush(self: Pin<&mut Self>, _cx: &mut Context<'_>) -> Poll<std::io::Result<()>> {
        Poll::Ready(Ok(()))
    }
    fn poll_shutdown(self: Pin<&mut Self>, _cx: &mut Context<'_>) -> Poll<std::io::Result<()>> {
        Poll::Ready(Ok(()))
    }
}
