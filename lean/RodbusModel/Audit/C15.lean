import RodbusModel.Props.C15
#print axioms Rodbus.C15.sorted_drop_one
#print axioms Rodbus.C15.sorted_append_last
#print axioms Rodbus.C15.sorted_filter
#print axioms Rodbus.C15.new_inv
#print axioms Rodbus.C15.add_ids
#print axioms Rodbus.C15.add_inv
#print axioms Rodbus.C15.remove_inv
#print axioms Rodbus.C15.tracker_bound
#print axioms Rodbus.C15.evicts_oldest
#print axioms Rodbus.C15.remove_absent
#print axioms Rodbus.C15.fresh_id
