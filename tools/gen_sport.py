#!/usr/bin/env python3
"""Case generator of the `sport` suite (harness: `pty port`, Lean driver: `sport`): the life cycle
of the serial client channel task (`SerialChannelTask::run`) on a device path that the harness
makes appear and disappear.  Line format (PROTOCOL.md, section "pty port"):

    pty port r<min ms>.<max ms> <script>        script = `-` or steps joined by `,`
      f  the device path is absent from now on; a pending wait elapses (-> failed open attempt)
      o  the device path is present from now on; a pending wait elapses (-> successful open)
      x  the device disappears: path removed, an open port fails (-> Wait(min))
      E / D / S   enable / disable / shutdown through the channel handle
      X           every handle is dropped (-> Shutdown; later commands do nothing)
      ~<ms>       pause

The task starts disabled and the path absent.  Every case costs real time: the delays announced
before an `f` / `o` step that ends a wait are really waited, so delays are small and the number of
attempts of a script is bounded (`budget`).  Delays of 0 ms are never generated: a wait that is
over at once races with a queued command (`tokio::select!` takes either branch).

Conventions as in tools/gen.py: `r` is a `gen.Rng`, the generator yields case lines; the fixed
exhaustive part comes first, then `n` random scripts.
"""
import itertools

# letters of the exhaustive part: fail, open, lose the port, disable+enable with the path as it
# is, disable / path vanishes / enable (the sequence of the C14-m6 mutation after an `o`)
LETTERS = ["f", "o", "x", "D,E", "D,f,E"]
# all handles dropped in every phase (disabled, waiting, open; before / after a disable), followed
# by events that must not announce anything any more
DROP_PREFIXES = ["-", "E", "E,f", "E,f,f", "o,E", "o,E,x", "E,f,o", "o,E,D", "E,f,D", "o,E,D,E", "E,S", "o"]
DROP_SUFFIXES = ["", "E", "o,E,f", "x,f", "D,E", "S", "X,E"]
# cap reached at once and not a power-of-two multiple of min; cap never reached
PAIRS = [(20, 50), (15, 1000)]


def budget(mn, mx, steps, limit_ms=1200):
    """cuts a script before the step that would make the waited time exceed `limit_ms`.  Only the
    cost of a script is computed here (which announced delays are waited to their end), by
    following the task's phases; expected values come from the Lean model alone."""
    out, total = [], 0
    phase, present, k, pending = "idle", False, 0, 0

    def attempt():
        nonlocal phase, k, pending
        if present:
            phase, k = "open", 0
        else:
            phase, pending, k = "wait", min(mn * 2 ** k, mx), k + 1
    for s in steps:
        cost = pending if (s in ("f", "o") and phase == "wait") else int(s[1:]) if s[0] == "~" else 0
        if total + cost > limit_ms:
            break
        total += cost
        out.append(s)
        if s in ("f", "o"):
            present = s == "o"
            if phase == "wait":
                attempt()
        elif s == "x":
            present = False
            if phase == "open":
                phase, pending = "wait", mn
        elif s == "E":
            if phase == "idle":
                attempt()
        elif s == "D":
            if phase in ("wait", "open"):
                phase = "idle"
        elif s in ("S", "X"):
            phase = "fin"
    return out


def drop_cases():
    for mn, mx in PAIRS:
        for pre in DROP_PREFIXES:
            for suf in DROP_SUFFIXES:
                steps = ([] if pre == "-" else pre.split(",")) + ["X"] + (suf.split(",") if suf else [])
                yield f"pty port r{mn}.{mx} {','.join(steps)}"


def exhaustive(max_len):
    for mn, mx in PAIRS:
        for ln in range(0, max_len + 1):
            for combo in itertools.product(LETTERS, repeat=ln):
                yield f"pty port r{mn}.{mx} {','.join(combo) if combo else '-'}"


def random_script(r):
    ln = r.rng(5, 14)
    steps = []
    # most scripts enable the channel early
    if r.chance(1, 3):
        steps.append("o")
    if r.chance(7, 8):
        steps.append("E")
    while len(steps) < ln:
        k = r.below(100)
        if k < 34:
            steps.append("f")
        elif k < 56:
            steps.append("o")
        elif k < 68:
            steps.append("x")
        elif k < 80:
            steps.append("D")
        elif k < 93:
            steps.append("E")
        elif k < 97:
            steps.append(f"~{r.rng(3, 25)}")
        elif k < 98:
            steps.append("X" if r.chance(1, 3) else "S")
        else:
            # the mutation's shape, anywhere
            steps += ["o", "D", "f", "E", "f"]
    return steps


def gen_sport(r, n, tier):
    """serial client channel life cycle: announced PortState sequence for scripts of path / user /
    port events; exhaustive short scripts for two (min, max) pairs, then random longer ones"""
    for line in exhaustive(5 if tier == "thorough" else 4):
        yield line
    for line in drop_cases():
        yield line
    for _ in range(n):
        mn = r.pick([5, 10, 20, 30, 45, 60, r.rng(5, 60)])
        mx = r.pick([mn, 2 * mn, 3 * mn + 7, 8 * mn, 1000, max(5, mn // 2), 5, r.rng(5, 400)])
        steps = budget(mn, mx, random_script(r))
        yield f"pty port r{mn}.{mx} {','.join(steps) if steps else '-'}"


if __name__ == "__main__":
    import sys
    import gen
    seed, n = int(sys.argv[1]), int(sys.argv[2])
    tier = sys.argv[3] if len(sys.argv) > 3 else "quick"
    for line in gen_sport(gen.Rng(seed, "sport"), n, tier):
        print(line)
