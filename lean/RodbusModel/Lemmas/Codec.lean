import RodbusModel.Model.Codec
/-
  Helper lemmas about the codec layer (Model/Codec.lean): `Range.tryFrom`, bit packing and
  unpacking, register packing and unpacking.  Used by Lemmas/Server.lean and Props/C01, C02.
-/
namespace Rodbus

/-! ### `Range.tryFrom` -/

/-- `AddressRange::try_from` succeeds exactly for a non-empty range that ends at or before
    address 65535 (for a count that fits a u16) -/
theorem Range.tryFrom_ok_iff {s c : Nat} (hc : c ≤ 65536) (r : Range) :
    Range.tryFrom s c = .ok r ↔ c ≠ 0 ∧ s + c ≤ 65536 ∧ r = ⟨s, c⟩ := by
  unfold Range.tryFrom
  by_cases h0 : c = 0
  · simp [h0]
  · by_cases h1 : s > 65535 - (c - 1)
    · simp [h0, h1]; omega
    · simp only [h0, h1, if_false]
      constructor
      · intro h; injection h with h; exact ⟨fun h => h0 h, by omega, h.symm⟩
      · rintro ⟨_, _, rfl⟩; rfl

theorem Range.tryFrom_zero (s : Nat) : Range.tryFrom s 0 = .error .countOfZero := by
  simp [Range.tryFrom]

theorem Range.tryFrom_overflow {s c : Nat} (h0 : c ≠ 0) (hc : c ≤ 65536) (h : 65536 < s + c) :
    Range.tryFrom s c = .error .addressOverflow := by
  unfold Range.tryFrom
  have : s > 65535 - (c - 1) := by omega
  simp [h0, this]

/-- whatever the arguments, a range that `try_from` accepts is the pair it was given -/
theorem Range.tryFrom_ok_eq {s c : Nat} {r : Range} (h : Range.tryFrom s c = .ok r) :
    r = ⟨s, c⟩ ∧ c ≠ 0 := by
  unfold Range.tryFrom at h
  by_cases h0 : c = 0
  · simp [h0] at h
  · by_cases h1 : s > 65535 - (c - 1)
    · simp [h0, h1] at h
    · simp only [h0, h1, if_false] at h
      injection h with h; exact ⟨h.symm, h0⟩

/-- `try_from` followed by a limit check, as one arithmetic condition (no well-formedness needed
    when the limit itself fits a u16) -/
theorem Range.tryFrom_limited {s c limit : Nat} (hl : limit ≤ 65536) (r : Range) :
    (∃ r0, Range.tryFrom s c = .ok r0 ∧ r0.limitedCount limit = .ok r) ↔
      (1 ≤ c ∧ c ≤ limit ∧ s + c ≤ 65536 ∧ r = ⟨s, c⟩) := by
  constructor
  · rintro ⟨r0, h1, h2⟩
    obtain ⟨rfl, h0⟩ := Range.tryFrom_ok_eq h1
    unfold Range.limitedCount at h2
    split at h2
    · simp at h2
    · injection h2 with h2
      simp only at *
      have hc : c ≤ 65536 := by omega
      have := (Range.tryFrom_ok_iff hc _).1 h1
      exact ⟨by omega, by omega, this.2.1, h2.symm⟩
  · rintro ⟨h1, h2, h3, rfl⟩
    refine ⟨⟨s, c⟩, (Range.tryFrom_ok_iff (by omega) _).2 ⟨by omega, h3, rfl⟩, ?_⟩
    unfold Range.limitedCount
    have : ¬ c > limit := by omega
    simp [this]

theorem Range.addresses_length (r : Range) : r.addresses.length = r.count := by
  simp [Range.addresses]

/-! ### finite sums (used to connect the accumulator of `packByte` with closed formulas) -/

/-- `g 0 + g 1 + … + g (n-1)` -/
def sumTo (g : Nat → Nat) : Nat → Nat
  | 0 => 0
  | n + 1 => sumTo g n + g n

theorem sumTo_shift (g : Nat → Nat) (n : Nat) :
    sumTo g (n + 1) = g 0 + sumTo (fun k => g (k + 1)) n := by
  induction n with
  | zero => simp [sumTo]
  | succ n ih => rw [sumTo, ih]; simp [sumTo]; omega

theorem sumTo_congr {g h : Nat → Nat} {n : Nat} (H : ∀ k < n, g k = h k) :
    sumTo g n = sumTo h n := by
  induction n with
  | zero => rfl
  | succ n ih =>
    simp only [sumTo]
    rw [ih (fun k hk => H k (by omega)), H n (by omega)]

theorem sumTo_zero (n : Nat) : sumTo (fun _ => 0) n = 0 := by
  induction n with
  | zero => rfl
  | succ n ih => simp [sumTo, ih]

theorem sumTo_mul (c : Nat) (g : Nat → Nat) (n : Nat) :
    sumTo (fun k => c * g k) n = c * sumTo g n := by
  induction n with
  | zero => rfl
  | succ n ih => simp [sumTo, ih, Nat.mul_add]

theorem foldl_range_eq_sumTo (g : Nat → Nat) (n : Nat) :
    (List.range n).foldl (fun acc k => acc + g k) 0 = sumTo g n := by
  induction n with
  | zero => rfl
  | succ n ih => rw [List.range_succ, List.foldl_append, ih]; rfl

/-! ### `packByte` -/

/-- the accumulator byte as a sum of powers of two -/
theorem packByte_eq_sumTo (l : List Bool) (n : Nat) (h : l.length ≤ n) :
    packByte l = sumTo (fun k => if l.getD k false then 2 ^ k else 0) n := by
  induction l generalizing n with
  | nil => simp [packByte, sumTo_zero]
  | cons b bs ih =>
    obtain ⟨m, rfl⟩ : ∃ m, n = m + 1 := ⟨n - 1, by simp at h; omega⟩
    rw [sumTo_shift, packByte, ih m (by simpa using h), ← sumTo_mul]
    have e : sumTo (fun k => 2 * if bs.getD k false then 2 ^ k else 0) m
        = sumTo (fun k => if (b :: bs).getD (k + 1) false then 2 ^ (k + 1) else 0) m := by
      apply sumTo_congr; intro k _
      rw [List.getD_cons_succ]
      split <;> simp [Nat.pow_succ, Nat.mul_comm]
    rw [e]; simp

theorem packByte_lt (l : List Bool) : packByte l < 2 ^ l.length := by
  induction l with
  | nil => simp [packByte]
  | cons b bs ih =>
    simp only [packByte, List.length_cons, Nat.pow_succ]
    split <;> omega

/-- bit `k` of the accumulator byte is the `k`-th element, absent elements read as 0 -/
theorem packByte_bit (l : List Bool) (k : Nat) :
    (packByte l / 2 ^ k % 2 = 1) = (l.getD k false = true) := by
  induction l generalizing k with
  | nil => simp [packByte, Nat.zero_div]
  | cons b bs ih =>
    cases k with
    | zero => cases b <;> simp [packByte] <;> omega
    | succ k =>
      have : packByte (b :: bs) / 2 ^ (k + 1) = packByte bs / 2 ^ k := by
        rw [Nat.pow_succ, Nat.mul_comm, ← Nat.div_div_eq_div_mul]
        congr 1
        cases b <;> simp [packByte] <;> omega
      rw [this, ih k]; simp

/-! ### `packBits` -/

theorem packBits_nil : packBits [] = [] := by rw [packBits]; simp

theorem packBits_cons (b : Bool) (bs : List Bool) :
    packBits (b :: bs) = packByte ((b :: bs).take 8) :: packBits ((b :: bs).drop 8) := by
  rw [packBits]; simp

theorem packBits_ne_nil {bits : List Bool} (h : bits ≠ []) :
    packBits bits = packByte (bits.take 8) :: packBits (bits.drop 8) := by
  rw [packBits]; simp [h]

theorem numBytesForBits_step {n : Nat} (h : n ≠ 0) :
    numBytesForBits n = numBytesForBits (n - 8) + 1 := by
  unfold numBytesForBits; omega

/-- `num_bytes_for_bits` bytes are written for a list of bits -/
theorem packBits_length (bits : List Bool) :
    (packBits bits).length = numBytesForBits bits.length := by
  induction bits using packBits.induct with
  | case1 => simp [packBits_nil, numBytesForBits]
  | case2 bits h ih =>
    rw [packBits_ne_nil h, List.length_cons, ih, List.length_drop]
    have : bits.length ≠ 0 := by simpa using h
    rw [numBytesForBits_step this]

/-- byte `j` of the packed payload accumulates the bits `8j … 8j+7` -/
theorem packBits_getD (bits : List Bool) (j : Nat) :
    (packBits bits).getD j 0 = packByte ((bits.drop (8 * j)).take 8) := by
  induction j generalizing bits with
  | zero =>
    by_cases h : bits = []
    · subst h; simp [packBits_nil, packByte]
    · rw [packBits_ne_nil h]; simp
  | succ j ih =>
    by_cases h : bits = []
    · subst h; simp [packBits_nil, packByte]
    · rw [packBits_ne_nil h, List.getD_cons_succ, ih, List.drop_drop]
      congr 3; omega

/-- every packed byte is a byte -/
theorem packBits_wf (bits : List Bool) : Bytes.WF (packBits bits) := by
  induction bits using packBits.induct with
  | case1 => simp [packBits_nil, Bytes.WF]
  | case2 bits h ih =>
    rw [packBits_ne_nil h]
    refine Bytes.WF_cons.2 ⟨?_, ih⟩
    have h1 := packByte_lt (bits.take 8)
    have h2 : (bits.take 8).length ≤ 8 := by simp [List.length_take]; omega
    have : 2 ^ (bits.take 8).length ≤ 2 ^ 8 := Nat.pow_le_pow_right (by decide) h2
    omega

/-- reading bit `i` back (`BitIterator`) from a packed payload gives the `i`-th value; positions
    past the end (the zero padding of the last byte, and anything beyond) read as `false` -/
theorem bitAt_packBits (bits : List Bool) (i : Nat) :
    bitAt (packBits bits) i = bits.getD i false := by
  unfold bitAt
  simp only [packBits_getD, packByte_bit, Bool.decide_eq_true]
  have hm : i % 8 < 8 := Nat.mod_lt _ (by decide)
  have hi : 8 * (i / 8) + i % 8 = i := Nat.div_add_mod i 8
  simp only [List.getD_eq_getElem?_getD, List.getElem?_take, hm, if_true, List.getElem?_drop, hi]

/-- padding bits of the last byte are zero -/
theorem bitAt_packBits_padding (bits : List Bool) (i : Nat) (h : bits.length ≤ i) :
    bitAt (packBits bits) i = false := by
  rw [bitAt_packBits]; simp [List.getD_eq_getElem?_getD, List.getElem?_eq_none h]

theorem bitAt_packBits_lt (bits : List Bool) (i : Nat) (h : i < bits.length) :
    bitAt (packBits bits) i = bits[i] := by
  rw [bitAt_packBits]; simp [List.getD_eq_getElem?_getD, List.getElem?_eq_getElem h]

/-- `BitIterator` over a payload written by the bit serialiser returns the bits written -/
theorem unpackBits_packBits (bits : List Bool) : unpackBits (packBits bits) bits.length = bits := by
  apply List.ext_getElem
  · simp [unpackBits]
  · intro i h1 h2
    simp only [unpackBits, List.getElem_map, List.getElem_range]
    exact bitAt_packBits_lt bits i h2

/-! ### registers -/

theorem packRegs_nil : packRegs [] = [] := rfl

theorem packRegs_cons (v : Nat) (vs : List Nat) :
    packRegs (v :: vs) = v / 256 % 256 :: v % 256 :: packRegs vs := by
  simp [packRegs, u16be]

theorem packRegs_length (vs : List Nat) : (packRegs vs).length = 2 * vs.length := by
  induction vs with
  | nil => rfl
  | cons v vs ih => rw [packRegs_cons]; simp [ih]; omega

/-- register `i` occupies bytes `2i` (high) and `2i + 1` (low) of the payload -/
theorem packRegs_getD (vs : List Nat) (i : Nat) (h : i < vs.length) :
    (packRegs vs).getD (2 * i) 0 = vs[i] / 256 % 256 ∧ (packRegs vs).getD (2 * i + 1) 0 = vs[i] % 256 := by
  induction vs generalizing i with
  | nil => simp at h
  | cons v vs ih =>
    rw [packRegs_cons]
    cases i with
    | zero => simp
    | succ i =>
      have e1 : 2 * (i + 1) = (2 * i + 1) + 1 := by omega
      have e2 : 2 * (i + 1) + 1 = (2 * i + 1 + 1) + 1 := by omega
      have := ih i (by simpa using h)
      rw [e2, e1]
      simpa only [List.getD_cons_succ, List.getElem_cons_succ] using this

theorem packRegs_wf (vs : List Nat) : Bytes.WF (packRegs vs) := by
  induction vs with
  | nil => simp [packRegs_nil, Bytes.WF]
  | cons v vs ih =>
    rw [packRegs_cons]
    exact Bytes.WF_cons.2 ⟨by omega, Bytes.WF_cons.2 ⟨by omega, ih⟩⟩

/-- `RegisterIterator` over a payload written by the register serialiser returns the values
    written, provided they are u16 values -/
theorem unpackRegs_packRegs (vs : List Nat) (h : ∀ v ∈ vs, v < 65536) :
    unpackRegs (packRegs vs) = vs := by
  induction vs with
  | nil => rfl
  | cons v vs ih =>
    rw [packRegs_cons, unpackRegs, ih (fun x hx => h x (List.mem_cons_of_mem _ hx))]
    have := h v (List.mem_cons_self ..)
    rw [be16_u16be this]

theorem unpackRegs_length (bs : Bytes) : (unpackRegs bs).length = bs.length / 2 := by
  induction bs using unpackRegs.induct with
  | case1 hi lo rest ih => simp [unpackRegs, ih]; omega
  | case2 bs h =>
    match bs, h with
    | [], _ => simp [unpackRegs]
    | [_], _ => simp [unpackRegs]
    | a :: b :: t, h => exact absurd rfl (h a b t)

/-- the `i`-th register of the iterator is the big-endian u16 at byte offset `2i` -/
theorem unpackRegs_getElem (bs : Bytes) (i : Nat) (h : i < (unpackRegs bs).length) :
    (unpackRegs bs)[i] = bs.getD (2 * i) 0 * 256 + bs.getD (2 * i + 1) 0 := by
  induction bs using unpackRegs.induct generalizing i with
  | case1 hi lo rest ih =>
    cases i with
    | zero => simp [unpackRegs, be16]
    | succ i =>
      simp only [unpackRegs, List.getElem_cons_succ]
      rw [ih i (by simpa [unpackRegs] using h)]
      have e1 : 2 * (i + 1) = (2 * i + 1) + 1 := by omega
      simp only [e1, List.getD_cons_succ]
  | case2 bs hne =>
    rw [unpackRegs] at h
    · simp at h
    · exact hne

end Rodbus
