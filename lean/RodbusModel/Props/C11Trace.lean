import RodbusModel.Props.C11
import RodbusModel.Props.C04
import RodbusModel.Lemmas.ClientCause
import RodbusModel.Lemmas.ClientEnc
/-
  C11 / C04 at the level of whole RUNS: the cause of every completion.

  Props/C11 states `mismatch_discarded`, `idle_dropped` and `stale_frame_never_accepted` for ONE
  tick of the task, Props/C04 states what `handle_response` makes of a reply PDU.  Here the same
  is said about every script: for every state `s = runState F (State.init …) steps` and every
  completion in `s.log`.

  Vocabulary (Lemmas/ClientCause.lean):
    `runTrace F s steps`   the states in which the outer task was polled (a tick was taken) while
                           the script ran, in order; it follows `settle` / `advance` / `stepState`
                           / `runState` literally (`mem_runTrace` attributes every such state to
                           one step of the script)
    `TickCause F s0 e`     completion `e` is produced by the tick taken in `s0`, with the reason
    `Res.isReply`          the result is `Ok` / `Exception` / `BadResponse`
  The model has no ghost state: "the reader delivered frame `f` while `rid` was in flight" is
  `s0 ∈ runTrace …`, `s0.pos = .inflight m req tx dl`, `pollReader F s0 m = (.frame f, _)`.
-/
namespace Rodbus.Client

/-- `completion_cause`.  Every completion in the log of a run was produced by a script step itself
    (the API call refused the request or found the task gone: `bad request` / `shutdown`), or by a
    tick of the task in a state of the run, for one of the five reasons of `TickCause`
    (not connected / failed when taken from the queue / deadline reached / matching frame
    delivered / reader error). -/
theorem completion_cause {σ : Type} (F : Framing σ) (cap maxTo : Nat) (d : Decode)
    (coins : List Bool) (steps : List Step) (e : LogEntry) (he : e.isDone = true)
    (h : e ∈ (runState F (State.init F cap maxTo d coins) steps).log) :
    UserDone e ∨ ∃ s0 ∈ runTrace F (State.init F cap maxTo d coins) steps, TickCause F s0 e := by
  rcases runState_done_cause F _ steps e he h with h1 | h1
  · simp [State.init] at h1
  · exact h1

/-- `completion_caused_by_matching_frame` (CAUSALITY).  For every run and every completion
    `.done rid style res time` in its log whose result is derived from a reply (`Ok`, `Exception`,
    `BadResponse`): there is a state `s0` of the run in which request `req` with id `rid` was in
    flight with transaction id `tx` — the one it was written with, `(rid, tx, bytes) ∈ sent` — and
    in which the reader delivered a frame `f` whose transaction id matches `tx`; the completion was
    logged by the tick taken in `s0` (at `s0.now = time`), and its result is
    `handle_response` applied to the PDU of `f`. -/
theorem completion_caused_by_matching_frame {σ : Type} (F : Framing σ) (cap maxTo : Nat)
    (d : Decode) (coins : List Bool) (steps : List Step) (rid : Rid) (style : Style) (res : Res)
    (time : Nat) (hres : res.isReply = true)
    (h : LogEntry.done rid style res time
          ∈ (runState F (State.init F cap maxTo d coins) steps).log) :
    ∃ s0 ∈ runTrace F (State.init F cap maxTo d coins) steps,
    ∃ m req tx dl f s' bytes,
      s0.pos = .inflight m req tx dl ∧ req.rid = rid ∧ req.style = style ∧ s0.now = time
        ∧ pollReader F s0 m = (.frame f, s')
        ∧ txMatches f tx = true
        ∧ res = respResult req.req f.pdu
        ∧ (rid, tx, bytes) ∈ s0.sent
        ∧ (rid, tx, bytes) ∈ (runState F (State.init F cap maxTo d coins) steps).sent := by
  rcases completion_cause F cap maxTo d coins steps _ rfl h with h1 | ⟨s0, hs0, hc⟩
  · obtain ⟨_, _, res', _, he, hr⟩ := h1
    simp only [LogEntry.done.injEq] at he
    obtain ⟨_, _, rfl, _⟩ := he
    rcases hr with rfl | ⟨x, rfl⟩ <;> simp [Res.isReply] at hres
  · generalize he : LogEntry.done rid style res time = e at hc
    cases hc with
    | noConn r q ha hp hq =>
      simp only [LogEntry.done.injEq] at he
      obtain ⟨_, _, rfl, _⟩ := he
      simp [Res.isReply] at hres
    | dequeue m r q res' ha hp hq hr =>
      simp only [LogEntry.done.injEq] at he
      obtain ⟨_, _, rfl, _⟩ := he
      rw [dequeueRes_not_reply hr] at hres; cases hres
    | timeout m r tx dl ha hp hdl =>
      simp only [LogEntry.done.injEq] at he
      obtain ⟨_, _, rfl, _⟩ := he
      simp [Res.isReply] at hres
    | readErr m r tx dl res' s' ha hp hpr =>
      simp only [LogEntry.done.injEq] at he
      obtain ⟨_, _, rfl, _⟩ := he
      rw [readerErr_not_reply (pollReader_fail_kind F s0 s' m res hpr)] at hres; cases hres
    | frame m r tx dl f s' ha hp hpr hmt =>
      simp only [LogEntry.done.injEq] at he
      obtain ⟨rfl, rfl, rfl, rfl⟩ := he
      obtain ⟨hpath, t, ht, hrest⟩ := runTrace_mem F _ s0 steps hs0
      have hreach : Reach (core s0) :=
        reach_steps ⟨maxTo, by rw [← core_init F cap maxTo d coins]; exact .refl _⟩ hpath
      obtain ⟨bytes, hb⟩ := inflightSent_reach _ hreach m r tx dl hp
      have hb' : (r.rid, tx, bytes) ∈ (core t).sent := teff_sent_mono (tick_eff F s0 t ht) _ hb
      exact ⟨s0, hs0, m, r, tx, dl, f, s', bytes, hp, rfl, rfl, rfl, hpr, hmt, rfl, hb,
        steps_sent_mono hrest _ hb'⟩

/-- C11, `mismatch_discarded` for whole runs.  A frame whose transaction id differs from the id
    the request in flight was written with never becomes the result of ANY request: for every
    reply-derived completion of a run, the frame that caused it either carries no transaction id
    (RTU) or carries exactly the id `tx` of `(rid, tx, _) ∈ sent`, and it was delivered while `rid`
    was the request in flight. -/
theorem foreign_frame_never_result {σ : Type} (F : Framing σ) (cap maxTo : Nat) (d : Decode)
    (coins : List Bool) (steps : List Step) (rid : Rid) (style : Style) (res : Res) (time : Nat)
    (hres : res.isReply = true)
    (h : LogEntry.done rid style res time
          ∈ (runState F (State.init F cap maxTo d coins) steps).log) :
    ∃ s0 ∈ runTrace F (State.init F cap maxTo d coins) steps,
    ∃ m req tx dl f s' bytes,
      s0.pos = .inflight m req tx dl ∧ req.rid = rid
        ∧ (rid, tx, bytes) ∈ (runState F (State.init F cap maxTo d coins) steps).sent
        ∧ pollReader F s0 m = (.frame f, s')
        ∧ res = respResult req.req f.pdu
        ∧ ∀ t, f.tx = some t → t = tx := by
  obtain ⟨s0, hs0, m, req, tx, dl, f, s', bytes, h1, h2, _, _, h5, h6, h7, _, h9⟩ :=
    completion_caused_by_matching_frame F cap maxTo d coins steps rid style res time hres h
  refine ⟨s0, hs0, m, req, tx, dl, f, s', bytes, h1, h2, h9, h5, h7, ?_⟩
  intro t ht
  unfold txMatches at h6
  rw [ht] at h6
  simpa using h6

theorem nodup_map_inj {α β : Type} (f : α → β) (l : List α) (h : (l.map f).Nodup) :
    ∀ x ∈ l, ∀ y ∈ l, f x = f y → x = y := by
  induction l with
  | nil => intro x hx; cases hx
  | cons a l ih =>
    rw [List.map_cons, List.nodup_cons] at h
    intro x hx y hy hxy
    rcases List.mem_cons.mp hx with hxa | hxl <;> rcases List.mem_cons.mp hy with hya | hyl
    · rw [hxa, hya]
    · rw [hxa] at hxy
      exact absurd (show f a ∈ List.map f l from List.mem_map.mpr ⟨y, hyl, hxy.symm⟩) h.1
    · rw [hya] at hxy
      exact absurd (show f a ∈ List.map f l from List.mem_map.mpr ⟨x, hxl, hxy⟩) h.1
    · exact ih h.2 x hxl y hyl hxy

/-- "THE transaction id it was written with": when the request ids of the script are distinct, a
    request id occurs at most once in `sent`, so the `tx` (and frame) of
    `completion_caused_by_matching_frame` is the only one recorded for `rid`. -/
theorem written_txid_unique {σ : Type} (F : Framing σ) (cap maxTo : Nat) (d : Decode)
    (coins : List Bool) (steps : List Step) (hn : (scriptRids steps).Nodup) (rid : Rid)
    (tx tx' : Nat) (bytes bytes' : Bytes)
    (h1 : (rid, tx, bytes) ∈ (runState F (State.init F cap maxTo d coins) steps).sent)
    (h2 : (rid, tx', bytes') ∈ (runState F (State.init F cap maxTo d coins) steps).sent) :
    tx' = tx ∧ bytes' = bytes := by
  obtain ⟨f1, f2⟩ := fifo_order F cap maxTo d coins steps _ rfl
  have hacc := accepted_nodup F cap maxTo d coins steps hn
  have s1 := List.Sublist.map (fun x : Rid × Nat => x.1) f1
  rw [List.map_map] at s1
  have s2 : List.Sublist
      ((runState F (State.init F cap maxTo d coins) steps).sent.map fun x => x.1)
      (runState F (State.init F cap maxTo d coins) steps).accepted :=
    (s1.trans (List.sublist_append_right _ _)).trans f2
  have hnd := List.Nodup.sublist s2 hacc
  have := nodup_map_inj _ _ hnd _ h1 _ h2 rfl
  simp only [Prod.mk.injEq, true_and] at this
  exact ⟨this.1.symm, this.2.symm⟩

/-- C11, `idle_dropped` without the hypothesis `recvReady s = false`, for every state and every
    resolution of the polling order: a tick taken while NO request is in flight (idle session,
    `wait_for_enabled`, `fail_requests_for`, between phases) never completes a request with a
    reply-derived result — whatever the reader delivers in that tick. -/
theorem no_reply_completion_unless_inflight {σ : Type} (F : Framing σ) (s t : State σ)
    (hp : inflightIds s.pos = []) (h : tick F s = some t) (rid : Rid) (style : Style) (res : Res)
    (time : Nat) (hres : res.isReply = true) (hm : LogEntry.done rid style res time ∈ t.log) :
    LogEntry.done rid style res time ∈ s.log := by
  rcases tick_done_cause F s t h _ rfl hm with h1 | hc
  · exact h1
  · exfalso
    generalize he : LogEntry.done rid style res time = e at hc
    cases hc with
    | noConn r q ha hp' hq =>
      simp only [LogEntry.done.injEq] at he
      obtain ⟨_, _, rfl, _⟩ := he
      simp [Res.isReply] at hres
    | dequeue m r q res' ha hp' hq hr =>
      simp only [LogEntry.done.injEq] at he
      obtain ⟨_, _, rfl, _⟩ := he
      rw [dequeueRes_not_reply hr] at hres; cases hres
    | timeout m r tx dl ha hp' hdl => rw [hp'] at hp; simp [inflightIds] at hp
    | readErr m r tx dl res' s' ha hp' hpr => rw [hp'] at hp; simp [inflightIds] at hp
    | frame m r tx dl f s' ha hp' hpr hmt => rw [hp'] at hp; simp [inflightIds] at hp

/-- `idle_dropped` for both polling orders (no hypothesis on `recvReady`).  One turn of the idle
    loop that is handed a frame by the reader either consumes and drops it — nothing but the
    reader, the transport and the coins change: `core t = core s` — or, when `recv` was ready and
    `select!` polled it first (coin `false`), runs the queue branch on the state in which the
    frame has NOT been read (parser, buffer and transport as before the poll).  A request written
    in that branch goes through `startRequest`, whose discard loop drops every complete frame that
    is already buffered (`stale_frame_never_accepted`).  In both cases no reply-derived completion
    is logged (`no_reply_completion_unless_inflight`).  (Seen from the run: the state in which a
    reply-derived completion is caused always has that request in flight — never an idle
    session — which is part of `completion_caused_by_matching_frame`.) -/
theorem idle_frame_dropped_any_order {σ : Type} (F : Framing σ) (s s' t : State σ) (m : Nat)
    (f : Frame) (hr : pollReader F s m = (.frame f, s')) (h : tickIdle F s m = some t) :
    (core t = core s ∧ (t = s' ∨ t = { s' with coins := (flip s).2.coins }))
      ∨ (recvReady s = true ∧ (flip s).1 = false ∧ sessionRecv F (flip s).2 m = some t
          ∧ (flip s).2.pst = s.pst ∧ (flip s).2.rb = s.rb ∧ (flip s).2.mocks = s.mocks) := by
  have hc : core s' = core s := by have := core_pollReader F s m; rw [hr] at this; exact this
  unfold tickIdle at h
  simp only [hr] at h
  split at h
  · rename_i hq
    split at h
    · cases h
      left
      exact ⟨hc, Or.inr rfl⟩
    · rename_i hcoin
      right
      refine ⟨hq, by simpa using hcoin, h, ?_⟩
      unfold flip
      cases s.coins <;> exact ⟨rfl, rfl, rfl⟩
  · cases h
    left
    exact ⟨hc, Or.inl rfl⟩

/-! ### composition with C04: what the data of a completion is -/

theorem respResult_ok_iff (req : ClientReq) (pdu : Bytes) (v : RespVal) :
    respResult req pdu = .ok v ↔ handleResponse req pdu = .ok v := by
  unfold respResult
  split
  · rename_i v' hv; rw [hv]; simp
  · rename_i c hv; rw [hv]; simp
  · rename_i hv; rw [hv]; simp
  · rename_i hv; rw [hv]
    constructor
    · intro h; repeat' split at h
      all_goals cases h
    · intro h; cases h

theorem respResult_exc_iff (req : ClientReq) (pdu : Bytes) (c : Nat) :
    respResult req pdu = .exc c ↔ handleResponse req pdu = .error (.exception c) := by
  unfold respResult
  split
  · rename_i v' hv; rw [hv]; simp
  · rename_i c' hv; rw [hv]; simp
  · rename_i hv; rw [hv]; simp
  · rename_i hv; rw [hv]
    constructor
    · intro h; repeat' split at h
      all_goals cases h
    · intro h; cases h

/-- C04 for whole runs, success.  If a run logs `Ok(v)` for request id `rid`, then a frame `f`
    was delivered while `rid` (request `req`) was in flight, with a matching transaction id;
    `req` is a request that `encodeRequest` accepted (`runTrace_inflightEnc`), `handle_response`
    returned `Ok(v)` on the PDU of `f`, and that PDU is the well-formed reply to `req` carrying
    exactly `v`.  The two remaining hypotheses are typing facts of the Rust code: the fields of the
    request are `u16` values and the PDU is a string of bytes (`< 256`). -/
theorem ok_completion_is_wellformed_reply {σ : Type} (F : Framing σ) (cap maxTo : Nat)
    (d : Decode) (coins : List Bool) (steps : List Step) (rid : Rid) (style : Style)
    (v : RespVal) (time : Nat)
    (h : LogEntry.done rid style (.ok v) time
          ∈ (runState F (State.init F cap maxTo d coins) steps).log) :
    ∃ s0 ∈ runTrace F (State.init F cap maxTo d coins) steps,
    ∃ m req tx dl f s' bytes,
      s0.pos = .inflight m req tx dl ∧ req.rid = rid
        ∧ (rid, tx, bytes) ∈ (runState F (State.init F cap maxTo d coins) steps).sent
        ∧ pollReader F s0 m = (.frame f, s') ∧ txMatches f tx = true
        ∧ (∃ pdu, encodeRequest req.req = .ok pdu)
        ∧ handleResponse req.req f.pdu = .ok v
        ∧ (req.req.FieldsU16 → Bytes.WF f.pdu → Spec.Client.WellFormedReply req.req f.pdu v) := by
  obtain ⟨s0, hs0, m, req, tx, dl, f, s', bytes, h1, h2, _, _, h5, h6, h7, _, h9⟩ :=
    completion_caused_by_matching_frame F cap maxTo d coins steps rid style _ time rfl h
  have hok := (respResult_ok_iff req.req f.pdu v).mp h7.symm
  obtain ⟨pdu, henc⟩ := (runTrace_inflightEnc F cap maxTo d coins steps).2 s0 hs0 m req tx dl h1
  refine ⟨s0, hs0, m, req, tx, dl, f, s', bytes, h1, h2, h9, h5, h6, ⟨pdu, henc⟩, hok, ?_⟩
  intro hf hw
  have hv : Spec.Client.ClientValid req.req :=
    (ClientPdu.rejection_none_iff req.req hf).1 (ClientPdu.encode_ok_spec henc).1
  exact (C04.success_iff hv hw).mp hok

/-- C04 for whole runs, exception.  If a run logs `Exception(c)` for request id `rid`, then a frame
    with a matching transaction id was delivered while `rid` was in flight and its PDU is exactly
    the exception reply `[fc + 128, c]` to that request (no hypothesis). -/
theorem exc_completion_is_exception_reply {σ : Type} (F : Framing σ) (cap maxTo : Nat)
    (d : Decode) (coins : List Bool) (steps : List Step) (rid : Rid) (style : Style)
    (c : Nat) (time : Nat)
    (h : LogEntry.done rid style (.exc c) time
          ∈ (runState F (State.init F cap maxTo d coins) steps).log) :
    ∃ s0 ∈ runTrace F (State.init F cap maxTo d coins) steps,
    ∃ m req tx dl f s' bytes,
      s0.pos = .inflight m req tx dl ∧ req.rid = rid
        ∧ (rid, tx, bytes) ∈ (runState F (State.init F cap maxTo d coins) steps).sent
        ∧ pollReader F s0 m = (.frame f, s') ∧ txMatches f tx = true
        ∧ Spec.Client.ExceptionReply req.req f.pdu c := by
  obtain ⟨s0, hs0, m, req, tx, dl, f, s', bytes, h1, h2, _, _, h5, h6, h7, _, h9⟩ :=
    completion_caused_by_matching_frame F cap maxTo d coins steps rid style _ time rfl h
  have hex := (respResult_exc_iff req.req f.pdu c).mp h7.symm
  exact ⟨s0, hs0, m, req, tx, dl, f, s', bytes, h1, h2, h9, h5, h6,
    (C04.exception_iff_spec req.req f.pdu c).mp hex⟩

/-! ### non-vacuity -/

namespace Example

/-- what the trace of a run shows of each state in which the task was polled: where the task is,
    and what the reader of transport 0 would deliver there -/
def view (tr : List (State Mbap.PState)) : List (List Rid × ReadRes) :=
  tr.map fun s => (inflightIds s.pos, (pollReader mbap s 0).1)

def bits55 : RespVal :=
  .bits [(0, true), (1, false), (2, true), (3, false), (4, true), (5, false), (6, true), (7, false)]

/-- A stale frame with a different transaction id (9, payload FF) arrives while `a` is in flight
    with id 0, then the genuine reply (id 0, payload 55).  The hypothesis of
    `completion_caused_by_matching_frame` holds (`a` completes with `Ok`), the trace contains both
    deliveries while `a` is in flight, and the result is `handle_response` of the SECOND frame,
    not of the first. -/
def staleThenReply : List Step :=
  [.newSession, .submit .R 0 (rc "a" .future 1000),
   .rx (.data [0, 9, 0, 0, 0, 4, 1, 1, 1, 0xFF]),
   .rx (.data [0, 0, 0, 0, 0, 4, 1, 1, 1, 0x55])]

example :
    (runState mbap s16 staleThenReply).log
        = [.done "a" .future (.ok bits55) 0, .tx [0, 0, 0, 0, 0, 6, 1, 1, 0, 0, 0, 8]]
      ∧ (runState mbap s16 staleThenReply).sent = [("a", 0, [0, 0, 0, 0, 0, 6, 1, 1, 0, 0, 0, 8])]
      ∧ view (runTrace mbap s16 staleThenReply)
        = [([], .blocked),                                  -- the session starts
           ([], .blocked),                                  -- idle: `a` is taken and written
           (["a"], .frame ⟨some 9, 1, [1, 1, 0xFF]⟩),        -- the stale frame: skipped
           (["a"], .frame ⟨some 0, 1, [1, 1, 0x55]⟩)]        -- the reply: the cause
      ∧ txMatches ⟨some 9, 1, [1, 1, 0xFF]⟩ 0 = false
      ∧ txMatches ⟨some 0, 1, [1, 1, 0x55]⟩ 0 = true
      ∧ respResult (rc "a" .future 1000).req [1, 1, 0x55] = .ok bits55
      ∧ respResult (rc "a" .future 1000).req [1, 1, 0xFF] ≠ .ok bits55 := by decide +kernel

/-- an exception reply: `Exception(2)` is logged and the cause is the frame `81 02` with id 0 -/
example :
    let script := [Step.newSession, .submit .R 0 (rc "a" .future 1000),
      .rx (.data [0, 0, 0, 0, 0, 3, 1, 0x81, 2])]
    (runState mbap s16 script).log.head? = some (.done "a" .future (.exc 2) 0)
      ∧ (view (runTrace mbap s16 script)).getLast? = some (["a"], .frame ⟨some 0, 1, [0x81, 2]⟩) := by
  decide +kernel

example : Spec.Client.ExceptionReply (rc "a" .future 1000).req [0x81, 2] 2 := by
  unfold Spec.Client.ExceptionReply; decide

/-- the hypotheses of `ok_completion_is_wellformed_reply` hold in that run, and so does its
    conclusion -/
example :
    (rc "a" .future 1000).req.FieldsU16 ∧ Bytes.WF [1, 1, 0x55]
      ∧ encodeRequest (rc "a" .future 1000).req = .ok [1, 0, 0, 0, 8] := by decide

example : Spec.Client.WellFormedReply (rc "a" .future 1000).req [1, 1, 0x55] bits55 :=
  ⟨1, [0x55], by decide⟩

/-- A frame delivered while the session is idle and `recv` is ready at the same instant (the
    lock-step script never stops in such a state — the tasks run until they block — so it is set
    up directly: one transport with a complete frame pending, one request queued): with either
    polling order no completion is logged; when the queue is polled first the request is written
    and in flight, and the frame has not been read. -/
example :
    let s0 := runState mbap s16 [.newSession]
    let s1 : State Mbap.PState :=
      { pushRx s0 (.data [0, 0, 0, 0, 0, 4, 1, 1, 1, 0x55]) with
        queue := [.req (rc "a" .future 1000)] }
    recvReady s1 = true
      ∧ (pollReader mbap s1 0).1 = .frame ⟨some 0, 1, [1, 1, 0x55]⟩
      ∧ ((tickIdle mbap { s1 with coins := [true] } 0).map (doneIds ·.log)) = some []
      ∧ ((tickIdle mbap { s1 with coins := [true] } 0).map (inflightIds ·.pos)) = some []
      ∧ ((tickIdle mbap { s1 with coins := [false] } 0).map (doneIds ·.log)) = some []
      ∧ ((tickIdle mbap { s1 with coins := [false] } 0).map (inflightIds ·.pos)) = some ["a"]
      ∧ ((tickIdle mbap { s1 with coins := [false] } 0).map (getMock · 0)) = some (getMock s1 0) := by
  decide +kernel

/-- RTU frames carry no transaction id: every frame delivered while a request is in flight
    matches (`txMatches … = true`), and the cause of the completion is that frame -/
example :
    let script := [Step.newSession, .submit .R 0 (rc "a" .future 1000),
      .rx (.data [1, 1, 1, 0x55, 0x91, 0xB7])]
    let init := State.init rtu 16 0 ⟨0, 0, 0⟩ []
    (runState rtu init script).log.head? = some (.done "a" .future (.ok bits55) 0)
      ∧ ((runTrace rtu init script).map fun s => (inflightIds s.pos, (pollReader rtu s 0).1)).getLast?
          = some (["a"], .frame ⟨none, 1, [1, 1, 0x55]⟩) := by
  decide +kernel

end Example

end Rodbus.Client
