import RodbusModel.Model.Basic
/-
  M5: `ReadBuffer` (common/buffer.rs) and the `FramedReader::next_frame` loop (common/frame.rs),
  generic in the frame parser.
-/
namespace Rodbus

/-- capacity of `ReadBuffer` = `common::frame::constants::MAX_FRAME_LENGTH`
    (= max (7 + 253) (1 + 253 + 2); the constant itself is checked against the generated
    table in `Props/C05`) -/
def CAP : Nat := 260

/-- `ReadBuffer`: consumed offset `begin` and the unconsumed bytes (`end = begin + data.length`) -/
structure RB where
  begin : Nat
  data : Bytes
deriving DecidableEq, Repr

def RB.empty : RB := ⟨0, []⟩

/-- `ReadBuffer::len` -/
def RB.len (rb : RB) : Nat := rb.data.length

/-- the effect of a successful `ReadBuffer::read(n)` / `read_u8` … on the indices -/
def RB.consume (rb : RB) (n : Nat) : RB := ⟨rb.begin + n, rb.data.drop n⟩

/-- the index adjustments at the top of `ReadBuffer::read_some`
    (reset when empty, compact when `end == capacity`) -/
def RB.normalize (rb : RB) : RB :=
  let rb1 : RB := if rb.data = [] then ⟨0, []⟩ else rb
  if rb1.begin + rb1.data.length = CAP then ⟨0, rb1.data⟩ else rb1

/-- `ReadBuffer::read_some`; `incoming` is what the transport has available (non-empty).
    `none` = `io.read` was handed an empty slice, returned 0 and the function reported
    `UnexpectedEof` although the peer did not close (proved unreachable in Props/C05). -/
def readSome (rb : RB) (incoming : Bytes) : Option (RB × Bytes) :=
  let rb2 := rb.normalize
  let space := CAP - (rb2.begin + rb2.data.length)
  if space = 0 then none
  else
    let n := min space incoming.length
    some (⟨rb2.begin, rb2.data ++ incoming.take n⟩, incoming.drop n)

/-- a parsed frame: `FrameHeader` (tx id only on MBAP, destination byte) and the PDU -/
structure Frame where
  tx : Option Nat
  dest : Nat
  pdu : Bytes
deriving DecidableEq, Repr

/-- framing errors (`FrameParseError`) plus the two internal conditions of the reader -/
inductive FrameErr
  | unknownProtocolId (p : Nat)
  | frameLengthTooBig (n max : Nat)
  | mbapLengthZero
  | unknownFunctionCode (b : Nat)
  | crcValidationFailure (received expected : Nat)
  /-- an `InternalError::InsufficientBytesForRead` would be returned -/
  | internalShortRead
  /-- `read_some` reported `UnexpectedEof` because the buffer had no free space -/
  | spuriousEof
deriving DecidableEq, Repr

inductive PResult
  | none
  | frame (f : Frame)
  | err (e : FrameErr)
deriving DecidableEq, Repr

inductive Event
  | frame (f : Frame)
  | err (e : FrameErr)
deriving DecidableEq, Repr

/-- a frame parser: `FrameParser::parse` as a pure step function -/
abbrev ParseFn (σ : Type) := σ → RB → PResult × σ × RB

/-- `FramedReader::next_frame` iterated over one delivery `pend` of the transport:
    parse; on `Ok(None)` call `read_some` if the delivery has bytes left, otherwise block.
    Returns the events and, unless the session ended with an error, the state in which the
    reader blocks. -/
def pump {σ : Type} (parse : ParseFn σ) : Nat → σ → RB → Bytes → List Event × Option (σ × RB)
  | 0, st, rb, _ => ([], some (st, rb))
  | fuel+1, st, rb, pend =>
    match parse st rb with
    | (.frame f, st', rb') =>
      let (es, r) := pump parse fuel st' rb' pend
      (.frame f :: es, r)
    | (.err e, _, _) => ([.err e], Option.none)
    | (.none, st', rb') =>
      if pend = [] then ([], some (st', rb'))
      else match readSome rb' pend with
        | Option.none => ([.err .spuriousEof], Option.none)
        | some (rb'', pend') => pump parse fuel st' rb'' pend'

/-- enough fuel for one delivery: every iteration either consumes buffered input, reads from the
    delivery or changes the parser state towards a frame -/
def fuelFor (rb : RB) (pend : Bytes) : Nat := 3 * (rb.data.length + pend.length) + 3

/-- the reader over a whole list of deliveries (chunks) -/
def runChunks {σ : Type} (parse : ParseFn σ) : σ → RB → List Bytes → List Event
  | _, _, [] => []
  | st, rb, c :: cs =>
    match pump parse (fuelFor rb c) st rb c with
    | (es, Option.none) => es
    | (es, some (st', rb')) => es ++ runChunks parse st' rb' cs

/-- the reader over deliveries in which `none` marks a CANCELLED read: the `select!` of
    `SessionTask::run_one` (or of the client's `poll`) dropped the future of `next_frame` while
    `read_some` was awaiting the transport, i.e. after the index adjustments (reset / compaction)
    and before any byte was stored.  What survives the drop is `rb.normalize` and the parser
    state; the next `next_frame` starts from there. -/
def runChunksC {σ : Type} (parse : ParseFn σ) : σ → RB → List (Option Bytes) → List Event
  | _, _, [] => []
  | st, rb, none :: ds => runChunksC parse st rb.normalize ds
  | st, rb, some c :: ds =>
    match pump parse (fuelFor rb c) st rb c with
    | (es, Option.none) => es
    | (es, some (st', rb')) => es ++ runChunksC parse st' rb' ds

end Rodbus
