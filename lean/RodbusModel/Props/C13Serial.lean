import RodbusModel.Props.C14Serial
/-
  C13 for the serial client channel task (`SerialChannelTask::run`, Model/SerialLife.lean): the
  `PortState` listener always observes a legal path.  For EVERY script of environment events
  (path appears / disappears, port lost, enable, disable, shutdown, every handle dropped):

  * `legal_port_path`: `Disabled` first, every adjacent pair of announcements is in
    `Spec.SerialLife.legalNext` (Open only after Disabled / Wait; Wait only after Disabled / Wait /
    Open; Disabled only after Wait / Open; nothing after Shutdown), `Shutdown` exactly once, last;
  * `attempt_only_enabled`: `Open` and `Wait` are announced only while the channel is enabled;
  * `wait_causes`: a `Wait` is announced only after a failed open (delay from
    `after_failed_connect`) or the loss of an open port (delay from `after_disconnect`);
  * `open_causes`: `Open` is announced only when an open attempt found the path present;
  * `disabled_causes`: after the first, `Disabled` is announced only in answer to a disable command
    that reached an enabled channel, and the port is closed then.
-/
namespace Rodbus.C13Serial
open Rodbus.Retry Rodbus.SerialLife
open Rodbus.Spec.SerialLife (legalNext chain legalPath legalLog)
open Rodbus.C14Serial (EnInv init_enInv step_enInv reachable_enInv)

/-- the last element of `a :: l` -/
def lastOr : PortState → List PortState → PortState
  | a, [] => a
  | _, b :: rest => lastOr b rest

theorem chain_append (a : PortState) (l₁ l₂ : List PortState) :
    chain a (l₁ ++ l₂) = (chain a l₁ && chain (lastOr a l₁) l₂) := by
  induction l₁ generalizing a with
  | nil => simp [chain, lastOr]
  | cons b l ih => simp [chain, lastOr, ih, Bool.and_assoc]

theorem lastOr_append (a : PortState) (l₁ l₂ : List PortState) :
    lastOr a (l₁ ++ l₂) = lastOr (lastOr a l₁) l₂ := by
  induction l₁ generalizing a with
  | nil => rfl
  | cons b l ih => simp [lastOr, ih]

/-- the last announcement tells where the task is blocked -/
def Agrees : Phase → PortState → Prop
  | .idle, .disabled => True
  | .waiting, .wait _ => True
  | .session, .open_ => True
  | .finished, .shutdown => True
  | _, _ => False

/-- one event: what is announced may follow the last announcement, and the new last
    announcement tells where the task is now -/
theorem step_legal (s : S) (e : Ev) (a : PortState) (hi : EnInv s) (ha : Agrees s.phase a) :
    chain a (step s e).2 = true ∧ Agrees (step s e).1.phase (lastOr a (step s e).2) := by
  rcases s with ⟨en, r, pr, ph⟩
  cases en
  · -- disabled: idle or finished
    rcases hi rfl with h | h <;> simp only at h <;> subst h <;>
      cases a <;> simp only [Agrees] at ha <;>
      cases e <;> cases pr <;>
      simp [step, loopTop, tryOpen, finish, chain, legalNext, lastOr, Agrees]
  · cases ph <;> cases a <;> simp only [Agrees] at ha <;>
      cases e <;> cases pr <;>
      simp [step, loopTop, tryOpen, finish, disabledNow, chain, legalNext, lastOr, Agrees]

theorem outputs_legal (es : List Ev) : ∀ (s : S) (a : PortState), EnInv s → Agrees s.phase a →
    chain a (outputs s es) = true := by
  induction es with
  | nil => intros; rfl
  | cons e es ih =>
    intro s a hi ha
    obtain ⟨h1, h2⟩ := step_legal s e a hi ha
    simp only [outputs, chain_append, h1, Bool.true_and]
    exact ih _ _ (step_enInv s e hi) h2

/-- **legal_port_path**: for every `(min, max)` and EVERY script the announced `PortState`
    sequence satisfies the specification automaton `Spec.SerialLife.legalLog`: `Disabled` first,
    every adjacent pair in `legalNext`, `Shutdown` exactly once and last. -/
theorem legal_port_path (mn mx : Nat) (script : List Ev) :
    legalLog (SerialLife.run mn mx script) = true := by
  obtain ⟨l, hl, hnot⟩ := C14Serial.shutdown_final mn mx script
  have hpath : legalPath (SerialLife.run mn mx script) = true := by
    unfold SerialLife.run
    exact outputs_legal _ _ _ (init_enInv mn mx) (by simp [init, Agrees])
  have h0 : l.count PortState.shutdown = 0 := List.count_eq_zero.mpr hnot
  have hlast : (PortState.disabled :: (l ++ [PortState.shutdown])).getLast? = some .shutdown := by
    rw [show PortState.disabled :: (l ++ [PortState.shutdown]) =
      (PortState.disabled :: l) ++ [PortState.shutdown] from rfl]
    exact List.getLast?_concat
  unfold legalLog
  rw [hpath]
  rw [hl]
  simp [h0, hlast]

/-- `legal_port_path` without the Boolean packaging -/
theorem legal_port_path_spelled_out (mn mx : Nat) (script : List Ev) :
    (SerialLife.run mn mx script).head? = some .disabled ∧
    (∀ pre a b post, SerialLife.run mn mx script = pre ++ a :: b :: post → legalNext a b = true) ∧
    (∃ l, SerialLife.run mn mx script = l ++ [.shutdown] ∧ PortState.shutdown ∉ l) := by
  refine ⟨rfl, ?_, ?_⟩
  · intro pre a b post h
    have hpath : legalPath (SerialLife.run mn mx script) = true := by
      unfold SerialLife.run
      exact outputs_legal _ _ _ (init_enInv mn mx) (by simp [init, Agrees])
    rw [h] at hpath
    cases pre with
    | nil => simp [legalPath, chain] at hpath; exact hpath.1
    | cons c pre =>
      simp only [List.cons_append, legalPath, chain_append, Bool.and_eq_true] at hpath
      have := hpath.2
      simp only [chain, Bool.and_eq_true] at this
      -- `chain (lastOr c pre) (a :: b :: post)` = legalNext _ a && legalNext a b && …
      exact this.2.1
  · obtain ⟨l, hl, hnot⟩ := C14Serial.shutdown_final mn mx script
    refine ⟨.disabled :: l, by simp [hl], ?_⟩
    simp [hnot]

/-- what `legalNext` says, clause by clause -/
theorem open_only_after_disabled_or_wait (a : PortState) (h : legalNext a .open_ = true) :
    a = .disabled ∨ ∃ d, a = .wait d := by
  cases a <;> simp_all [legalNext]

theorem wait_only_after_disabled_wait_open (a : PortState) (d : Nat)
    (h : legalNext a (.wait d) = true) : a = .disabled ∨ (∃ d', a = .wait d') ∨ a = .open_ := by
  cases a <;> simp_all [legalNext]

theorem disabled_only_after_wait_or_open (a : PortState) (h : legalNext a .disabled = true) :
    (∃ d, a = .wait d) ∨ a = .open_ := by
  cases a <;> simp_all [legalNext]

theorem nothing_after_shutdown (b : PortState) : legalNext .shutdown b = false := by
  cases b <;> rfl

/-! ### why something is announced -/

/-- **attempt_only_enabled**: `Open` and `Wait` are announced only while the channel is enabled
    (every reachable state satisfies `EnInv`: `C14Serial.reachable_enInv`) -/
theorem attempt_only_enabled (s : S) (e : Ev) (hi : EnInv s) (p : PortState)
    (hp : p ∈ (step s e).2) (hk : p = .open_ ∨ ∃ d, p = .wait d) :
    (step s e).1.enabled = true := by
  rcases s with ⟨en, r, pr, ph⟩
  cases en
  · rcases hi rfl with h | h <;> simp only at h <;> subst h <;>
      cases e <;> cases pr <;>
      simp_all [step, loopTop, tryOpen, finish]
  · cases ph <;> cases e <;> cases pr <;>
      simp_all [step, loopTop, tryOpen, finish, disabledNow]

theorem attempt_only_enabled_run (mn mx : Nat) (pre : List Ev) (e : Ev) (p : PortState)
    (hp : p ∈ (step (after (init mn mx) pre) e).2) (hk : p = .open_ ∨ ∃ d, p = .wait d) :
    (after (init mn mx) (pre ++ [e])).enabled = true := by
  have : after (init mn mx) (pre ++ [e]) = (step (after (init mn mx) pre) e).1 := by
    simp [after, List.foldl_append]
  rw [this]
  exact attempt_only_enabled _ e (reachable_enInv mn mx pre) p hp hk

/-- **wait_causes**: a `Wait(d)` is announced only (a) after an open attempt that failed - the
    path is absent, the port was not open, `d` is what `after_failed_connect` returned - or (b)
    when an open port is lost - `d` is what `after_disconnect` returned, the minimum -/
theorem wait_causes (s : S) (e : Ev) (d : Nat) (h : PortState.wait d ∈ (step s e).2) :
    (s.phase ≠ .session ∧ (step s e).1.present = false ∧ d = (afterFailedConnect s.retry).1 ∧
      (step s e).1.phase = .waiting) ∨
    (s.phase = .session ∧ e = .lost ∧ d = afterDisconnect s.retry ∧
      (step s e).1.phase = .waiting) := by
  rcases s with ⟨en, r, pr, ph⟩
  cases ph <;> cases e <;> cases en <;> cases pr <;>
    simp_all [step, loopTop, tryOpen, finish, disabledNow]

/-- **open_causes**: `Open` is announced only when an open attempt (the user enabled a disabled
    channel, or a wait elapsed) found the path present; the port is open then -/
theorem open_causes (s : S) (e : Ev) (h : PortState.open_ ∈ (step s e).2) :
    s.phase ≠ .session ∧ (step s e).1.present = true ∧ (step s e).1.phase = .session ∧
      (e = .enable ∨ e = .absent ∨ e = .present) := by
  rcases s with ⟨en, r, pr, ph⟩
  cases ph <;> cases e <;> cases en <;> cases pr <;>
    simp_all [step, loopTop, tryOpen, finish, disabledNow]

/-- **disabled_causes**: `Disabled` is announced by an event only in answer to a disable command
    that reached a waiting channel or an open port; the channel is disabled and the port closed
    afterwards, and no attempt is made -/
theorem disabled_causes (s : S) (e : Ev) (h : PortState.disabled ∈ (step s e).2) :
    e = .disable ∧ (s.phase = .waiting ∨ s.phase = .session) ∧
      (step s e).2 = [.disabled] ∧ (step s e).1.phase = .idle ∧
      (step s e).1.enabled = false ∧ (step s e).1.portOpen = false := by
  rcases s with ⟨en, r, pr, ph⟩
  cases ph <;> cases e <;> cases en <;> cases pr <;>
    simp_all [step, loopTop, tryOpen, finish, disabledNow, S.portOpen]

/-- **lost_port_announced**: the loss of an open port is always announced, with the minimum -/
theorem lost_port_announced (s : S) (h : s.phase = .session) :
    (step s .lost).2 = [.wait s.retry.min] ∧ (step s .lost).1.phase = .waiting := by
  rcases s with ⟨en, r, pr, ph⟩
  simp only at h; subst h
  simp [step, afterDisconnect]

/-! ### non-vacuity -/

example : legalLog [.disabled, .wait 40, .wait 80, .open_, .disabled, .wait 40, .shutdown] = true := by
  decide
example : legalLog [.disabled, .open_, .open_, .shutdown] = false := by decide
example : legalLog [.disabled, .disabled, .shutdown] = false := by decide
example : legalLog [.open_, .shutdown] = false := by decide
example : legalLog [.disabled, .shutdown, .shutdown] = false := by decide
example : legalLog [.disabled, .wait 40] = false := by decide
example : legalLog [.disabled, .shutdown, .open_] = false := by decide

end Rodbus.C13Serial
