import Driver.Points
import Driver.Misc
import Driver.Server
import Driver.Life
import Driver.Net
import Driver.Tls
import Driver.Client
import Driver.Main
